"""Program terms of specs/ProgGen.tla -> Python source; execution under CPython with recording
of module-level values, instance attributes and module-level call results as value terms."""
import sys
import types

LIT = {"int": "1", "str": '"s"', "float": "1.5", "bool": "True", "none": "None",
       "zero": "0", "empty": '""'}     # zero / empty: second family only (keys, patterns)
SPLIT = {"empty": '"".split()', "one": '"s".split()', "two": '"s s".split()'}
SLICE = {"tail": "[1:]", "head": "[:1]"}
# statement kinds of the second family (ProgGen.tla, switches Mutation / Match)
MUT_STMTS = ("setitem", "delitem", "setattr", "augadd", "mcall", "expr")
NEW_STMTS = MUT_STMTS + ("mdef", "match", "matchdef")


def expr(e):
  k = e[0]
  if k == "lit":
    return LIT[e[1]]
  if k == "name":
    return e[1]
  if k == "list":
    return "[%s]" % ", ".join(expr(x) for x in e[1])
  if k == "tuple":
    xs = [expr(x) for x in e[1]]
    return "(%s,)" % xs[0] if len(xs) == 1 else "(%s)" % ", ".join(xs)
  if k == "set":
    return "{%s}" % ", ".join(expr(x) for x in e[1])
  if k == "dict":
    return "{%s: %s}" % (expr(e[1]), expr(e[2]))
  if k == "add":
    return "(%s + %s)" % (expr(e[1]), expr(e[2]))
  if k == "cond":
    return "(%s if %s else %s)" % (expr(e[2]), expr(e[1]), expr(e[3]))
  if k == "or":
    return "(%s or %s)" % (expr(e[1]), expr(e[2]))
  if k == "and":
    return "(%s and %s)" % (expr(e[1]), expr(e[2]))
  if k == "not":
    return "(not %s)" % expr(e[1])
  if k == "cmp":
    return "(%s == %s)" % (expr(e[1]), expr(e[2]))
  if k == "isnone":
    return "(%s is None)" % expr(e[1])
  if k == "isinst":
    return "isinstance(%s, %s)" % (expr(e[1]), e[2])
  if k == "sub":
    return "%s[0]" % expr(e[1])
  if k == "bcall":
    return "%s(%s)" % (e[1], expr(e[2]))
  if k == "attr":
    return "%s.%s" % (expr(e[1]), e[2])
  if k == "meth":
    return "%s.%s()" % (expr(e[1]), e[2])
  if k == "call":
    return "%s(%s)" % (e[1], ", ".join(expr(x) for x in e[2]))
  if k == "lambda":
    return "(lambda p1: %s)" % expr(e[1])
  if k == "lcomp":
    return "[%s for v in %s]" % (expr(e[1]), expr(e[2]))
  if k == "split":
    return SPLIT[e[1]]
  if k == "dict0":
    return "{}"
  if k == "mx":
    recv = "(%s)" % expr(e[1]) if e[1][0] == "lit" else expr(e[1])
    return "%s.%s(%s)" % (recv, e[2], ", ".join(expr(x) for x in e[3]))
  if k == "slice":
    return "%s%s" % (expr(e[1]), SLICE[e[2]])
  raise ValueError(e)


def pat(p):
  """Pattern term -> source."""
  k = p[0]
  if k == "pval":
    return LIT[p[1]]
  if k == "pwild":
    return "_"
  if k == "pcap":
    return p[1]
  if k == "pseq":
    xs = [pat(x) for x in p[2]]
    if p[1] == "l":
      return "[%s]" % ", ".join(xs)
    return "(%s,)" % xs[0] if len(xs) == 1 else "(%s)" % ", ".join(xs)
  if k == "pstar":
    return "[%s]" % ", ".join([pat(x) for x in p[1]] + ["*" + p[2]] + [pat(x) for x in p[3]])
  if k == "pmap":
    xs = ["%s: %s" % (expr(kk), pat(v)) for kk, v in p[1]]
    if p[2]:
      xs.append("**" + p[2])
    return "{%s}" % ", ".join(xs)
  if k == "pcls":
    xs = [pat(x) for x in p[2]] + ["%s=%s" % (a, pat(v)) for a, v in p[3]]
    return "%s(%s)" % (p[1], ", ".join(xs))
  if k == "por":
    return "%s | %s" % (pat(p[1]), pat(p[2]))
  if k == "pas":
    inner = pat(p[1])
    return "%s as %s" % ("(%s)" % inner if p[1][0] == "por" else inner, p[2])
  raise ValueError(p)


def _params(n, star):
  return ", ".join(["p%d" % (i + 1) for i in range(n)] + (["*ps"] if star else []))


def _cases(cases, ind, body):
  out = []
  for p, g, e in cases:
    out.append("%scase %s%s:" % (ind, pat(p), "" if g[0] == "noguard" else " if %s" % expr(g)))
    out.append("%s  %s" % (ind, body % expr(e)))
  return out


def simple_stmt(s):
  """The one-line statements of the second family (module level and function bodies)."""
  k = s[0]
  if k == "setitem":
    return "%s[%s] = %s" % (expr(s[1]), expr(s[2]), expr(s[3]))
  if k == "delitem":
    return "del %s[%s]" % (expr(s[1]), expr(s[2]))
  if k == "setattr":
    return "%s.%s = %s" % (expr(s[1]), s[2], expr(s[3]))
  if k == "augadd":
    return "%s += %s" % (expr(s[1]), expr(s[2]))
  if k == "mcall":
    return "%s.%s(%s)" % (expr(s[1]), s[2], ", ".join(expr(x) for x in s[3]))
  if k == "expr":
    return expr(s[1])
  raise ValueError(s)


def stmt(s):
  k = s[0]
  if k == "assign":
    return "%s = %s\n" % (s[1], expr(s[2]))
  if k == "if":
    return "if %s:\n  %s = %s\nelse:\n  %s = %s\n" % (expr(s[1]), s[2], expr(s[3]), s[2], expr(s[4]))
  if k == "ifonly":
    return "if %s:\n  %s = %s\n" % (expr(s[1]), s[2], expr(s[3]))
  if k == "try":
    return "try:\n  %s = %s\nexcept Exception:\n  %s = %s\n" % (s[1], expr(s[2]), s[1], expr(s[3]))
  if k == "def":
    ps = ", ".join("p%d" % (i + 1) for i in range(s[2]))
    return "def %s(%s):\n  if %s:\n    return %s\n  return %s\n" % (
        s[1], ps, expr(s[3]), expr(s[4]), expr(s[5]))
  if k == "class":
    _, c, bases, cattrs, n, iattrs, meths = s
    out = ["class %s%s:" % (c, "(%s)" % ", ".join(bases) if bases else "")]
    for a, e in cattrs:
      out.append("  %s = %s" % (a, expr(e)))
    if n or iattrs:
      out.append("  def __init__(self%s):" % (", p1" if n else ""))
      if not iattrs:
        out.append("    pass")
      for a, e in iattrs:
        out.append("    self.%s = %s" % (a, expr(e)))
    for m, e in meths:
      out.append("  def %s(self):" % m)
      out.append("    return %s" % expr(e))
    if len(out) == 1:
      out.append("  pass")
    return "\n".join(out) + "\n"
  if k in MUT_STMTS:
    return simple_stmt(s) + "\n"
  if k == "mdef":
    _, f, n, star, body, t, e1, e2 = s
    out = ["def %s(%s):" % (f, _params(n, star))]
    out += ["  " + simple_stmt(m) for m in body]
    out += ["  if %s:" % expr(t), "    return %s" % expr(e1), "  return %s" % expr(e2)]
    return "\n".join(out) + "\n"
  if k == "match":
    _, x, subj, cases = s
    return "\n".join(["match %s:" % expr(subj)] + _cases(cases, "  ", x + " = %s")) + "\n"
  if k == "matchdef":
    _, f, n, star, subj, cases, e = s
    out = ["def %s(%s):" % (f, _params(n, star)), "  match %s:" % expr(subj)]
    out += _cases(cases, "    ", "return %s")
    out.append("  return %s" % expr(e))
    return "\n".join(out) + "\n"
  raise ValueError(s)


def match_lines(s, start):
  """Line of the match header and of every case body of statement term s starting at line `start`."""
  if s[0] == "match":
    return start, [start + 2 + 2 * j for j in range(len(s[3]))]
  if s[0] == "matchdef":
    return start + 1, [start + 3 + 2 * j for j in range(len(s[5]))]
  return None


def kinds(prog):
  """Multiset of statement and expression kinds in a program term (coverage accounting)."""
  out = {}

  def walk(t):
    if isinstance(t, list) and t and isinstance(t[0], str) and t[0] in (
        "lit", "name", "list", "tuple", "set", "dict", "add", "cond", "or", "and", "not", "cmp",
        "isnone", "isinst", "sub", "bcall", "attr", "meth", "call", "lambda", "lcomp", "assign",
        "if", "ifonly", "try", "def", "class",
        "split", "dict0", "mx", "slice", "setitem", "delitem", "setattr", "augadd", "mcall", "expr",
        "mdef", "match", "matchdef", "pval", "pwild", "pcap", "pseq", "pstar", "pmap", "pcls", "por",
        "pas"):
      out[t[0]] = out.get(t[0], 0) + 1
    if isinstance(t, list):
      for x in t:
        walk(x)
  walk(prog)
  return out


# ---------------------------------------------------------------- execution under CPython

class _Recorder:
  """Records values really returned (sys.monitoring PY_RETURN: not fired when a call is left by
  an exception) by calls made from module level."""
  TOOL = 4

  def __init__(self, snapshot=None, lines=False):
    self.calls = []     # (code object, returned value)
    self.sites = []     # parallel to calls: line number (module frame) of the calling statement
    # second family (objects are mutated after they were returned): snapshot(value) -> value term is
    # taken AT RETURN TIME; self.snaps is parallel to calls
    self.snapshot = snapshot
    self.snaps = []
    self.want_lines = lines
    self.lines = {}     # line number -> how often a line of <prog> started executing

  def on_return(self, code, offset, retval):
    if code.co_filename != "<prog>":
      return
    f = sys._getframe(1)  # pylint: disable=protected-access
    if f.f_back is not None and f.f_back.f_code.co_name == "<module>":
      self.calls.append((code, retval))
      self.sites.append(f.f_back.f_lineno)
      if self.snapshot is not None:
        self.snaps.append(self.snapshot(retval))

  def on_line(self, code, line):
    if code.co_filename == "<prog>":
      self.lines[line] = self.lines.get(line, 0) + 1

  def start(self):
    m = sys.monitoring
    m.use_tool_id(self.TOOL, "verif-c01")
    m.register_callback(self.TOOL, m.events.PY_RETURN, self.on_return)
    ev = m.events.PY_RETURN
    if self.want_lines:
      m.register_callback(self.TOOL, m.events.LINE, self.on_line)
      ev |= m.events.LINE
    m.set_events(self.TOOL, ev)

  def stop(self):
    m = sys.monitoring
    m.set_events(self.TOOL, 0)
    m.register_callback(self.TOOL, m.events.PY_RETURN, None)
    if self.want_lines:
      m.register_callback(self.TOOL, m.events.LINE, None)
    m.free_tool_id(self.TOOL)


MAX_DEPTH = 12


def _encode(obj, H, depth=0, stack=None):
  """Run-time value -> value term; records class MROs in H.

  A PEP 585 alias object (`list[int]`, also the degenerate `set[0]`: an instance of
  types.GenericAlias) is recorded as the CLASS OBJECT OF ITS ORIGIN: the alias is a transparent proxy
  of that class (calling it constructs an instance of the origin, attribute access is forwarded to
  the origin) and PEP 484/585 define it to denote the class in the type language, which is how
  pytype (and every PEP 484 checker) models it: `x = list[int]` is `x: type[list[int]]`.
  A value nested deeper than MAX_DEPTH is cut off with the marker "$deep", which every type admits
  in the soundness reading (PytdTypes.tla); the fixed C01 corpus has no value deeper than 7.
  stack (second family, where `x.append(x)` can build cyclic values): ids of the containers being
  encoded; a container met again inside itself has no finite value term and is cut off with the same
  marker at the back edge."""
  if isinstance(obj, types.GenericAlias) and isinstance(obj.__origin__, type):
    obj = obj.__origin__
  if isinstance(obj, type):
    H.setdefault(obj.__name__, [c.__name__ for c in obj.__mro__])
    return ["$class", [[obj.__name__, []]]]
  if isinstance(obj, (types.FunctionType, types.BuiltinFunctionType, types.MethodType)):
    return ["$fn", []]
  cls = type(obj)
  name = cls.__name__
  H.setdefault(name, [c.__name__ for c in cls.__mro__])
  if depth > MAX_DEPTH:
    return ["$deep", []]
  if stack is not None and cls in (list, tuple, set, frozenset, dict):
    if id(obj) in stack:
      return ["$deep", []]
    stack = stack | {id(obj)}
  if cls in (list, tuple):
    return [name, [_encode(x, H, depth + 1, stack) for x in obj]]
  if cls in (set, frozenset):
    return [name, sorted((_encode(x, H, depth + 1, stack) for x in obj), key=repr)]
  if cls is dict:
    return [name, sorted(([_encode(k, H, depth + 1, stack), _encode(x, H, depth + 1, stack)]
                          for k, x in obj.items()), key=repr)]
  return [name, []]


def _filter_strict(srcs):
  """Second family: a statement that raises may already have mutated something, so the state after a
  dropped statement is not the state of the filtered program.  Statement k is kept iff the program
  made of the statements kept so far plus k runs to completion FROM SCRATCH."""
  kept = []
  for k, src in enumerate(srcs):
    try:
      code = compile("".join(srcs[j] for j in kept) + src, "<prog>", "exec")
    except SyntaxError:
      continue
    try:
      exec(code, {"__name__": "prog"})  # pylint: disable=exec-used
      kept.append(k)
    except RecursionError:
      return None
    except Exception:  # pylint: disable=broad-except
      continue
  return kept


def run_program(prog, strict=False):
  """Filter the statements that execute without raising (in order), re-execute the filtered
  program from scratch with recording.  Returns dict(src, stmts, names, attrs, rets, H) or None.
  strict (second family: programs that mutate objects): prefix re-execution filter, call results are
  turned into value terms at return time, cyclic values are cut off, executed lines are recorded
  (-> match_hits: per match statement [statement index, executions, [hits per case]])."""
  srcs = [stmt(s) for s in prog]
  ns = {"__name__": "prog"}
  kept = []
  old = sys.getrecursionlimit()
  if strict:
    kept = _filter_strict(srcs)
    if kept is None:
      return None
    srcs_iter = []
  else:
    srcs_iter = enumerate(srcs)
  for k, src in srcs_iter:
    try:
      exec(compile(src, "<prog>", "exec"), ns)  # pylint: disable=exec-used
      kept.append(k)
    except RecursionError:
      return None
    except Exception:  # pylint: disable=broad-except
      continue
  if not kept:
    return None
  final_src = "".join(srcs[k] for k in kept)
  ns = {"__name__": "prog"}
  H = {}
  rec = _Recorder(snapshot=(lambda v: _encode(v, H, 0, frozenset())), lines=True) if strict else _Recorder()
  rec.start()
  try:
    exec(compile(final_src, "<prog>", "exec"), ns)  # pylint: disable=exec-used
  except BaseException:  # pylint: disable=broad-except
    return None
  finally:
    rec.stop()
    sys.setrecursionlimit(old)
  if not strict:
    H = {}
  stack = frozenset() if strict else None
  names = {}
  attrs = []
  user = {v for v in ns.values() if isinstance(v, type) and v.__module__ == "prog"}
  for n, v in ns.items():
    if n.startswith("__"):
      continue
    names[n] = _encode(v, H, 0, stack)
    if type(v) in user:
      for a, av in sorted(vars(v).items()):
        attrs.append([type(v).__name__, a, _encode(av, H, 0, stack)])
  # call results: map code objects to (unique) module-level definitions
  code_name = {}
  defined = {}
  for s in [prog[k] for k in kept]:
    if s[0] in ("def", "class", "mdef", "matchdef") or (s[0] == "assign" and s[2][0] == "lambda"):
      defined[s[1]] = defined.get(s[1], 0) + 1
  for n, v in ns.items():
    if isinstance(v, types.FunctionType) and defined.get(n) == 1 and v.__code__.co_name in (n, "<lambda>"):
      code_name[v.__code__] = n
    if isinstance(v, type) and v in user and defined.get(n) == 1:
      for mn, mv in vars(v).items():
        if isinstance(mv, types.FunctionType) and mn != "__init__":
          code_name[mv.__code__] = "%s.%s" % (n, mn)
  rets = []
  ret_sites = []      # parallel to rets: index (0-based, in stmts) of the statement making the call
  starts, line = [], 1
  for k in kept:
    starts.append(line)
    line += srcs[k].count("\n")
  for j, ((code, val), site) in enumerate(zip(rec.calls, rec.sites)):
    if code in code_name:
      rets.append([code_name[code], rec.snaps[j] if strict else _encode(val, H)])
      ret_sites.append(max(i for i, st in enumerate(starts) if st <= site))
  out = {"src": final_src, "stmts": [prog[k] for k in kept], "names": names, "attrs": attrs,
         "rets": rets, "ret_sites": ret_sites, "H": H}
  if strict:
    hits = []
    for i, k in enumerate(kept):
      ml = match_lines(prog[k], starts[i])
      if ml:
        hits.append([i, rec.lines.get(ml[0], 0), [rec.lines.get(b, 0) for b in ml[1]]])
    out["match_hits"] = hits
  return out

"""Wrapped stub pipeline for C05 / C12: executes the steps of specs/StubRoundTrip.tla on the real
code and records, per step, only what the properties compare: digests of texts / bytes /
structural dumps and a few equality bits.  The verdict is computed by TLC (TraceC05/TraceC12).

Every function here is a top-level function so that it can be mapped over worker processes
(pyt.batch); workers boot pytype themselves.

Event record (uniform, JSON): {"op": str, "ok": bool, "d": str, "e": bool, "x": str}
  d = digest produced by the step ("" if none), e = extra equality bit, x = short error text.
"""
import hashlib
import os
import sys
import traceback

sys.path.insert(0, os.path.dirname(os.path.abspath(__file__)))
import boot  # noqa: E402
import pyt  # noqa: E402
import stubgen_terms as st  # noqa: E402

_state = {}


def tdigest(s):
  if isinstance(s, str):
    s = s.encode("utf-8")
  return hashlib.sha1(s).hexdigest()[:16]


def ev(op, ok=True, d="", e=False, x=""):
  return {"op": op, "ok": bool(ok), "d": d, "e": bool(e), "x": x[:300]}


def _err(e):
  return "%s: %s" % (type(e).__name__, str(e).replace("\n", " ")[:200])


def loader():
  """One loader per process, shared by analysis and resolution steps."""
  boot.boot()
  if "loader" not in _state:
    from pytype import load_pytd
    _state["opts"] = pyt.options()
    _state["loader"] = load_pytd.create_loader(_state["opts"])
    pyt._loader = _state["loader"]          # pyt.analyze() reuses it
    pyt._loader_key = repr(sorted({}.items()))
  return _state["loader"]


def pyi_options():
  from pytype.pyi import parser
  return parser.PyiOptions.from_toplevel_options(loader().options)


def resolve_text(text):
  """Load stub text as a module through the loader (as a dependency would be): resolves
  builtins, imports and local names, adjusts type parameters, fills class pointers, verifies."""
  from pytype.pyi import parser
  from pytype.imports.base import ModuleInfo
  ld = loader()
  _state["n"] = _state.get("n", 0) + 1
  name = "verif_stub_%d_%d" % (os.getpid(), _state["n"])
  ast = parser.parse_string(text, name=name, options=pyi_options())
  try:
    ast = ld.load_module(ModuleInfo(name, name + ".pyi"), mod_ast=ast)
    ast = ld.finish_and_verify_ast(ast)
  finally:
    ld.remove_name(name)
  return ast


# ----------------------------------------------------------------------------------------------
# C05: Print -> Parse -> Verify -> Reprint -> Reparse -> Canon -> Resolve [-> Compare]

def c05_events(ast, compare_original=False, keep=None, expected=None):
  """Run the C05 lifecycle on a TypeDeclUnit.  keep: dict that receives t1/t2/t3 texts.
  expected: the declarations the text of `ast` denotes where the spec says they are not `ast`
  itself (StubGen.tla's pinned name convention, stubgen_terms.expected_read); Compare uses them."""
  boot.boot()
  from pytype.pytd import pytd_utils, visitors
  from pytype.pyi import parser
  evs = []
  keep = keep if keep is not None else {}
  try:
    t1 = pytd_utils.Print(ast)
  except Exception as e:  # pylint: disable=broad-except
    return evs + [ev("Print", False, x=_err(e))]
  keep["t1"] = t1
  evs.append(ev("Print", True, tdigest(t1)))
  try:
    a1 = parser.parse_string(t1, options=pyi_options())   # no module name, as canonical_pyi does
    d1 = st.ast_digest(a1)
  except Exception as e:  # pylint: disable=broad-except
    return evs + [ev("Parse", False, x=_err(e))]
  evs.append(ev("Parse", True, d1))
  try:
    a1.Visit(visitors.VerifyVisitor())
    evs.append(ev("Verify", True))
  except Exception as e:  # pylint: disable=broad-except
    evs.append(ev("Verify", False, x=_err(e)))
  try:
    t2 = pytd_utils.Print(a1)
  except Exception as e:  # pylint: disable=broad-except
    return evs + [ev("Reprint", False, x=_err(e))]
  keep["t2"] = t2
  evs.append(ev("Reprint", True, tdigest(t2)))
  try:
    a2 = parser.parse_string(t2, options=pyi_options())
    evs.append(ev("Reparse", True, st.ast_digest(a2), e=pytd_utils.ASTeq(a1, a2)))
  except Exception as e:  # pylint: disable=broad-except
    evs.append(ev("Reparse", False, x=_err(e)))
  try:
    t3 = parser.canonical_pyi(t1, options=pyi_options())
    keep["t3"] = t3
    t4 = parser.canonical_pyi(t3, options=pyi_options())
    evs.append(ev("Canon", True, tdigest(t3), e=(t4 == t3)))
  except Exception as e:  # pylint: disable=broad-except
    evs.append(ev("Canon", False, x=_err(e)))
  try:
    resolve_text(t1)
    evs.append(ev("Resolve", True))
  except Exception as e:  # pylint: disable=broad-except
    evs.append(ev("Resolve", False, x=_err(e)))
  if compare_original:
    try:
      n0, n1 = st.norm_unit(ast if expected is None else expected), st.norm_unit(a1)
      evs.append(ev("Compare", True, st.digest(n1["decls"]),
                    e=(n0["decls"] == n1["decls"]) and set(n0["imports"]) <= set(n1["imports"]),
                    x="" if n0["decls"] == n1["decls"] else
                    "declarations differ at " + st.first_difference(n0["decls"], n1["decls"])))
      keep["n0"], keep["n1"] = n0, n1
    except Exception as e:  # pylint: disable=broad-except
      evs.append(ev("Compare", False, x=_err(e)))
  return evs


def analyze_program(src):
  """generate_pyi on one program -> pyt.analyze record with the inferred AST."""
  loader()
  return pyt.analyze(src, want_ast=True)


def c05_case(ident, origin, ast, compare, pyi=None, want_texts=False, expected=None):
  """The main run on `ast` plus the counterfactual runs used for attribution (see
  stubgen_terms.DEVIATIONS): for the set P of documented deviations whose trigger is present in
  the AST, one run with all of P neutralised and, if |P| > 1, one run per d in P with P - {d}
  neutralised.  Counterfactual runs never produce a verdict; TraceC05 uses them to say which
  deviations a failing main run is explained by."""
  keep = {}
  evs = c05_events(ast, compare_original=compare, keep=keep, expected=expected)
  present = st.deviations_present(ast)
  variants = []
  if present:
    subsets = [list(present)]
    if len(present) > 1:
      subsets += [[x for x in present if x != d] for d in present]
    for sub in subsets:
      k2 = {}
      try:
        v = c05_events(st.neutralise(ast, sub), compare_original=False, keep=k2)
      except Exception as e:  # pylint: disable=broad-except
        v = [ev("Print", False, x="neutraliser: " + _err(e))]
      variants.append({"without": sub, "events": v})
  t1 = keep.get("t1", "")
  out = {"id": ident, "origin": origin, "events": evs, "devs": present, "variants": variants,
         "lines": t1.count("\n") + 1,
         # io._output_ast: the emitted text is the printer's output plus a newline
         "emit_eq": True if pyi is None else (t1 + "\n" == pyi),
         "feats": st.features(ast), "tdigest": tdigest(t1), "cells": st.dunder_cells(ast)}
  if want_texts:
    out["texts"] = {k: v for k, v in keep.items() if k in ("t1", "t2", "t3")}
  else:
    # enough to describe a failure without shipping every text back
    fp = ([e for e in evs if not e["ok"]] or keep.get("t2") != keep.get("t1")
          or [e for e in evs if e["op"] == "Compare" and not e["e"]])
    if fp:
      out["texts"] = {k: v[:6000] for k, v in keep.items() if k in ("t1", "t2")}
  return out


def c05_emitted(item):
  """item = {"id", "src"} -> case record (or {"skip": reason})."""
  try:
    r = analyze_program(item["src"])
    if r["outcome"] != "result":
      return {"id": item["id"], "origin": "emitted", "skip": r["outcome"], "events": []}
    return c05_case(item["id"], "emitted", r["ast"], False, pyi=r["pyi"],
                    want_texts=bool(item.get("keep")))
  except Exception as e:  # pylint: disable=broad-except
    return {"id": item["id"], "origin": "emitted", "skip": "harness:" + _err(e) +
            traceback.format_exc()[-600:], "events": []}


def c05_generated(item):
  """item = {"id", "stub": StubGen term}."""
  try:
    loader()
    x = st.stub_ast(item["stub"])
    exp = st.expected_read(item["stub"])
    rec = c05_case(item["id"], "stubgen", x, True, want_texts=bool(item.get("keep")),
                   expected=None if exp is None else st.stub_ast(exp))
    rec["exp"] = exp is not None     # the spec states a read-back that is not the AST itself
    return rec
  except Exception as e:  # pylint: disable=broad-except
    return {"id": item["id"], "origin": "stubgen", "skip": "harness:" + _err(e) +
            traceback.format_exc()[-600:], "events": []}


# ----------------------------------------------------------------------------------------------
# C12: bytes line  Canonical -> Encode -> Decode -> Reencode -> Reserialize -> Again -> Reorder
#      node line   Hash -> Clear -> Found          (the same execution, recorded as a second record)

def private_copy(ast):
  """SerializeAst clears ClassType.cls pointers IN PLACE; give the AST its own ClassType nodes so
  that the loader's modules (which may share nodes with it) stay intact."""
  from pytype.pytd import pytd, visitors

  class _Copy(visitors.Visitor):
    def VisitClassType(self, node):  # pylint: disable=invalid-name
      return pytd.ClassType(node.name, node.cls)
  return ast.Visit(_Copy())


def pointer_free_copy(ast):
  """The same declarations with fresh ClassType nodes that hold no class pointer."""
  from pytype.pytd import pytd, visitors

  class _Copy(visitors.Visitor):
    def VisitClassType(self, node):  # pylint: disable=invalid-name
      return pytd.ClassType(node.name)
  return ast.Visit(_Copy())


def renamed_original(ast):
  """The original with the two renamings SerializeAst defines (`.__init__` stripped from the
  module name, module aliases undone in late types); ClassType objects are shared with `ast`."""
  from pytype.pytd import serialize_ast, visitors
  x = ast
  if x.name.endswith(".__init__"):
    x = x.Visit(visitors.RenameModuleVisitor(x.name, x.name.rsplit(".__init__", 1)[0]))
  return x.Visit(serialize_ast.UndoModuleAliasesVisitor())


def expected_decoded(ast):
  """The canonically ordered original as SerializeAst defines it: module aliases undone in late
  types, `.__init__` stripped from the module name, class pointers cleared, canonical order.
  Canonical order is a property of the DECLARATIONS: it is computed on a pointer-free copy (the
  sort key of pytd nodes shows the pointer state, so sorting the AST as it stands - with filled,
  mixed or absent pointers - is not the canonical order).
  Returns (digest, digest of plain canonical order)."""
  from pytype.pytd import pytd_utils
  pf = pointer_free_copy(ast)
  plain = st.ast_digest(pytd_utils.CanonicalOrdering(pf))
  return st.ast_digest(pytd_utils.CanonicalOrdering(renamed_original(pf))), plain


def type_nodes(ast):
  """Every pytd.Type node below `ast` (ClassType.cls is not followed)."""
  from pytype.pytd import pytd
  return [n for n, _ in st.walk(ast) if isinstance(n, pytd.Type)]


def pointer_state(node):
  """'-' no ClassType below node; 'r' every pointer filled in; 'u' none; 'm' mixed."""
  cts = [n for n, _ in st.walk(node) if type(n).__name__ == "ClassType"]
  if not cts:
    return "-"
  k = sum(1 for c in cts if c.cls is not None)
  return "r" if k == len(cts) else "u" if k == 0 else "m"


def hdigest(nodes):
  return tdigest(",".join(str(h) for h in sorted(hash(n) for n in nodes)))


def c12_events(ast, src_path=None):
  """One execution of both lines on `ast`.  Returns {"events": bytes line, "nodes": node line,
  "bytes": len(b1), "ptr": [ClassType nodes with pointer before Serialize, after]}."""
  boot.boot()
  from pytype.imports import pickle_utils
  from pytype.pytd import pytd_utils
  evs, nod = [], []
  out = {"events": evs, "nodes": nod, "bytes": 0, "ptr": [0, 0]}
  try:
    x = private_copy(ast)
    c0, plain = expected_decoded(x)
    evs.append(ev("Canonical", True, c0, e=(c0 == plain)))
  except Exception as e:  # pylint: disable=broad-except
    evs.append(ev("Canonical", False, x=_err(e)))
    return out
  # node line, step Hash: the type nodes of the AST about to be serialised, pointers as they are
  # (the renamed original shares its ClassType objects with x, which Serialize clears in place)
  try:
    mine = type_nodes(pytd_utils.CanonicalOrdering(renamed_original(x)))
    held = set(mine)
    cts = [n for n in mine if type(n).__name__ == "ClassType"]
    out["ptr"][0] = sum(1 for c in cts if c.cls is not None)
    nod.append(ev("Hash", True, hdigest(mine)))
  except Exception as e:  # pylint: disable=broad-except
    mine = held = None
    nod.append(ev("Hash", False, x=_err(e)))
  try:
    b1 = pickle_utils.Serialize(x, src_path=src_path)
    evs.append(ev("Encode", True, tdigest(b1)))
    out["bytes"] = len(b1)
  except Exception as e:  # pylint: disable=broad-except
    evs.append(ev("Encode", False, x=_err(e)))
    if mine is not None:
      nod.append(ev("Clear", False, x="Encode: " + _err(e)))
    return out
  if mine is not None:
    try:
      out["ptr"][1] = sum(1 for c in cts if c.cls is not None)
      lost = [n for n in mine if n not in held]
      nod.append(ev("Clear", True, hdigest(mine), e=not lost,
                    x="" if not lost else "not found in the set built before Serialize: %r" % (lost[0],)))
    except Exception as e:  # pylint: disable=broad-except
      nod.append(ev("Clear", False, x=_err(e)))
      mine = None
  try:
    dec = pickle_utils.DecodeAst(b1)
    canon = pytd_utils.CanonicalOrdering(renamed_original(x))   # x's pointers are cleared now
    evs.append(ev("Decode", True, st.ast_digest(dec.ast), e=pytd_utils.ASTeq(dec.ast, canon),
                  x="" if dec.ast.name == canon.name else "module name changed"))
  except Exception as e:  # pylint: disable=broad-except
    evs.append(ev("Decode", False, x=_err(e)))
    if mine is not None:
      nod.append(ev("Found", False, x="Decode: " + _err(e)))
    return out
  if mine is not None:
    try:
      theirs = type_nodes(dec.ast)
      dup = [n for n in theirs if n not in held]
      nod.append(ev("Found", True, hdigest(theirs), e=not dup,
                    x="" if not dup else "decoded node not found in the set of the original's nodes: %r" % (dup[0],)))
    except Exception as e:  # pylint: disable=broad-except
      nod.append(ev("Found", False, x=_err(e)))
  try:
    b2 = pickle_utils.Encode(dec)
    evs.append(ev("Reencode", True, tdigest(b2)))
  except Exception as e:  # pylint: disable=broad-except
    evs.append(ev("Reencode", False, x=_err(e)))
  try:
    b3 = pickle_utils.Serialize(dec.ast, src_path=src_path)
    evs.append(ev("Reserialize", True, tdigest(b3)))
  except Exception as e:  # pylint: disable=broad-except
    evs.append(ev("Reserialize", False, x=_err(e)))
  try:
    b4 = pickle_utils.Serialize(x, src_path=src_path)     # the SAME ast object, a second time
    evs.append(ev("Again", True, tdigest(b4)))
  except Exception as e:  # pylint: disable=broad-except
    evs.append(ev("Again", False, x=_err(e)))
  try:
    evs.append(ev("Reorder", True, st.ast_digest(pytd_utils.CanonicalOrdering(dec.ast))))
  except Exception as e:  # pylint: disable=broad-except
    evs.append(ev("Reorder", False, x=_err(e)))
  return out


def _c12_pack(ident, origin, ast, src_path=None, extra=None):
  """-> [bytes-line record, node-line record] of one execution (+ the counterfactual one)."""
  feats = st.features(ast)
  r = c12_events(ast, src_path)
  present = st.c12_deviations_present(ast)
  variants = []
  if present:
    # counterfactual run for attribution (never a verdict): the same AST without the triggers
    try:
      v = c12_events(st.c12_neutralise(ast, present), src_path)
    except Exception as e:  # pylint: disable=broad-except
      v = {"events": [ev("Canonical", False, x="neutraliser: " + _err(e))],
           "nodes": [ev("Hash", False, x="neutraliser: " + _err(e))]}
    variants.append({"without": present, "run": v})
  base = {"origin": origin, "feats": feats, "devs": present, "ptr": r["ptr"]}
  base.update(extra or {})
  out = [dict(base, id=ident, line="bytes", events=r["events"], bytes=r["bytes"],
              variants=[{"without": v["without"], "events": v["run"]["events"]} for v in variants])]
  if r["nodes"]:
    out.append(dict(base, id=ident + "#nodes", line="nodes", events=r["nodes"], bytes=0, feats={},
                    variants=[{"without": v["without"], "events": v["run"]["nodes"]} for v in variants]))
  return out


def c12_emitted(item):
  """The AST pytype pickles for a program (io.write_pickle: PrepareForExport) and the inferred AST
  itself."""
  try:
    from pytype.pytd import serialize_ast
    r = analyze_program(item["src"])
    if r["outcome"] != "result":
      return [{"id": item["id"], "origin": "emitted", "skip": r["outcome"], "events": []}]
    out = _c12_pack(item["id"] + ":inferred", "inferred", r["ast"])
    try:
      exp = serialize_ast.PrepareForExport("verif_mod", r["ast"], loader())
    except Exception as e:  # pylint: disable=broad-except
      out.append({"id": item["id"] + ":export", "origin": "export", "skip": "export:" + _err(e),
                  "events": []})
      return out
    out += _c12_pack(item["id"] + ":export", "export", exp, "verif_mod.py")
    return out
  except Exception as e:  # pylint: disable=broad-except
    return [{"id": item["id"], "origin": "emitted", "skip": "harness:" + _err(e) +
             traceback.format_exc()[-600:], "events": []}]


def text_export(text, mod):
  """Stub TEXT -> exportable AST under module name `mod`, the way pytype/pyi/parse_pickle.py
  (--pyi input) and PrepareForExport do it: local and builtins classes get their pointers,
  typing classes stay pointer-free, classes of other modules become LateType."""
  from pytype.pytd import serialize_ast
  return serialize_ast.SourceToExportableAst(mod, text, loader())


def c12_generated(item):
  """A StubGen AST in three dialects: NamedType nodes as built; resolved through the loader
  (ClassType nodes with pointers); and, if the item names a module (`mod`), printed and read
  back from the text under that module name (mixed pointer state)."""
  try:
    from pytype.pytd import pytd_utils
    loader()
    x = st.stub_ast(item["stub"])
    out = _c12_pack(item["id"] + ":named", "stubgen-named", x)
    text = pytd_utils.Print(x)
    try:
      res = resolve_text(text)
    except Exception as e:  # pylint: disable=broad-except
      out.append({"id": item["id"] + ":resolved", "origin": "stubgen-resolved",
                  "skip": "resolve:" + _err(e), "events": []})
      return out
    out += _c12_pack(item["id"] + ":resolved", "stubgen-resolved", res)
    if item.get("mod"):
      try:
        exp = text_export(text, item["mod"])
      except Exception as e:  # pylint: disable=broad-except
        out.append({"id": item["id"] + ":text", "origin": "stubgen-text",
                    "skip": "export:" + _err(e), "events": []})
        return out
      out += _c12_pack(item["id"] + ":text@" + item["mod"], "stubgen-text", exp, item["mod"] + ".pyi",
                       extra={"mod": item["mod"]})
    return out
  except Exception as e:  # pylint: disable=broad-except
    return [{"id": item["id"], "origin": "stubgen", "skip": "harness:" + _err(e) +
             traceback.format_exc()[-600:], "events": []}]


def c12_mix(item):
  """A stub of specs/ExportStubs.tla (term format of StubGen + module name): built, printed, and
  the TEXT read back under the module name the spec chose."""
  try:
    from pytype.pytd import pytd_utils
    loader()
    c = item["stub"]
    text = pytd_utils.Print(st.stub_ast(c))
    try:
      exp = text_export(text, c["mod"])
    except Exception as e:  # pylint: disable=broad-except
      return [{"id": item["id"], "origin": "mix", "skip": "harness:the stub text of ExportStubs.tla does not "
               "load: " + _err(e) + " " + text[:300], "events": []}]
    out = _c12_pack(item["id"] + "@" + c["mod"], "mix", exp, c["mod"] + ".pyi",
                    extra={"mod": c["mod"], "flags": {k: bool(c[k]) for k in ("sensitive", "mixed", "enum")},
                           "text": text})
    if item.get("want_order"):
      out[0]["unions"] = union_orders(exp)
    return out
  except Exception as e:  # pylint: disable=broad-except
    return [{"id": item["id"], "origin": "mix", "skip": "harness:" + _err(e) +
             traceback.format_exc()[-600:], "events": []}]


def union_orders(ast):
  from pytype.pytd import pytd, pytd_utils
  return [[pytd_utils.Print(t) for t in n.type_list] for n, _ in st.walk(ast) if isinstance(n, pytd.UnionType)]


FIXTURE_MODULES = ("os", "sys", "types", "abc")     # the fixture typeshed (loaded, not bundled)


def bundled_modules():
  """Module names of the stubs that ship with pytype (stubs/builtins, stubs/stdlib)."""
  root = os.path.join(boot.REPO, "pytype", "stubs")
  names = []
  for sub in ("builtins", "stdlib"):
    base = os.path.join(root, sub)
    for dp, _, fs in os.walk(base):
      for f in sorted(fs):
        if f.endswith(".pytd"):
          rel = os.path.relpath(os.path.join(dp, f), base)[:-5]
          mod = rel.replace(os.sep, ".")
          if mod.endswith(".__init__"):
            mod = mod[:-9]
          names.append(mod)
  return sorted(set(names))


def c12_bundled(_):
  """All bundled stubs loaded through a fresh loader, serialised one by one and as a module
  bundle (Loader.save_to_pickle's path: PrepareModuleBundle -> Encode -> DecodeBuiltins)."""
  boot.boot()
  from pytype import load_pytd
  from pytype.imports import pickle_utils
  from pytype.imports import builtin_stubs
  ld = load_pytd.create_loader(pyt.options())
  out = []
  loaded = []
  for m in bundled_modules() + list(FIXTURE_MODULES):
    try:
      ast = ld.import_name(m)
      if ast is None:
        out.append({"id": "bundled:" + m, "origin": "bundled", "skip": "not found", "events": []})
        continue
      loaded.append(m)
    except Exception as e:  # pylint: disable=broad-except
      out.append({"id": "bundled:" + m, "origin": "bundled", "skip": "import:" + _err(e),
                  "events": []})
  # everything the loader ended up with (dependencies included)
  mods = sorted(ld._modules.items())  # pylint: disable=protected-access
  singles = {}
  for name, mod in mods:
    if mod.ast is None:
      continue
    rec = _c12_pack("bundled:" + name, "bundled", mod.ast, mod.filename)
    out += rec
    singles[name] = rec[0]
  # the bundle path
  try:
    copies = [(name, mod.filename, private_copy(mod.ast)) for name, mod in mods if mod.ast is not None]
    bundle = pickle_utils.PrepareModuleBundle(copies)
    data = pickle_utils.Encode(bundle)
    back = pickle_utils.DecodeBuiltins(data)
    evs = [ev("Canonical", True, "bundle", e=True), ev("Encode", True, tdigest(data))]
    ok = len(back) == len(copies)
    same = ok
    for (name, raw), (n2, _, _) in zip(back, copies):
      one = singles[name]["events"]
      enc = [e for e in one if e["op"] == "Encode"]
      if name != n2 or not enc or tdigest(bytes(raw)) != enc[0]["d"]:
        same = False
    evs.append(ev("Decode", ok, "bundle", e=same, x="" if same else "bundle entries differ from single encodings"))
    data2 = pickle_utils.Encode(back)
    evs.append(ev("Reencode", True, tdigest(data2)))
    evs.append(ev("Reserialize", True, tdigest(data2)))
    # the same module objects bundled a second time (their pointers were cleared by the first call)
    evs.append(ev("Again", True, tdigest(pickle_utils.Encode(pickle_utils.PrepareModuleBundle(copies)))))
    evs.append(ev("Reorder", True, "bundle"))
    out.append({"id": "bundled:<bundle>", "origin": "bundle", "line": "bytes", "events": evs,
                "bytes": len(data), "bundle": True})
  except Exception as e:  # pylint: disable=broad-except
    out.append({"id": "bundled:<bundle>", "origin": "bundle", "skip": "bundle:" + _err(e) +
                traceback.format_exc()[-500:], "events": []})
  builtin_stubs.InvalidateCache()
  return out


# ----------------------------------------------------------------------------------------------
# C12 equality / hash law on real nodes

def eq_rows(terms, lo=0, hi=None):
  """For the term list exported by PytdEq.tla: build the real node for every term and record, for
  term number a in lo+1..hi and every term number j (1-based): eq = the j with node_a == node_j;
  among those, hne = the j whose hash differs, keep = the j for which a set or a dict holding both
  nodes keeps two entries."""
  boot.boot()
  nodes = [st.type_node(t) for t in terms]
  rows = []
  for i in range(lo, len(nodes) if hi is None else hi):
    a = nodes[i]
    eq, hne, keep = [], [], []
    for j, b in enumerate(nodes):
      if a == b:
        eq.append(j + 1)
        if hash(a) != hash(b):
          hne.append(j + 1)
        if len({a, b}) != 1 or len({a: 1, b: 2}) != 1:
          keep.append(j + 1)
    rows.append({"a": i + 1, "eq": eq, "hne": hne, "keep": keep})
  return rows


def ct_unit(ct_terms):
  """A module `eqmod` whose constant c<k> has the ClassType-dialect node of term k as its type
  (no class pointer yet), with the classes the terms refer to: local classes for every undotted
  non-builtin name and the enum-like class E with members X, Y."""
  boot.boot()
  from pytype.pytd import pytd
  local = set()

  def names(t):
    tag, name, args = t
    if tag in ("classtype", "cls", "named", "gen") and "." not in name and name not in st.BUILTIN_SHORT:
      local.add(name)
    if tag == "lit" and name.startswith(("enum:", "type:")):
      local.add(name.split(":", 1)[1].split(".")[0])
    for a in args:
      names(a)
  for t in ct_terms:
    names(t)
  obj = (pytd.ClassType("builtins.object"),)

  def cls(n):
    consts = ()
    if n == "E":
      consts = tuple(pytd.Constant(m, pytd.ClassType("builtins.int")) for m in ("X", "Y"))
    return pytd.Class(name=n, keywords=(), bases=obj, methods=(), constants=consts, classes=(),
                      decorators=(), slots=None, template=())
  consts = tuple(pytd.Constant("c%04d" % k, st.type_node(t, class_type=True)) for k, t in enumerate(ct_terms))
  return pytd.TypeDeclUnit(name="eqmod", constants=consts, type_params=(), functions=(), aliases=(),
                           classes=tuple(cls(n) for n in sorted(local)))


def fill_pointers(unit):
  """Fill the class pointers of `unit` IN PLACE with the real visitor (what LookupClasses and
  ProcessAst do), against the unit itself, builtins and typing."""
  from pytype.pytd import visitors
  ld = loader()
  unit.Visit(visitors.FillInLocalPointers(
      {"": unit, unit.name: unit, "builtins": ld.builtins, "typing": ld.typing}))
  return unit


def eq_xrows(ct_terms, lo=0, hi=None):
  """The law across pointer states: node_a = term a built in the ClassType dialect with its class
  pointers FILLED IN (by the real visitor, inside a module), node_j = term j built in the same
  dialect WITHOUT pointers.  Rows as eq_rows."""
  boot.boot()
  unit = fill_pointers(ct_unit(ct_terms))
  res = [c.type for c in unit.constants]
  bare = [st.type_node(t, class_type=True) for t in ct_terms]
  rows = []
  for i in range(lo, len(res) if hi is None else hi):
    a = res[i]
    eq, hne, keep = [], [], []
    for j, b in enumerate(bare):
      if a == b:
        eq.append(j + 1)
        if hash(a) != hash(b):
          hne.append(j + 1)
        if len({a, b}) != 1 or len({a: 1, b: 2}) != 1 or len({b, a}) != 1:
          keep.append(j + 1)
    rows.append({"a": i + 1, "eq": eq, "hne": hne, "keep": keep,
                 "ptr": [pointer_state(a), pointer_state(bare[i])]})
  return rows


def eq_life(ct_terms):
  """The life of ONE node object per term (specs/PytdTerms.tla LifeOps): the node inside a module
  whose pointers are filled in (Fill), the same object after pickle_utils.Serialize cleared the
  module's pointers in place (Clear), the copy pickle_utils.DecodeAst builds (Decode), the copy
  after its pointers were filled in (Refill).  Observed at each step: pointer state, hash, found
  in a set built after Fill, equal to the original object."""
  boot.boot()
  from pytype.imports import pickle_utils
  unit = fill_pointers(ct_unit(ct_terms))
  mine = [c.type for c in unit.constants]
  held = [{n} for n in mine]
  steps = [[] for _ in mine]

  def observe(op, nodes):
    for k, n in enumerate(nodes):
      steps[k].append({"op": op, "ptr": pointer_state(n), "h": str(hash(n)), "inset": n in held[k],
                       "eq": bool(n == mine[k]) and bool(mine[k] == n)})
  observe("Fill", mine)
  data = pickle_utils.Serialize(unit)
  observe("Clear", mine)
  dec = pickle_utils.DecodeAst(data).ast
  theirs = [dec.Lookup("c%04d" % k).type for k in range(len(mine))]
  observe("Decode", theirs)
  fill_pointers(dec)
  observe("Refill", theirs)
  return [{"a": k + 1, "steps": s} for k, s in enumerate(steps)]


def c05_work(item):
  """Pool entry point: one C05 case for an item {"kind": "emitted"|"stubgen", ...}."""
  return c05_generated(item) if item["kind"] == "stubgen" else c05_emitted(item)


def c12_work(item):
  """Pool entry point: list of C12 run records for an item."""
  k = item["kind"]
  if k == "stubgen":
    return c12_generated(item)
  if k == "bundled":
    return c12_bundled(item)
  if k == "rows":
    return [{"rows": eq_rows(item["terms"], item["lo"], item["hi"]),
             "xrows": eq_xrows(item["ct"], item["lo"], item["hi"]) if item.get("ct") else []}]
  if k == "life":
    return [{"life": eq_life(item["ct"])}]
  if k == "mix":
    return c12_mix(item)
  return c12_emitted(item)

#!/bin/sh
# usage: harness/sweep.sh <seed> [tier] [ids...]   runs the checks one after another with VERIF_SEED=<seed>,
# prints one summary line per check (exit code, wall, VIOLATION keys).  Exploration aid, not evidence.
seed="$1"; tier="${2:-quick}"; shift; [ $# -gt 0 ] && shift
cd "$(dirname "$0")/.." || exit 2
ids="$*"; [ -n "$ids" ] || ids="C01 C02 C03 C04 C05 C06 C07 C08 C09 C10 C11 C12 C13 C14 C15 C16 C17 C18 C19 C20"
mkdir -p build/sweep
for id in $ids; do
  t0=$(date +%s)
  VERIF_SEED="$seed" ./check "$id" --tier "$tier" > "build/sweep/$id.$seed.$tier.log" 2>&1
  rc=$?
  t1=$(date +%s)
  echo "SWEEP seed=$seed tier=$tier $id exit=$rc wall=$((t1-t0))s $(grep -o 'key=[^ ]*' build/sweep/$id.$seed.$tier.log | sort -u | head -5 | tr '\n' ' ')"
done

"""Validate MANIFEST.json and evidence files against the schemas (run with python3-vt)."""
import json, sys, glob
import jsonschema
m = json.load(open('/verif/MANIFEST.json'))
jsonschema.validate(m, json.load(open('/root/.vp/MANIFEST.schema.json')))
es = json.load(open('/root/.vp/EVIDENCE.schema.json'))
bad = 0
for f in sorted(glob.glob('/verif/evidence/*.json')):
  try:
    jsonschema.validate(json.load(open(f)), es)
  except jsonschema.ValidationError as e:
    print('INVALID', f, e.message); bad = 1
print('manifest ok;', 'evidence ok' if not bad else 'evidence BAD')
sys.exit(bad)

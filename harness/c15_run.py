"""Worker side of C15: run pytype's top-level entry (io.check_or_generate_pyi on a virtual file,
through harness/pyt.analyze_file) on one source text with harness-side stage wrappers that emit
one event per pipeline stage (in `finally`), and ask CPython's compile() for the oracle's view.
Nothing here evaluates the property."""
import os
import re
import sys
import time
import traceback
import warnings

sys.path.insert(0, os.path.dirname(os.path.abspath(__file__)))
import boot  # noqa: E402
import c15_fam  # noqa: E402

_installed = False
_events = []
_depth = [0]
_SKIP_RE = re.compile(r"#.*\bpytype:\s*skip-file\b")


def _wrap(stage, fn, sub=False):
  """Emit [stage, status, depth] when fn returns or raises.  sub=True marks the three stage
  functions abstract_utils.eval_expr re-enters for a string annotation / type comment / late
  annotation (Compile, Blocks, Run): those sub-runs are recorded wherever they happen and the
  spec's sub-machine (Outcome!AllowedSub) judges them.  Any other stage function re-entered from
  inside a stage (optimize.Optimize from the pretty printer or a signature's return type) is a
  helper call of that name, not a pipeline stage, and is passed through."""
  def wrapper(*a, **kw):
    if _depth[0] > 0 and not sub:
      return fn(*a, **kw)
    depth = _depth[0]
    _depth[0] += 1
    status = "ok"
    try:
      return fn(*a, **kw)
    except BaseException as e:
      status = type(e).__name__
      raise
    finally:
      _depth[0] -= 1
      _events.append([stage, status, depth])
  wrapper.__wrapped__ = fn
  return wrapper


def install():
  global _installed
  if _installed:
    return
  boot.boot()
  from pytype import constant_folding
  from pytype import io as pio
  from pytype import tracer_vm
  from pytype import vm
  from pytype.blocks import blocks
  from pytype.directors import directors
  from pytype.pyc import pyc
  from pytype.pytd import optimize
  pio.read_source_file = _wrap("Read", pio.read_source_file)
  directors.parse_src = _wrap("Directors", directors.parse_src)
  pyc.compile_src = _wrap("Compile", pyc.compile_src, sub=True)
  blocks.process_code = _wrap("Blocks", blocks.process_code, sub=True)
  constant_folding.fold_constants = _wrap("Fold", constant_folding.fold_constants)
  vm.VirtualMachine.run_bytecode = _wrap("Run", vm.VirtualMachine.run_bytecode, sub=True)
  tracer_vm.CallTracer.analyze = _wrap("Analyze", tracer_vm.CallTracer.analyze)
  tracer_vm.CallTracer.compute_types = _wrap("ComputeTypes", tracer_vm.CallTracer.compute_types)
  optimize.Optimize = _wrap("Optimize", optimize.Optimize)
  pio._output_ast = _wrap("Print", pio._output_ast)  # pylint: disable=protected-access
  _installed = True


def oracle(src):
  """CPython's view of the text: (compiles, blamed line or 0, exception name)."""
  with warnings.catch_warnings():
    warnings.simplefilter("ignore")
    try:
      compile(src, "<oracle>", "exec", dont_inherit=True)
      return True, 0, ""
    except SyntaxError as e:       # includes IndentationError, TabError
      return False, e.lineno if isinstance(e.lineno, int) and e.lineno > 0 else 0, type(e).__name__
    except (ValueError, OverflowError, RecursionError, MemoryError) as e:
      # "source code string cannot contain null bytes" (ValueError in some versions), too deep nesting
      return False, 0, type(e).__name__


def site_of(exc_text):
  """innermost pytype frame of a traceback text -> 'file.py:function' (names the code site)."""
  frames = re.findall(r'File "[^"]*?/pytype/([^"]+)", line \d+, in (\S+)', exc_text)
  return "%s:%s" % frames[-1] if frames else "?"


def run_one(item):
  """item = dict(label, src, mode[, opts]).  Returns the record TraceC15 judges (+ bookkeeping).
  opts = extra pytype options of a planned text (option flags of Outcome!ProvokeTable, the
  pythonpath of its stub files)."""
  install()
  import pyt
  label, src, mode = item["label"], item["src"], item.get("mode", "infer")
  warnings.simplefilter("ignore")
  compiles, cline, oexc = oracle(src)
  del _events[:]
  _depth[0] = 0
  t0 = time.time()
  try:
    r = pyt.analyze_file(src, check=(mode == "check"), **(item.get("opts") or {}))
  except BaseException as e:  # pylint: disable=broad-except
    # analyze_file catches Exception; anything else (SystemExit, KeyboardInterrupt, RecursionError
    # is an Exception) also counts as escaped
    r = {"outcome": "crash", "errors": [], "pyi": "",
         "exc": "%s: %s\n%s" % (type(e).__name__, e, traceback.format_exc()[-3000:])}
  secs = time.time() - t0
  events = [list(e) for e in _events]
  del _events[:]
  errs = [[e[0], e[1] if isinstance(e[1], int) and not isinstance(e[1], bool) else -1] for e in r["errors"]]
  rec = {"label": label, "mode": mode, "nlines": len(src.split("\n")), "compiles": compiles,
         "cline": cline, "skip": bool(_SKIP_RE.search(src)), "events": events,
         "crashed": r["outcome"] == "crash", "errs": errs,
         "secs": round(secs, 3), "oracle_exc": oexc, "pyi_len": len(r.get("pyi") or ""),
         # oracle-side fact for the attribution of a known defect (Outcome!Attribution)
         "anntrail": c15_fam.anntrail(src)}
  if rec["crashed"]:
    exc = r["exc"]
    rec["exc_type"] = exc.split(":", 1)[0]
    rec["exc_head"] = exc.splitlines()[0][:300]
    rec["site"] = site_of(exc)
    rec["tb"] = exc[-2500:]
  if errs:
    rec["first_msgs"] = [str(e[2])[:120] for e in r["errors"][:3]]
  return rec


def worker_main(conn, repo):
  """Loop of one pool worker: receive (idx, item), send (idx, record)."""
  os.environ["VERIF_REPO"] = repo
  sys.setrecursionlimit(10000)
  try:
    install()
    conn.send(("ready", None))
    while True:
      msg = conn.recv()
      if msg is None:
        break
      idx, item = msg
      try:
        rec = run_one(item)
      except BaseException as e:  # pylint: disable=broad-except
        rec = {"label": item.get("label"), "harness_error": "%s: %s" % (type(e).__name__, e),
               "tb": traceback.format_exc()[-2000:]}
      conn.send((idx, rec))
  except (EOFError, KeyboardInterrupt):
    pass

"""Demonstrates the binding of the trace specifications: for each trace module a recorded case
that the real code produced is accepted, and the same case with ONE corrupted field is rejected.
Run by setup.sh (a failure here means the machinery is vacuous or broken: exit 2)."""
import copy
import os
import sys

sys.path.insert(0, os.path.dirname(os.path.abspath(__file__)))
import boot  # noqa: E402
import tlc  # noqa: E402

TRACE_CFG = "INIT TInit\nNEXT TNext\nINVARIANT Ok\nPOSTCONDITION Done\n"


def bad_lines(module, cases, cfg=TRACE_CFG, env=None):
  nv, bad, r = tlc.validate_cases(module, cases, cfg=cfg, timeout=300, env=env)
  return tlc.parse_cases(r.out, "BAD"), bad, r


def expect(name, cond):
  print("selftest %-28s %s" % (name, "ok" if cond else "FAILED"))
  if not cond:
    sys.exit(2)


def main():
  boot.boot()
  # C09: rows of a 3-node history; corrupt one row
  import c09
  import random
  hist = [["node", 0, 0], ["node", 1, 1], ["node", 2, 2], ["edge", 0, 1], ["edge", 1, 2]]
  obs, _ = c09.replay(hist, random.Random(0))
  good = {"ops": hist, "obs": obs}
  nv, bad, r = tlc.validate_cases("TraceReach", [good], cfg=c09.TRACE_CFG, timeout=300)
  expect("TraceReach accepts", bad is None and not r.violated)
  corrupt = copy.deepcopy(good)
  corrupt["obs"][-1][0][1] = [0, 1]          # node 0 no longer reaches node 2
  nv, bad, r = tlc.validate_cases("TraceReach", [corrupt], cfg=c09.TRACE_CFG, timeout=300)
  expect("TraceReach rejects corrupted", bad is not None or r.violated)
  # C07: a 2-node graph; flip one observed answer
  import c07
  g = {"nn": 2, "nv": 1, "edges": [[1, 2]], "cond": [0, 0], "bvar": [1], "bdata": [1],
       "origins": [{"b": 1, "n": 1, "ss": []}]}
  case = {"g": g, "qs": c07.observe(g)}
  b, _, _ = bad_lines("TraceC07", [case])
  expect("TraceC07 accepts", not b)
  c2 = copy.deepcopy(case)
  c2["qs"][0][2] = not c2["qs"][0][2]
  b, _, _ = bad_lines("TraceC07", [c2])
  expect("TraceC07 rejects flipped answer", bool(b))
  # C02: int value for annotation str must be an error; flip it
  ok_case = {"ann": ["cls", "str", []], "val": ["int", []], "site": "arg", "err": True}
  b, _, _ = bad_lines("TraceC02", [ok_case])
  expect("TraceC02 accepts", not b)
  b, _, _ = bad_lines("TraceC02", [dict(ok_case, err=False)])
  expect("TraceC02 rejects missed error", bool(b))
  # C01: a slot whose value is outside the declared type
  good = {"H": {"int": ["int", "object"]},
          "slots": [{"k": "name", "n": "x", "t": ["cls", "int", []], "v": ["int", []]}]}
  b, _, _ = bad_lines("TraceC01", [good])
  expect("TraceC01 accepts", not b)
  bad = copy.deepcopy(good)
  bad["slots"][0]["v"] = ["str", []]
  bad["H"]["str"] = ["str", "object"]
  b, _, _ = bad_lines("TraceC01", [bad])
  expect("TraceC01 rejects unsound slot", bool(b))
  print("selftest ok")


if __name__ == "__main__":
  main()

"""Boot pytype from /repo's working tree with the C++ typegraph built out of tree.

ensure_ext() hashes pytype/typegraph/*.{cc,h}, (re)builds cfg.*.so into
/verif/build/ext/<sha>/ when the hash changed, and boot() makes the package importable
without touching /repo.  A compile failure is a machinery failure (exit 2).
"""
import hashlib
import os
import shutil
import subprocess
import sys

REPO = os.environ.get("VERIF_REPO", "/repo")
VERIF = os.path.dirname(os.path.dirname(os.path.abspath(__file__)))
BUILD = os.path.join(VERIF, "build")
EXT_ROOT = os.path.join(BUILD, "ext" if REPO == "/repo" else "ext-scratch")
PYINC = "/root/.pyenv/versions/3.12.1/include/python3.12"
PB11 = "/venv/lib/python3.12/site-packages/pybind11/include"
SRCS = ["cfg", "cfg_logging", "pylogging", "reachable", "solver", "typegraph"]
SO = "cfg.cpython-312-x86_64-linux-gnu.so"
GUARD = "GOOGLE_PYTYPE_VERIF"


def _hash():
  h = hashlib.sha256()
  d = os.path.join(REPO, "pytype", "typegraph")
  for f in sorted(os.listdir(d)):
    if f.endswith((".cc", ".h")):
      h.update(f.encode())
      with open(os.path.join(d, f), "rb") as fh:
        h.update(fh.read())
  return h.hexdigest()[:16]


def ensure_ext():
  sha = _hash()
  out = os.path.join(EXT_ROOT, sha)
  so = os.path.join(out, SO)
  if os.path.exists(so):
    return out
  tmp = out + ".tmp%d" % os.getpid()
  os.makedirs(tmp, exist_ok=True)
  tg = os.path.join(REPO, "pytype", "typegraph")
  procs = []
  for s in SRCS:
    cmd = ["g++", "-std=c++20", "-O2", "-fPIC", "-fvisibility=hidden", "-w",
           "-I" + REPO, "-I" + tg, "-I" + PYINC, "-I" + PB11,
           "-c", os.path.join(tg, s + ".cc"), "-o", os.path.join(tmp, s + ".o")]
    procs.append((s, subprocess.Popen(cmd, stdout=subprocess.PIPE, stderr=subprocess.STDOUT)))
  bad = []
  for s, p in procs:
    o, _ = p.communicate()
    if p.returncode != 0:
      bad.append((s, o.decode(errors="replace")[-3000:]))
  if bad:
    shutil.rmtree(tmp, ignore_errors=True)
    sys.stderr.write("MACHINERY: typegraph extension failed to compile:\n")
    for s, o in bad:
      sys.stderr.write("== %s ==\n%s\n" % (s, o))
    sys.exit(2)
  objs = [os.path.join(tmp, s + ".o") for s in SRCS]
  r = subprocess.run(["g++", "-shared", "-o", os.path.join(tmp, SO)] + objs,
                     stdout=subprocess.PIPE, stderr=subprocess.STDOUT)
  if r.returncode != 0:
    sys.stderr.write("MACHINERY: link failed:\n" + r.stdout.decode(errors="replace"))
    shutil.rmtree(tmp, ignore_errors=True)
    sys.exit(2)
  for o in objs:
    os.unlink(o)
  try:
    os.rename(tmp, out)
  except OSError:
    shutil.rmtree(tmp, ignore_errors=True)  # lost a race; other build is fine
  # prune stale builds (only for the real repository; scratch copies may be used concurrently)
  for d in (os.listdir(EXT_ROOT) if REPO == "/repo" else []):
    p = os.path.join(EXT_ROOT, d)
    if d != sha and ".tmp" not in d:
      shutil.rmtree(p, ignore_errors=True)
  return out


_booted = False


def boot():
  """Make `import pytype` resolve to /repo with the freshly built extension."""
  global _booted
  if _booted:
    return
  out = ensure_ext()
  os.environ.setdefault("TYPESHED_HOME", os.path.join(VERIF, "fixtures", "typeshed"))
  os.environ.setdefault(GUARD, "1")
  if REPO not in sys.path:
    sys.path.insert(0, REPO)
  import pytype.typegraph as tg  # pylint: disable=g-import-not-at-top
  if out not in tg.__path__:
    tg.__path__.append(out)
  from pytype.typegraph import cfg  # noqa: F401
  _booted = True


def child_env(hashseed="0"):
  env = dict(os.environ)
  env["PYTHONHASHSEED"] = str(hashseed)
  env.setdefault("TYPESHED_HOME", os.path.join(VERIF, "fixtures", "typeshed"))
  env.setdefault(GUARD, "1")
  env["VERIF_REPO"] = REPO
  return env


if __name__ == "__main__":
  print(ensure_ext())

"""pytd nodes <-> the type terms / declaration tables of specs/PytdDen.tla and specs/Optimizer.tla.

Terms are JSON-able triples [tag, name, args] (see PytdDen.tla).  A declaration table is
  {"consts": [{"name", "type"}], "funcs": [{"name", "cls", "sigs": [{"params": [{"name", "kind",
   "type", "mut"}], "ret", "exc": [type]}]}]}
exactly the record shape Optimizer.tla works on.  Call boot.boot() before importing this module.
"""
from pytype.pytd import pytd
from pytype.pytd import pytd_utils
from pytype.pytd import visitors

ANY = ["any", "", []]
NOTHING = ["nothing", "", []]
NONE = ["none", "", []]

_LIT_CLASS = {bool: "builtins.bool", int: "builtins.int", str: "builtins.str", bytes: "builtins.bytes"}


def _printed(t):
  try:
    return pytd_utils.Print(t)
  except Exception:  # pylint: disable=broad-except
    return repr(t)[:80]


def from_pytd(t, lits=None):
  """pytd type node -> term.  lits (dict) collects the pseudo classes of Literal atoms."""
  if t is None:
    return NONE
  if isinstance(t, pytd.AnythingType):
    return ANY
  if isinstance(t, pytd.NothingType):
    return NOTHING
  if isinstance(t, pytd.ClassType):
    return ["cls", t.name, []]
  if isinstance(t, pytd.NamedType):
    return ["named", t.name, []]
  if isinstance(t, pytd.LateType):
    return ["late", t.name, []]
  if isinstance(t, pytd.Literal):
    v = t.value
    if isinstance(v, pytd.Constant):
      base = getattr(v.type, "name", "builtins.object")
      name = "Literal[%s]" % v.name
    else:
      base = _LIT_CLASS.get(type(v), "builtins.object")
      name = "Literal[%r]" % (v,)
    if lits is not None:
      lits[name] = [base]
    return ["lit", name, []]
  if isinstance(t, pytd.TypeParameter):    # incl. ParamSpec
    return ["tvar", t.full_name, []]
  if isinstance(t, pytd.Annotated):        # metadata (e.g. 'property') does not change the denotation
    return from_pytd(t.base_type, lits)
  if isinstance(t, pytd.UnionType):
    return ["union", "", [from_pytd(x, lits) for x in t.type_list]]
  if isinstance(t, pytd.TupleType):
    return ["tuple", t.base_type.name, [from_pytd(x, lits) for x in t.parameters]]
  if isinstance(t, pytd.CallableType):
    return ["callable", t.base_type.name, [from_pytd(x, lits) for x in t.parameters]]
  if isinstance(t, pytd.GenericType):
    return ["gen", t.base_type.name, [from_pytd(x, lits) for x in t.parameters]]
  return ["opaque", type(t).__name__ + ":" + _printed(t), []]


def to_pytd(term):
  """term -> pytd type node with NamedType leaves (resolve with resolve())."""
  tag, name, args = term
  if tag == "any":
    return pytd.AnythingType()
  if tag == "nothing":
    return pytd.NothingType()
  if tag == "none":
    return None
  if tag in ("cls", "named"):      # "cls": resolve() the unit afterwards
    return pytd.NamedType(name)
  if tag == "union":
    return pytd.UnionType(tuple(to_pytd(a) for a in args))
  if tag == "gen":
    return pytd.GenericType(pytd.NamedType(name), tuple(to_pytd(a) for a in args))
  if tag == "tuple":
    return pytd.TupleType(pytd.NamedType(name), tuple(to_pytd(a) for a in args))
  if tag == "callable":
    return pytd.CallableType(pytd.NamedType(name), tuple(to_pytd(a) for a in args))
  raise ValueError("cannot build a pytd node for term %r" % (term,))


# ---------------------------------------------------------------------------------------------
# tables -> units

# the user classes of the model hierarchy (Optimizer.tla ModelBases): declared in the unit itself,
# as in the stubs pytype infers (every class lists builtins.object as its base there).
USER_CLASSES = [("A", ["builtins.object"]), ("B", ["A"]), ("C", ["builtins.object"]),
                ("G", ["builtins.object"])]


def _sig(s):
  params = tuple(
      pytd.Parameter(p["name"], to_pytd(p["type"]), pytd.ParameterKind(p["kind"]), False,
                     to_pytd(p["mut"]))
      for p in s["params"])
  return pytd.Signature(params, None, None, to_pytd(s["ret"]),
                        tuple(to_pytd(e) for e in s["exc"]), ())


def table_to_unit(tab, name="gen"):
  """A real pytd.TypeDeclUnit for a model table (types are NamedType; see resolve())."""
  methods = {}
  functions = []
  for f in tab["funcs"]:
    fn = pytd.Function(f["name"], tuple(_sig(s) for s in f["sigs"]), pytd.MethodKind.METHOD)
    if f["cls"]:
      methods.setdefault(f["cls"], []).append(fn)
    else:
      functions.append(fn)
  classes = tuple(
      pytd.Class(n, (), tuple(pytd.NamedType(b) for b in bases), tuple(methods.get(n, ())), (), (),
                 (), None, ())
      for n, bases in USER_CLASSES)
  constants = tuple(pytd.Constant(c["name"], to_pytd(c["type"])) for c in tab["consts"])
  return pytd.TypeDeclUnit(name, constants, (), classes, tuple(functions), ())


def resolve(unit, deps):
  """NamedType -> ClassType with class pointers, as in the ASTs pytype infers."""
  return visitors.LookupClasses(unit, deps, ignore_late_types=True)


# ---------------------------------------------------------------------------------------------
# units -> tables

def _params(sig, lits):
  out = []
  for p in sig.params:
    out.append({"name": p.name, "kind": p.kind.value + ("?" if p.optional else ""),
                "type": from_pytd(p.type, lits), "mut": from_pytd(p.mutated_type, lits)})
  for p, k in ((sig.starargs, "star"), (sig.starstarargs, "starstar")):
    if p is not None:
      out.append({"name": p.name, "kind": k, "type": from_pytd(p.type, lits),
                  "mut": from_pytd(p.mutated_type, lits)})
  return out


def _func(f, cls, lits):
  return {"name": f.name, "cls": cls,
          "sigs": [{"params": _params(s, lits), "ret": from_pytd(s.return_type, lits),
                    "exc": [from_pytd(e, lits) for e in s.exceptions]} for s in f.signatures]}


def _class(c, consts, funcs, lits):
  for k in c.constants:
    consts.append({"name": c.name + "." + k.name, "type": from_pytd(k.type, lits)})
  for m in c.methods:
    funcs.append(_func(m, c.name, lits))
  for n in c.classes:
    _class(n, consts, funcs, lits)


def unit_to_table(unit, lits=None):
  """Flatten a TypeDeclUnit into a table.  Methods carry their class name in `cls`."""
  consts = [{"name": k.name, "type": from_pytd(k.type, lits)} for k in unit.constants]
  funcs = [_func(f, "", lits) for f in unit.functions]
  for c in unit.classes:
    _class(c, consts, funcs, lits)
  return {"consts": consts, "funcs": funcs}


def node_to_table(node, lits=None):
  """A bare type / function / class / unit as a table (Optimize accepts any node)."""
  if isinstance(node, pytd.TypeDeclUnit):
    return unit_to_table(node, lits)
  if isinstance(node, pytd.Class):
    consts, funcs = [], []
    _class(node, consts, funcs, lits)
    return {"consts": consts, "funcs": funcs}
  if isinstance(node, pytd.Function):
    return {"consts": [], "funcs": [_func(node, "", lits)]}
  return {"consts": [{"name": "<type>", "type": from_pytd(node, lits)}], "funcs": []}


# ---------------------------------------------------------------------------------------------
# hierarchy, as optimize.Optimize computes it

_deps_cache = {}


def superclasses(node, deps, use_abcs=False):
  """The direct-bases table SuperClassHierarchy is built from (name -> list of names)."""
  from pytype.pytd import abc_hierarchy
  sup = {}
  if deps is not None:
    key = id(deps)
    if key not in _deps_cache:
      _deps_cache.clear()
      _deps_cache[key] = (deps, deps.Visit(visitors.ExtractSuperClassesByName()))
    sup.update(_deps_cache[key][1])
  if isinstance(node, pytd.Node):
    try:
      got = node.Visit(visitors.ExtractSuperClassesByName())
      if isinstance(got, dict):
        sup.update(got)
    except Exception:  # pylint: disable=broad-except
      pass
  if use_abcs:
    sup.update(abc_hierarchy.GetSuperClasses())
  return sup


def term_names(term, acc):
  tag, name, args = term
  if tag in ("cls", "named", "lit", "gen", "tuple", "callable"):
    acc.add(name)
  for a in args:
    term_names(a, acc)


def table_terms(tab):
  for c in tab["consts"]:
    yield c["type"]
  for f in tab["funcs"]:
    for s in f["sigs"]:
      for p in s["params"]:
        yield p["type"]
        if p["mut"][0] != "none":
          yield p["mut"]
      yield s["ret"]
      for e in s["exc"]:
        yield e


def bases_closure(sup, tables, lits=None):
  """Restrict the bases table to the names the tables mention and their ancestors."""
  names = set()
  for tab in tables:
    for t in table_terms(tab):
      term_names(t, names)
    for f in tab["funcs"]:
      if f["cls"]:
        names.add(f["cls"])
  names.add("typing.Callable")
  names.add("builtins.tuple")
  full = dict(sup)
  if lits:
    full.update(lits)
  out = {}
  todo = list(names)
  while todo:
    n = todo.pop()
    if n in out:
      continue
    bs = [b for b in full.get(n, []) if isinstance(b, str)]
    out[n] = bs
    todo.extend(bs)
  return out


def term_size(term):
  return 1 + sum(term_size(a) for a in term[2])


def show(term):
  tag, n, a = term
  if tag in ("cls", "named", "late", "lit", "tvar", "opaque"):
    return n.replace("builtins.", "")
  if tag in ("any", "nothing", "none"):
    return {"any": "Any", "nothing": "nothing", "none": "-"}[tag]
  if tag == "union":
    return "Union[" + ", ".join(map(show, a)) + "]"
  n = n.replace("builtins.", "").replace("typing.", "")
  if tag == "callable":
    return "Callable[[%s], %s]" % (", ".join(map(show, a[:-1])), show(a[-1]) if a else "?")
  if tag == "tuple":
    return "%s[%s]" % (n, ", ".join(map(show, a)) or "()")
  if n == "tuple" and len(a) == 1:
    return "tuple[%s, ...]" % show(a[0])
  return "%s[%s]" % (n, ", ".join(map(show, a)))


def show_table(tab):
  out = [c["name"] + ": " + show(c["type"]) for c in tab["consts"]]
  for f in tab["funcs"]:
    for s in f["sigs"]:
      ps = ", ".join(p["name"] + ": " + show(p["type"]) +
                     ("" if p["mut"][0] == "none" else " := " + show(p["mut"])) for p in s["params"])
      exc = (" raises " + ",".join(show(e) for e in s["exc"])) if s["exc"] else ""
      out.append("def %s%s(%s) -> %s%s" % (f["cls"] + "." if f["cls"] else "", f["name"], ps,
                                           show(s["ret"]), exc))
  return " ; ".join(out)

"""C20 helpers: rendering of MergePyi.tla slot tables to (.py, .pyi) pairs, running the real
merge_pyi.merge_sources, and recording what it produced as annotation *sites* plus the digest
of the annotation-free syntax tree.  No verdicts here: TraceC20.tla judges the records.

A site is one place that carries an annotation:
  id   stable identity inside the annotation-free tree ("<n>:<param>", "<n>:return", "<n>:ann" with
       n = pre-order number of the statement among the statements that survive stripping, or
       "decl:<n of the enclosing statement>:<target>:<occurrence>" for a value-less declaration)
  k    "param" | "ret" | "var" (annotated assignment with a value) | "decl" (without)
  sc   "module" | "class" | "func" (the scope that holds the statement)
  q    qualified name used to find the definition in the stub: "C.f(p)", "C.f()", "C.v"
       ("" for targets that are not plain names)
  q2   positional alias of a positional parameter "C.f(#i)" (the applier matches positional
       parameters by position), else ""
  leaf last component of q for variables, else ""
  a    ast.unparse of the annotation as written
  pk   parameters: "pos" | "kwonly" | "star"; else ""
  u    the same with string quotes removed and every name resolved through the document's
       imports (typing.Any, collections.OrderedDict, ...), so that `from m import X` / `m.X`
       spellings of one type compare equal
"""
import ast
import hashlib
import random


# ---------------------------------------------------------------------------------------------
# documents -> sites, stripped digest

def import_entries(st):
  if isinstance(st, ast.Import):
    return [("import", a.name, a.asname or "") for a in st.names]
  return [("from", st.level, st.module or "", a.name, a.asname or "") for a in st.names]


def import_map(tree):
  """local name -> dotted origin, for every import statement of the document."""
  m = {}
  for st in ast.walk(tree):
    if isinstance(st, ast.Import):
      for a in st.names:
        if a.asname:
          m[a.asname] = a.name
    elif isinstance(st, ast.ImportFrom):
      for a in st.names:
        if a.name != "*":
          m[a.asname or a.name] = "." * st.level + (st.module or "") + "." + a.name
  return m


class _Qualify(ast.NodeTransformer):
  def __init__(self, imap):
    self.imap = imap

  def visit_Name(self, node):
    dotted = self.imap.get(node.id)
    if dotted is None or dotted.startswith("."):
      return node
    parts = dotted.split(".")
    out = ast.Name(id=parts[0], ctx=ast.Load())
    for p in parts[1:]:
      out = ast.Attribute(value=out, attr=p, ctx=ast.Load())
    return out


def texts(ann, imap):
  """(a, u) of an annotation expression."""
  a = ast.unparse(ann)
  node = ann
  if isinstance(ann, ast.Constant) and isinstance(ann.value, str):
    try:
      node = ast.parse(ann.value, mode="eval").body
    except SyntaxError:
      return a, a
  node = _Qualify(imap).visit(ast.parse(ast.unparse(node), mode="eval").body)
  return a, ast.unparse(node)


def is_typevar_assign(st):
  if not (isinstance(st, ast.Assign) and len(st.targets) == 1 and isinstance(st.targets[0], ast.Name)
          and isinstance(st.value, ast.Call)):
    return None
  f = st.value.func
  name = f.id if isinstance(f, ast.Name) else f.attr if isinstance(f, ast.Attribute) else ""
  return st.targets[0].id if name == "TypeVar" else None


def _is_generic_base(b):
  if not isinstance(b, ast.Subscript):
    return False
  v = b.value
  return (isinstance(v, ast.Name) and v.id == "Generic") or (isinstance(v, ast.Attribute) and v.attr == "Generic")


class Doc:
  """Sites and annotation-free digest of one source text.

  align_to: None, or the `top` list of the original's Doc.  The module-level statements of this
  document are then walked side by side with the original's: an import statement that is not the
  original's next statement (possibly extended by more names) was added and is dropped, names
  added to an original import statement are dropped, and so is a top-level `X = TypeVar(...)`
  with X in drop_typevars that is not the original's next statement."""

  def __init__(self, src, align_to=None, drop_typevars=(), drop_classes=(), drop_generic=False):
    self.tree = ast.parse(src)
    # module-level statements that survive stripping: import entries (or None) of each
    self.top = [import_entries(st) if isinstance(st, (ast.Import, ast.ImportFrom)) else
                ("typevar:" + is_typevar_assign(st)) if is_typevar_assign(st) else None
                for st in self.tree.body if not (isinstance(st, ast.AnnAssign) and st.value is None)]
    self._align = align_to
    self._at = 0
    self.imap = import_map(self.tree)
    self.sites = []
    self.n = 0
    self.dropped_imports = []
    self.dropped_typevars = []
    self.typevars = [n for n in (is_typevar_assign(st) for st in self.tree.body) if n]
    self.docstring = ast.get_docstring(self.tree, clean=False) or ""
    self._drop_tv = set(drop_typevars)
    self._drop_cls = set(drop_classes)
    self._drop_generic = drop_generic
    self.generic_classes = []
    self.dropped_classes = []
    self.classes = [st.name for st in self.tree.body if isinstance(st, ast.ClassDef)]
    self.tree.body = self._block(self.tree.body, "module", [], 0, top=True)
    self.dump = ast.dump(self.tree)
    self.digest = hashlib.sha1(self.dump.encode()).hexdigest()[:16]

  def _site(self, sid, k, sc, q, q2, leaf, ann, pk=""):
    a, u = texts(ann, self.imap)
    self.sites.append({"id": sid, "k": k, "sc": sc, "q": q, "q2": q2, "leaf": leaf, "a": a, "u": u, "pk": pk})

  def _func(self, st, sid, q):
    fq = ".".join(q + [st.name])
    a = st.args
    pos = list(a.posonlyargs) + list(a.args)
    for i, p in enumerate(pos):
      if p.annotation is not None:
        self._site("%d:%s" % (sid, p.arg), "param", "func", "%s(%s)" % (fq, p.arg), "%s(#%d)" % (fq, i), "",
                   p.annotation, "pos")
        p.annotation = None
    for p in list(a.kwonlyargs) + [x for x in (a.vararg, a.kwarg) if x is not None]:
      if p.annotation is not None:
        self._site("%d:%s" % (sid, p.arg), "param", "func", "%s(%s)" % (fq, p.arg), "", "", p.annotation,
                   "kwonly" if p in a.kwonlyargs else "star")
        p.annotation = None
    if st.returns is not None:
      self._site("%d:return" % sid, "ret", "func", fq + "()", "", "", st.returns)
      st.returns = None

  def _block(self, body, sc, q, owner, top=False):
    out = []
    decls = {}
    for st in body:
      if top and self._align is not None and not (isinstance(st, ast.AnnAssign) and st.value is None):
        nxt = self._align[self._at] if self._at < len(self._align) else None
        if isinstance(st, (ast.Import, ast.ImportFrom)):
          mine = import_entries(st)
          if isinstance(nxt, list) and nxt and all(e in mine for e in nxt):
            rest = list(nxt)
            kept = []
            for alias, e in zip(st.names, mine):
              if e in rest:
                rest.remove(e)
                kept.append(alias)
              else:
                self.dropped_imports.append(list(e))
            st.names = kept
          else:
            self.dropped_imports += [list(e) for e in mine]
            continue
        elif is_typevar_assign(st) in self._drop_tv and nxt != "typevar:" + is_typevar_assign(st):
          self.dropped_typevars.append(is_typevar_assign(st))
          continue
        elif isinstance(st, ast.ClassDef) and st.name in self._drop_cls:
          self.dropped_classes.append(st.name)
          continue
        self._at += 1
      if isinstance(st, ast.AnnAssign) and st.value is None:
        tgt = ast.unparse(st.target)
        decls[tgt] = decls.get(tgt, 0) + 1
        name = st.target.id if isinstance(st.target, ast.Name) else ""
        self._site("decl:%d:%s:%d" % (owner, tgt, decls[tgt]), "decl", sc,
                   ".".join(q + [name]) if name else "", "", name, st.annotation)
        continue
      self.n += 1
      sid = self.n
      if isinstance(st, ast.AnnAssign):
        name = st.target.id if isinstance(st.target, ast.Name) else ""
        self._site("%d:ann" % sid, "var", sc, ".".join(q + [name]) if name else "", "", name, st.annotation)
        st = ast.copy_location(ast.Assign(targets=[st.target], value=st.value), st)
      elif isinstance(st, (ast.FunctionDef, ast.AsyncFunctionDef)):
        self._func(st, sid, q)
        st.body = self._block(st.body, "func", q + [st.name], sid)
      elif isinstance(st, ast.ClassDef):
        if self._drop_generic:
          keep = [b for b in st.bases if not _is_generic_base(b)]
          if len(keep) != len(st.bases):
            self.generic_classes.append(".".join(q + [st.name]))
            st.bases = keep
        st.body = self._block(st.body, "class", q + [st.name], sid)
      else:
        for field, val in ast.iter_fields(st):
          if isinstance(val, list) and val:
            if isinstance(val[0], ast.stmt):
              setattr(st, field, self._block(val, sc, q, sid))
            elif isinstance(val[0], (ast.ExceptHandler, ast.match_case)):
              for h in val:
                h.body = self._block(h.body, sc, q, sid)
      out.append(st)
    return out


def stub_sites(pyi):
  """Sites of the stub; positional parameters are listed under their name and their position."""
  d = Doc(pyi)
  out = []
  for s in d.sites:
    out.append(s)
    if s["q2"]:
      t = dict(s)
      t["q"], t["q2"] = s["q2"], ""
      out.append(t)
  return out, d


def observe(py, pyi, merge):
  """Run merge(py=, pyi=) and record the case for TraceC20.tla (plus the merged text)."""
  orig = Doc(py)
  ssites, sdoc = stub_sites(pyi)
  case = {"err": "", "compiles": True, "d0": orig.digest, "d1": "", "e0": "", "e1": "", "added_classes": [],
          "added_generic": [],
          "orig": orig.sites, "stub": ssites, "out": [], "info": {}}
  try:
    merged = merge(py=py, pyi=pyi)
  except Exception as e:  # pylint: disable=broad-except
    case["err"] = ("%s: %s" % (type(e).__name__, e))[:300] or "error"
    case["compiles"] = False
    return case, ""
  try:
    compile(merged, "<merged>", "exec", dont_inherit=True)
    md = Doc(merged, align_to=orig.top, drop_typevars=sdoc.typevars)
  except (SyntaxError, ValueError) as e:
    case["compiles"] = False
    case["err"] = ""
    case["info"] = {"syntax": str(e)[:200]}
    return case, merged
  case["d1"] = md.digest
  dropped_imports, dropped_typevars = md.dropped_imports, md.dropped_typevars
  if md.digest != orig.digest:
    # attribution only: the digests once more without the top-level classes that only the stub
    # defines and without Generic[...] bases (what the applier adds besides annotations)
    only_stub = [c for c in sdoc.classes if c not in orig.classes]
    o2 = Doc(py, drop_generic=True)
    md2 = Doc(merged, align_to=orig.top, drop_typevars=sdoc.typevars, drop_classes=only_stub, drop_generic=True)
    case["e0"], case["e1"] = o2.digest, md2.digest
    case["added_classes"] = md2.dropped_classes
    rest = list(o2.generic_classes)
    for c in md2.generic_classes:
      if c in rest:
        rest.remove(c)
      else:
        case["added_generic"].append(c)
    if md2.digest == o2.digest:
      # sites of the inserted classes are not sites of the program; ids are those of the trees that agree
      md = md2
      case["orig"] = o2.sites
  case["out"] = md.sites
  case["info"] = {"imports_added": dropped_imports, "typevars_added": dropped_typevars,
                  "docstring_displaced": orig.docstring != md.docstring, "changed": merged != py}
  return case, merged


# ---------------------------------------------------------------------------------------------
# slot tables -> programs

T_POOL = ["list[int]", "Dict[str, int]", "Optional[int]", "K0", "_T", "Callable[[int], str]", "os.PathLike"]
U_POOL = ["set[str]", "Tuple[int, str]", "bytes", "Sequence[int]", "K1"]
TRIV = ["int", "str", "float", "bool", "complex"]
TYPING = ("Dict", "Optional", "Callable", "Tuple", "Sequence", "Any", "Never", "Literal", "TypeVar")


def _needs(texts_):
  """typing names / helper definitions needed by a list of annotation texts."""
  names = set()
  for t in texts_:
    for n in TYPING:
      if t.startswith(n) or ("[" + n) in t or (", " + n) in t:
        if not t.startswith("typing."):
          names.add(n)
  return names


def render(t, rng, qualified_any=False):
  """(py, pyi, names, leaves): one program / stub pair for table t.  names[k] = q of slot k+1."""
  T = rng.choice(T_POOL)
  U = rng.choice(U_POOL)
  triv = rng.choice(TRIV)
  lit = rng.choice(["Literal[1]", "Literal['a']", "Literal[1, 2]"])
  anyt = "typing.Any" if qualified_any else "Any"
  nevt = "typing.Never" if qualified_any else "Never"

  def stub_text(st):
    return {"T": T, "U": U, "Any": anyt, "Never": nevt, "triv": triv, "Lit": lit}[st]

  def ex_text(ex):
    # what the author wrote: his own Any / Never are always spelled bare, QAny is typing.Any
    return {"T": T, "Any": "Any", "Never": "Never", "QAny": "typing.Any"}[ex]

  slots = t["slots"]
  fslots = [s for s in slots if s["kind"] in ("param", "ret")]
  src_ann, stub_ann = [], []
  names, leaves = [], []
  py_head, py_body, py_tail = [], [], []
  pyi_body = []
  # ---- the function
  if fslots:
    fl = t["fl"]
    params = [s for s in fslots if s["kind"] == "param"]
    ret = [s for s in fslots if s["kind"] == "ret"][0]
    in_class = fl in ("method", "static")
    fq = "C0.f" if in_class else ("outer.f" if fl == "nested" else "f")
    sp, tp = [], []       # source / stub parameter texts
    if fl == "method":
      sp.append("self")
      tp.append("self")
    star_seen = False
    last = len(params) - 1
    for n, s in enumerate(params):
      name = "p%d" % (n + 1)
      names.append("%s(%s)" % (fq, name))
      leaves.append("")
      e = ": " + ex_text(s["ex"]) if s["ex"] != "none" else ""
      if s["ex"] != "none":
        src_ann.append(ex_text(s["ex"]))
      a = ""
      if s["st"] != "none":
        a = ": " + stub_text(s["st"])
        stub_ann.append(stub_text(s["st"]))
      if s["ctx"] == "plain":
        sp.append(name + e)
        tp.append(name + a)
      elif s["ctx"] == "default":
        sp.append("%s%s = None" % (name, e) if e else name + "=None")
        tp.append("%s%s = ..." % (name, a) if a else name + "=...")
      elif s["ctx"] == "star":
        stars = "**" if (n == last and rng.random() < 0.4) else "*"
        star_seen = star_seen or stars == "*"
        sp.append(stars + name + e)
        tp.append(stars + name + a)
      else:
        if not star_seen:
          sp.append("*")
          tp.append("*")
          star_seen = True
        sp.append(name + e)
        tp.append(name + a)
    if not t["am"]:
      # a different parameter shape in the stub: one more positional parameter in front
      at = 1 if fl == "method" else 0
      tp.insert(at, "extra")
    names.append(fq + "()")
    leaves.append("")
    re_ = " -> " + ex_text(ret["ex"]) if ret["ex"] != "none" else ""
    if ret["ex"] != "none":
      src_ann.append(ex_text(ret["ex"]))
    ra = ""
    if ret["st"] != "none":
      ra = " -> " + stub_text(ret["st"])
      stub_ann.append(stub_text(ret["st"]))
    kw = "async def" if fl == "async" else "def"
    skw = "async def" if fl == "async" and rng.random() < 0.5 else "def"
    body = rng.choice(["return None", "pass", '"""doc."""\n%sreturn None'])
    sdef = "%s f(%s)%s:" % (kw, ", ".join(sp), re_)
    tdef = "%s f(%s)%s: ..." % (skw, ", ".join(tp), ra)
    if in_class:
      deco = ["  @staticmethod"] if fl == "static" else []
      py_body += ["class C0:", "  c0 = 0"] + deco + ["  " + sdef, "    " + body.replace("%s", "    ")]
      pyi_body += ["class C0:", "  c0: int"] + deco + ["  " + tdef]
    elif fl == "nested":
      py_body += ["def outer():", "  " + sdef, "    " + body.replace("%s", "    "), "  return f"]
      pyi_body += ["def outer(): ...", tdef]
    else:
      if fl == "decorated":
        py_body += ["def deco(fn):", "  return fn", "@deco"]
        pyi_body += ["def deco(fn): ..."]
      py_body += [sdef, "  " + body.replace("%s", "  ")]
      pyi_body += [tdef]
  # ---- variables
  cls_py, cls_pyi = [], []
  nv = 0
  for s in slots:
    if s["kind"] not in ("modvar", "clsvar"):
      continue
    nv += 1
    cls = s["kind"] == "clsvar"
    name = ("cv%d" if cls else "mv%d") % nv
    names.append(("K." if cls else ("h%d." % nv) if s["ctx"] == "localann" else "") + name)
    leaves.append(name)
    ind = "  " if cls else ""
    val = rng.choice(["0", "None", "[]", "make()"])
    if s["st"] != "none":
      (cls_pyi if cls else pyi_body).append("%s%s: %s" % (ind, name, stub_text(s["st"])))
      stub_ann.append(stub_text(s["st"]))
    c = s["ctx"]
    if c == "assign":
      lines = ["%s = %s" % (name, val)]
    elif c == "annotated":
      lines = ["%s: %s = %s" % (name, ex_text(s["ex"]), val)]
      src_ann.append(ex_text(s["ex"]))
    elif c == "decl":     # a value-less declaration the author wrote (module level or class body)
      lines = ["%s: %s" % (name, ex_text(s["ex"]))]
      src_ann.append(ex_text(s["ex"]))
    elif c == "localann":   # an annotated local; the stub describes a module variable of that name
      lines = ["def h%d():" % nv, "  %s: %s = %s" % (name, ex_text(s["ex"]), val), "  return %s" % name]
      src_ann.append(ex_text(s["ex"]))
    elif c == "tuple":
      lines = ["%s, %s_b = %s, 1" % (name, name, val)]
    elif c == "multi":
      lines = ["%s = %s_b = %s" % (name, name, val)]
    elif c == "reassign":
      lines = ["%s = %s" % (name, val), "%s = 1" % name]
    else:   # infunc: a local of a function; the stub describes a module variable of that name
      lines = ["def h%d():" % nv, "  %s = %s" % (name, val), "  return %s" % name]
    (cls_py if cls else py_body).extend(ind + x for x in lines)
  if cls_py:
    py_body += ["class K:", "  k0 = 0"] + cls_py
    pyi_body += ["class K:", "  k0: int"] + (cls_pyi or [])
  # ---- heads: imports, helper definitions
  def head(anns, stub):
    h = []
    ty = sorted(_needs(anns) - {"TypeVar"})
    if "_T" in anns:
      ty = sorted(set(ty) | {"TypeVar"})
    if ty:
      h.append("from typing import " + ", ".join(ty))
    if any(a.startswith("typing.") for a in anns):
      h.append("import typing")
    if "os.PathLike" in anns:
      h.append("import os")
    if "_T" in anns:
      h.append('_T = TypeVar("_T")')
    return h
  doc = rng.random() < 0.5
  py_head = (['"""Module docstring."""'] if doc else []) + (["import sys"] if rng.random() < 0.3 else [])
  py_head += head(src_ann, False)
  py_head += ["def make():", "  return 0"]
  k_first = rng.random() < 0.5 or "K0" in src_ann or "K1" in src_ann
  kdefs = ["class K0:", "  pass", "class K1:", "  pass"]
  pyi_head = head(stub_ann, True) + ["class K0: ...", "class K1: ..."]
  # a definition outside the table that gets an annotation or not (with none, a merge that applies
  # nothing must return the text unchanged)
  pyi_head += [rng.choice(["def make() -> int: ...", "def make(): ..."])]
  py = "\n".join(py_head + (kdefs if k_first else []) + py_body + ([] if k_first else kdefs)) + "\n"
  pyi = "\n".join(pyi_head + pyi_body) + "\n"
  return py, pyi, names, leaves


def rng_for(seed, t, variant=0):
  import json
  return random.Random("%d|%d|%s" % (seed, variant, json.dumps(t, sort_keys=True)))

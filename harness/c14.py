"""C14 - errors on fully known code are real, and plain type mistakes are caught.

OpDispatch.tla specifies operator / attribute / call dispatch: builtin-operand outcomes are data
probed from CPython (tables passed as constants), anything involving a generated user class is
computed by the data-model protocol in TLA+.  TLC enumerates the statement grammar and predicts
every outcome.  spec -> CPython: each statement is executed in isolation and must behave as the
spec says (clause `oracle`, exit 2 otherwise).  spec -> pytype: statements are batched into
straight-line modules, one per line; code -> spec: TLC (TraceC14.tla) judges the flags.
"""
import argparse
import json
import os
import sys

sys.path.insert(0, os.path.dirname(os.path.abspath(__file__)))
import boot  # noqa: E402
import common  # noqa: E402
import pyt  # noqa: E402
import tlc  # noqa: E402

PID = "C14"

BUILTINS = {
    "int": "1", "bool": "True", "float": "1.5", "complex": "2j", "str": '"s"', "bytes": 'b"b"',
    "NoneType": "None", "list": "[1]", "tuple": "(1,)", "dict": "{1: 2}", "set": "{1}",
    "frozenset": "frozenset({1})", "bytearray": 'bytearray(b"b")', "len": "len",
}
ATTR_NAMES = ["real", "upper", "append", "keys", "zz", "count", "add"]
SUB_INDEX = {"int": "0", "str": '"k"'}
USER_SRC = '''class U0: pass
class Ua:
  def __add__(self, other): return 1
class Uan:
  def __add__(self, other): return NotImplemented
class Ur:
  def __radd__(self, other): return 1
class Urn:
  def __radd__(self, other): return NotImplemented
class Uar:
  def __add__(self, other): return 1
  def __radd__(self, other): return 1
class Uanr:
  def __add__(self, other): return NotImplemented
  def __radd__(self, other): return 1
class Sa(Uan): pass
class Sr(Uan):
  def __radd__(self, other): return 1
class Un:
  def __neg__(self): return 1
class Ug:
  def __getitem__(self, k): return 1
class Uc:
  def __call__(self): return 1
class Uga:
  def __getattr__(self, name): return 1
class Um:
  a = 1
  def m(self): return 1
class Sm(Um): pass
'''
USERS = ["U0", "Ua", "Uan", "Ur", "Urn", "Uar", "Uanr", "Sa", "Sr", "Un", "Ug", "Uc", "Uga", "Um",
         "Sm"]


def operand_src(name):
  return BUILTINS[name] if name in BUILTINS else "%s()" % name


def stmt_src(s):
  kind, op, l, r = s
  a = "v_" + l
  b = "v_" + r
  if kind == "bin":
    return "%s %s %s" % (a, op, b)
  if kind == "unary":
    return "-%s" % a
  if kind == "sub":
    return "%s[%s]" % (a, SUB_INDEX[r])
  if kind == "attr":
    return "%s.%s" % (a, op)
  if kind == "meth":
    return "%s.%s()" % (a, op)
  if kind == "call":
    return "%s()" % a
  raise ValueError(s)


def prelude():
  lines = USER_SRC.rstrip("\n").split("\n")
  for n in list(BUILTINS) + USERS:
    lines.append("v_%s = %s" % (n, operand_src(n)))
  return lines


def cpython_outcome(src, env):
  try:
    exec(compile(src, "<stmt>", "exec"), dict(env))  # pylint: disable=exec-used
    return "ok"
  except TypeError:
    return "TypeError"
  except AttributeError:
    return "AttributeError"
  except Exception:  # pylint: disable=broad-except
    return "other"


def probe_tables():
  env = {}
  exec("\n".join(prelude()), env)  # pylint: disable=exec-used
  B = list(BUILTINS)
  t = {"Bin": [], "Unary": [], "Sub": [], "Attr": [], "Meth": [], "Call": []}
  for op in "+-*/":
    for l in B:
      for r in B:
        t["Bin"].append((op, l, r, cpython_outcome(stmt_src(("bin", op, l, r)), env)))
  for l in B:
    t["Unary"].append((l, cpython_outcome(stmt_src(("unary", "-", l, l)), env)))
    t["Call"].append((l, cpython_outcome(stmt_src(("call", "()", l, l)), env)))
    for r in SUB_INDEX:
      t["Sub"].append((l, r, cpython_outcome(stmt_src(("sub", "[]", l, r)), env)))
    for n in ATTR_NAMES:
      t["Attr"].append((l, n, cpython_outcome(stmt_src(("attr", n, l, l)), env)))
      t["Meth"].append((l, n, cpython_outcome(stmt_src(("meth", n, l, l)), env)))
  return t, env


def write_tables(t):
  d = tlc.scratch("c14tables")
  p = os.path.join(d, "tables.json")
  with open(p, "w") as f:
    json.dump({"builtins": list(BUILTINS), "bin": t["Bin"], "unary": t["Unary"], "sub": t["Sub"],
               "attr": t["Attr"], "meth": t["Meth"], "call": t["Call"],
               "attrnames": ATTR_NAMES}, f)
  return d, p


def analyse_chunk(src):
  r = pyt.analyze(src)
  return (r["outcome"], r["errors"], r["exc"])


def main():
  ap = argparse.ArgumentParser()
  ap.add_argument("--tier", default="quick")
  ap.add_argument("--replay")
  a = ap.parse_args()
  run = common.Run(PID, "model_checking", a.tier)
  boot.boot()
  tables, env = probe_tables()
  tdir, tpath = write_tables(tables)
  import atexit
  import shutil
  atexit.register(shutil.rmtree, tdir, True)
  r = tlc.run("OpDispatch", "SPECIFICATION Spec\nCONSTANT Export = TRUE\n"
              "INVARIANT Total\nINVARIANT ReflectedOnlyAfterDecline\nINVARIANT ExportInv\n",
              workers=1, timeout=1800, env={"OP_TABLES": tpath})
  if r.violated:
    raise common.Machinery("OpDispatch.tla: %s violated\n%s" % (r.violated, r.error_trace[:2000]))
  run.put("states", r.distinct)
  run.put("transitions", r.generated)
  stmts = sorted(r.cases, key=lambda c: json.dumps(c["s"]))
  common.require(len(stmts) > 1000, "only %d statements" % len(stmts))
  if a.replay:
    with open(a.replay) as f:
      want = json.load(f)["case"]["s"]
    stmts = [c for c in stmts if c["s"] == want]
  pre = prelude()
  # spec -> CPython
  for c in stmts:
    c["py"] = cpython_outcome(stmt_src(c["s"]), env)
  # spec -> pytype: chunks of statements, one per line
  chunk = 120
  jobs = []
  for off in range(0, len(stmts), chunk):
    part = stmts[off:off + chunk]
    lines = list(pre)
    where = {}
    for k, c in enumerate(part):
      lines.append("x%d = %s" % (k, stmt_src(c["s"])) if c["s"][0] != "call" or True else "")
      where[len(lines)] = off + k
    jobs.append(("\n".join(lines) + "\n", where))
  results = pyt.batch(analyse_chunk, [j[0] for j in jobs], procs=8, chunksize=1)
  flagged = {}
  names = {}
  for (src, where), (outcome, errors, exc) in zip(jobs, results):
    if outcome != "result":
      raise common.Machinery("pytype failed on a C14 module: %s %s" % (outcome, exc[-600:]))
    for name, line, msg in errors:
      if line in where:
        flagged[where[line]] = name
        names[name] = names.get(name, 0) + 1
      else:
        raise common.Machinery("pytype reports an error outside the statements: line %s %s %s" % (
            line, name, msg[:200]))
  cases = [{"s": c["s"], "py": c["py"], "flagged": k in flagged} for k, c in enumerate(stmts)]
  nv, bad, rr = tlc.validate_cases(
      "TraceC14", cases, cfg="INIT TInit\nNEXT TNext\nCONSTANT Export = FALSE\n"
      "INVARIANT Ok\nPOSTCONDITION Done\n", timeout=1800, env={"OP_TABLES": tpath})
  common.require(bad is None, "TraceC14 invariant cannot fail")
  run.put("traces_validated_against_impl", nv)
  run.put("evaluations", nv)
  run.put("flag_names", names)
  run.put("statements_raising", sum(1 for c in cases if c["py"] in ("TypeError", "AttributeError")))
  run.put("statements_flagged", len(flagged))
  run.put("advertised", sum(1 for c in stmts if c["adv"]))
  run.put("distinct_nontrivial", sum(1 for c in cases if c["py"] != "ok"))
  run.put("rule", "one case = one statement of the grammar; non-trivial = raises under CPython")
  run.put("exhaustive", True)
  common.require(run.cov["statements_raising"] > 200 and run.cov["statements_flagged"] > 200,
                 "vacuity")
  run.sample({"stmt": stmt_src(cases[len(cases) // 3]["s"]), "py": cases[len(cases) // 3]["py"],
              "flagged": cases[len(cases) // 3]["flagged"]})
  for rec in tlc.parse_cases(rr.out, "BAD"):
    c = cases[rec["i"] - 1]
    for f in rec["fails"]:
      if f == "oracle":
        raise common.Machinery("spec/CPython disagree on %s: CPython %s" % (stmt_src(c["s"]), c["py"]))
      kind, op, l, r = c["s"]
      if kind == "bin":
        shape = "%s %s %s" % (l, op, r)
      elif kind in ("attr", "meth"):
        shape = "%s.%s%s" % (l, op, "()" if kind == "meth" else "")
      elif kind == "sub":
        shape = "%s[%s]" % (l, r)
      else:
        shape = "%s%s" % (op if kind == "unary" else "", l) + ("()" if kind == "call" else "")
      run.violation("C14:%s:%s" % (f, shape),
                    "%s: `%s` %s under CPython, pytype %s" % (
                        f, stmt_src(c["s"]).replace("v_", ""), c["py"],
                        "reports [%s]" % flagged.get(rec["i"] - 1) if c["flagged"] else "reports nothing"),
                    {"s": c["s"], "py": c["py"], "flagged": c["flagged"]})
  return run.finish()


if __name__ == "__main__":
  common.main(PID, main)

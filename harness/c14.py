"""C14 - errors on fully known code are real, and plain type mistakes are caught.

OpDispatch.tla specifies operator / attribute / call dispatch: builtin-operand outcomes are data
probed from CPython (tables passed as constants), anything involving a generated user class is
computed by the data-model protocol in TLA+.  TLC enumerates the statement grammar and predicts
every outcome.  spec -> CPython: each statement is executed in isolation and must behave as the
spec says (clause `oracle`, exit 2 otherwise).  spec -> pytype: statements are batched into
straight-line modules, one per line; code -> spec: TLC (TraceC14.tla) judges the flags.

History family (OpDispatch.tla actions Bind / Rebind / Use): a location - an instance attribute
first assigned in __init__, or a module-level name - is assigned up to three operand kinds in
turn and read as an operand after every assignment; the spec's operand kind is the last assigned
one.  The plans are partitioned by the spec into HSLICES fixed slices: quick explores the slice
VERIF_SEED mod HSLICES, thorough all of them (so a quick run of any seed replays a subset of what
a thorough run replays).  One program per (location kind, plan); CPython executes it line by
line, pytype analyses it inside a batch module, TraceC14.tla walks the lines in program order
advancing the spec state with the spec's own actions and judges every line both ways.
"""
import argparse
import json
import os
import sys

sys.path.insert(0, os.path.dirname(os.path.abspath(__file__)))
import boot  # noqa: E402
import common  # noqa: E402
import pyt  # noqa: E402
import tlc  # noqa: E402

PID = "C14"

BUILTINS = {
    "int": "1", "bool": "True", "float": "1.5", "complex": "2j", "str": '"s"', "bytes": 'b"b"',
    "NoneType": "None", "list": "[1]", "tuple": "(1,)", "dict": "{1: 2}", "set": "{1}",
    "frozenset": "frozenset({1})", "bytearray": 'bytearray(b"b")', "len": "len",
}
ATTR_NAMES = ["real", "upper", "append", "keys", "zz", "count", "add"]
SUB_INDEX = {"int": "0", "str": '"k"'}
USER_SRC = '''class U0: pass
class Ua:
  def __add__(self, other): return 1
class Uan:
  def __add__(self, other): return NotImplemented
class Ur:
  def __radd__(self, other): return 1
class Urn:
  def __radd__(self, other): return NotImplemented
class Uar:
  def __add__(self, other): return 1
  def __radd__(self, other): return 1
class Uanr:
  def __add__(self, other): return NotImplemented
  def __radd__(self, other): return 1
class Sa(Uan): pass
class Sr(Uan):
  def __radd__(self, other): return 1
class Un:
  def __neg__(self): return 1
class Ug:
  def __getitem__(self, k): return 1
class Uc:
  def __call__(self): return 1
class Uga:
  def __getattr__(self, name): return 1
class Um:
  a = 1
  def m(self): return 1
class Sm(Um): pass
'''
USERS = ["U0", "Ua", "Uan", "Ur", "Urn", "Uar", "Uanr", "Sa", "Sr", "Un", "Ug", "Uc", "Uga", "Um",
         "Sm"]


def operand_src(name):
  return BUILTINS[name] if name in BUILTINS else "%s()" % name


def stmt_src(s):
  kind, op, l, r = s
  a = "v_" + l
  b = "v_" + r
  if kind == "bin":
    return "%s %s %s" % (a, op, b)
  if kind == "unary":
    return "-%s" % a
  if kind == "sub":
    return "%s[%s]" % (a, SUB_INDEX[r])
  if kind == "attr":
    return "%s.%s" % (a, op)
  if kind == "meth":
    return "%s.%s()" % (a, op)
  if kind == "call":
    return "%s()" % a
  raise ValueError(s)


def prelude():
  lines = USER_SRC.rstrip("\n").split("\n")
  for n in list(BUILTINS) + USERS:
    lines.append("v_%s = %s" % (n, operand_src(n)))
  return lines


def cpython_outcome(src, env):
  try:
    exec(compile(src, "<stmt>", "exec"), dict(env))  # pylint: disable=exec-used
    return "ok"
  except TypeError:
    return "TypeError"
  except AttributeError:
    return "AttributeError"
  except Exception:  # pylint: disable=broad-except
    return "other"


def probe_tables():
  env = {}
  exec("\n".join(prelude()), env)  # pylint: disable=exec-used
  B = list(BUILTINS)
  t = {"Bin": [], "Unary": [], "Sub": [], "Attr": [], "Meth": [], "Call": []}
  for op in "+-*/":
    for l in B:
      for r in B:
        t["Bin"].append((op, l, r, cpython_outcome(stmt_src(("bin", op, l, r)), env)))
  for l in B:
    t["Unary"].append((l, cpython_outcome(stmt_src(("unary", "-", l, l)), env)))
    t["Call"].append((l, cpython_outcome(stmt_src(("call", "()", l, l)), env)))
    for r in SUB_INDEX:
      t["Sub"].append((l, r, cpython_outcome(stmt_src(("sub", "[]", l, r)), env)))
    for n in ATTR_NAMES:
      t["Attr"].append((l, n, cpython_outcome(stmt_src(("attr", n, l, l)), env)))
      t["Meth"].append((l, n, cpython_outcome(stmt_src(("meth", n, l, l)), env)))
  return t, env


def write_tables(t):
  d = tlc.scratch("c14tables")
  p = os.path.join(d, "tables.json")
  with open(p, "w") as f:
    json.dump({"builtins": list(BUILTINS), "bin": t["Bin"], "unary": t["Unary"], "sub": t["Sub"],
               "attr": t["Attr"], "meth": t["Meth"], "call": t["Call"],
               "attrnames": ATTR_NAMES}, f)
  return d, p


def analyse_chunk(src):
  r = pyt.analyze(src)
  return (r["outcome"], r["errors"], r["exc"])


HSLICES = 16
BOX_ATTR = "v"


def box_classes():
  lines = []
  for n in list(BUILTINS) + USERS:
    lines += ["class Box_%s:" % n, "  def __init__(self):", "    self.%s = %s" % (BOX_ATTR, operand_src(n))]
  return lines


def loc_src(loc, n):
  return "b%d.%s" % (n, BOX_ATTR) if loc == "attr" else "g%d" % n


def template_src(t, where):
  """Source of a statement template; "@" is the read of the location `where`."""
  kind, op, l, r = t
  a = where if l == "@" else "v_" + l
  b = where if r == "@" else "v_" + r
  if kind == "bin":
    return "%s %s %s" % (a, op, b)
  if kind == "unary":
    return "-%s" % a
  if kind == "sub":
    return "%s[%s]" % (a, SUB_INDEX[r])
  if kind == "call":
    return "%s()" % a
  raise ValueError(t)


def build_programs(hcases):
  """Group the exported Use states by (loc, plan) into programs = lists of events in program
  order: bind, reads after it, rebind, reads after it, ..."""
  groups = {}
  for c in hcases:
    groups.setdefault((c["loc"], tuple(c["plan"])), []).append(c)
  progs = []
  for n, key in enumerate(sorted(groups)):
    loc, plan = key
    where = loc_src(loc, n)
    events = []
    for pos in range(1, len(plan) + 1):
      k = plan[pos - 1]
      if pos == 1:
        src = "b%d = Box_%s()" % (n, k) if loc == "attr" else "%s = %s" % (where, operand_src(k))
      else:
        src = "%s = %s" % (where, operand_src(k))
      events.append({"ev": "bind" if pos == 1 else "rebind", "loc": loc, "k": k,
                     "s": ["assign", "=", "@", k], "src": src, "h": list(plan[:pos - 1])})
      uses = sorted((c for c in groups[key] if len(c["h"]) == pos), key=lambda c: json.dumps(c["s"]))
      for j, c in enumerate(uses):
        common.require(list(c["h"]) == list(plan[:pos]), "history of an exported read is not a prefix")
        events.append({"ev": "use", "loc": loc, "k": "", "s": c["s"], "h": list(c["h"]),
                       "src": "x%d_%d_%d = %s" % (n, pos, j, template_src(c["s"], where)),
                       "spec": c})
    for e in events:
      e["prog"] = len(progs)
    progs.append({"loc": loc, "plan": list(plan), "slice": groups[key][0]["slice"], "events": events})
  return progs


def run_program(events, env):
  """CPython executes the lines of one program in order in one namespace."""
  ns = dict(env)
  for e in events:
    try:
      exec(compile(e["src"], "<prog>", "exec"), ns)  # pylint: disable=exec-used
      e["py"] = "ok"
    except TypeError:
      e["py"] = "TypeError"
    except AttributeError:
      e["py"] = "AttributeError"
    except Exception:  # pylint: disable=broad-except
      e["py"] = "other"


def shape_of(s):
  kind, op, l, r = s
  if kind == "bin":
    return "%s %s %s" % (l, op, r)
  if kind in ("attr", "meth"):
    return "%s.%s%s" % (l, op, "()" if kind == "meth" else "")
  if kind == "sub":
    return "%s[%s]" % (l, r)
  return "%s%s" % (op if kind == "unary" else "", l) + ("()" if kind == "call" else "")


def analyse_modules(jobs):
  """jobs: list of (source, {line: event}); fills event["names"] (error names on its line)."""
  results = pyt.batch(analyse_chunk, [j[0] for j in jobs], procs=8, chunksize=1)
  for (src, where), (outcome, errors, exc) in zip(jobs, results):
    if outcome != "result":
      raise common.Machinery("pytype failed on a C14 module: %s %s" % (outcome, exc[-600:]))
    for name, line, msg in errors:
      if line in where:
        if name not in where[line]["names"]:
          where[line]["names"].append(name)
      else:
        raise common.Machinery("pytype reports an error outside the judged lines: line %s %s %s\n%s" % (
            line, name, msg[:200], src.split("\n")[line - 1] if 0 < line <= src.count("\n") else ""))


def main():
  ap = argparse.ArgumentParser()
  ap.add_argument("--tier", default="quick")
  ap.add_argument("--replay")
  a = ap.parse_args()
  run = common.Run(PID, "model_checking", a.tier)
  boot.boot()
  tables, env = probe_tables()
  tdir, tpath = write_tables(tables)
  import atexit
  import shutil
  atexit.register(shutil.rmtree, tdir, True)
  want = None
  if a.replay:
    with open(a.replay) as f:
      want = json.load(f)["case"]
  if want is not None and want.get("fam") == "hist":
    hslice = want["slice"]
  elif want is not None:
    hslice = None                       # a base statement: no history plan is needed
  else:
    hslice = HSLICES if run.tier == "thorough" else run.seed % HSLICES
  consts = "CONSTANTS Export = %%s\nHSlices = %d\nHSlice = %d\n" % (
      HSLICES, hslice if hslice is not None else 0)
  r = tlc.run("OpDispatch", "SPECIFICATION Spec\n" + consts % "TRUE" +
              "INVARIANT Total\nINVARIANT ReflectedOnlyAfterDecline\nINVARIANT HistoryShape\n"
              "INVARIANT LastWriteWins\nINVARIANT ExportInv\n",
              workers=1, timeout=3000, env={"OP_TABLES": tpath})
  if r.violated:
    raise common.Machinery("OpDispatch.tla: %s violated\n%s" % (r.violated, r.error_trace[:2000]))
  run.put("states", r.distinct)
  run.put("transitions", r.generated)
  run.put("history_slice", "all" if hslice == HSLICES else hslice)
  stmts = sorted((c for c in r.cases if c["fam"] == "base"), key=lambda c: json.dumps(c["s"]))
  hcases = [c for c in r.cases if c["fam"] == "hist"]
  common.require(len(stmts) > 1000, "only %d statements" % len(stmts))
  progs = allprogs = build_programs(hcases)
  if want is not None:
    if want.get("fam") == "hist":
      progs = [p for p in progs if p["loc"] == want["loc"] and p["plan"] == want["plan"]]
      common.require(len(progs) == 1, "the replayed plan is not in the model")
      need = [e["spec"]["rs"] for e in progs[0]["events"] if e["ev"] == "use"]
      stmts = [c for c in stmts if c["s"] in need]
    else:
      progs = []
      stmts = [c for c in stmts if c["s"] == want["s"]]
  pre = prelude()
  # ---- base family.  spec -> CPython: every statement in isolation
  base_events = []
  for c in stmts:
    base_events.append({"ev": "base", "loc": "", "k": "", "s": c["s"], "h": [], "spec": c,
                        "src": stmt_src(c["s"]), "py": cpython_outcome(stmt_src(c["s"]), env)})
  # spec -> pytype: chunks of statements, one per line
  chunk = 120
  jobs = []
  for off in range(0, len(base_events), chunk):
    lines = list(pre)
    where = {}
    for k, e in enumerate(base_events[off:off + chunk]):
      lines.append("x%d = %s" % (k, e["src"]))
      where[len(lines)] = e
    jobs.append(("\n".join(lines) + "\n", where))
  # ---- history family.  spec -> CPython: every program line by line
  pre_h = pre + box_classes()
  env_h = dict(env)
  exec("\n".join(box_classes()), env_h)  # pylint: disable=exec-used
  lines, where, nprog = list(pre_h), {}, 0
  for p in progs:
    run_program(p["events"], env_h)
    for e in p["events"]:
      lines.append(e["src"])
      where[len(lines)] = e
    nprog += 1
    if len(lines) - len(pre_h) >= 300:
      jobs.append(("\n".join(lines) + "\n", where))
      lines, where = list(pre_h), {}
  if where:
    jobs.append(("\n".join(lines) + "\n", where))
  hist_events = [e for p in progs for e in p["events"]]
  events = base_events + hist_events
  for e in events:
    e["names"] = []
  analyse_modules(jobs)
  base_flag = {tuple(e["s"]): bool(e["names"]) for e in base_events}
  cases = []
  for e in events:
    b = ""
    if e["ev"] == "use":
      f = base_flag.get(tuple(e["spec"]["rs"]))
      b = "" if f is None else ("flagged" if f else "clean")
    cases.append({"ev": e["ev"], "loc": e["loc"], "k": e["k"], "s": e["s"], "py": e["py"],
                  "flagged": bool(e["names"]), "names": sorted(e["names"]), "base": b})
  nv, bad, rr = tlc.validate_cases(
      "TraceC14", cases, cfg="INIT TInit\nNEXT TNext\n" + consts % "FALSE" +
      "INVARIANT Ok\nPOSTCONDITION Done\n", timeout=3000, env={"OP_TABLES": tpath})
  common.require(bad is None, "TraceC14 invariant cannot fail")
  names = {}
  for e in events:
    for n in e["names"]:
      names[n] = names.get(n, 0) + 1
  raising = ("TypeError", "AttributeError")
  uses = [e for e in hist_events if e["ev"] == "use"]
  run.put("traces_validated_against_impl", nv)
  run.put("evaluations", nv)
  run.put("flag_names", names)
  run.put("statements_raising", sum(1 for e in base_events if e["py"] in raising))
  run.put("statements_flagged", sum(1 for e in base_events if e["names"]))
  run.put("advertised", sum(1 for e in base_events if e["spec"]["adv"]))
  run.put("history_programs", len(progs))
  run.put("history_assignments", len(hist_events) - len(uses))
  run.put("history_reads", len(uses))
  run.put("history_reads_raising", sum(1 for e in uses if e["py"] in raising))
  run.put("history_reads_flagged", sum(1 for e in uses if e["names"]))
  run.put("history_reads_between_assignments", sum(1 for e in uses if len(e["h"]) < len(e["spec"]["plan"])))
  run.put("history_reads_after_two_rebinds", sum(1 for e in uses if len(e["h"]) == 3))
  for loc in ("attr", "name"):
    mine = [e for e in uses if e["loc"] == loc and e["spec"]["sens"]]
    # the overwritten kind supports the statement, the current one does not (and the mistake is
    # advertised): pytype must flag;  the other way round: pytype must not flag
    run.put("history_%s_must_flag_despite_stale_ok" % loc,
            sum(1 for e in mine if e["spec"]["adv"] and e["py"] in raising))
    run.put("history_%s_must_not_flag_despite_stale_error" % loc,
            sum(1 for e in mine if e["py"] not in raising))
    for kind in ("bin", "unary", "sub", "call"):
      run.put("history_%s_sensitive_%s" % (loc, kind),
              sum(1 for e in mine if e["s"][0] == kind and e["spec"]["adv"]))
  run.put("distinct_nontrivial", sum(1 for e in events if e["py"] != "ok"))
  run.put("rule", "one case = one line (statement of the grammar, or assignment / read of a location "
          "with a history); non-trivial = raises under CPython")
  run.put("exhaustive", True)
  if want is None:
    common.require(run.cov["statements_raising"] > 200 and run.cov["statements_flagged"] > 200,
                   "vacuity")
    common.require(run.cov["history_programs"] >= 60 and run.cov["history_reads"] >= 2000
                   and run.cov["history_reads_flagged"] >= 500
                   and run.cov["history_reads_between_assignments"] >= 100
                   and run.cov["history_reads_after_two_rebinds"] >= 100,
                   "vacuity: history family not exercised: %s" % {
                       k: v for k, v in run.cov.items() if k.startswith("history_")})
    for loc in ("attr", "name"):
      common.require(run.cov["history_%s_must_flag_despite_stale_ok" % loc] >= 100
                     and run.cov["history_%s_must_not_flag_despite_stale_error" % loc] >= 100
                     and all(run.cov["history_%s_sensitive_%s" % (loc, k)] >= 3
                             for k in ("bin", "unary", "sub", "call")),
                     "vacuity: history family (%s) has too few reads that tell the current kind from an "
                     "overwritten one: %s" % (loc, {k: v for k, v in run.cov.items()
                                                   if k.startswith("history_" + loc)}))
  if base_events:
    e = base_events[len(base_events) // 3]
    run.sample({"stmt": e["src"], "py": e["py"], "flagged": bool(e["names"])})
  for p in progs[len(progs) // 3:len(progs) // 3 + 1]:
    run.sample({"program": [e["src"] for e in p["events"]][:12], "py": [e["py"] for e in p["events"]][:12],
                "flagged": [bool(e["names"]) for e in p["events"]][:12]})
  for rec in tlc.parse_cases(rr.out, "BAD"):
    e = events[rec["i"] - 1]
    c = cases[rec["i"] - 1]
    said = "reports [%s]" % ", ".join(c["names"]) if c["flagged"] else "reports nothing"
    for f in rec["fails"]:
      if f in ("oracle", "not-a-behaviour"):
        raise common.Machinery("%s: %s `%s` history %s: CPython %s" % (
            f, e["ev"], e["src"], e["h"], e["py"]))
      if e["ev"] == "base":
        run.violation("C14:%s:%s" % (f, shape_of(e["s"])),
                      "%s: `%s` %s under CPython, pytype %s" % (
                          f, e["src"].replace("v_", ""), e["py"], said),
                      {"s": e["s"], "py": e["py"], "flagged": c["flagged"], "names": c["names"]})
        continue
      payload = {"fam": "hist", "loc": e["loc"], "h": rec["h"], "s": e["s"], "py": e["py"],
                 "flagged": c["flagged"], "names": c["names"], "line": e["src"]}
      p = allprogs[e["prog"]]
      payload.update(plan=p["plan"], slice=p["slice"], program=[])
      for x in p["events"]:
        if x["ev"] != "use" or x is e:
          payload["program"].append(x["src"])
        if x is e:
          break
      told = "%s assigned %s in turn, then `%s`" % (
          "an instance attribute (first in __init__)" if e["loc"] == "attr" else "a module-level name",
          " -> ".join(rec["h"]), e["src"].split(" = ", 1)[-1].replace("v_", ""))
      if e["ev"] != "use":
        run.violation("C14:%s:%s:%s" % (f, e["loc"], e["k"]),
                      "%s: %s: the assignment `%s` is flagged, pytype %s" % (f, told, e["src"], said),
                      payload)
        continue
      shape = shape_of(e["spec"]["rs"])
      key = "C14:%s:%s" % (f, shape) if not f.endswith(("-stale", "-hist")) else \
          "C14:%s:%s:%s" % (f, e["loc"], shape)
      why = {"-stale": " (an overwritten value of the location explains pytype's answer; the same "
                       "statement on a literal operand is judged correctly)",
             "-hist": " (the same statement on a literal operand is judged correctly)"}
      run.violation(key, "%s: %s (%s) %s under CPython, pytype %s%s" % (
          f, told, shape, e["py"], said, "".join(v for k, v in why.items() if f.endswith(k))), payload)
  return run.finish()


if __name__ == "__main__":
  common.main(PID, main)

"""Run the real pytype (from boot.REPO) on source strings; batch helper over processes.

analyze(src, **opts) -> dict(outcome="result"|"compile-error"|"crash", pyi, errors, exc)
  errors: list of [name, line, message] in reported (sorted, unique) order.
batch(fn, items, procs=8): map a top-level function over items in worker processes that have
  booted pytype once (fork after boot is avoided: workers boot themselves).
"""
import os
import sys
import traceback

sys.path.insert(0, os.path.dirname(os.path.abspath(__file__)))
import boot  # noqa: E402

_loader = None
_loader_key = None


def options(input_filename=None, **kw):
  from pytype import config
  kw.setdefault("python_version", (3, 12))
  return config.Options.create(input_filename, **kw)


def analyze(src, reuse_loader=True, check=False, want_ast=False, **optkw):
  """Analyse one source string with io.generate_pyi (inference mode) or check mode."""
  boot.boot()
  from pytype import io as pio
  from pytype import load_pytd
  from pytype.pyc import compiler
  global _loader, _loader_key
  opts = options(**optkw)
  key = repr(sorted(optkw.items()))
  if reuse_loader:
    if _loader is None or _loader_key != key:
      _loader = load_pytd.create_loader(opts)
      _loader_key = key
    loader = _loader
  else:
    loader = load_pytd.create_loader(opts)
  out = {"outcome": "result", "pyi": "", "errors": [], "exc": ""}
  try:
    if check:
      ret = pio.check_py(src, opts, loader)
      pyi = ""
    else:
      ret, pyi = pio.generate_pyi(src, opts, loader)
    out["pyi"] = pyi
    out["errors"] = [[e.name, e.line, e.message] for e in ret.context.errorlog.unique_sorted_errors()]
    if want_ast:
      out["ast"] = ret.ast
      out["ret"] = ret
  except compiler.CompileError as e:
    out["outcome"] = "compile-error"
    out["errors"] = [["python-compiler-error", e.line, e.error]]
  except SyntaxError as e:   # as io.check_or_generate_pyi maps it (incl. IndentationError)
    out["outcome"] = "compile-error"
    out["errors"] = [["python-compiler-error", e.lineno, e.msg]]
  except Exception as e:  # pylint: disable=broad-except
    out["outcome"] = "crash"
    out["exc"] = "%s: %s\n%s" % (type(e).__name__, e, traceback.format_exc()[-1500:])
  return out


def _init_worker(repo, seed):
  os.environ["VERIF_REPO"] = repo
  os.environ["PYTHONHASHSEED"] = os.environ.get("PYTHONHASHSEED", "0")
  sys.setrecursionlimit(10000)
  boot.boot()


def batch(fn, items, procs=8, chunksize=4):
  """Map fn over items in `procs` worker processes (spawned, each boots pytype once)."""
  import multiprocessing as mp
  ctx = mp.get_context("spawn")
  with ctx.Pool(procs, initializer=_init_worker, initargs=(boot.REPO, 0)) as pool:
    return pool.map(fn, items, chunksize=chunksize)


def analyze_file(src, check=False, **optkw):
  """The top-level entry io.check_or_generate_pyi on a virtual file (what the CLI runs).
  Returns dict(outcome="result"|"crash", pyi, errors, exc); compile errors are reported by
  pytype itself as a python-compiler-error entry in errors."""
  boot.boot()
  import io as _io
  from pytype import io as pio
  name = "/verif_virtual/input.py"

  def open_function(path, mode="r", **kw):
    if path == name:
      return _io.StringIO(src) if "b" not in mode else _io.BytesIO(src.encode("utf-8"))
    return open(path, mode, **kw)
  opts = options(name, open_function=open_function, check=check, **optkw)
  out = {"outcome": "result", "pyi": "", "errors": [], "exc": ""}
  try:
    res = pio.check_or_generate_pyi(opts)
    out["pyi"] = res.pyi or ""
    out["errors"] = [[e.name, e.line, e.message] for e in res.context.errorlog.unique_sorted_errors()]
  except Exception as e:  # pylint: disable=broad-except
    out["outcome"] = "crash"
    out["exc"] = "%s: %s\n%s" % (type(e).__name__, e, traceback.format_exc()[-1500:])
  return out


def analyze_errors(src):
  """Picklable convenience for batch(): returns (outcome, errors, pyi, exc)."""
  r = analyze(src)
  return (r["outcome"], r["errors"], r["pyi"], r["exc"])

"""C02 - annotations are enforced exactly: error iff the value is outside the annotated type.

TLC enumerates the annotation grammar and the ground-value grammar of AnnGrammar.tla and checks
the laws that keep the oracle Admits honest.  spec -> CPython: every value expression is evaluated
and re-encoded; it must be the spec's value term (else exit 2).  spec -> pytype: one module per
annotation with every value at the three enforcement sites (argument, return, annotated
assignment), one line each.  code -> spec: TLC (TraceC02.tla) judges every observed
(annotation, value, site, error?) by err <=> ~Admits(ann, val).
"""
import argparse
import json
import os
import random
import sys

sys.path.insert(0, os.path.dirname(os.path.abspath(__file__)))
import boot  # noqa: E402
import common  # noqa: E402
import pyt  # noqa: E402
import terms  # noqa: E402
import tlc  # noqa: E402

PID = "C02"
SITE_ERR = {"arg": "wrong-arg-types", "ret": "bad-return-type", "assign": "annotation-type-mismatch"}
TRACE_CFG = "INIT TInit\nNEXT TNext\nINVARIANT Ok\nPOSTCONDITION Done\n"
MODEL_CFG = "SPECIFICATION Spec\nCONSTANT Export = %s\nINVARIANT Laws\nINVARIANT NonTrivial\nINVARIANT ExportInv\n"


def module_for(ann, vals):
  """Source of the module for one annotation; returns (src, {line: (site, value index)})."""
  a = terms.ann_src(ann)
  lines = [terms.TYPING_IMPORT.rstrip("\n")] + terms.USER_CLASSES.rstrip("\n").split("\n")
  lines += ["def f(x: %s) -> None:" % a, "  pass"]
  where = {}
  for k, v in enumerate(vals):
    lines.append("f(%s)" % terms.val_src(v))
    where[len(lines)] = ("arg", k)
  for k, v in enumerate(vals):
    lines.append("def r%d() -> %s:" % (k, a))
    lines.append("  return %s" % terms.val_src(v))
    where[len(lines)] = ("ret", k)
  for k, v in enumerate(vals):
    lines.append("a%d: %s = %s" % (k, a, terms.val_src(v)))
    where[len(lines)] = ("assign", k)
  return "\n".join(lines) + "\n", where


def run_module(job):
  src = job
  r = pyt.analyze(src)
  return (r["outcome"], r["errors"], r["exc"])


def family(ann, val, kind):
  """Spec-level key of a disagreement: names the root-cause family, not the property."""
  a = terms.ann_src(ann)
  v = terms.val_src(val)
  return "C02:%s:%s~%s" % (kind, v, a)


def main():
  ap = argparse.ArgumentParser()
  ap.add_argument("--tier", default="quick")
  ap.add_argument("--replay")
  a = ap.parse_args()
  run = common.Run(PID, "model_checking", a.tier)
  boot.boot()
  thorough = run.tier == "thorough"
  # 1. the grammar and the oracle's laws (model checking), export of both grammars
  r = tlc.run("AnnGrammar", MODEL_CFG % "TRUE", workers=1, timeout=1800)
  if r.violated:
    raise common.Machinery("AnnGrammar.tla: %s violated:\n%s" % (r.violated, r.error_trace[:2000]))
  run.put("states", r.distinct)
  run.put("transitions", r.generated)
  common.require(len(r.cases) == 1, "grammar export missing")
  anns = sorted(r.cases[0]["anns"], key=json.dumps)
  vals = sorted(r.cases[0]["vals"], key=json.dumps)
  run.put("annotations_in_grammar", len(anns))
  run.put("values_in_grammar", len(vals))
  # 2. spec -> CPython: the value terms are what the expressions really evaluate to
  for v in vals:
    got = terms.encode(terms.eval_value(terms.val_src(v)))
    if terms.canon_val(got) != terms.canon_val(v):
      raise common.Machinery("value oracle: %s evaluates to %s, spec says %s" % (
          terms.val_src(v), got, v))
  if a.replay:
    with open(a.replay) as f:
      case = json.load(f)["case"]
    anns = [case["ann"]]
  elif not thorough:
    rng = random.Random(run.seed)
    scal = [t for t in anns if t[0] in ("any", "cls")]
    rest = [t for t in anns if t[0] not in ("any", "cls")]
    anns = scal + rng.sample(rest, min(len(rest), 110))
  # 3. spec -> pytype
  jobs = []
  for ann in anns:
    src, where = module_for(ann, vals)
    jobs.append((ann, src, where))
  results = pyt.batch(run_module, [j[1] for j in jobs], procs=8, chunksize=2)
  cases = []
  other = {}
  for (ann, src, where), (outcome, errors, exc) in zip(jobs, results):
    if outcome != "result":
      raise common.Machinery("pytype did not analyse the module for %s: %s %s" % (
          terms.ann_src(ann), outcome, exc[-800:]))
    flagged = {}
    for name, line, msg in errors:
      if line in where and name == SITE_ERR[where[line][0]]:
        flagged[line] = True
      else:
        other[name] = other.get(name, 0) + 1
        if name in ("invalid-annotation", "name-error", "import-error", "not-supported-yet"):
          raise common.Machinery("grammar renders an annotation pytype rejects: %s line %s %s %s" % (
              terms.ann_src(ann), line, name, msg[:200]))
    for line, (site, k) in where.items():
      cases.append({"ann": ann, "val": vals[k], "site": site, "err": bool(flagged.get(line))})
  run.put("other_errors", other)
  # 4. code -> spec: TLC judges
  bads = []
  shards = 4 if len(cases) > 30000 else 1
  n = len(cases)
  step = (n + shards - 1) // shards
  import concurrent.futures as cf

  def one(off):
    nv, bad, rr = tlc.validate_cases("TraceC02", cases[off:off + step], cfg=TRACE_CFG,
                                     timeout=3000, heap="6g")
    common.require(bad is None, "TraceC02 invariant cannot fail")
    return nv, [(off + rec["i"] - 1, rec["fails"]) for rec in tlc.parse_cases(rr.out, "BAD")]
  total = 0
  with cf.ThreadPoolExecutor(max_workers=shards) as ex:
    for nv, out in ex.map(one, range(0, n, step)):
      total += nv
      bads += out
  nerr = sum(1 for c in cases if c["err"])
  run.put("traces_validated_against_impl", total)
  run.put("evaluations", total)
  run.put("errors_reported", nerr)
  run.put("modules_analysed", len(jobs))
  run.put("distinct_nontrivial", len({(json.dumps(c["ann"]), json.dumps(c["val"])) for c in cases
                                      if c["ann"][0] not in ("any",)}))
  run.put("rule", "one case = (annotation, value, site); non-trivial = annotation is not Any; "
          "distinct by (annotation, value)")
  run.put("exhaustive", thorough)
  common.require(nerr > 500 and total - nerr > 500, "vacuity: outcomes not mixed")
  run.sample({"ann": terms.ann_src(cases[len(cases) // 2]["ann"]),
              "val": terms.val_src(cases[len(cases) // 2]["val"]),
              "site": cases[len(cases) // 2]["site"], "err": cases[len(cases) // 2]["err"]})
  fams = {}
  for idx, fails in bads:
    c = cases[idx]
    for f in fails:
      key = classify(c, f)
      fams.setdefault(key, []).append(c)
  for key, cs in sorted(fams.items()):
    c = cs[0]
    run.violation(key, "%s: %s for value %s against %s at site(s) %s (%d cases)" % (
        key, "error reported on a conforming value" if "false-positive" in key else "no error reported",
        terms.val_src(c["val"]), terms.ann_src(c["ann"]), sorted({x["site"] for x in cs}), len(cs)),
        {"ann": c["ann"], "val": c["val"], "site": c["site"], "err": c["err"]})
  run.put("disagreement_families", {k: len(v) for k, v in fams.items()})
  return run.finish()


def _contains(t, pred):
  return pred(t) or any(_contains(x, pred) for x in t[2])


def _vcontains(v, pred):
  if pred(v):
    return True
  if v[0] in ("list", "tuple", "set", "frozenset"):
    return any(_vcontains(p, pred) for p in v[1])
  if v[0] == "dict":
    return any(_vcontains(k, pred) or _vcontains(x, pred) for k, x in v[1])
  return False


def classify(c, f):
  """Key = root-cause family (documented in DESIGN.md section 8) or the exact pair."""
  ann, val = c["ann"], c["val"]
  if ":" in f:           # explained by exactly one documented deviation (computed by TLC)
    return "C02:%s" % f
  return "C02:%s:%s~%s@%s" % (f, terms.val_src(val), terms.ann_src(ann), c["site"])


if __name__ == "__main__":
  common.main(PID, main)

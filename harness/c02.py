"""C02 - annotations are enforced exactly: error iff the value is outside the annotated type.

TLC enumerates the annotation grammar and the ground-value grammar of AnnGrammar.tla and checks
the laws that keep the oracle Admits honest.  spec -> CPython: every value expression is evaluated
and re-encoded; it must be the spec's value term (else exit 2).  spec -> pytype: one module per
annotation with every value at the three enforcement sites (argument, return, annotated
assignment), one line each.  code -> spec: TLC (TraceC02.tla) judges every observed
(annotation, value, site, error?) by err <=> ~Admits(ann, val).

Function values with a known signature (value terms ["$def", sig], AnnGrammar.FnVals: annotated
defs, lambdas and bound methods over the dimensions mandatory / defaulted positionals, *args,
keyword-only without / with default, **kwargs) are put against Callable[[int]*n, int]
(type terms ["callsig", "", [int]*(n+1)], AnnGrammar.SigAnns) at the same three sites.  The
oracle's arity rule (PytdTypes.CanCall) is confirmed against CPython by really calling every
function value with every n.  This family is enumerated completely at every tier and for every
seed (the seed only picks the sample of the other annotations).
"""
import argparse
import json
import os
import random
import sys

sys.path.insert(0, os.path.dirname(os.path.abspath(__file__)))
import boot  # noqa: E402
import common  # noqa: E402
import pyt  # noqa: E402
import terms  # noqa: E402
import tlc  # noqa: E402

PID = "C02"
SITE_ERR = {"arg": "wrong-arg-types", "kwarg": "wrong-arg-types", "ret": "bad-return-type",
            "assign": "annotation-type-mismatch"}
TRACE_CFG = "INIT TInit\nNEXT TNext\nINVARIANT Ok\nPOSTCONDITION Done\n"
MODEL_CFG = "SPECIFICATION Spec\nCONSTANT Export = %s\nINVARIANT Laws\nINVARIANT NonTrivial\nINVARIANT ExportInv\n"


# ---- rendering of the terms this property adds to the shared ones (terms.py: add only)
def asrc(t):
  """Type term -> annotation source (terms.ann_src plus Callable[[A1..An], R])."""
  tag, _, args = t
  if tag == "callsig":
    return "Callable[[%s], %s]" % (", ".join(asrc(x) for x in args[:-1]), asrc(args[-1]))
  if tag == "union":
    if len(args) == 2 and args[1] == ["cls", "NoneType", []]:
      return "Optional[%s]" % asrc(args[0])
    return "Union[%s]" % ", ".join(asrc(x) for x in args)
  return terms.ann_src(t)


def _params(g, annotated, first=()):
  t = ": int" if annotated else ""
  ps = list(first)
  ps += ["a%d%s" % (j, t) for j in range(g["mand"])]
  ps += [("b%d%s = 0" if annotated else "b%d%s=0") % (j, t) for j in range(g["opt"])]
  if g["star"]:
    ps.append("*args" + t)
  elif g["kwreq"] + g["kwdef"]:
    ps.append("*")
  ps += ["k%d%s" % (j, t) for j in range(g["kwreq"])]
  ps += [("d%d%s = 0" if annotated else "d%d%s=0") % (j, t) for j in range(g["kwdef"])]
  if g["kwargs"]:
    ps.append("**kw" + t)
  return ", ".join(ps)


def _fname(g):
  return "%s_%d_%d_%d_%d_%d_%d" % (g["form"][0], g["mand"], g["opt"], int(g["star"]), g["kwreq"],
                                   g["kwdef"], int(g["kwargs"]))


def vsrc(v):
  """Value term -> ground expression (terms.val_src plus function values ["$def", sig])."""
  if v[0] != "$def":
    return terms.val_src(v)
  g = v[1]
  if g["form"] == "lambda":
    return "(lambda %s: 0)" % _params(g, False) if _params(g, False) else "(lambda: 0)"
  if g["form"] == "method":
    return "K().%s" % _fname(g)
  return _fname(g)


def preamble(vals):
  """Definitions the function values of `vals` refer to (annotated defs, class K of methods)."""
  out, meths = [], []
  for v in vals:
    if v[0] != "$def":
      continue
    g = v[1]
    if g["form"] == "def":
      out += ["def %s(%s) -> int:" % (_fname(g), _params(g, True)), "  return 0"]
    elif g["form"] == "method":
      meths += ["  def %s(%s) -> int:" % (_fname(g), _params(g, True, ("self",))), "    return 0"]
  if meths:
    out += ["class K:"] + meths
  return out


def encode_fn(obj):
  """Run-time function object -> signature record of the value term, read off the real object."""
  import inspect
  import types
  form = ("method" if isinstance(obj, types.MethodType) else
          "lambda" if obj.__name__ == "<lambda>" else "def")
  P = inspect.Parameter
  ps = list(inspect.signature(obj).parameters.values())
  pos = [p for p in ps if p.kind in (P.POSITIONAL_ONLY, P.POSITIONAL_OR_KEYWORD)]
  kwo = [p for p in ps if p.kind == P.KEYWORD_ONLY]
  if form != "lambda":
    common.require(all(p.annotation is int for p in ps) and
                   inspect.signature(obj).return_annotation is int, "function value not int -> int")
  return {"form": form,
          "mand": sum(1 for p in pos if p.default is P.empty),
          "opt": sum(1 for p in pos if p.default is not P.empty),
          "star": any(p.kind == P.VAR_POSITIONAL for p in ps),
          "kwreq": sum(1 for p in kwo if p.default is P.empty),
          "kwdef": sum(1 for p in kwo if p.default is not P.empty),
          "kwargs": any(p.kind == P.VAR_KEYWORD for p in ps)}


def eval_fn(v):
  ns = {}
  exec("\n".join(preamble([v])), ns)  # pylint: disable=exec-used
  return eval(vsrc(v), ns)  # pylint: disable=eval-used


def confirm_functions(fnvals, maxn, cancall):
  """spec -> CPython for the function fragment: the value term is the real signature, and the
  oracle's table {(value, n): callable with exactly n positional ints} is what CPython does."""
  table = {(json.dumps(v, sort_keys=True), n) for v, n in cancall}
  checked = 0
  for v in fnvals:
    obj = eval_fn(v)
    got = encode_fn(obj)
    if got != v[1]:
      raise common.Machinery("value oracle: %s has signature %s, spec says %s" % (vsrc(v), got, v[1]))
    for n in range(maxn + 1):
      try:
        obj(*([1] * n))
        ok = True
      except TypeError:
        ok = False
      if ok != ((json.dumps(v, sort_keys=True), n) in table):
        raise common.Machinery("arity oracle: CPython %s %s with %d positional argument(s), "
                               "PytdTypes.CanCall says the opposite" % (
                                   "calls" if ok else "cannot call", vsrc(v), n))
      checked += 1
  return checked


def module_for(ann, vals):
  """Source of the module for one annotation; returns (src, {line: (site, value index)})."""
  a = asrc(ann)
  lines = [terms.TYPING_IMPORT.rstrip("\n")] + terms.USER_CLASSES.rstrip("\n").split("\n")
  lines += preamble(vals)
  lines += ["def f(x: %s) -> None:" % a, "  pass"]
  where = {}
  for k, v in enumerate(vals):
    lines.append("f(%s)" % vsrc(v))
    where[len(lines)] = ("arg", k)
  # the same parameter annotation on a keyword-only parameter, value passed by keyword
  lines += ["def g(*, x: %s) -> None:" % a, "  pass"]
  for k, v in enumerate(vals):
    lines.append("g(x=%s)" % vsrc(v))
    where[len(lines)] = ("kwarg", k)
  for k, v in enumerate(vals):
    lines.append("def r%d() -> %s:" % (k, a))
    lines.append("  return %s" % vsrc(v))
    where[len(lines)] = ("ret", k)
  for k, v in enumerate(vals):
    lines.append("a%d: %s = %s" % (k, a, vsrc(v)))
    where[len(lines)] = ("assign", k)
  return "\n".join(lines) + "\n", where


def run_module(job):
  src = job
  r = pyt.analyze(src)
  return (r["outcome"], r["errors"], r["exc"])


def main():
  ap = argparse.ArgumentParser()
  ap.add_argument("--tier", default="quick")
  ap.add_argument("--replay")
  a = ap.parse_args()
  run = common.Run(PID, "model_checking", a.tier)
  boot.boot()
  thorough = run.tier == "thorough"
  # 1. the grammar and the oracle's laws (model checking), export of both grammars
  r = tlc.run("AnnGrammar", MODEL_CFG % "TRUE", workers=1, timeout=1800)
  if r.violated:
    raise common.Machinery("AnnGrammar.tla: %s violated:\n%s" % (r.violated, r.error_trace[:2000]))
  run.put("states", r.distinct)
  run.put("transitions", r.generated)
  common.require(len(r.cases) == 1, "grammar export missing")
  exp = r.cases[0]
  anns = sorted(exp["anns"], key=json.dumps)
  vals = sorted(exp["vals"], key=json.dumps)
  siganns = sorted(exp["siganns"], key=json.dumps)
  fnother = sorted(exp["fnother"], key=json.dumps)
  fnvals = sorted(exp["fnvals"], key=lambda v: json.dumps(v, sort_keys=True))
  fnsmall = sorted(exp["fnsmall"], key=lambda v: json.dumps(v, sort_keys=True))
  maxn = exp["maxn"]
  run.put("annotations_in_grammar", len(anns) + len(siganns))
  run.put("values_in_grammar", len(vals) + len(fnvals))
  run.put("function_values_in_grammar", len(fnvals))
  run.put("callable_signature_annotations", len(siganns))
  common.require(all(a in anns for a in fnother), "FnOtherAnns not in Anns")
  common.require(len(fnvals) >= 100 and len(siganns) >= maxn + 1 and len(fnsmall) >= 6 and
                 {v[1]["form"] for v in fnvals} == {"def", "lambda", "method"} and
                 any(v[1]["kwdef"] >= 2 for v in fnvals), "vacuity: function-value grammar")

  vkey = lambda v: json.dumps(v, sort_keys=True)  # noqa: E731
  sigvals = {json.dumps(t): sorted(vs, key=vkey) for t, vs in exp["sigvals"]}

  def vals_for(ann):          # = AnnGrammar.ValsFor
    return sigvals[json.dumps(ann)] if ann in siganns else vals + fnsmall if ann in fnother else vals
  # 2. spec -> CPython: the value terms are what the expressions really evaluate to
  for v in vals:
    got = terms.encode(terms.eval_value(terms.val_src(v)))
    if terms.canon_val(got) != terms.canon_val(v):
      raise common.Machinery("value oracle: %s evaluates to %s, spec says %s" % (
          terms.val_src(v), got, v))
  n_conf = confirm_functions(fnvals, maxn, exp["cancall"])
  common.require(n_conf == len(fnvals) * (maxn + 1), "arity oracle not confirmed on every pair")
  run.put("arity_pairs_confirmed_by_cpython", n_conf)
  if a.replay:
    with open(a.replay) as f:
      case = json.load(f)["case"]
    anns = [case["ann"]]
  elif not thorough:
    # the seed only picks the sample of the compound annotations; scalars, the annotations the
    # function values are put against and the whole Callable[[..], ..] family are always run
    rng = random.Random(run.seed)
    scal = [t for t in anns if t[0] in ("any", "cls") or t in fnother]
    rest = [t for t in anns if t not in scal]
    anns = scal + rng.sample(rest, min(len(rest), 110 - (len(scal) - 12))) + siganns
  else:
    anns = anns + siganns
  # 3. spec -> pytype
  jobs = []
  CHUNK = 96
  for ann in anns:
    vs = vals_for(ann)
    for off in range(0, len(vs), CHUNK if len(vs) > 120 else len(vs)):
      part = vs[off:off + (CHUNK if len(vs) > 120 else len(vs))]
      src, where = module_for(ann, part)
      jobs.append((ann, src, where, part))
  jobs.sort(key=lambda j: -len(j[3]))
  results = pyt.batch(run_module, [j[1] for j in jobs], procs=8, chunksize=2)
  cases = []
  other = {}
  for (ann, src, where, part), (outcome, errors, exc) in zip(jobs, results):
    if outcome != "result":
      raise common.Machinery("pytype did not analyse the module for %s: %s %s" % (
          asrc(ann), outcome, exc[-800:]))
    flagged = {}
    for name, line, msg in errors:
      if line in where and name == SITE_ERR[where[line][0]]:
        flagged[line] = True
      else:
        other[name] = other.get(name, 0) + 1
        if name in ("invalid-annotation", "name-error", "import-error", "not-supported-yet"):
          raise common.Machinery("grammar renders an annotation pytype rejects: %s line %s %s %s" % (
              asrc(ann), line, name, msg[:200]))
    for line, (site, k) in where.items():
      cases.append({"ann": ann, "val": part[k], "site": site, "err": bool(flagged.get(line))})
  run.put("other_errors", other)
  # 4. code -> spec: TLC judges
  bads = []
  shards = 4 if len(cases) > 30000 else 1
  n = len(cases)
  step = (n + shards - 1) // shards
  import concurrent.futures as cf

  def one(off):
    nv, bad, rr = tlc.validate_cases("TraceC02", cases[off:off + step], cfg=TRACE_CFG,
                                     timeout=3000, heap="6g")
    common.require(bad is None, "TraceC02 invariant cannot fail")
    return nv, [(off + rec["i"] - 1, rec["fails"]) for rec in tlc.parse_cases(rr.out, "BAD")]
  total = 0
  with cf.ThreadPoolExecutor(max_workers=shards) as ex:
    for nv, out in ex.map(one, range(0, n, step)):
      total += nv
      bads += out
  nerr = sum(1 for c in cases if c["err"])
  run.put("traces_validated_against_impl", total)
  run.put("evaluations", total)
  run.put("errors_reported", nerr)
  run.put("modules_analysed", len(jobs))
  run.put("distinct_nontrivial", len({(json.dumps(c["ann"]), json.dumps(c["val"])) for c in cases
                                      if c["ann"][0] not in ("any",)}))
  run.put("rule", "one case = (annotation, value, site); non-trivial = annotation is not Any; "
          "distinct by (annotation, value)")
  run.put("exhaustive", thorough)
  common.require(nerr > 500 and total - nerr > 500, "vacuity: outcomes not mixed")
  run.sample({"ann": asrc(cases[len(cases) // 2]["ann"]),
              "val": _vkey(cases[len(cases) // 2]["val"]),
              "site": cases[len(cases) // 2]["site"], "err": cases[len(cases) // 2]["err"]})
  # vacuity of the function-value family (counts only; the verdict is TLC's)
  if not a.replay:
    fam = [c for c in cases if c["val"][0] == "$def" and c["ann"][0] == "callsig"]
    has_sig = lambda t: _contains(t, lambda u: u[0] == "callsig")  # noqa: E731
    nested = [c for c in cases if c["val"][0] == "$def" and c["ann"][0] == "union" and has_sig(c["ann"])]
    plain = [c for c in cases if c["val"][0] == "$def" and not has_sig(c["ann"])]
    # the boundary the arity rule is about: too few arguments for the mandatory positionals
    # while keyword-only parameters with defaults are present
    edge = [c for c in fam if c["val"][1]["kwdef"] > 0 and
            c["val"][1]["mand"] - c["val"][1]["kwdef"] <= len(c["ann"][2]) - 1 < c["val"][1]["mand"]]
    run.put("function_cases", {"callsig": len(fam), "nested": len(nested), "other": len(plain),
                               "callsig_errors": sum(1 for c in fam if c["err"]),
                               "kwonly_default_below_mandatory": len(edge),
                               "forms": sorted({c["val"][1]["form"] for c in fam})})
    run.sample({"ann": asrc(edge[0]["ann"]) if edge else "", "val": _vkey(edge[0]["val"]) if edge else "",
                "site": edge[0]["site"] if edge else "", "err": edge[0]["err"] if edge else False})
    common.require(len(fam) == len(SITE_ERR) * len(fnvals) * (maxn + 1),
                   "vacuity: function values x Callable[[..], ..] incomplete")
    table = {(vkey(v), n) for v, n in exp["cancall"]}
    n_adm = sum(1 for c in fam if (vkey(c["val"]), len(c["ann"][2]) - 1) in table)
    run.put("function_cases_expected", {"no_error": n_adm, "error": len(fam) - n_adm})
    common.require(n_adm >= 300 and len(fam) - n_adm >= 300,
                   "vacuity: expected outcomes of the function-value family not mixed")
    common.require(len(edge) >= 150 and {c["site"] for c in edge} >= {"arg", "ret", "assign"} and
                   {c["val"][1]["form"] for c in edge} == {"def", "lambda", "method"},
                   "vacuity: keyword-only-default boundary not exercised")
    common.require(len(nested) >= 3 * 2 * sum(1 for v in fnvals if v[1]["form"] == "def") and
                   len(plain) >= 3 * len(fnsmall) * len(fnother),
                   "vacuity: function values against Optional/Union/non-callable annotations")
  fams = {}
  for idx, fails in bads:
    c = cases[idx]
    for f in fails:
      key = classify(c, f)
      fams.setdefault(key, []).append(c)
  for key, cs in sorted(fams.items()):
    c = cs[0]
    run.violation(key, "%s: %s for value %s against %s at site(s) %s (%d cases)" % (
        key, "error reported on a conforming value" if "false-positive" in key else "no error reported",
        _vkey(c["val"]) if c["val"][0] == "$def" else vsrc(c["val"]), asrc(c["ann"]),
        sorted({x["site"] for x in cs}), len(cs)),
        {"ann": c["ann"], "val": c["val"], "site": c["site"], "err": c["err"]})
  run.put("disagreement_families", {k: len(v) for k, v in fams.items()})
  return run.finish()


def _contains(t, pred):
  return pred(t) or any(_contains(x, pred) for x in t[2])


def _vcontains(v, pred):
  if pred(v):
    return True
  if v[0] in ("list", "tuple", "set", "frozenset"):
    return any(_vcontains(p, pred) for p in v[1])
  if v[0] == "dict":
    return any(_vcontains(k, pred) or _vcontains(x, pred) for k, x in v[1])
  return False


def _vkey(v):
  """Name of a value in a finding key (no blanks): the expression; a function by its signature."""
  if v[0] == "$def":
    return "%s(%s)" % (v[1]["form"], _params(v[1], False).replace(" ", ""))
  return vsrc(v).replace(" ", "")


def classify(c, f):
  """Key = root-cause family (documented in DESIGN.md section 8) or the exact pair."""
  ann, val = c["ann"], c["val"]
  if ":" in f and ":fn-arity:" not in f:   # explained by documented deviation(s) (computed by TLC)
    return "C02:%s" % f
  return "C02:%s:%s~%s@%s" % (f, _vkey(val), asrc(ann).replace(" ", ""), c["site"])


if __name__ == "__main__":
  common.main(PID, main)

"""StubGen terms (specs/StubGen.tla, specs/PytdEq.tla) -> real pytd nodes, and pytd nodes ->
structural dumps / digests that do not go through pytd's own __eq__/__hash__.

Type terms are uniform triples [tag, name, args] (args = list of type terms):
  any | nothing | cls(name) | gen(base; params) | htuple(; elem) | tuple(; elems)
  | callable(; args..., ret) | callany(; ret) | type(; t) | union(; members) | lit(kind:value)
  | tvar(name) | named(name) | late(name) | inter(; members)      (the last three: PytdEq only)
Stub terms: {"decls": [decl, ...]} with decl records as produced by StubGen.tla (field k = kind).

Call boot.boot() before importing this module's users' pytype imports; functions import pytd lazily.
"""
import hashlib
import json

BUILTIN_SHORT = ("int", "str", "bool", "float", "bytes", "object", "NoneType", "list", "dict",
                 "set", "frozenset", "tuple", "type", "complex", "bytearray", "BaseException",
                 "Exception")


def _pytd():
  from pytype.pytd import pytd
  return pytd


def qualify(name):
  """Names of the emitted dialect: builtins are written `builtins.int`."""
  if name in BUILTIN_SHORT:
    return "builtins." + name
  return name


def lit_value(spec, class_type=False):
  """'int:1' | 'str:a' | 'bool:True' | 'enum:E.X' | 'pybool:True' | 'type:A' -> payload of pytd.Literal."""
  pytd = _pytd()
  kind, _, val = spec.partition(":")
  mk = pytd.ClassType if class_type else pytd.NamedType
  if kind == "int":
    return int(val)
  if kind == "str":
    return repr(val)          # strings are stored as their representations (output.py)
  if kind == "bytes":
    return repr(val.encode())
  if kind == "bool":          # the form output.py emits: a Constant of builtins
    return pytd.Constant(name="builtins." + val, type=mk("builtins.bool"))
  if kind == "pybool":        # the form pyi/types.py Pyval.to_pytd_literal builds: a raw bool
    return val == "True"
  if kind == "enum":
    return pytd.Constant(name=val, type=mk(val.rsplit(".", 1)[0]))
  if kind == "type":          # a class as the value (Literal.value: ... | TypeU | Constant)
    return mk(qualify(val))
  raise ValueError(spec)


def type_node(t, class_type=False, tvars=None):
  """Type term -> pytd type node.  class_type: use ClassType instead of NamedType for classes.
  tvars: name -> declared TypeParameter (a use of a type variable carries its declaration)."""
  pytd = _pytd()
  tag, name, args = t
  mk = pytd.ClassType if class_type else pytd.NamedType
  sub = [type_node(a, class_type, tvars) for a in args]
  if tag == "any":
    return pytd.AnythingType()
  if tag == "nothing":
    return pytd.NothingType()
  if tag == "cls":
    return mk(qualify(name))
  if tag == "named":
    return pytd.NamedType(qualify(name))
  if tag == "classtype":
    return pytd.ClassType(qualify(name))
  if tag == "late":
    return pytd.LateType(qualify(name))
  if tag == "gen":
    return pytd.GenericType(mk(qualify(name)), tuple(sub))
  if tag == "htuple":
    return pytd.GenericType(mk("builtins.tuple"), tuple(sub))
  if tag == "tuple":
    return pytd.TupleType(mk("builtins.tuple"), tuple(sub))
  if tag == "callable":
    return pytd.CallableType(mk("typing.Callable"), tuple(sub))
  if tag == "callany":
    return pytd.GenericType(mk("typing.Callable"), (pytd.AnythingType(),) + tuple(sub))
  if tag == "type":
    return pytd.GenericType(mk("builtins.type"), tuple(sub))
  if tag == "union":
    return pytd.UnionType(tuple(sub))
  if tag == "inter":
    return pytd.IntersectionType(tuple(sub))
  if tag == "lit":
    return pytd.Literal(lit_value(name, class_type))
  if tag == "tvar":
    if tvars and name in tvars:
      return tvars[name]
    return pytd.TypeParameter(name)
  raise ValueError("unknown type term %r" % (t,))


_PK = {"reg": "REGULAR", "pos": "POSONLY", "kw": "KWONLY"}
_KIND = {"method": "METHOD", "static": "STATICMETHOD", "class": "CLASSMETHOD",
         "property": "PROPERTY"}


def _sig(s, ct, tv):
  pytd = _pytd()
  params = tuple(
      pytd.Parameter(p["n"], type_node(p["t"], ct, tv), getattr(pytd.ParameterKind, _PK[p["pk"]]),
                     bool(p["o"]), None) for p in s["ps"])
  star = kw = None
  if s["star"]:
    x = s["star"][0]
    typ = (pytd.GenericType((pytd.ClassType if ct else pytd.NamedType)("builtins.tuple"),
                            (type_node(x["t"], ct, tv),))
           if x["t"][0] != "any" else (pytd.ClassType if ct else pytd.NamedType)("builtins.tuple"))
    star = pytd.Parameter(x["n"], typ, pytd.ParameterKind.REGULAR, True, None)
  if s["kw"]:
    x = s["kw"][0]
    mk = pytd.ClassType if ct else pytd.NamedType
    typ = (pytd.GenericType(mk("builtins.dict"), (mk("builtins.str"), type_node(x["t"], ct, tv)))
           if x["t"][0] != "any" else mk("builtins.dict"))
    kw = pytd.Parameter(x["n"], typ, pytd.ParameterKind.REGULAR, True, None)
  return pytd.Signature(params, star, kw, type_node(s["r"], ct, tv), (), ())


def _decl(d, ct, out, tv):
  """Append the node(s) for declaration d to the buckets in `out`."""
  pytd = _pytd()
  k = d["k"]
  if k == "const":
    out["constants"].append(pytd.Constant(d["n"], type_node(d["t"], ct, tv),
                                          pytd.AnythingType() if d["v"] else None))
  elif k == "prop":
    out["constants"].append(pytd.Constant(
        d["n"], pytd.Annotated(type_node(d["t"], ct, tv), ("'property'",))))
  elif k == "alias":
    out["aliases"].append(pytd.Alias(d["n"], type_node(d["t"], ct, tv)))
  elif k == "import":
    out["aliases"].append(pytd.Alias(d["n"], pytd.Module(d["n"], d["m"])))
  elif k == "fromimport":
    out["aliases"].append(pytd.Alias(d["n"], pytd.NamedType(d["m"])))
  elif k == "tvar":
    out["type_params"].append(tv[d["n"]])
  elif k == "func":
    flags = pytd.MethodFlag.NONE
    for f in d["flags"]:
      flags |= getattr(pytd.MethodFlag, f.upper())
    out["functions"].append(pytd.Function(
        d["n"], tuple(_sig(s, ct, tv) for s in d["sigs"]),
        getattr(pytd.MethodKind, _KIND[d["kind"]]), flags))
  elif k == "class":
    inner = {"constants": [], "aliases": [], "type_params": [], "functions": [], "classes": []}
    for x in d["body"]:
      _decl(x, ct, inner, tv)
    bases = tuple(type_node(b, ct, tv) for b in d["bases"])
    if not bases:
      bases = ((pytd.ClassType if ct else pytd.NamedType)("builtins.object"),)
    kws = tuple(("metaclass", type_node(m, ct, tv)) for m in d["meta"])
    out["classes"].append(pytd.Class(
        name=d["n"], keywords=kws, bases=bases, methods=tuple(inner["functions"]),
        constants=tuple(inner["constants"]), classes=tuple(inner["classes"]), decorators=(),
        slots=tuple(d["slots"][0]) if d["slots"] else None, template=()))
  else:
    raise ValueError("unknown declaration %r" % (d,))


def stub_ast(stub, class_type=False, name="stubgen"):
  """Stub term -> canonically ordered pytd.TypeDeclUnit (what io.generate_pyi_ast hands to the
  printer is canonically ordered too)."""
  pytd = _pytd()
  from pytype.pytd import pytd_utils
  out = {"constants": [], "aliases": [], "type_params": [], "functions": [], "classes": []}
  tv = {}
  for d in stub["decls"]:
    if d["k"] == "tvar":
      tv[d["n"]] = pytd.TypeParameter(
          d["n"], constraints=tuple(type_node(x, class_type) for x in d["cs"]),
          bound=type_node(d["b"][0], class_type) if d["b"] else None)
  for d in stub["decls"]:
    _decl(d, class_type, out, tv)
  unit = pytd.TypeDeclUnit(
      name=name, constants=tuple(out["constants"]), type_params=tuple(out["type_params"]),
      classes=tuple(out["classes"]), functions=tuple(out["functions"]),
      aliases=tuple(out["aliases"]))
  return pytd_utils.CanonicalOrdering(unit)


# ----------------------------------------------------------------------------------------------
# pytd node -> structural dump (independent of pytd's __eq__ / __hash__ / printer)

def dump(node):
  """Exact structure: [ClassName, [field, value]...]; tuples -> lists; enums -> names;
  ClassType.cls pointers and lookup caches are not part of the structure."""
  import enum
  import msgspec
  if isinstance(node, msgspec.Struct):
    cn = type(node).__name__
    if cn == "ClassType":
      return ["ClassType", ["name", node.name]]
    out = [cn]
    for f in node.__struct_fields__:
      if f == "_name2item":
        continue
      out.append([f, dump(getattr(node, f))])
    return out
  if isinstance(node, (tuple, list)):
    return ["()"] + [dump(x) for x in node]
  if isinstance(node, (set, frozenset)):
    return ["{}"] + sorted((dump(x) for x in node), key=json.dumps)
  if isinstance(node, enum.Enum):
    return ["enum", type(node).__name__, node.name if node.name else str(node.value)]
  if isinstance(node, bool):
    return ["bool", node]
  if isinstance(node, bytes):
    return ["bytes", node.hex()]
  if node is None:
    return ["None"]
  if isinstance(node, (int, str)):
    return [type(node).__name__, node]
  if isinstance(node, dict):
    return ["dict"] + sorted(([dump(k), dump(v)] for k, v in node.items()), key=json.dumps)
  import msgspec as _m
  if isinstance(node, _m.Raw):
    return ["raw", bytes(node).hex()]
  raise TypeError("cannot dump %r" % (type(node),))


def digest(x):
  return hashlib.sha1(json.dumps(x, sort_keys=True, separators=(",", ":")).encode()).hexdigest()[:16]


def ast_digest(ast):
  """Digest of the declarations of a TypeDeclUnit (module name excluded, as in ASTeq)."""
  return digest([dump(getattr(ast, f)) for f in
                 ("constants", "type_params", "classes", "functions", "aliases")])


# ---- meaning-level normal form used to compare what was printed with what was read back

def _short(name, local=()):
  for p in ("builtins.",):
    if name.startswith(p):
      return name[len(p):]
  return name


_COMPAT = (("int", "float"), ("int", "complex"), ("float", "complex"), ("bytearray", "bytes"),
           ("memoryview", "bytes"))      # pep484._COMPAT_ITEMS


def norm(node, cls_stack=(), inparam=False):
  """Normal form of a declaration tree that is invariant under the documented representation
  differences between an AST in the emitted (resolved) dialect and the AST the parser builds from
  its printed text: ClassType/NamedType/LateType all become names without the `builtins.` prefix;
  unions are flattened, de-duplicated and sorted; Optional is a union with NoneType; type
  parameter scopes and templates are dropped; literals are compared by printed value; `nothing`
  and typing.Never coincide; Callable[Any, R] written as GenericType is kept apart from
  CallableType; declaration lists are sorted (the printer groups and CanonicalOrdering sorts); inside a
  parameter a union member that PEP 484 promotes to another member (int with float, ...) is
  dropped - `x: float` means float | int there, and the printer writes it that way."""
  import enum
  import msgspec
  pytd = _pytd()
  if isinstance(node, (pytd.NamedType, pytd.ClassType, pytd.LateType)):
    n = _short(node.name)
    if n == "typing.Never" or n == "typing.NoReturn":
      return ["nothing"]
    return ["name", n]
  if isinstance(node, pytd.NothingType):
    return ["nothing"]
  if isinstance(node, pytd.AnythingType):
    return ["any"]
  if isinstance(node, pytd.UnionType):
    ms = []
    for m in node.type_list:
      x = norm(m, cls_stack, inparam)
      if x not in ms:
        ms.append(x)
    if inparam:
      for compat, name in _COMPAT:
        if ["name", compat] in ms and ["name", name] in ms:
          ms.remove(["name", compat])
    ms.sort(key=json.dumps)
    return ["union"] + ms if len(ms) > 1 else ms[0]
  if isinstance(node, pytd.Literal):
    v = node.value
    if isinstance(v, pytd.Constant):
      if v.name in ("builtins.True", "builtins.False"):
        return ["lit", "bool", v.name.split(".")[1]]
      return ["lit", "enum", _short(v.name)]
    if isinstance(v, bool):
      return ["lit", "bool", str(v)]
    if isinstance(v, int):
      return ["lit", "int", str(v)]
    if isinstance(v, str):
      # output.py stores enum-member ints as the string '1'; strings as their repr
      return ["lit", "int", v] if v.lstrip("-").isdigit() else ["lit", "str", v]
    return ["lit", "type", norm(v, cls_stack, inparam)]
  if isinstance(node, pytd.TypeParameter):
    return [type(node).__name__, node.name, norm(node.constraints, cls_stack, inparam),
            norm(node.bound, cls_stack, inparam) if node.bound is not None else ["None"]]
  if isinstance(node, pytd.TemplateItem):
    return ["tmpl", node.name]
  if isinstance(node, pytd.Signature):
    return ["sig", norm(node.params, cls_stack, inparam),
            norm(node.starargs, cls_stack, inparam) if node.starargs is not None else ["None"],
            norm(node.starstarargs, cls_stack, inparam) if node.starstarargs is not None else ["None"],
            norm(node.return_type, cls_stack, inparam), norm(node.exceptions, cls_stack, inparam)]
  if isinstance(node, pytd.Parameter):
    return ["param", node.name, norm(node.type, cls_stack, True), node.kind.name, bool(node.optional),
            norm(node.mutated_type, cls_stack, inparam) if node.mutated_type is not None else ["None"]]
  if isinstance(node, pytd.Function):
    flags = sorted(f.name for f in pytd.MethodFlag if f in node.flags and f.name != "NONE")
    return ["func", node.name.rsplit(".", 1)[-1], node.kind.name, flags,
            ["()"] + [norm(s, cls_stack, inparam) for s in node.signatures]]
  if isinstance(node, pytd.Class):
    bases = [norm(b, cls_stack, inparam) for b in node.bases]
    if bases == [["name", "object"]]:
      bases = []
    return ["class", node.name.rsplit(".", 1)[-1], bases,
            [[k, norm(v, cls_stack, inparam)] for k, v in node.keywords],
            sorted((norm(m, cls_stack, inparam) for m in node.methods), key=json.dumps),
            sorted((norm(c, cls_stack, inparam) for c in node.constants), key=json.dumps),
            sorted((norm(c, cls_stack, inparam) for c in node.classes), key=json.dumps),
            sorted(node.slots) if node.slots is not None else ["None"]]
  if isinstance(node, pytd.Constant):
    return ["const", node.name, norm(node.type, cls_stack, inparam), node.value is not None]
  if isinstance(node, pytd.Alias):
    return ["alias", node.name, norm(node.type, cls_stack, inparam)]
  if isinstance(node, pytd.Module):
    return ["module", node.module_name]
  if isinstance(node, pytd.TypeDeclUnit):
    return ["unit"] + [sorted((norm(x, cls_stack, inparam) for x in getattr(node, f)), key=json.dumps)
                       for f in ("constants", "type_params", "classes", "functions", "aliases")]
  if isinstance(node, msgspec.Struct):
    out = [type(node).__name__]
    for f in node.__struct_fields__:
      out.append([f, norm(getattr(node, f), cls_stack, inparam)])
    return out
  if isinstance(node, (tuple, list)):
    return ["()"] + [norm(x, cls_stack, inparam) for x in node]
  if isinstance(node, enum.Enum):
    return ["enum", node.name]
  if node is None:
    return ["None"]
  return [type(node).__name__, node]


def norm_unit(unit):
  """norm() of a TypeDeclUnit with the plain module imports (`import m`) kept apart: the printer
  adds an import for every module a dotted name refers to, so the text read back may carry more
  of them than the original; none of the original's may be lost."""
  n = norm(unit)
  aliases = n[5]
  imports = [a[1] for a in aliases if a[2][0] == "module" and a[2][1] == a[1]]
  decls = n[1:5] + [[a for a in aliases if not (a[2][0] == "module" and a[2][1] == a[1])]]
  return {"decls": decls, "imports": sorted(imports)}


# ----------------------------------------------------------------------------------------------
# generic walk, features (vacuity guards), documented deviations and their neutralisers (C05)

def walk(node, parents=()):
  """Yield (node, parents) for every msgspec node below `node` (ClassType.cls is not followed)."""
  import msgspec
  if isinstance(node, msgspec.Struct):
    yield node, parents
    if type(node).__name__ == "ClassType":
      return
    for f in node.__struct_fields__:
      if f == "_name2item":
        continue
      yield from walk(getattr(node, f), parents + (node,))
  elif isinstance(node, (tuple, list)):
    for x in node:
      yield from walk(x, parents)


def features(ast):
  """Which constructs of the dialect a stub exercises (dict of 0/1), for the vacuity guards."""
  pytd = _pytd()
  f = dict.fromkeys(("classes", "nested", "bases", "overloads", "generics", "typevars", "callables",
                     "unions", "optionals", "literals", "tuples", "properties", "static_class",
                     "defaults", "stars", "kwonly", "posonly", "aliases", "imports", "metaclass",
                     "slots", "values", "nothing", "late", "flags", "generic_class", "decorators",
                     "bounded_typevars"), 0)
  for n, parents in walk(ast):
    cn = type(n).__name__
    if cn == "Class":
      f["classes"] = 1
      if any(type(p).__name__ == "Class" for p in parents):
        f["nested"] = 1
      if any(getattr(b, "name", "") not in ("builtins.object", "object") or isinstance(b, pytd.GenericType)
             for b in n.bases):
        f["bases"] = 1
      if any(isinstance(b, pytd.GenericType) and b.base_type.name == "typing.Generic" for b in n.bases) \
         or n.template:
        f["generic_class"] = 1
      if n.keywords:
        f["metaclass"] = 1
      if n.slots is not None:
        f["slots"] = 1
      if n.decorators:
        f["decorators"] = 1
    elif cn == "Function":
      if len(n.signatures) > 1:
        f["overloads"] = 1
      if n.kind.name in ("STATICMETHOD", "CLASSMETHOD"):
        f["static_class"] = 1
      if n.kind.name == "PROPERTY":
        f["properties"] = 1
      if n.flags and n.flags != pytd.MethodFlag.NONE:
        f["flags"] = 1
      if getattr(n, "decorators", ()):
        f["decorators"] = 1
    elif cn == "Signature":
      if n.starargs is not None or n.starstarargs is not None:
        f["stars"] = 1
    elif cn == "Parameter":
      if n.optional:
        f["defaults"] = 1
      if n.kind.name == "KWONLY":
        f["kwonly"] = 1
      if n.kind.name == "POSONLY":
        f["posonly"] = 1
    elif cn == "Annotated":
      if "'property'" in n.annotations:
        f["properties"] = 1
    elif cn in ("GenericType",):
      base = getattr(n.base_type, "name", "")
      if base == "typing.Callable":
        f["callables"] = 1
      elif base == "builtins.tuple":
        f["tuples"] = 1
      elif base != "typing.Generic":
        f["generics"] = 1
    elif cn == "CallableType":
      f["callables"] = 1
    elif cn == "TupleType":
      f["tuples"] = 1
    elif cn == "UnionType":
      f["unions"] = 1
      if any(getattr(t, "name", "") in ("builtins.NoneType", "NoneType") for t in n.type_list):
        f["optionals"] = 1
    elif cn == "Literal":
      f["literals"] = 1
    elif cn == "TypeParameter":
      f["typevars"] = 1
      if n.bound is not None or n.constraints:
        f["bounded_typevars"] = 1
    elif cn == "Alias":
      if isinstance(n.type, pytd.Module):
        f["imports"] = 1
      else:
        f["aliases"] = 1
    elif cn == "Constant":
      if n.value is not None and not any(type(p).__name__ == "Literal" for p in parents):
        f["values"] = 1
    elif cn == "NothingType":
      f["nothing"] = 1
    elif cn == "LateType":
      f["late"] = 1
  return f


def _bool_int_clash(u):
  """A union that holds a bool literal and the int literal equal to it (True/1, False/0)."""
  pytd = _pytd()
  bools, ints = set(), set()
  for t in u.type_list:
    if isinstance(t, pytd.Literal):
      v = t.value
      if isinstance(v, pytd.Constant) and v.name in ("builtins.True", "builtins.False"):
        bools.add(1 if v.name.endswith("True") else 0)
      elif isinstance(v, bool):
        bools.add(int(v))
      elif isinstance(v, int):
        ints.add(v)
  return bool(bools & ints)


def _is_bool_literal(t):
  pytd = _pytd()
  return isinstance(t, pytd.Literal) and (
      isinstance(t.value, bool) or
      (isinstance(t.value, pytd.Constant) and t.value.name in ("builtins.True", "builtins.False")))


def _reexport(c):
  """Constant N: type[typing.N] - printed as `from typing import N` (printer.py)."""
  pytd = _pytd()
  t = c.type
  return (isinstance(t, pytd.GenericType) and getattr(t.base_type, "name", "") == "builtins.type"
          and len(t.parameters) == 1 and hasattr(t.parameters[0], "name")
          and "." in t.parameters[0].name and t.parameters[0].name.rsplit(".", 1)[1] == c.name)


def _new_as_classmethod(f):
  return f.name.rsplit(".", 1)[-1] == "__new__" and f.kind.name == "CLASSMETHOD"


def _overloaded_module_getattr(f):
  return f.name.rsplit(".", 1)[-1] == "__getattr__" and len(f.signatures) > 1


def _default_before_required(sig):
  seen = False
  for p in sig.params:
    if p.kind.name == "KWONLY":
      break
    if p.optional:
      seen = True
    elif seen:
      return True
  return False


# name -> one-line statement of the documented deviation (the trigger each neutraliser removes)
DEVIATIONS = {
    "class-body-comprehension-leaks-.0":
        "a class constant whose name is not an identifier (`.0`, the comprehension's iterator)",
    "module-alias-requalified":
        "`import m as n` next to a type that lives in module m (printed n.X, re-read as module n)",
    "recursive-alias-unrolled":
        "a LateType (reference to a recursive alias) - every parse substitutes the alias once more",
    "generic-self-annotation-becomes-mutation":
        "`self` annotated with a parameterised type - the parser reads it as a mutation of self",
    "typing-self-desugared":
        "a TypeParameter named Self - printed as typing.Self, re-read as a bound _SelfX TypeVar",
    "reexported-typing-name-dropped":
        "module constant N: type[typing.N] - printed as `from typing import N`, lost on re-read",
    "default-before-required-parameter":
        "a signature with a required positional parameter after one with a default",
    "literal-bool-int-collapse":
        "a Literal union with a bool and the equal int (True/1, False/0): members compare equal",
    # added with the special-method-name alphabet (C05 strengthening)
    "classmethod-new-read-as-staticmethod":
        "a function named __new__ of kind CLASSMETHOD - printed with @classmethod, read back as a "
        "staticmethod (the reader decides by name first), re-printed without the decorator",
    "module-getattr-overloads-rejected":
        "a module-level function __getattr__ with several signatures - the printer writes the "
        "overloads, the reader rejects them (Multiple signatures for module __getattr__)",
}


def deviations_present(ast):
  pytd = _pytd()
  out = set()
  mod_aliases = {}
  for a in ast.aliases:
    if isinstance(a.type, pytd.Module) and a.type.module_name != a.name:
      mod_aliases[a.type.module_name] = a.name
  for n, parents in walk(ast):
    cn = type(n).__name__
    if cn == "Constant":
      if not n.name.rsplit(".", 1)[-1].isidentifier() and any(type(p).__name__ == "Class" for p in parents):
        out.add("class-body-comprehension-leaks-.0")
      if len(parents) == 1 and _reexport(n):
        out.add("reexported-typing-name-dropped")
    elif cn in ("NamedType", "ClassType"):
      if mod_aliases and any(n.name.startswith(m + ".") for m in mod_aliases):
        out.add("module-alias-requalified")
    elif cn == "LateType":
      out.add("recursive-alias-unrolled")
    elif cn == "Function":
      if any(type(p).__name__ == "Class" for p in parents):
        for s in n.signatures:
          if s.params and s.params[0].name == "self" and isinstance(s.params[0].type, pytd.GenericType):
            out.add("generic-self-annotation-becomes-mutation")
      if _new_as_classmethod(n):
        out.add("classmethod-new-read-as-staticmethod")
      if len(parents) == 1 and _overloaded_module_getattr(n):
        out.add("module-getattr-overloads-rejected")
    elif cn == "Signature":
      if _default_before_required(n):
        out.add("default-before-required-parameter")
    elif cn == "TypeParameter":
      if n.name == "Self":
        out.add("typing-self-desugared")
    elif cn == "UnionType":
      if _bool_int_clash(n):
        out.add("literal-bool-int-collapse")
  return [d for d in DEVIATIONS if d in out]


def neutralise(ast, names):
  """The same stub without the triggers of the named deviations (counterfactual input)."""
  pytd = _pytd()
  from pytype.pytd import visitors
  names = set(names)

  class _N(visitors.Visitor):
    """Bottom-up rewrite."""

    def __init__(self):
      super().__init__()
      self.depth = 0

    def EnterClass(self, _):  # pylint: disable=invalid-name
      self.depth += 1

    def LeaveClass(self, _):  # pylint: disable=invalid-name
      self.depth -= 1

    def VisitClass(self, c):  # pylint: disable=invalid-name
      if "typing-self-desugared" in names:
        c = c.Replace(template=tuple(t for t in c.template if isinstance(t.type_param, pytd.TypeParameter)))
      if "class-body-comprehension-leaks-.0" in names:
        c = c.Replace(constants=tuple(k for k in c.constants
                                      if k.name.rsplit(".", 1)[-1].isidentifier()))
      return c

    def VisitLateType(self, t):  # pylint: disable=invalid-name
      return pytd.AnythingType() if "recursive-alias-unrolled" in names else t

    def VisitTypeParameter(self, t):  # pylint: disable=invalid-name
      if "typing-self-desugared" in names and t.name == "Self":
        return pytd.AnythingType()
      return t

    def VisitTemplateItem(self, t):  # pylint: disable=invalid-name
      return t

    def VisitSignature(self, s):  # pylint: disable=invalid-name
      if "typing-self-desugared" in names:
        s = s.Replace(template=tuple(t for t in s.template
                                     if isinstance(t.type_param, pytd.TypeParameter)))
      if ("generic-self-annotation-becomes-mutation" in names and self.depth and s.params
          and s.params[0].name == "self" and isinstance(s.params[0].type, pytd.GenericType)):
        s = s.Replace(params=(s.params[0].Replace(type=pytd.AnythingType()),) + s.params[1:])
      if "default-before-required-parameter" in names and _default_before_required(s):
        seen, ps = False, []
        for p in s.params:
          if p.kind.name != "KWONLY":
            if p.optional:
              seen = True
            elif seen:
              p = p.Replace(optional=True)
          ps.append(p)
        s = s.Replace(params=tuple(ps))
      return s

    def VisitFunction(self, f):  # pylint: disable=invalid-name
      if "classmethod-new-read-as-staticmethod" in names and _new_as_classmethod(f):
        return f.Replace(kind=pytd.MethodKind.STATICMETHOD)
      return f

    def VisitUnionType(self, u):  # pylint: disable=invalid-name
      if "literal-bool-int-collapse" in names and _bool_int_clash(u):
        rest = tuple(t for t in u.type_list if not _is_bool_literal(t))
        return rest[0] if len(rest) == 1 else pytd.UnionType(rest)
      return u

    def VisitTypeDeclUnit(self, u):  # pylint: disable=invalid-name
      if "typing-self-desugared" in names:
        u = u.Replace(type_params=tuple(t for t in u.type_params if isinstance(t, pytd.TypeParameter)))
      if "module-alias-requalified" in names:
        u = u.Replace(aliases=tuple(
            a for a in u.aliases
            if not (isinstance(a.type, pytd.Module) and a.type.module_name != a.name)))
      if "reexported-typing-name-dropped" in names:
        u = u.Replace(constants=tuple(c for c in u.constants if not _reexport(c)))
      if "module-getattr-overloads-rejected" in names:
        u = u.Replace(functions=tuple(
            f.Replace(signatures=f.signatures[:1]) if _overloaded_module_getattr(f) else f
            for f in u.functions))
      return u

  return ast.Visit(_N())


# ---- special method names (StubGen.tla BeginDunder): the declarations the spec says the printed
# ---- text denotes, and the cells of the name x kind x first-parameter cross a stub exercises

def expected_read(stub):
  """The stub term the reader is expected to return for the text of `stub`, as StubGen.tla states it
  on every func declaration made by BeginDunder: kind := rk (the kind the printed text denotes under
  the pinned name convention), and, if ab, the first parameter's annotation := Any (the printer
  leaves `self: <class>` / `cls: type[<class>]` out).  None if the stub has no such declaration."""
  changed = [False]

  def fix(d):
    if d["k"] == "class":
      return dict(d, body=[fix(x) for x in d["body"]])
    if d["k"] == "func" and "rk" in d:
      e = dict(d)
      if d["rk"] != d["kind"]:
        e["kind"] = d["rk"]
        changed[0] = True
      if d["ab"]:
        e["sigs"] = [dict(sg, ps=[dict(sg["ps"][0], t=["any", "", []])] + list(sg["ps"][1:]))
                     for sg in d["sigs"]]
        changed[0] = True
      return e
    return d
  out = {"decls": [fix(d) for d in stub["decls"]]}
  return out if changed[0] else None


def first_difference(a, b, path=""):
  """Where two normal forms (nested lists of norm()) first differ: 'path: a-side != b-side'."""
  if a == b:
    return ""
  if isinstance(a, list) and isinstance(b, list) and len(a) == len(b):
    head = a[0] if a and isinstance(a[0], str) else ""
    label = head
    if head in ("func", "class", "const", "alias", "param") and len(a) > 1 and isinstance(a[1], str):
      label = "%s %s" % (head, a[1])
    for k, (x, y) in enumerate(zip(a, b)):
      if x != y:
        return first_difference(x, y, (path + "/" if path else "") + (label or "[]") + "[%d]" % k)
  return "%s: %s printed, %s read back" % (path or ".", json.dumps(a)[:80], json.dumps(b)[:80])


def dunder_cells(ast):
  """For every function with a __dunder__ name below `ast`:
  '<name>/<KIND>/<first parameter name or ->/<c|m>/<number of signatures>/<flags>' (c: in a class)."""
  pytd = _pytd()
  out = []
  for n, parents in walk(ast):
    if type(n).__name__ != "Function":
      continue
    nm = n.name.rsplit(".", 1)[-1]
    if not (nm.startswith("__") and nm.endswith("__")):
      continue
    incls = any(type(p).__name__ == "Class" for p in parents)
    firsts = sorted({(sg.params[0].name if sg.params else "-") for sg in n.signatures})
    flags = "+".join(sorted(f.name for f in pytd.MethodFlag if f in n.flags and f.name != "NONE"))
    out.append("%s/%s/%s/%s/%d/%s" % (nm, n.kind.name, firsts[0], "c" if incls else "m",
                                      min(len(n.signatures), 2), flags))
  return sorted(set(out))


# ---- C12: documented deviations of the serialisation round trip and their neutralisers

C12_DEVIATIONS = {
    "alias-node-in-type-position":
        "a pytd.Alias node where a type is expected (output.py emits Constant(sys, type=Alias(sys, "
        "Module)) for `import sys` in a class body); msgpack encodes it, the typed decoder rejects it",
}


def c12_deviations_present(ast):
  pytd = _pytd()
  for n, parents in walk(ast):
    if isinstance(n, pytd.Alias) and not (len(parents) == 1 and isinstance(parents[0], pytd.TypeDeclUnit)):
      return ["alias-node-in-type-position"]
  return []


def c12_neutralise(ast, names):
  pytd = _pytd()
  from pytype.pytd import visitors

  class _N(visitors.Visitor):
    def __init__(self):
      super().__init__()
      self.ctx = 0

    def _enter(self, _):
      self.ctx += 1

    def _leave(self, _):
      self.ctx -= 1

    EnterClass = EnterFunction = EnterConstant = _enter      # pylint: disable=invalid-name
    LeaveClass = LeaveFunction = LeaveConstant = _leave      # pylint: disable=invalid-name

    def VisitAlias(self, a):  # pylint: disable=invalid-name
      if self.ctx and "alias-node-in-type-position" in names:
        return pytd.NamedType("builtins.module")
      return a

  return ast.Visit(_N())

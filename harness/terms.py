"""Type terms / value terms of specs/PytdTypes.tla <-> Python source and run-time values."""

USER_CLASSES = """class A: pass
class B(A): pass
class C: pass
"""
TYPING_IMPORT = ("from typing import Any, Callable, Dict, FrozenSet, Iterable, List, Mapping, "
                 "Optional, Sequence, Set, Tuple, Type, Union\n")

_GEN = {"list": "List", "set": "Set", "frozenset": "FrozenSet", "dict": "Dict",
        "Mapping": "Mapping", "Sequence": "Sequence", "Iterable": "Iterable"}


def ann_src(t):
  """Type term (JSON form: [tag, name, [args]]) -> annotation source."""
  tag, name, args = t
  if tag == "any":
    return "Any"
  if tag == "cls":
    return "None" if name == "NoneType" else name
  if tag == "union":
    if len(args) == 2 and args[1] == ["cls", "NoneType", []]:
      return "Optional[%s]" % ann_src(args[0])
    return "Union[%s]" % ", ".join(ann_src(a) for a in args)
  if tag == "gen":
    if name == "tuplevar":
      return "Tuple[%s, ...]" % ann_src(args[0])
    return "%s[%s]" % (_GEN[name], ", ".join(ann_src(a) for a in args))
  if tag == "tuple":
    return "Tuple[%s]" % ", ".join(ann_src(a) for a in args) if args else "Tuple[()]"
  if tag == "type":
    return "Type[%s]" % ann_src(args[0])
  if tag == "callable":
    return "Callable"
  raise ValueError(t)


_SCALAR = {"int": "1", "bool": "True", "float": "1.5", "complex": "2j", "str": '"s"',
           "bytes": 'b"b"', "NoneType": "None", "A": "A()", "B": "B()", "C": "C()"}


def val_src(v):
  """Value term (JSON form: [cls, parts]) -> ground expression source."""
  cls, parts = v
  if cls in _SCALAR:
    return _SCALAR[cls]
  if cls == "$class":
    return parts[0][0]
  if cls == "$fn":
    return "(lambda x: x)"
  if cls == "list":
    return "[%s]" % ", ".join(val_src(p) for p in parts)
  if cls == "tuple":
    if len(parts) == 1:
      return "(%s,)" % val_src(parts[0])
    return "(%s)" % ", ".join(val_src(p) for p in parts)
  if cls == "set":
    return "{%s}" % ", ".join(val_src(p) for p in parts) if parts else "set()"
  if cls == "frozenset":
    return "frozenset({%s})" % ", ".join(val_src(p) for p in parts) if parts else "frozenset()"
  if cls == "dict":
    return "{%s}" % ", ".join("%s: %s" % (val_src(k), val_src(x)) for k, x in parts)
  raise ValueError(v)


def encode(obj):
  """Run-time value -> value term (JSON form).  Set-like parts are sorted canonically."""
  import types
  if isinstance(obj, type):
    return ["$class", [[obj.__name__, []]]]
  if isinstance(obj, (types.FunctionType, types.BuiltinFunctionType, types.LambdaType)):
    return ["$fn", []]
  cls = type(obj).__name__
  if cls in ("list", "tuple"):
    return [cls, [encode(x) for x in obj]]
  if cls in ("set", "frozenset"):
    return [cls, sorted((encode(x) for x in obj), key=repr)]
  if cls == "dict":
    return [cls, sorted(([encode(k), encode(x)] for k, x in obj.items()), key=repr)]
  return [cls, []]


def canon_val(v):
  """Canonical form of a value term for comparison (set-like parts sorted)."""
  cls, parts = v
  if cls in ("list", "tuple"):
    return [cls, [canon_val(p) for p in parts]]
  if cls in ("set", "frozenset"):
    return [cls, sorted((canon_val(p) for p in parts), key=repr)]
  if cls == "dict":
    return [cls, sorted(([canon_val(k), canon_val(x)] for k, x in parts), key=repr)]
  if cls == "$class":
    return [cls, [[parts[0][0], []]]]
  return [cls, []]


def eval_value(src):
  ns = {}
  exec(USER_CLASSES, ns)  # pylint: disable=exec-used
  return eval(src, ns)  # pylint: disable=eval-used


# ---------------------------------------------------------------- pytd nodes -> type terms

_BASES = {"list": "list", "set": "set", "frozenset": "frozenset", "dict": "dict",
          "Sequence": "Sequence", "Iterable": "Iterable", "Mapping": "Mapping",
          "List": "list", "Set": "set", "FrozenSet": "frozenset", "Dict": "dict"}


STRIP = ()     # module prefixes to drop (e.g. ("a.",) when reading module a through its stub)


def _short(name):
  for pre in ("builtins.", "typing.", "collections.abc.") + tuple(STRIP):
    if name.startswith(pre):
      return name[len(pre):]
  return name


ANY = ["any", "", []]


def from_pytd(t):
  """pytd type node -> type term (JSON form).  Forms the spec does not describe become Any
  (soundness reading: never an alarm about something the spec does not understand)."""
  from pytype.pytd import pytd
  if isinstance(t, pytd.AnythingType):
    return ANY
  if isinstance(t, pytd.NothingType):
    return ["nothing", "", []]
  if isinstance(t, pytd.UnionType):
    return ["union", "", [from_pytd(x) for x in t.type_list]]
  if isinstance(t, pytd.CallableType):
    return ["callable", "", []]
  if isinstance(t, pytd.TupleType):
    return ["tuple", "", [from_pytd(x) for x in t.parameters]]
  if isinstance(t, pytd.GenericType):
    base = _short(t.base_type.name)
    if base == "tuple":
      return ["gen", "tuplevar", [from_pytd(t.parameters[0])]]
    if base == "type":
      return ["type", "", [from_pytd(t.parameters[0])]]
    if base in ("Callable",):
      return ["callable", "", []]
    if base in _BASES:
      return ["gen", _BASES[base], [from_pytd(x) for x in t.parameters]]
    return ANY
  if isinstance(t, (pytd.ClassType, pytd.NamedType, pytd.LateType)):
    n = _short(t.name)
    if n in ("Callable",):
      return ["callable", "", []]
    if n in ("Any",):
      return ANY
    if n == "None":
      n = "NoneType"
    if "." in n:
      return ANY
    return ["cls", n, []]
  return ANY    # TypeParameter, Literal, Annotated, Concatenate, ...


def stub_slots(ast):
  """Inferred module AST -> dict(names: name -> type term, classes: cls -> attr -> term,
  rets: function or Class.method -> term, has_getattr, class_getattr: set)."""
  from pytype.pytd import pytd
  out = {"names": {}, "classes": {}, "rets": {}, "bases": {}, "has_getattr": False,
         "class_getattr": []}
  for c in ast.constants:
    out["names"][c.name] = from_pytd(c.type)
  for a in ast.aliases:
    if isinstance(a.type, (pytd.ClassType, pytd.NamedType)) and a.type.name in {c.name for c in ast.classes}:
      out["names"][a.name] = ["type", "", [["cls", a.type.name, []]]]
    elif isinstance(a.type, pytd.Function) or (
        isinstance(a.type, pytd.NamedType) and a.type.name in {f.name for f in ast.functions}):
      out["names"][a.name] = ["callable", "", []]
    else:
      out["names"][a.name] = ANY
  for f in ast.functions:
    if f.name == "__getattr__":
      out["has_getattr"] = True
      continue
    out["names"][f.name] = ["callable", "", []]
    out["rets"][f.name] = ["union", "", [from_pytd(s.return_type) for s in f.signatures]]
  for c in ast.classes:
    out["names"][c.name] = ["type", "", [["cls", c.name, []]]]
    out["bases"][c.name] = [_short(b.name) if hasattr(b, "name") else "?" for b in c.bases]
    attrs = {}
    for k in c.constants:
      attrs[k.name] = from_pytd(k.type)
    for m in c.methods:
      if m.name == "__getattr__":
        out["class_getattr"].append(c.name)
      attrs.setdefault(m.name, ["callable", "", []])
      out["rets"]["%s.%s" % (c.name, m.name)] = ["union", "", [from_pytd(s.return_type)
                                                                for s in m.signatures]]
    out["classes"][c.name] = attrs
  return out

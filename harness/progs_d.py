"""Program corpus for C15/C16: a seeded generator of small Python 3.12 programs that covers the
statement and expression forms the bytecode compiler treats specially (loops with break /
continue / else, generators, async for / with / comprehensions, with, try / except / else /
finally, except*, match, decorators, comprehensions, star expressions, class bodies, lambdas,
walrus, f-strings, PEP 695 syntax), token-level mutation of real token lists, and extraction of
the programs embedded in pytype's own tests.  Everything is a pure function of the seed.
"""
import ast
import io
import os
import random
import textwrap
import tokenize

NAMES = ["x", "y", "z", "a", "b", "xs", "d"]
FUNCS = ["f", "g", "h"]


class Gen:
  """Recursive random program generator; ctx flags say what is legal at this point."""

  def __init__(self, rng, exotic=True):
    self.r = rng
    self.exotic = exotic
    self.nfun = 0
    self.ncls = 0

  # ---- expressions
  def name(self):
    return self.r.choice(NAMES)

  def atom(self):
    r = self.r
    return r.choice([self.name(), str(r.randint(0, 9)), repr(r.choice(["", "s", "ab"])), "None",
                     "True", "1.5", "b'x'", "[]", "()", "{}", self.name()])

  def expr(self, d=0, ctx=()):
    r = self.r
    if d >= 3 or r.random() < 0.3:
      return self.atom()
    e = lambda: self.expr(d + 1, ctx)  # noqa: E731
    k = r.randrange(30)
    if k == 0: return "%s %s %s" % (e(), r.choice(["+", "-", "*", "//", "%", "&", "|", "<<", "@", "**"]), e())
    if k == 1: return "%s %s %s" % (e(), r.choice(["<", "==", "!=", "is", "is not", "in", "not in", ">="]), e())
    if k == 2: return "(%s %s %s)" % (e(), r.choice(["and", "or"]), e())
    if k == 3: return "(%s if %s else %s)" % (e(), e(), e())
    if k == 4: return "%s(%s)" % (r.choice(FUNCS + ["len", "str", "int", "list", "print", "isinstance"]),
                                   ", ".join(e() for _ in range(r.randint(0, 2))))
    if k == 5: return "%s.%s" % (self.name(), r.choice(["real", "append", "items", "foo", "__class__"]))
    if k == 6: return "%s[%s]" % (self.name(), r.choice([e(), "1:", ":-1", "::2", "0"]))
    if k == 7: return "[%s]" % ", ".join(e() for _ in range(r.randint(1, 3)))
    if k == 8: return "(%s,)" % ", ".join(e() for _ in range(r.randint(1, 3)))
    if k == 9: return "{%s: %s, **%s}" % (e(), e(), self.name())
    if k == 10: return "{%s, *%s}" % (e(), self.name())
    if k == 11: return "[*%s, %s]" % (self.name(), e())
    if k == 12: return "%s(*%s, **%s)" % (r.choice(FUNCS), self.name(), self.name())
    if k == 13: return "(lambda %s: %s)" % (r.choice(["", "x", "x, y=1", "*a", "x, /, y, *, z=2", "**k"]), e())
    if k == 14: return "[%s for %s in %s%s]" % (e(), self.name(), e(), r.choice(["", " if %s" % e()]))
    if k == 15: return "{%s: %s for %s, %s in %s.items()}" % (self.name(), e(), self.name(), self.name(), self.name())
    if k == 16: return "{%s for %s in %s for %s in %s}" % (e(), self.name(), self.name(), self.name(), self.name())
    if k == 17: return "sum(%s for %s in %s if %s)" % (e(), self.name(), e(), e())
    if k == 18: return "f'{%s!r:>{%s}} {%s=}'" % (self.name(), self.name(), self.name())
    if k == 19: return "(%s := %s)" % (self.name(), e())
    if k == 20: return "not %s" % e()
    if k == 21: return "-%s" % e()
    if k == 22 and "async" in ctx: return "(await %s)" % e()
    if k == 23 and "func" in ctx and "async" not in ctx: return "(yield %s)" % e()
    if k == 24 and "async" in ctx: return "[%s async for %s in %s]" % (self.name(), self.name(), self.name())
    if k == 25: return "%s < %s <= %s" % (e(), e(), e())
    if k == 26: return "%s(%s=%s)" % (r.choice(FUNCS), self.name(), e())
    if k == 27: return "[[%s for %s in %s] for %s in %s]" % (self.name(), self.name(), self.name(), self.name(), self.name())
    if k == 28: return "(%s, *%s)" % (e(), self.name())
    return self.atom()

  # ---- patterns
  def pattern(self, d=0):
    r = self.r
    k = r.randrange(12 if d < 2 else 5)
    if k == 0: return str(r.randint(0, 3))
    if k == 1: return self.name()
    if k == 2: return "_"
    if k == 3: return repr(r.choice(["a", "b"]))
    if k == 4: return "None"
    if k == 5: return "[%s, *%s]" % (self.pattern(d + 1), r.choice(["_", "rest"]))
    if k == 6: return "(%s, %s)" % (self.pattern(d + 1), self.pattern(d + 1))
    if k == 7: return "{'k': %s, **kw}" % self.pattern(d + 1)
    if k == 8: return "%s(%s)" % (r.choice(["int", "str", "C0", "list"]), r.choice(["", "x", "real=0"]))
    if k == 9: return "%s | %s" % (r.choice(["1", "'a'", "None"]), r.choice(["2", "'b'", "True"]))
    if k == 10: return "%s as w" % r.choice(["1", "[_, _]", "str()"])
    return "[%s]" % self.pattern(d + 1)

  # ---- statements
  def block(self, d, ctx, n=None):
    r = self.r
    n = n or r.randint(1, 3 if d < 2 else 2)
    out = []
    for _ in range(n):
      out += self.stmt(d, ctx)
    return out or ["pass"]

  def ind(self, lines):
    return ["  " + l for l in lines]

  def target(self):
    r = self.r
    return r.choice([self.name(), "%s, %s" % (self.name(), self.name()), "%s, *%s" % (self.name(), self.name()),
                     "*%s, %s" % (self.name(), self.name()), "%s[0]" % self.name(), "%s.attr" % self.name(),
                     "(%s, (%s, %s))" % (self.name(), self.name(), self.name())])

  def params(self):
    return self.r.choice(["", "x", "x, y=1", "x, *a", "x, *, y=None", "x, /, y", "*a, **k", "self",
                          "x: int, y: str = ''", "x, y, z=(1, 2)"])

  def stmt(self, d, ctx):
    r = self.r
    e = lambda: self.expr(0, ctx)  # noqa: E731
    sub = lambda c=ctx, n=None: self.ind(self.block(d + 1, c, n))  # noqa: E731
    k = r.randrange(44)
    if d >= 3:
      k = r.choice([0, 1, 2, 3, 4, 5, 6, 7])
    if k == 0: return ["%s = %s" % (self.target(), e())]
    if k == 1: return ["%s %s= %s" % (self.name(), r.choice(["+", "-", "*", "|", "//"]), e())]
    if k == 2: return ["%s: %s = %s" % (self.name(), r.choice(["int", "str", "list[int]", "'C0'", "int | None"]), e())]
    if k == 3: return [e()]
    if k == 4: return ["%s = %s = %s" % (self.name(), self.name(), e())]
    if k == 5 and "loop" in ctx: return [r.choice(["break", "continue"])]
    if k == 6 and "func" in ctx: return ["return %s" % r.choice(["", e(), "%s, %s" % (e(), e())])]
    if k == 7: return [r.choice(["pass", "assert %s, %s" % (e(), e()), "del %s" % self.name(),
                                 "raise ValueError(%s)" % e(), "raise", "raise KeyError from None"])]
    if k in (8, 9):
      out = ["if %s:" % e()] + sub()
      for _ in range(r.randint(0, 2)):
        out += ["elif %s:" % e()] + sub()
      if r.random() < 0.5:
        out += ["else:"] + sub()
      return out
    if k in (10, 11):
      c = tuple(set(ctx) | {"loop"})
      out = ["while %s:" % r.choice([e(), "True", "1", self.name()])] + sub(c)
      if r.random() < 0.3:
        out += ["else:"] + sub()
      return out
    if k in (12, 13, 14):
      c = tuple(set(ctx) | {"loop"})
      out = ["for %s in %s:" % (r.choice([self.name(), "%s, %s" % (self.name(), self.name()), "i, (a, *b)"]),
                                r.choice([e(), "range(3)", "enumerate(%s)" % self.name(), "zip(xs, xs)"]))] + sub(c)
      if r.random() < 0.3:
        out += ["else:"] + sub()
      return out
    if k in (15, 16, 17):
      c = tuple(x for x in ctx if x != "loop") if r.random() < 0.2 else ctx
      out = ["try:"] + sub(c)
      shape = r.randrange(6)
      if shape in (0, 1, 2, 4):
        nh = r.randint(1, 2)
        for j in range(nh):
          heads = ["except %s:" % r.choice(["KeyError", "(ValueError, TypeError)", "Exception"]),
                   "except %s as e:" % r.choice(["OSError", "Exception"])]
          if j == nh - 1:
            heads.append("except:")
          out += [r.choice(heads)] + sub()
      if shape == 2:
        out += ["else:"] + sub()
      if shape in (1, 2, 3):
        out += ["finally:"] + self.ind(self.block(d + 1, tuple(x for x in ctx if x != "loop")))
      if shape == 5:
        if self.exotic:
          out += ["except* ValueError as eg:"] + self.ind(self.block(d + 1, tuple(x for x in ctx if x != "loop")))
        else:
          out += ["except ValueError:"] + sub()
      return out
    if k in (18, 19):
      items = ", ".join(r.choice(["open(%s) as %s" % (e(), self.name()), "%s as %s" % (self.name(), self.name()),
                                   self.name(), "%s() as (%s, %s)" % (r.choice(FUNCS), self.name(), self.name())])
                        for _ in range(r.randint(1, 2)))
      return ["with %s:" % items] + sub()
    if k in (20, 21):
      out = ["match %s:" % r.choice([e(), self.name(), "(%s, %s)" % (self.name(), self.name())])]
      for _ in range(r.randint(1, 3)):
        g = " if %s" % e() if r.random() < 0.3 else ""
        out += ["  case %s%s:" % (self.pattern(), g)] + self.ind(sub())
      if r.random() < 0.5:
        out += ["  case _:"] + self.ind(sub())
      return out
    if k in (22, 23, 24, 25) and d < 2:
      self.nfun += 1
      kind = r.randrange(5)
      deco = [r.choice(["@staticmethod", "@property", "@%s" % r.choice(FUNCS), "@%s(%s)" % (r.choice(FUNCS), e()),
                        "@classmethod"])] if r.random() < 0.3 else []
      nm = r.choice(FUNCS + ["m%d" % self.nfun])
      ret = r.choice(["", "", " -> int", " -> 'C0'", " -> None"])
      tp = r.choice(["[T]", "[T: int, *Ts, **P]"]) if self.exotic and r.random() < 0.05 else ""
      base = tuple(x for x in ctx if x in ("class",))
      if kind == 0:      # async function
        c = ("func", "async")
        body = self.block(d + 1, c)
        extra = r.randrange(5)
        if extra == 0:
          body += ["async for %s in %s:" % (self.name(), self.name())] + self.ind(self.block(d + 2, c + ("loop",)))
        if extra == 1:
          body += ["async with %s as %s:" % (self.name(), self.name())] + self.ind(self.block(d + 2, c))
        if extra == 2:
          body += ["await %s" % self.expr(1, c)]
        if extra == 3:
          body += ["async for %s in %s:" % (self.name(), self.name())] + self.ind(
              ["if %s:" % self.expr(1, c), "  continue"] + self.block(d + 2, c + ("loop",))) + ["else:", "  pass"]
        if r.random() < 0.2:
          body += ["yield %s" % self.expr(1, ())]
        return deco + ["async def %s%s(%s)%s:" % (nm, tp, self.params(), ret)] + self.ind(body)
      if kind == 1:      # generator
        c = ("func",)
        body = self.block(d + 1, c) + [r.choice(["yield %s" % e(), "yield from %s" % e(), "%s = yield" % self.name()])]
        return deco + ["def %s%s(%s)%s:" % (nm, tp, self.params(), ret)] + self.ind(body)
      c = ("func",)
      body = self.block(d + 1, c)
      if r.random() < 0.15:
        body = ["nonlocal_candidate = 1", "def inner():", "  nonlocal nonlocal_candidate",
                "  nonlocal_candidate += 1", "  return nonlocal_candidate"] + body
      if r.random() < 0.1:
        body = ["global %s" % self.name()] + body
      return deco + ["def %s%s(%s)%s:" % (nm, tp, self.params(), ret)] + self.ind(body)
    if k in (26, 27) and d < 2:
      self.ncls += 1
      nm = "C%d" % r.randrange(3)
      bases = r.choice(["", "", "(object)", "(C0)", "(Exception)", "(list)", "(metaclass=type)", "(dict, C0)"])
      deco = [r.choice(["@%s" % r.choice(FUNCS), "@dataclasses.dataclass"])] if r.random() < 0.15 else []
      tp = "[T]" if self.exotic and r.random() < 0.05 else ""
      body = self.block(d + 1, ("class",), r.randint(1, 3))
      if r.random() < 0.5:
        body += ["def __init__(self, x=0):", "  self.x = x", "  super().__init__()"]
      return deco + ["class %s%s%s:" % (nm, tp, bases)] + self.ind(body)
    if k == 28: return [r.choice(["import os", "import sys", "from typing import Any, List", "import collections",
                                  "from os import path as p", "import enum", "from . import sibling",
                                  "import nonexistent_module", "from typing import *"])]
    if k == 29: return ["%s = lambda %s: %s" % (self.name(), r.choice(["", "x", "*a"]), e())]
    if k == 30 and self.exotic: return [r.choice(["type Alias = int | str", "type L[T] = list[T]"])]
    if k == 31: return ["%s, %s = %s, %s" % (self.name(), self.name(), e(), e())]
    if k == 32: return ["for %s in %s: %s" % (self.name(), e(), "pass")]
    if k == 33: return ["if %s: %s = %s" % (e(), self.name(), e())]
    if k == 34: return ["%s = [%s for %s in %s if %s]" % (self.name(), e(), self.name(), self.name(), e())]
    if k == 35: return ["print(%s, sep=%s)" % (e(), e())]
    if k == 36: return ["%s = %s  # type: %s" % (self.name(), e(), r.choice(["int", "str", "List[int]", "ignore"]))]
    if k == 37: return ["%s.%s = %s" % (self.name(), r.choice(["a", "b"]), e())]
    if k == 38: return ["%s[%s] = %s" % (self.name(), e(), e())]
    if k == 39: return ['"""doc"""']
    if k == 40: return ["%s = %s  # pytype: disable=attribute-error" % (self.name(), e())]
    return ["%s = %s" % (self.name(), e())]

  def program(self):
    r = self.r
    head = []
    if r.random() < 0.3:
      head.append("from typing import Any, List, Optional")
    if r.random() < 0.2:
      head.append("import dataclasses")
    head += ["xs = [1, 2, 3]", "d = {'k': 1}"] if r.random() < 0.5 else []
    return "\n".join(head + self.block(0, (), r.randint(2, 6))) + "\n"


def generate(seed, n, exotic=True, must_compile=True):
  """n distinct generated programs.  With must_compile, keeps only texts CPython compiles
  (the rest are counted by the caller through compile() itself)."""
  out = []
  seen = set()
  k = 0
  while len(out) < n and k < n * 20:
    g = Gen(random.Random(seed * 1000003 + k), exotic=exotic)
    k += 1
    try:
      src = g.program()
    except RecursionError:
      continue
    if src in seen:
      continue
    if must_compile:
      try:
        compile(src, "<gen>", "exec", dont_inherit=True)
      except (SyntaxError, ValueError, RecursionError):
        continue
    seen.add(src)
    out.append(src)
  return out


# ----------------------------------------------------------------------------- hand-written
HAND = [
    "async def f(y):\n  async for x in y:\n    if x: continue\n    g()\n  return 1\n",
    "async def f(y):\n  async for x in y:\n    async for z in x:\n      g(z)\n  else:\n    return 2\n",
    "async def f(y):\n  async with y as a, y as b:\n    return [i async for i in a if await b]\n",
    "async def f(y):\n  try:\n    await y\n  except* ValueError:\n    pass\n  finally:\n    await y\n",
    "async def f(y):\n  async for x in y:\n    try:\n      if x: break\n    finally:\n      await x\n",
    "def f(y):\n  try:\n    try:\n      a = y[0]\n    except KeyError:\n      a = 2\n  except IndexError:\n    return 3\n"
    "  finally:\n    h()\n  x = yield from y\n  with y as z, x as w:\n    k()\n  return a\n",
    "def f(x):\n  while True:\n    try:\n      if x: break\n      continue\n    finally:\n      x -= 1\n  return x\n",
    "def f(x):\n  for i in x:\n    with i:\n      if i: return 1\n      else: continue\n  else:\n    return 2\n",
    "def f(p):\n  match p:\n    case [1, *r] if r: return r\n    case {'k': v, **kw}: return v\n"
    "    case int(real=0) | str(): return 0\n    case _: pass\n",
    "class A:\n  x: int = 1\n  def m(self): return super().m()\n  class B:\n    y = [i for i in range(3)]\n",
    "f = lambda *a, k=1, **kw: (a, k, kw)\nx, *y = f(1, 2)\n[*y, x] = y, x\nprint(*y, **{'sep': ''})\n",
    "def deco(f): return f\n@deco\n@deco\ndef g(a, /, b, *, c=1): return a if b else c\n",
    "def gen():\n  x = yield 1\n  try:\n    yield from gen()\n  finally:\n    return x\n",
    "while 1: pass\n",
    "def f():\n  try:\n    return 1\n  finally:\n    return 2\n",
    "def f(x):\n  with x:\n    with x:\n      try:\n        raise x\n      except x:\n        raise\n",
    "x = [y for y in range(3) if y for z in range(y) if z]\nd = {k: v for k, v in zip(x, x)}\ns = {*x}\n",
    "import os\nif os.name == 'nt':\n  x = 1\nelif os.name:\n  x = ''\nelse:\n  x = None\n",
    "def f(a):\n  assert a, 'm'\n  del a\n  global q\n  q = 1\n",
    "try:\n  import nonexistent\nexcept ImportError:\n  nonexistent = None\nelse:\n  pass\n",
    "def f(x):\n  return (yield)\n",
    "type A = int\ndef f[T](x: T) -> T: return x\nclass C[T]: pass\n",
    "def f(x):\n  for i in x:\n    for j in i:\n      if j: break\n    else:\n      continue\n    break\n",
    "async def f(x):\n  return await x if x else [await y for y in x]\n",
    "async def agen(x):\n  async for i in x:\n    yield i\n  await x\n",
    "def f(x):\n  try:\n    pass\n  except A:\n    pass\n  except B as e:\n    pass\n  else:\n    pass\n  finally:\n    pass\n",
]


# ----------------------------------------------------------------------------- mutation
def _offsets(src):
  lines = src.splitlines(keepends=True)
  off = [0]
  for l in lines:
    off.append(off[-1] + len(l))
  return off


def tokens(src):
  """Real token list of src as (type, string, start_offset, end_offset); [] if tokenize fails."""
  off = _offsets(src)
  out = []
  try:
    for t in tokenize.generate_tokens(io.StringIO(src).readline):
      if t.type == tokenize.ENDMARKER:
        continue
      s = off[t.start[0] - 1] + t.start[1] if t.start[0] - 1 < len(off) else len(src)
      e = off[t.end[0] - 1] + t.end[1] if t.end[0] - 1 < len(off) else len(src)
      if e > s:
        out.append((t.type, t.string, s, e))
  except (tokenize.TokenError, IndentationError, SyntaxError):
    return out
  return out


MUTATIONS = ("delete", "duplicate", "swap", "insert")
INSERTS = ["(", ")", ":", "=", "return", "yield", "await", "*", "else", "]", "lambda", "\n", "    ", "\t", "'",
           "async", "import", ",", ".", "\\", "\x00", "match", "case", "in", "is", "not", "@", "{", "}", "#", "0x", "1_", "…"]


def mutate(src, kind, pos, rng):
  """Apply Mutate(kind, position) to the real token list of src; pos is taken modulo the number
  of tokens.  Returns the mutated text (may or may not compile)."""
  toks = tokens(src)
  if not toks:
    return src + INSERTS[pos % len(INSERTS)]
  p = pos % len(toks)
  _, s, a, b = toks[p]
  if kind == "delete":
    return src[:a] + src[b:]
  if kind == "duplicate":
    return src[:b] + " " + s + src[b:]
  if kind == "swap":
    q = (p + 1) % len(toks)
    if q == p:
      return src
    (a1, b1), (a2, b2) = sorted([(a, b), (toks[q][2], toks[q][3])])
    if b1 > a2:
      return src
    return src[:a1] + src[a2:b2] + src[b1:a2] + src[a1:b1] + src[b2:]
  ins = INSERTS[rng.randrange(len(INSERTS))]
  return src[:a] + ins + " " + src[a:]


# ----------------------------------------------------------------------------- upstream tests
_METHODS = {"Check", "Infer", "CheckWithErrors", "InferWithErrors", "assertNoCrash", "InferFromFile"}


def upstream_snippets(repo, limit=None):
  """The triple-quoted programs passed to self.Check / self.Infer / ... in pytype/tests/*.py."""
  d = os.path.join(repo, "pytype", "tests")
  out = []
  seen = set()
  for fn in sorted(os.listdir(d)):
    if not fn.endswith(".py"):
      continue
    try:
      with open(os.path.join(d, fn), encoding="utf8") as f:
        tree = ast.parse(f.read())
    except (SyntaxError, OSError):
      continue
    for node in ast.walk(tree):
      if not (isinstance(node, ast.Call) and isinstance(node.func, ast.Attribute)
              and node.func.attr in _METHODS and node.args):
        continue
      a = node.args[0] if node.func.attr != "assertNoCrash" else (node.args[1] if len(node.args) > 1 else None)
      if isinstance(a, ast.Constant) and isinstance(a.value, str) and a.value.strip():
        src = textwrap.dedent(a.value).lstrip("\n")
        if src not in seen:
          seen.add(src)
          out.append(("%s:%d" % (fn, node.lineno), src))
  if limit is not None:
    out = out[:limit]
  return out


STDLIB = "/root/.pyenv/versions/3.12.1/lib/python3.12"


def stdlib_files(recursive=False):
  """CPython standard-library sources, excluding test directories and site-packages."""
  out = []
  if not recursive:
    for fn in sorted(os.listdir(STDLIB)):
      if fn.endswith(".py"):
        out.append(os.path.join(STDLIB, fn))
    return out
  skip = {"test", "tests", "idle_test", "site-packages", "__pycache__", "lib2to3", "ensurepip", "turtledemo"}
  for root, dirs, files in os.walk(STDLIB):
    dirs[:] = sorted(x for x in dirs if x not in skip)
    for fn in sorted(files):
      if fn.endswith(".py"):
        out.append(os.path.join(root, fn))
  return out

"""C16 - every compiled code object becomes a well-formed ordered block graph.

Specification: specs/BlocksOps.tla (functions: add_pop_block_targets, _split_bytecode, the two
3.12 rewrites, the connect loop, compute_predecessors/order_nodes; the property WellFormed),
specs/Blocks.tla (the step machine PopTargets -> Split -> Rewrite312 -> Connect -> Order* over
all abstract instruction streams / CPython's async shapes / all small digraphs).

1. TLC model-checks Blocks.tla (exhaustive within the bounds below): every run that ends in
   "Done" is WellFormed, the loop invariants of order_nodes hold in every state, Split / the
   rewrites / Connect / order_nodes never raise.
2. spec -> code: every exported abstract stream is hand-assembled from real opcode classes and put
   through the real add_pop_block_targets + compute_order; every exported digraph (plus seeded
   random larger ones) is given to the real cfg_utils.order_nodes on fake node objects.
3. code -> spec: blocks.process_code runs on every code object of hand-written and generated
   programs, (thorough) the programs embedded in pytype's tests, and CPython's standard library;
   harness-side wrappers capture the opcode list, the partition handed to order_nodes,
   Block.outgoing and the returned order.  TLC (TraceC16.tla) evaluates WellFormed on each record;
   "reachable"/"predecessor" are taken from the edges the SPEC derives from the instruction
   attributes.  Model-vs-code differences that do not falsify the property are divergences.
"""
import argparse
import concurrent.futures as cf
import hashlib
import json
import os
import random
import re
import sys
import time
import warnings

sys.path.insert(0, os.path.dirname(os.path.abspath(__file__)))
import boot  # noqa: E402
import common  # noqa: E402
import c16_cap  # noqa: E402
import progs_d  # noqa: E402
import pyt  # noqa: E402
import tlc  # noqa: E402

PID = "C16"
ALL_KINDS = ("P", "CJ", "J", "RET", "MAY", "SETUP", "POP", "RAISE")
ALLX_KINDS = ALL_KINDS + ("CJX",)        # + conditional jump INTO an exception range (push_exc_block)
JUMP_KINDS = ("P", "CJ", "J", "RET", "MAY")
CORE_KINDS = ("P", "CJ", "J", "RET")
ACTIONS = ("Gen", "PopTargetsStep", "Split", "Rewrite", "Connect", "OrderLoop", "Finish")
KNOWN_DUP = "C16:once:anext-merge-duplicates-end-async-for-block"
TRACE_CFG = ("INIT TInit\nNEXT TNext\nINVARIANT Ok\nPOSTCONDITION Done\nCHECK_DEADLOCK FALSE\n"
             "CONSTANTS MaxOrderModel = 40\n MaxPopModel = 300\n")


def model_cfg(mode, *, minlen=1, maxlen=4, kinds=ALL_KINDS, maxnodes=4, selfloops=True,
              allow_continue=False, export=False, atomic=False,
              invs=("WFInv", "NoCrashOnShapes", "AssertHolds", "OrderLoopInv", "CrashOnlyInPopTargets")):
  b = lambda v: "TRUE" if v else "FALSE"  # noqa: E731
  out = ("SPECIFICATION Spec\nCONSTANTS Mode = \"%s\"\n MinLen = %d\n MaxLen = %d\n Kinds = {%s}\n"
         " MaxNodes = %d\n SelfLoops = %s\n AllowContinue = %s\n Export = %s\n Atomic = %s\n" % (
             mode, minlen, maxlen, ",".join('"%s"' % k for k in kinds), maxnodes, b(selfloops),
             b(allow_continue), b(export), b(atomic)))
  invs = list(invs) + (["ExportInv"] if export else [])
  return out + "".join("INVARIANT %s\n" % i for i in invs)


def model(run, label, cfg, *, workers=16, dot=False, expect=None):
  """One TLC run of Blocks.tla; the spec violating its own invariant is a machinery failure
  (unless `expect` names the invariant that must be violated)."""
  extra = ()
  dotp = None
  if dot:
    os.makedirs(os.path.join(tlc.BUILD, "tlc"), exist_ok=True)
    dotp = os.path.join(tlc.BUILD, "tlc", "c16-%d.dot" % os.getpid())
    extra = ("-dump", "dot,actionlabels", dotp)
  t = time.time()
  try:
    r = tlc.run("Blocks", cfg, workers=workers, timeout=3400, seed=run.seed, extra=extra, heap="8g")
    if expect:
      common.require(r.violated == expect, "Blocks.tla [%s]: expected %s to be violated, got %r" % (
          label, expect, r.violated))
    elif r.violated or r.rc != 0:
      raise common.Machinery("Blocks.tla [%s] violates %s:\n%s" % (
          label, r.violated, (r.error_trace or r.out[-3000:])[:4000]))
    acts = {}
    if dot:
      with open(dotp) as f:
        for m in re.finditer(r'label="(\w+)"', f.read()):
          acts[m.group(1)] = acts.get(m.group(1), 0) + 1
  finally:
    if dotp and os.path.exists(dotp):
      os.unlink(dotp)
  run.cov.setdefault("model_runs", []).append(
      {"label": label, "states": r.distinct, "transitions": r.generated,
       "violated": r.violated, "cpu_wall_s": round(time.time() - t, 1)})
  print("  [model %s] states=%d t=%.0fs" % (label, r.distinct, time.time() - run.t0), flush=True)
  if not expect:
    run.add("states", r.distinct)
    run.add("transitions", r.generated)
  return r, acts


def _judge_part(args):
  off, part = args
  nv, bad, r = tlc.validate_cases("TraceC16", part, cfg=TRACE_CFG, timeout=3400, heap="4g",
                                  env={"JAVA_TOOL_OPTIONS": "-Xss32m"})
  common.require(bad is None and not r.violated,
                 "TraceC16 verdicts are total; TLC stopped:\n" + r.out[-3000:])
  return (nv, [(off + c["i"] - 1, c) for c in tlc.parse_cases(r.out, "BAD")],
          [(off + c["i"] - 1, c) for c in tlc.parse_cases(r.out, "DIV")])


def judge(run, cases, sources, shards=1):
  """TLC judges every record.  sources: label prefix -> source text (for replays)."""
  if not cases:
    return 0
  n = len(cases)
  step = (n + shards - 1) // shards
  parts = [(i, cases[i:i + step]) for i in range(0, n, step)]
  total = 0
  bads, divs = [], []
  with cf.ThreadPoolExecutor(max_workers=max(1, shards)) as ex:
    for nv, b, d in ex.map(_judge_part, parts):
      total += nv
      bads += b
      divs += d
  for idx, c in bads:
    rec = cases[idx]
    fails = sorted(c["fails"])
    name = rec.get("name", rec["k"])
    if fails == ["once"] and "dup-by-anext-merge" in c.get("tags", []):
      key = KNOWN_DUP
    else:
      key = "C16:%s:%s" % (rec["k"], "+".join(fails))
    label = name.rsplit(":", 2)[0] if rec["k"] == "code" else rec["k"]
    payload = {"kind": rec["k"], "name": name, "fails": fails}
    src = sources.get(label)
    if src is not None and len(src) <= 200000:
      payload["label"] = label
      payload["src"] = src
    if len(json.dumps(rec)) <= 60000:
      payload["rec"] = rec
    run.violation(key, "WellFormed clauses %s fail on %s" % (fails, name), payload)
  for idx, c in divs:
    rec = cases[idx]
    run.diverge({"case": rec.get("name", rec["k"]), "model": sorted(c["div"]),
                 "ins": rec.get("ins") if len(rec.get("ins", [])) <= 8 else None})
  run.add("bad_records", len(bads))
  return total


def stats(run, recs):
  for r in recs:
    if r["k"] != "code":
      continue
    nb = len(r["blocks"])
    run.add("code_objects")
    run.add("instructions", len(r["ins"]))
    if nb >= 3:
      run.add("with_3plus_blocks")
    if any(x[8] == 1 for x in r["ins"]):
      run.add("with_SEND")
    if any(x[6] > 0 for x in r["ins"]):
      run.add("with_anext_merge")
    if any(x[8] == 8 for x in r["ins"]):
      run.add("with_SETUP_EXCEPT")
    if len(r["order"]) < nb:
      run.add("with_unreached_blocks")
    if r["re"]:
      run.add("with_retargeted_jump")


def capture_all(run, items, label, procs=8):
  """items: list of (label, src).  Returns (records, sources)."""
  res = pyt.batch(c16_cap.capture_src, items, procs=procs, chunksize=2)
  recs = []
  sources = {}
  for (lab, src), r in zip(items, res):
    if "skip" in r:
      run.add("not_compilable_" + label)
      continue
    run.add("programs_" + label)
    if "crash" in r:
      run.violation("C16:process-code-raised:%s" % r["crash"],
                    "blocks.process_code raised %s (%s) on %s\n%s" % (r["crash"], r.get("msg"), lab, r["tb"]),
                    {"kind": "code", "label": lab, "src": src, "name": lab})
      continue
    sources[lab] = src
    recs += r["recs"]
  return recs, sources


def read_files(paths):
  out = []
  for p in paths:
    try:
      with open(p, encoding="utf8") as f:
        out.append((p, f.read()))
    except (OSError, UnicodeDecodeError):
      pass
  return out


def random_graphs(rng, n, lo=5, hi=9):
  out = []
  for _ in range(n):
    nb = rng.randint(lo, hi)
    dens = rng.choice([0.1, 0.2, 0.35, 0.6])
    edges = sorted({(a, b) for a in range(1, nb + 1) for b in range(1, nb + 1) if rng.random() < dens})
    out.append({"nb": nb, "edges": [list(e) for e in edges]})
  return out


def main():
  ap = argparse.ArgumentParser()
  ap.add_argument("--tier", default="quick")
  ap.add_argument("--replay")
  a = ap.parse_args()
  warnings.simplefilter("ignore", SyntaxWarning)
  os.environ["PYTHONWARNINGS"] = "ignore::SyntaxWarning"
  run = common.Run(PID, "translation_validation", a.tier)
  boot.boot()
  if a.replay:
    with open(a.replay) as f:
      case = json.load(f)["case"]
    cases = []
    srcs = {}
    if case.get("src") is not None:
      r = c16_cap.capture_src((case["label"], case["src"]))
      if "crash" in r:
        run.violation("C16:process-code-raised:%s" % r["crash"], r["tb"], case)
      cases = r.get("recs", [])
      srcs = {case["label"]: case["src"]}
    elif case.get("rec", {}).get("k") == "order":
      cases = [c16_cap.run_order(case["rec"])]
    elif case.get("rec"):
      cases = [case["rec"]]
    n = judge(run, cases, srcs)
    stats(run, cases)
    run.put("programs", max(1, len(cases)))
    run.put("disagreements_checked", n)
    run.sample({"replayed": case.get("name")})
    return run.finish()

  thorough = run.tier == "thorough"
  rng = random.Random(run.seed)

  # ---- 1. the design: TLC on Blocks.tla
  r1, acts = model(run, "streams<=3 stepwise", model_cfg("streams", maxlen=3, kinds=ALLX_KINDS, export=True),
                   workers=1, dot=True)
  for act in ACTIONS:
    common.require(acts.get(act, 0) > 0, "action %s of Blocks.tla is never taken (dead)" % act)
  run.put("action_transitions_streams3", acts)
  streams = [c for c in r1.cases if c["k"] == "stream"]
  common.require(len(streams) > 500, "too few streams exported: %d" % len(streams))
  if thorough:
    model(run, "streams=4 all kinds", model_cfg("streams", minlen=4, maxlen=4, kinds=ALLX_KINDS, atomic=True))
  else:
    model(run, "streams=4 jump kinds", model_cfg("streams", minlen=4, maxlen=4, kinds=JUMP_KINDS, atomic=True))
  r3, _ = model(run, "async shapes", model_cfg("async", allow_continue=True, export=True), workers=1)
  shapes = [c for c in r3.cases if c["k"] == "stream"]
  witnesses = [c for c in shapes if c["fails"]]
  common.require(len(shapes) >= 20 and all(not c["crash"] for c in shapes), "async shapes: %d" % len(shapes))
  run.put("design_level_witnesses_of_known_dup", len(witnesses))
  common.require(witnesses and all(c["fails"] == ["once"] for c in witnesses), "no design-level witness")
  if thorough:
    model(run, "async shapes strict (expected counterexample)",
          model_cfg("async", allow_continue=True, invs=("WFStrict",)), workers=4, expect="WFStrict")
    model(run, "streams=5 all kinds", model_cfg("streams", minlen=5, maxlen=5, atomic=True))
    model(run, "streams=6 jump kinds", model_cfg("streams", minlen=6, maxlen=6, kinds=CORE_KINDS, atomic=True))
    model(run, "graphs<=4 selfloops stepwise", model_cfg("graphs", maxnodes=4, selfloops=True))
    r4, _ = model(run, "graphs<=4 selfloops export", model_cfg("graphs", maxnodes=4, selfloops=True,
                                                             atomic=True, export=True), workers=1)
    model(run, "graphs=5", model_cfg("graphs", minlen=5, maxnodes=5, selfloops=False, atomic=True))
    run.put("model_bounds", {"streams_all_kinds": 5, "streams_jump_kinds": 6, "graphs_selfloops": 4, "graphs": 5})
  else:
    r4, _ = model(run, "graphs<=4 stepwise export", model_cfg("graphs", maxnodes=4, selfloops=False, export=True),
                  workers=1)
    run.put("model_bounds", {"streams_all_kinds": 3, "streams_jump_kinds": 4, "graphs": 4})
  graphs = [c for c in r4.cases if c["k"] == "graph"]
  common.require(len(graphs) > 4000, "too few digraphs exported: %d" % len(graphs))
  run.put("exhaustive", True)

  # ---- 2. spec -> code
  cases = []
  for c in streams + shapes:
    cases.append(c16_cap.run_stream(c["ins"]))
  n_stream_ok = sum(1 for c in cases if c["k"] == "code")
  run.put("streams_replayed", len(cases))
  run.put("streams_replayed_without_raise", n_stream_ok)
  common.require(n_stream_ok > 400, "too few replayed streams reach order_nodes")
  # model said crash <=> real code raised is checked by TLC (DIV raise-not-predicted / crash-model)
  gcases = [c16_cap.run_order({"nb": g["nb"], "edges": g["edges"]}) for g in graphs]
  gcases += [c16_cap.run_order(g) for g in random_graphs(rng, 3000 if thorough else 300)]
  run.put("digraphs_replayed", len(gcases))
  cases += gcases

  # ---- 3. code -> spec
  items = [("hand%02d" % k, s) for k, s in enumerate(progs_d.HAND)]
  gen = progs_d.generate(run.seed, 4000 if thorough else 300)
  items += [("gen%05d" % k, s) for k, s in enumerate(gen)]
  recs, sources = capture_all(run, items, "generated")
  std = progs_d.stdlib_files(recursive=thorough)
  if not thorough:
    always = [os.path.join(progs_d.STDLIB, "asyncio", f) for f in ("streams.py", "queues.py", "locks.py", "taskgroups.py")]
    small = [p for p in std if os.path.getsize(p) < 60000]
    std = always + rng.sample(small, 22)
  r2, s2 = capture_all(run, read_files(std), "stdlib")
  recs += r2
  sources.update(s2)
  if thorough:
    r5, s5 = capture_all(run, progs_d.upstream_snippets(boot.REPO), "upstream")
    recs += r5
    sources.update(s5)
  stats(run, recs)
  print("  [captured] %d code objects, %d instructions, t=%.0fs" % (
      run.cov.get("code_objects", 0), run.cov.get("instructions", 0), time.time() - run.t0), flush=True)
  cases += recs

  # ---- 4. TLC judges everything the real code produced
  nval = judge(run, cases, sources, shards=4 if len(cases) > 6000 else 1)
  run.put("traces_validated_against_impl", nval)
  run.put("programs", run.cov.get("code_objects", 0))
  run.put("disagreements_checked", nval)
  run.put("evaluations", nval)
  distinct = {hashlib.sha1(json.dumps([r["ins"], r["blocks"]]).encode()).hexdigest()
              for r in recs if len(r["blocks"]) >= 2}
  run.put("distinct_nontrivial", len(distinct))
  run.put("rule", "one case = one code object put through blocks.process_code (or one replayed abstract "
          "stream / digraph); non-trivial = at least two blocks; distinct by (instruction tuples, partition)")
  small = [r for r in recs if 2 <= len(r["blocks"]) <= 4 and len(r["ins"]) <= 12]
  for r in small[:2]:
    run.sample(r)
  run.sample(gcases[len(gcases) // 2])
  # vacuity guards
  need = {"code_objects": 20000 if thorough else 1000, "with_3plus_blocks": 8000 if thorough else 400,
          "with_SEND": 200 if thorough else 20, "with_anext_merge": 10 if thorough else 3,
          "with_SETUP_EXCEPT": 1000 if thorough else 60, "with_unreached_blocks": 50 if thorough else 5}
  for k, v in need.items():
    common.require(run.cov.get(k, 0) >= v, "vacuity: %s = %d < %d" % (k, run.cov.get(k, 0), v))
  run.assumptions += [
      "python 3.12 bytecode only (the pipeline has version-specific branches for 3.8-3.11 that are not exercised)",
      "reachable/predecessor are defined by the edges the specification derives from the instruction attributes "
      "(fall-through, target of the first and last instruction, block_target of the last, SEND and merge edges); "
      "exception-handler blocks these edges do not reach are legitimately absent from the order",
      "instructions the 3.12 rewrites are specified to drop (JUMP_BACKWARD of an async-for loop, cold "
      "CLEANUP_THROW/JUMP_BACKWARD blocks) are not part of the analysed stream",
      "tlc -coverage runs out of memory on the nested LETs of BlocksOps!Graph; action coverage is measured on the "
      "dumped state graph (-dump dot,actionlabels) of the streams<=3 model instead",
  ]
  return run.finish()


if __name__ == "__main__":
  common.main(PID, main)

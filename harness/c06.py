"""C06 - a module seen through its emitted stub has the types that were inferred for it.

Upstream programs A come from ProgGen.tla (the statements that run to completion).  A is analysed
by the real pytype (module name `a`); its stub is emitted as .pyi text and as a pickled AST.  A
reader module B is derived from A's inferred declarations (one slot per public variable, per
function result, per class attribute / method result) and analysed under three configurations
(stub on the python path, imports-map entry, pickled stub).  TLC (StubImport.tla / TraceC06.tla)
judges TypeEq(seen, exported) per slot and configuration and the absence of import / pyi errors.
"""
import argparse
import json
import os
import shutil
import sys
import tempfile

sys.path.insert(0, os.path.dirname(os.path.abspath(__file__)))
import boot  # noqa: E402
import common  # noqa: E402
import progterms  # noqa: E402
import pyt  # noqa: E402
import tlc  # noqa: E402

PID = "C06"
TRACE_CFG = "INIT TInit\nNEXT TNext\nINVARIANT Ok\nPOSTCONDITION Done\n"
CONFIGS = ("pythonpath", "imports_map", "pickled")


def _has_tparam(t):
  from pytype.pytd import pytd
  from pytype.pytd import visitors
  found = []

  class V(visitors.Visitor):
    def EnterTypeParameter(self, _):
      found.append(1)
  try:
    t.Visit(V())
  except Exception:  # pylint: disable=broad-except
    return True
  del pytd
  return bool(found)


def derive(ast):
  """Reader module B for A's inferred AST; returns (source, [(slot name in B, kind, A-type node)])."""
  import terms
  lines = ["import a"]
  slots = []
  for c in ast.constants:
    if c.name.startswith("_"):
      continue
    lines.append("v_%s = a.%s" % (c.name, c.name))
    slots.append(("v_%s" % c.name, "name", terms.from_pytd(c.type)))
  for f in ast.functions:
    if f.name.startswith("_") or len(f.signatures) != 1:
      continue
    sig = f.signatures[0]
    if _has_tparam(sig.return_type) or sig.starargs or sig.starstarargs:
      continue
    if any(p.kind.name == "KWONLY" if hasattr(p.kind, "name") else False for p in sig.params):
      continue
    args = ", ".join("None" for _ in sig.params)
    lines.append("r_%s = a.%s(%s)" % (f.name, f.name, args))
    slots.append(("r_%s" % f.name, "name", terms.from_pytd(sig.return_type)))
  for c in ast.classes:
    if c.name.startswith("_") or c.template:
      continue
    for k in c.constants:
      if k.name.startswith("_") or _has_tparam(k.type):
        continue
      fn = "rd_%s_%s" % (c.name, k.name)
      lines.append("def %s(o: a.%s):\n  return o.%s" % (fn, c.name, k.name))
      slots.append((fn, "ret", terms.from_pytd(k.type)))
    for m in c.methods:
      if m.name.startswith("_") or len(m.signatures) != 1:
        continue
      sig = m.signatures[0]
      if _has_tparam(sig.return_type) or len(sig.params) != 1 or sig.starargs or sig.starstarargs:
        continue
      if m.kind.name != "METHOD" if hasattr(m.kind, "name") else False:
        continue
      fn = "cm_%s_%s" % (c.name, m.name)
      lines.append("def %s(o: a.%s):\n  return o.%s()" % (fn, c.name, m.name))
      slots.append((fn, "ret", terms.from_pytd(sig.return_type)))
  return "\n".join(lines) + "\n", slots


def one(src):
  """Worker: full C06 lifecycle for one upstream source.  Returns a picklable record."""
  boot.boot()
  import terms
  from pytype import io as pio
  from pytype import load_pytd
  from pytype.imports import pickle_utils
  from pytype.pytd import serialize_ast
  terms.STRIP = ("a.",)
  d = tempfile.mkdtemp(prefix="c06-", dir=os.path.join(common.VERIF, "build"))
  try:
    optsA = pyt.options(module_name="a")
    loaderA = load_pytd.create_loader(optsA)
    try:
      retA, pyiA = pio.generate_pyi(src, optsA, loaderA)
    except Exception as e:  # pylint: disable=broad-except
      return {"skip": "A: %s: %s" % (type(e).__name__, str(e)[:200])}
    bsrc, slots = derive(retA.ast)
    if not slots:
      return {"skip": "no slots"}
    with open(os.path.join(d, "a.pyi"), "w") as f:
      f.write(pyiA)
    try:
      exp = serialize_ast.PrepareForExport("a", retA.ast, loaderA)
    except Exception as e:  # pylint: disable=broad-except
      # the emitted stub does not parse back: a C05 matter (reported there), not C06's
      return {"skip": "stub of A does not re-parse: %s" % str(e)[-200:], "src": src, "pyiA": pyiA}
    pickle_utils.SerializeAndSave(exp, os.path.join(d, "a.pickled"))
    seen = {}
    errs = {}
    pyiB = {}
    for cfg in CONFIGS:
      if cfg == "pythonpath":
        o = pyt.options(module_name="b", pythonpath=d)
      elif cfg == "imports_map":
        o = pyt.options(module_name="b", imports_map_items=[("a", os.path.join(d, "a.pyi"))])
      else:
        o = pyt.options(module_name="b", use_pickled_files=True,
                        imports_map_items=[("a", os.path.join(d, "a.pickled"))])
      try:
        retB, pb = pio.generate_pyi(bsrc, o, load_pytd.create_loader(o))
      except Exception as e:  # pylint: disable=broad-except
        return {"crash": "%s under %s: %s: %s" % ("B", cfg, type(e).__name__, str(e)[:300]),
                "src": src, "bsrc": bsrc, "pyiA": pyiA}
      st = terms.stub_slots(retB.ast)
      seen[cfg] = st
      pyiB[cfg] = pb
      errs[cfg] = [e.name for e in retB.context.errorlog.unique_sorted_errors()]
    out = []
    for name, kind, ta in slots:
      tb = {}
      for cfg in CONFIGS:
        if kind == "name":
          t = seen[cfg]["names"].get(name)
        else:
          t = seen[cfg]["rets"].get(name)
          if t is not None and t[0] == "union" and len(t[2]) == 1:
            t = t[2][0]
        tb[cfg] = t if t is not None else ["missing", "", []]
      out.append({"n": name, "k": "attr" if name.startswith("rd_") else
                  "meth" if name.startswith("cm_") else "name", "ta": ta, "tb": tb})
    return {"slots": out, "errs": errs, "src": src, "bsrc": bsrc, "pyiA": pyiA, "pyiB": pyiB}
  finally:
    shutil.rmtree(d, ignore_errors=True)


def main():
  ap = argparse.ArgumentParser()
  ap.add_argument("--tier", default="quick")
  ap.add_argument("--replay")
  a = ap.parse_args()
  run = common.Run(PID, "translation_validation", a.tier)
  boot.boot()
  thorough = run.tier == "thorough"
  import c01
  srcs = []
  if a.replay:
    with open(a.replay) as f:
      srcs = [json.load(f)["case"]["src"]]
  else:
    plan = [(8, 2, 1500 if thorough else 110), (12, 2, 1500 if thorough else 70)]
    for j, (ns, dpt, num) in enumerate(plan):
      r = tlc.run("ProgGen", c01.gen_cfg(ns, dpt), workers=1, timeout=3000,
                  seed=run.seed * 11 + 100 + j, simulate="num=%d" % num, depth=ns + 3)
      common.require(not r.violated and len(r.cases) >= num, "ProgGen failed")
      run.add("states", r.generated)
      for c in r.cases:
        rec = progterms.run_program(c["p"])
        if rec:
          srcs.append(rec["src"])
  run.put("upstream_programs", len(srcs))
  os.makedirs(os.path.join(common.VERIF, "build"), exist_ok=True)
  results = pyt.batch(one, srcs, procs=8, chunksize=2)
  cases = []
  keep = []
  for res in results:
    if "skip" in res:
      run.add("skipped")
      if "src" in res:
        run.diverge({"note": res["skip"], "src": res["src"], "pyiA": res["pyiA"]})
      continue
    if "crash" in res:
      run.violation("C06:crash:" + res["crash"][:60], res["crash"], res)
      continue
    cases.append({"slots": [{"n": s["n"], "k": s["k"], "ta": s["ta"], "tb": s["tb"]}
                            for s in res["slots"]],
                  "errs": res["errs"]})
    keep.append(res)
  common.require(len(cases) >= (1 if a.replay else 60), "too few cases: %d" % len(cases))
  nv, bad, r = tlc.validate_cases("TraceC06", cases, cfg=TRACE_CFG, timeout=3000, heap="6g")
  common.require(bad is None, "TraceC06 invariant cannot fail")
  nslots = sum(len(c["slots"]) for c in cases)
  run.put("programs", len(cases))
  run.put("disagreements_checked", nslots * 3)
  run.put("slots", nslots)
  run.put("evaluations", len(cases))
  run.put("distinct_nontrivial", len({k["src"] for k in keep if len(k["slots"]) >= 3}))
  run.put("rule", "one case = one upstream program x 3 configurations; non-trivial = >= 3 reader slots")
  run.sample({"A": keep[0]["src"][:600], "B": keep[0]["bsrc"][:600], "slots": keep[0]["slots"][:3]})
  for rb in tlc.parse_cases(r.out, "BAD"):
    res = keep[rb["i"] - 1]
    for f in rb["fails"]:
      if f[0] == "type:none-attr-any":
        s = res["slots"][f[1] - 1]
        key = "C06:type:none-attr-any"
        what = "slot %s: A inferred %s, B (%s) sees Any" % (s["n"], s["ta"], f[2])
      elif f[0] == "type":
        s = res["slots"][f[1] - 1]
        key = "C06:type:%s:%s->%s" % (f[2], json.dumps(s["ta"], separators=(",", ":")),
                                      json.dumps(s["tb"][f[2]], separators=(",", ":")))
        what = "slot %s: A inferred %s, B (%s) sees %s" % (s["n"], s["ta"], f[2], s["tb"][f[2]])
      else:
        key = "C06:error:%s:%s" % (f[1], f[2])
        what = "B's analysis under %s reports %s" % (f[2], f[1])
      run.violation(key, what, {"src": res["src"], "bsrc": res["bsrc"], "pyiA": res["pyiA"],
                                "pyiB": res["pyiB"], "fail": f})
  return run.finish()


if __name__ == "__main__":
  common.main(PID, main)

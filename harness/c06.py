"""C06 - a module seen through its emitted stub has the types that were inferred for it.

Upstream programs A come from ProgGen.tla (the statements that run to completion).  A is analysed
by the real pytype (module name `a`); its stub is emitted as .pyi text and as a pickled AST.  A
reader module B is derived from A's inferred declarations (one slot per public variable, per
function result, per class attribute / method result) and analysed under three configurations
(stub on the python path, imports-map entry, pickled stub).  TLC (StubImport.tla / TraceC06.tla)
judges TypeEq(seen, exported) per slot and configuration and the absence of import / pyi errors.

WORLDS (StubWorld.tla generates, StubImport.tla section WORLDS judges): the reader sees a small
import DAG of analysed modules.  Family "dag": upstream modules m1..mN over two fixture modules,
importing each other plainly or under alias names that collide across modules; family "gen": a
generic class with its type parameters in every declaration order, instances produced by annotated
and inferred functions / variables / a subclass, in the class's module or one module further;
family "nest": a NESTED class m1.Outer.Inner exposed as a variable, function results (inferred and
annotated), attribute / method result of other classes, a base class, in its own module or in a
second module that imports m1 plainly or under an alias (dotted class names in the tables).  TLC
exports every world with the reads the spec derives for the reader (attribute / method chains over
the last module's exports); the driver renders the modules, analyses them in dependency order
(each sees the earlier ones through their emitted stubs), records every module's inferred
declarations and what the reader sees under the three configurations; TLC computes the type the
upstream analyses give to each read (PathType: class lookup, bases, POSITIONAL binding of type
parameters) and judges TypeEq(seen, that), agreement of the configurations, and errors (also the
import / pyi errors of every upstream module that itself reads earlier modules' stubs).

The corpus is fixed: 16 slices (VERIF_SEED mod 16 selects one at the quick tier, thorough runs all);
the exhaustive world cores do not depend on the seed.
"""
import argparse
import json
import os
import shutil
import sys
import tempfile

sys.path.insert(0, os.path.dirname(os.path.abspath(__file__)))
import boot  # noqa: E402
import common  # noqa: E402
import progterms  # noqa: E402
import pyt  # noqa: E402
import tlc  # noqa: E402

PID = "C06"
TRACE_CFG = "INIT TInit\nNEXT TNext\nINVARIANT Ok\nPOSTCONDITION Done\n"
CONFIGS = ("pythonpath", "imports_map", "pickled")


def _has_tparam(t):
  from pytype.pytd import pytd
  from pytype.pytd import visitors
  found = []

  class V(visitors.Visitor):
    def EnterTypeParameter(self, _):
      found.append(1)
  try:
    t.Visit(V())
  except Exception:  # pylint: disable=broad-except
    return True
  del pytd
  return bool(found)


def derive(ast):
  """Reader module B for A's inferred AST; returns (source, [(slot name in B, kind, A-type node)])."""
  import terms
  lines = ["import a"]
  slots = []
  for c in ast.constants:
    if c.name.startswith("_"):
      continue
    lines.append("v_%s = a.%s" % (c.name, c.name))
    slots.append(("v_%s" % c.name, "name", terms.from_pytd(c.type)))
  for f in ast.functions:
    if f.name.startswith("_") or len(f.signatures) != 1:
      continue
    sig = f.signatures[0]
    if _has_tparam(sig.return_type) or sig.starargs or sig.starstarargs:
      continue
    if any(p.kind.name == "KWONLY" if hasattr(p.kind, "name") else False for p in sig.params):
      continue
    args = ", ".join("None" for _ in sig.params)
    lines.append("r_%s = a.%s(%s)" % (f.name, f.name, args))
    slots.append(("r_%s" % f.name, "name", terms.from_pytd(sig.return_type)))
  for c in ast.classes:
    if c.name.startswith("_") or c.template:
      continue
    for k in c.constants:
      if k.name.startswith("_") or _has_tparam(k.type):
        continue
      fn = "rd_%s_%s" % (c.name, k.name)
      lines.append("def %s(o: a.%s):\n  return o.%s" % (fn, c.name, k.name))
      slots.append((fn, "ret", terms.from_pytd(k.type)))
    for m in c.methods:
      if m.name.startswith("_") or len(m.signatures) != 1:
        continue
      sig = m.signatures[0]
      if _has_tparam(sig.return_type) or len(sig.params) != 1 or sig.starargs or sig.starstarargs:
        continue
      if m.kind.name != "METHOD" if hasattr(m.kind, "name") else False:
        continue
      fn = "cm_%s_%s" % (c.name, m.name)
      lines.append("def %s(o: a.%s):\n  return o.%s()" % (fn, c.name, m.name))
      slots.append((fn, "ret", terms.from_pytd(sig.return_type)))
  return "\n".join(lines) + "\n", slots


def one(src):
  """Worker: full C06 lifecycle for one upstream source.  Returns a picklable record."""
  boot.boot()
  import terms
  from pytype import io as pio
  from pytype import load_pytd
  from pytype.imports import pickle_utils
  from pytype.pytd import pytd
  from pytype.pytd import serialize_ast
  terms.STRIP = ("a.",)
  d = tempfile.mkdtemp(prefix="c06-", dir=os.path.join(common.VERIF, "build"))
  try:
    optsA = pyt.options(module_name="a")
    loaderA = load_pytd.create_loader(optsA)
    try:
      retA, pyiA = pio.generate_pyi(src, optsA, loaderA)
    except Exception as e:  # pylint: disable=broad-except
      return {"skip": "A: %s: %s" % (type(e).__name__, str(e)[:200])}
    bsrc, slots = derive(retA.ast)
    if not slots:
      return {"skip": "no slots"}
    with open(os.path.join(d, "a.pyi"), "w") as f:
      f.write(pyiA)
    try:
      exp = serialize_ast.PrepareForExport("a", retA.ast, loaderA)
    except Exception as e:  # pylint: disable=broad-except
      # the emitted stub does not parse back: a C05 matter (reported there), not C06's
      return {"skip": "stub of A does not re-parse: %s" % str(e)[-200:], "src": src, "pyiA": pyiA}
    pickle_utils.SerializeAndSave(exp, os.path.join(d, "a.pickled"))
    seen = {}
    errs = {}
    pyiB = {}
    for cfg in CONFIGS:
      if cfg == "pythonpath":
        o = pyt.options(module_name="b", pythonpath=d)
      elif cfg == "imports_map":
        o = pyt.options(module_name="b", imports_map_items=[("a", os.path.join(d, "a.pyi"))])
      else:
        o = pyt.options(module_name="b", use_pickled_files=True,
                        imports_map_items=[("a", os.path.join(d, "a.pickled"))])
      try:
        retB, pb = pio.generate_pyi(bsrc, o, load_pytd.create_loader(o))
      except Exception as e:  # pylint: disable=broad-except
        return {"crash": "%s under %s: %s: %s" % ("B", cfg, type(e).__name__, str(e)[:300]),
                "src": src, "bsrc": bsrc, "pyiA": pyiA}
      st = terms.stub_slots(retB.ast)
      for al in retB.ast.aliases:
        # output.value_to_pytd_def emits a module-level name bound to a parameterised class or to a
        # union of classes as the alias `name = T`: the name's type is Type[T]
        if isinstance(al.type, (pytd.GenericType, pytd.UnionType)):
          st["names"][al.name] = ["type", "", [terms.from_pytd(al.type)]]
      seen[cfg] = st
      pyiB[cfg] = pb
      errs[cfg] = [e.name for e in retB.context.errorlog.unique_sorted_errors()]
    out = []
    for name, kind, ta in slots:
      tb = {}
      for cfg in CONFIGS:
        if kind == "name":
          t = seen[cfg]["names"].get(name)
        else:
          t = seen[cfg]["rets"].get(name)
          if t is not None and t[0] == "union" and len(t[2]) == 1:
            t = t[2][0]
        tb[cfg] = t if t is not None else ["missing", "", []]
      out.append({"n": name, "k": "attr" if name.startswith("rd_") else
                  "meth" if name.startswith("cm_") else "name", "ta": ta, "tb": tb})
    return {"slots": out, "errs": errs, "src": src, "bsrc": bsrc, "pyiA": pyiA, "pyiB": pyiB}
  finally:
    shutil.rmtree(d, ignore_errors=True)


# ------------------------------------------------------------------------------------- worlds
FIX_SRC = {
    "c1": ("class Cfg:\n  def __init__(self):\n    self.level = 1\n"
           "class One:\n  def __init__(self):\n    self.level = b'b'\n"),
    "c2": ("class Cfg:\n  def __init__(self):\n    self.level = 's'\n"
           "class Two:\n  def __init__(self):\n    self.level = 1.5\n"),
}
TAG_LIT = ["1.5", "b't'", "True"]                    # StubImport!TagT
LIT = {"int": "1", "str": "'s'", "float": "1.5", "bytes": "b'b'", "bool": "True", "complex": "2j"}
INST1 = ["int", "str", "float"]                      # StubImport!Inst1
INST2 = ["bytes", "bool", "complex"]                 # StubImport!Inst2
WANY = ["any", "", []]


def _imp_class(imp):
  if imp["t"] in FIX_SRC:
    return "Cfg" if imp["c"] == "Cfg" else ("One" if imp["t"] == "c1" else "Two")
  return "T"


def render_world(w):
  """World (as exported by StubWorld.tla) -> [(module name, source)] of its upstream modules in
  dependency order (the rendering of StubImport!ModelD's reading of the world)."""
  out = []
  if w["fam"] == "dag":
    for k, imps in enumerate(w["mods"], 1):
      lines = []
      body = {"var": [], "fn": [], "meth": []}
      for i, imp in enumerate(imps, 1):
        lines.append("import %s" % imp["t"] if not imp["a"] else "import %s as %s" % (imp["t"], imp["a"]))
        new = "%s.%s()" % (imp["a"] or imp["t"], _imp_class(imp))
        if imp["u"] == "var":
          body["var"].append("x%d = %s" % (i, new))
        elif imp["u"] == "fn":
          body["fn"].append("def f%d():\n  return %s" % (i, new))
        else:
          body["meth"].append("  def g%d(self):\n    return %s" % (i, new))
      lines.append("class T:\n  def __init__(self):\n    self.tag = %s" % TAG_LIT[k - 1])
      lines += body["meth"] + body["var"] + body["fn"]
      out.append(("m%d" % k, "\n".join(lines) + "\n"))
    return out
  if w["fam"] == "nest":
    # StubImport!NestCT: m1 declares Outer with the nested class Inner, and Holder; the last module
    # (m1 or m2) uses the nested class as w.uses says
    m1 = ["class Outer:",
          "  class Inner:",
          "    def __init__(self):\n      self.z = 1.5",
          "    def who(self):\n      return b'b'",
          "  def __init__(self):\n    self.n = 0",
          "class Holder:",
          "  def __init__(self):\n    self.inn = Outer.Inner()",
          "  def mk(self):\n    return Outer.Inner()"]
    ref = {"same": "", "plain": "m1.", "alias": "u."}[w["loc"]]
    pro = {"same": [], "plain": ["import m1"], "alias": ["import m1 as u"]}[w["loc"]]
    inner = ref + "Outer.Inner"
    for u in w["uses"]:
      pro.append({
          "var": "x = %s()" % inner,
          "fn": "def f():\n  return %s()" % inner,
          "ann": "def fa() -> %s:\n  return %s()" % (inner, inner),
          "hold": "h = %sHolder()" % ref,
          "sub": "class S(%s):\n  pass\ns = S()" % inner,
          "kcls": ("class K:\n  def __init__(self):\n    self.inn = %s()\n"
                   "  def mk(self):\n    return %s()" % (inner, inner))}[u])
    if w["loc"] == "same":
      return [("m1", "\n".join(m1 + pro) + "\n")]
    return [("m1", "\n".join(m1) + "\n"), ("m2", "\n".join(pro) + "\n")]
  ps, n = w["params"], len(w["params"])
  lines = ["from typing import Generic, List, TypeVar"]
  lines += ["%s = TypeVar(%r)" % (p, p) for p in ps]
  lines.append("class P(Generic[%s]):" % ", ".join(ps))
  lines.append("  def __init__(self, %s):" % ", ".join("a%d: %s" % (i, p) for i, p in enumerate(ps, 1)))
  for i, sh in enumerate(w["shapes"], 1):
    lines.append("    self.at%d = %s" % (i, "[a%d]" % i if sh == "list" else "a%d" % i))
  lines.append("    self.n = 0")
  for i, (p, sh) in enumerate(zip(ps, w["shapes"]), 1):
    lines.append("  def get%d(self) -> %s:\n    return self.at%d%s" % (i, p, i, "[0]" if sh == "list" else ""))
  pro = []
  ref = {"same": "", "plain": "m1.", "alias": "u."}[w["loc"]]
  if w["loc"] == "plain":
    pro.append("import m1")
  elif w["loc"] == "alias":
    pro.append("import m1 as u")
  a1 = ", ".join(LIT[t] for t in INST1[:n])
  a2 = ", ".join(LIT[t] for t in INST2[:n])
  pro.append("def mk() -> %sP[%s]:\n  return %sP(%s)" % (ref, ", ".join(INST1[:n]), ref, a1))
  pro.append("def mk2():\n  return %sP(%s)" % (ref, a2))
  pro.append("p = %sP(%s)" % (ref, a2))
  if w["sub"]:
    pro.append("class Q(%sP[%s]):\n  pass" % (ref, ", ".join(INST1[:n])))
    pro.append("def mkq():\n  return Q(%s)" % a1)
  if w["loc"] == "same":
    return [("m1", "\n".join(lines + pro) + "\n")]
  return [("m1", "\n".join(lines) + "\n"), ("m2", "\n".join(pro) + "\n")]


def _ann(t):
  if t[0] == "gen":
    return "%s[%s]" % (t[1], ", ".join(_ann(x) for x in t[2]))
  return t[1]


def _ann_modules(t):
  out = {t[1].split(".", 1)[0]} if "." in t[1] else set()   # (world modules are top-level; a nested
  #                                                             class is m.Outer.Inner)
  for x in t[2]:
    out |= _ann_modules(x)
  return out


def render_reader(last, reads):
  """The reads derived by the spec -> reader module; slot j is variable r<j> or function q<j>."""
  mods, lines, slots = {last}, [], []
  for j, r in enumerate(reads, 1):
    chain = "".join(".%s" % st["n"] if st["k"] == "attr" else ".%s()" % st["n"] for st in r["p"])
    s = r["s"]
    if s["k"] == "param":
      mods |= _ann_modules(s["t"])
      lines.append("def q%d(o: %s):\n  return o%s" % (j, _ann(s["t"]), chain))
      slots.append(("ret", "q%d" % j))
    else:
      lines.append("r%d = %s.%s%s%s" % (j, last, s["n"], "()" if s["k"] == "call" else "", chain))
      slots.append(("name", "r%d" % j))
  return "\n".join(["import %s" % m for m in sorted(mods)] + lines) + "\n", slots


def read_src(last, r):
  """The reader's expression for one read (for messages)."""
  body = render_reader(last, [r])[0].strip().split("\n")
  body = [ln for ln in body if not ln.startswith("import ")]
  return body[0][len("r1 = "):] if len(body) == 1 else " ".join(ln.strip() for ln in body)


_QBASES = {"list": "list", "set": "set", "frozenset": "frozenset", "dict": "dict",
           "List": "list", "Set": "set", "FrozenSet": "frozenset", "Dict": "dict",
           "Sequence": "Sequence", "Iterable": "Iterable", "Mapping": "Mapping"}


def qterm(t, mod, local):
  """pytd type node -> world type term: module qualification kept (names of `local` classes of
  module `mod` are qualified), user generic classes and type parameters are described."""
  from pytype.pytd import pytd

  def short(n):
    for pre in ("builtins.", "typing.", "collections.abc."):
      if n.startswith(pre):
        return n[len(pre):], True
    return n, False

  def q(n):
    return "%s.%s" % (mod, n) if n in local else n

  def go(t):
    if isinstance(t, pytd.AnythingType):
      return WANY
    if isinstance(t, pytd.NothingType):
      return ["nothing", "", []]
    if isinstance(t, pytd.TypeParameter):
      return ["tparam", t.name.rsplit(".", 1)[-1], []]
    if isinstance(t, pytd.UnionType):
      return ["union", "", [go(x) for x in t.type_list]]
    if isinstance(t, pytd.CallableType):
      return ["callable", "", []]
    if isinstance(t, pytd.TupleType):
      return ["tuple", "", [go(x) for x in t.parameters]]
    if isinstance(t, pytd.GenericType):
      base, builtin = short(t.base_type.name)
      if builtin and base == "tuple":
        return ["gen", "tuplevar", [go(t.parameters[0])]]
      if builtin and base == "type":
        return ["type", "", [go(t.parameters[0])]]
      if builtin:
        return ["gen", _QBASES[base], [go(x) for x in t.parameters]] if base in _QBASES else WANY
      return ["gen", q(base), [go(x) for x in t.parameters]]
    if isinstance(t, (pytd.ClassType, pytd.NamedType, pytd.LateType)):
      n, builtin = short(t.name)
      if builtin and n == "Any":
        return WANY
      if builtin and n == "None":
        n = "NoneType"
      return ["cls", n if builtin else q(n), []]
    return WANY
  return go(t)


def decl_tables(mod, ast):
  """Inferred AST of module `mod` -> (names, frets, classes) in StubImport's table format."""
  from pytype.pytd import pytd
  def nested(c, qn):
    # (a nested class is named by its own name inside the enclosing class; types refer to it by the
    # dotted path from the module)
    yield qn, c
    for k in c.classes:
      yield from nested(k, k.name if k.name.startswith(qn + ".") else "%s.%s" % (qn, k.name))
  allc = [qc for c in ast.classes for qc in nested(c, c.name)]
  local = {qn for qn, _ in allc}
  names = {c.name: qterm(c.type, mod, local) for c in ast.constants}
  frets = {f.name: qterm(f.signatures[0].return_type, mod, local)
           for f in ast.functions if len(f.signatures) == 1}
  classes = {}
  for cname, c in allc:
    bases = []
    # declaration order of the type parameters: the class statement's Generic[...] base where there
    # is one (it is what the stub text says), else the template of the inferred class
    tpl = [x.name.rsplit(".", 1)[-1] for x in c.template]
    for b in c.bases:
      bn = b.base_type.name if isinstance(b, pytd.GenericType) else getattr(b, "name", "")
      if bn == "typing.Generic" and isinstance(b, pytd.GenericType):
        tpl = [x.name.rsplit(".", 1)[-1] for x in b.parameters if isinstance(x, pytd.TypeParameter)]
      if bn.startswith(("builtins.", "typing.")) or not bn:
        continue
      bases.append(qterm(b, mod, local))
    attrs = {k.name: qterm(k.type, mod, local) for k in c.constants}
    rets = {m.name: qterm(m.signatures[0].return_type, mod, local)
            for m in c.methods if len(m.signatures) == 1}
    attrs["_"] = WANY          # (the JSON bridge has no empty record)
    rets["_"] = WANY
    classes["%s.%s" % (mod, cname)] = {
        "tpl": tpl, "bases": bases,
        "attrs": attrs, "rets": rets}
  names["_"] = WANY
  frets["_"] = WANY
  return names, frets, classes


_FIX = {}


def _analyse_upstream(name, src, d):
  """Analyse one upstream module seeing the earlier ones through their .pyi stubs in d; write its
  stub as text and as pickled AST into d.  Returns (inferred ast, pyi text)."""
  from pytype import io as pio
  from pytype import load_pytd
  from pytype.imports import pickle_utils
  from pytype.pytd import serialize_ast
  o = pyt.options(module_name=name, pythonpath=d)
  ld = load_pytd.create_loader(o)
  ret, pyi = pio.generate_pyi(src, o, ld)
  errs = [e.name for e in ret.context.errorlog.unique_sorted_errors()]
  with open(os.path.join(d, name + ".pyi"), "w") as f:
    f.write(pyi)
  exp = serialize_ast.PrepareForExport(name, ret.ast, ld)
  pickle_utils.SerializeAndSave(exp, os.path.join(d, name + ".pickled"))
  return ret.ast, pyi, errs


def world_one(case):
  """Worker: the C06 lifecycle for one world.  Returns a picklable record."""
  boot.boot()
  from pytype import io as pio
  from pytype import load_pytd
  w, reads = case["w"], case["reads"]
  d = tempfile.mkdtemp(prefix="c06w-", dir=os.path.join(common.VERIF, "build"))
  try:
    classes, pyis, srcs = {}, {}, {}
    order = []
    if w["fam"] == "dag":
      if not _FIX:              # the fixture modules are the same in every world: analyse them once
        fd = tempfile.mkdtemp(prefix="c06f-", dir=os.path.join(common.VERIF, "build"))
        try:
          for name, src in sorted(FIX_SRC.items()):
            ast, pyi, errs = _analyse_upstream(name, src, fd)
            with open(os.path.join(fd, name + ".pickled"), "rb") as f:
              _FIX[name] = (pyi, f.read(), decl_tables(name, ast)[2], errs)
        finally:
          shutil.rmtree(fd, ignore_errors=True)
      for name, (pyi, blob, cls, errs) in sorted(_FIX.items()):
        with open(os.path.join(d, name + ".pyi"), "w") as f:
          f.write(pyi)
        with open(os.path.join(d, name + ".pickled"), "wb") as f:
          f.write(blob)
        classes.update(cls)
        pyis[name] = pyi
        srcs[name] = FIX_SRC[name]
        order.append(name)
        if errs:
          return {"skip": "fixture %s has errors %s" % (name, errs)}
    names = frets = None
    wcase = {"w": w, "reads": reads, "collide": case["collide"], "nonalpha": case["nonalpha"]}
    for k, (name, src) in enumerate(render_world(w)):
      srcs[name] = src
      try:
        ast, pyi, errs = _analyse_upstream(name, src, d)
      except Exception as e:  # pylint: disable=broad-except
        what = "%s: %s: %s" % (name, type(e).__name__, str(e)[:300])
        if k == 0 and w["fam"] in ("gen", "nest"):     # imports nothing of ours: not a matter of stubs
          return {"upfail": what, "w": w, "srcs": srcs}
        # a later upstream module is itself a reader of the earlier modules' stubs
        return {"crash": what, "w": w, "world": wcase, "srcs": srcs, "pyis": pyis}
      if errs:
        # (judged by TLC like the reader's errors: import / pyi errors are violations)
        return {"case": {"fam": "uperr", "w": w, "errs": {name: errs}}, "world": wcase,
                "srcs": srcs, "pyis": pyis, "upfail": "%s: errors %s" % (name, errs)}
      names, frets, cls = decl_tables(name, ast)
      classes.update(cls)
      pyis[name] = pyi
      order.append(name)
    last = order[-1]
    bsrc, slots = render_reader(last, reads)
    seen, errs, pyiB = {}, {}, {}
    for cfg in CONFIGS:
      if cfg == "pythonpath":
        o = pyt.options(module_name="b", pythonpath=d)
      elif cfg == "imports_map":
        o = pyt.options(module_name="b",
                        imports_map_items=[(m, os.path.join(d, m + ".pyi")) for m in order])
      else:
        o = pyt.options(module_name="b", use_pickled_files=True,
                        imports_map_items=[(m, os.path.join(d, m + ".pickled")) for m in order])
      try:
        retB, pb = pio.generate_pyi(bsrc, o, load_pytd.create_loader(o))
      except Exception as e:  # pylint: disable=broad-except
        return {"crash": "B under %s: %s: %s" % (cfg, type(e).__name__, str(e)[:300]),
                "w": w, "world": wcase, "srcs": srcs, "bsrc": bsrc, "pyis": pyis}
      cs = {c.name: qterm(c.type, "b", ()) for c in retB.ast.constants}
      fs = {}
      for f in retB.ast.functions:
        ts = [qterm(s.return_type, "b", ()) for s in f.signatures]
        fs[f.name] = ts[0] if len(ts) == 1 else ["union", "", ts]
      seen[cfg] = [(cs if kind == "name" else fs).get(n, ["missing", "", []]) for kind, n in slots]
      errs[cfg] = [e.name for e in retB.context.errorlog.unique_sorted_errors()]
      pyiB[cfg] = pb
    return {"case": {"fam": w["fam"], "w": w, "reads": reads,
                     "decls": {"names": names, "frets": frets, "classes": classes},
                     "seen": seen, "errs": errs},
            "world": wcase, "srcs": srcs, "pyis": pyis, "bsrc": bsrc, "pyiB": pyiB, "last": last,
            "collide": case["collide"], "nonalpha": case["nonalpha"]}
  finally:
    shutil.rmtree(d, ignore_errors=True)


def world_cfg(family, **kw):
  d = dict(Family='"%s"' % family, NUp=2, MinImpI=1, MaxImpI=1, MinImpL=2, MaxImpL=2,
           AliasNames='{"u"}', UsesInner='{"meth"}', UsesLast='{"var", "fn"}',
           FixClasses='{"Cfg"}', FirstTargets='{"c2"}', TVarNames='{"K", "T", "V"}', MinParams=2,
           MaxParams=2, AttrShapes='{"plain", "list"}', Locs='{"same", "alias"}', Subs="{TRUE}",
           NestKinds='{"var", "fn", "ann", "hold", "sub", "kcls"}',
           NestLocs='{"same", "plain", "alias"}', MinUses=4)
  d.update(kw)
  return ("INIT Init\nNEXT Next\nCONSTANTS\n" + "".join(" %s = %s\n" % kv for kv in sorted(d.items()))
          + "INVARIANT WellFormed\nINVARIANT Closed\nINVARIANT ExportInv\n")


WIDE_DAG = dict(NUp=3, MinImpI=1, MaxImpI=2, MinImpL=1, MaxImpL=2, AliasNames='{"u", "w"}',
                UsesInner='{"var", "fn", "meth"}', UsesLast='{"var", "fn", "meth"}',
                FixClasses='{"Cfg", "Own"}', FirstTargets='{"c1", "c2"}')
WIDE_GEN = dict(MinParams=1, MaxParams=3, Locs='{"same", "plain", "alias"}', Subs="{TRUE, FALSE}")
NSLICES = 16


def _t(t):
  """Compact rendering of a type term for keys and messages."""
  if t[0] in ("cls", "tparam"):
    return t[1]
  if t[0] in ("any", "missing", "unknown", "nothing", "callable"):
    return t[0]
  if t[0] == "union":
    return "|".join(sorted(_t(x) for x in t[2]))
  return "%s[%s]" % (t[1] or t[0], ",".join(_t(x) for x in t[2]))


def world_text(w):
  if w["fam"] == "dag":
    return "; ".join("m%d: %s" % (k, ", ".join(
        "import %s%s -> %s" % (i["t"], " as " + i["a"] if i["a"] else "", i["u"]) for i in imps))
                     for k, imps in enumerate(w["mods"], 1))
  if w["fam"] == "nest":
    return "nested class m1.Outer.Inner used as %s %s" % (
        "/".join(w["uses"]),
        {"same": "in its own module", "plain": "in m2 (import m1)", "alias": "in m2 (import m1 as u)"}[w["loc"]])
  return "class P(Generic[%s]) attrs %s, producers %s%s" % (
      ", ".join(w["params"]), "/".join(w["shapes"]),
      {"same": "in P's module", "plain": "in m2 (import m1)", "alias": "in m2 (import m1 as u)"}[w["loc"]],
      ", subclass Q" if w["sub"] else "")


def main():
  ap = argparse.ArgumentParser()
  ap.add_argument("--tier", default="quick")
  ap.add_argument("--replay")
  a = ap.parse_args()
  run = common.Run(PID, "translation_validation", a.tier)
  boot.boot()
  thorough = run.tier == "thorough"
  import concurrent.futures as cf
  import c01
  srcs = []
  worlds = []
  if a.replay:
    with open(a.replay) as f:
      case = json.load(f)["case"]
    if "world" in case:
      worlds = [case["world"]]
    else:
      srcs = [case["src"]]
  else:
    # The corpus is FIXED: NSLICES slices, every TLC seed derived from the slice number only.  quick
    # runs the slice VERIF_SEED mod NSLICES (plus the exhaustive world cores, which do not depend on
    # the seed), thorough all of them.
    slices = list(range(NSLICES)) if thorough else [run.seed % NSLICES]
    run.put("corpus_slices", slices)
    jobs = []
    for sl in slices:
      for j, (ns, dpt, num) in enumerate([(8, 2, 110), (12, 2, 70)]):
        jobs.append(("prog", "ProgGen", c01.gen_cfg(ns, dpt),
                     dict(seed=sl * 11 + 100 + j, simulate="num=%d" % num, depth=ns + 3), num))
      jobs.append(("dag", "StubWorld", world_cfg("dag", **WIDE_DAG),
                   dict(seed=7000 + sl, simulate="num=%d" % (25 if thorough else 12), depth=14), 8))
    if thorough:
      jobs.append(("dag", "StubWorld", world_cfg("dag", MinImpL=1, UsesInner='{"var", "meth"}',
                                                 UsesLast='{"var", "fn", "meth"}',
                                                 FirstTargets='{"c1", "c2"}'), {}, 900))
      jobs.append(("gen", "StubWorld", world_cfg("gen", **WIDE_GEN), {}, 460))
      jobs.append(("nest", "StubWorld", world_cfg("nest", MinUses=1), {}, 189))
    else:
      jobs.append(("dag", "StubWorld", world_cfg("dag"), {}, 96))
      jobs.append(("gen", "StubWorld", world_cfg("gen"), {}, 48))
      jobs.append(("nest", "StubWorld", world_cfg("nest"), {}, 66))

    def gen(job):
      kind, module, cfg, kw, least = job
      r = tlc.run(module, cfg, workers=1, timeout=3000, **kw)
      common.require(not r.violated and len(r.cases) >= least,
                     "%s failed (%s, %d cases)\n%s" % (module, r.violated, len(r.cases), r.out[-1500:]))
      return kind, r
    with cf.ThreadPoolExecutor(max_workers=4) as ex:
      res = list(ex.map(gen, jobs))
    seen_w = set()
    for kind, r in res:
      run.add("states", r.generated)
      if kind == "prog":
        for c in r.cases:
          rec = progterms.run_program(c["p"])
          if rec:
            srcs.append(rec["src"])
      else:
        run.add("world_model_states", r.distinct)
        for c in r.cases:
          k = json.dumps(c["w"], sort_keys=True)
          if k not in seen_w:
            seen_w.add(k)
            worlds.append(c)
  run.put("upstream_programs", len(srcs))
  run.put("worlds", len(worlds))
  os.makedirs(os.path.join(common.VERIF, "build"), exist_ok=True)
  # one pool of booted workers, two batches (timed separately: the worlds are the newer part)
  import multiprocessing as mp
  import time
  run.put("wall_generation_s", round(time.time() - run.t0, 1))
  with mp.get_context("spawn").Pool(8, initializer=pyt._init_worker, initargs=(boot.REPO, 0)) as pool:  # pylint: disable=protected-access
    t1 = time.time()
    results = pool.map(world_one, worlds, chunksize=2) if worlds else []
    run.put("wall_worlds_s", round(time.time() - t1, 1))
    t1 = time.time()
    results += pool.map(one, srcs, chunksize=2) if srcs else []
    run.put("wall_programs_s", round(time.time() - t1, 1))
  t1 = time.time()
  cases = []
  keep = []
  for res in results:
    if "skip" in res:
      run.add("skipped")
      if "src" in res:
        run.diverge({"note": res["skip"], "src": res["src"], "pyiA": res["pyiA"]})
      continue
    if "upfail" in res:
      # an upstream module of a world is not analysed cleanly: nothing to read through its stub
      # (its import / pyi errors are judged by TLC below: it reads the earlier modules' stubs)
      run.add("worlds_upstream_failed")
      run.diverge({"note": res["upfail"], "w": res.get("w") or res["world"]["w"], "srcs": res["srcs"]})
      if "case" not in res:
        continue
    if "crash" in res:
      run.violation("C06:crash:" + res["crash"][:60], res["crash"], res)
      continue
    if "case" in res:
      cases.append(res["case"])
    else:
      cases.append({"fam": "prog",
                    "slots": [{"n": s["n"], "k": s["k"], "ta": s["ta"], "tb": s["tb"]}
                              for s in res["slots"]],
                    "errs": res["errs"]})
    keep.append(res)
  nprog = sum(1 for c in cases if c["fam"] == "prog")
  if not a.replay:
    common.require(nprog >= 60 * len(run.cov["corpus_slices"]), "too few cases: %d" % nprog)
  common.require(cases, "no case")
  nv, bad, r = tlc.validate_cases("TraceC06", cases, cfg=TRACE_CFG, timeout=3000, heap="6g")
  common.require(bad is None, "TraceC06 invariant cannot fail")
  run.put("wall_validation_s", round(time.time() - t1, 1))
  nslots = sum(len(c["slots"]) for c in cases if c["fam"] == "prog")
  judged = {st["i"]: st["judged"] for st in tlc.parse_cases(r.out, "STAT")}
  nestedj = {st["i"]: st["nested"] for st in tlc.parse_cases(r.out, "STAT")}
  wcases = [(n, c) for n, c in enumerate(cases, 1) if c["fam"] in ("dag", "gen", "nest")]
  common.require(all(n in judged for n, _ in wcases), "TraceC06 did not report on every world")
  nreads = sum(len(c["reads"]) for _, c in wcases)
  njudged = sum(judged[n] for n, _ in wcases)
  run.put("programs", len(cases))
  run.put("disagreements_checked", (nslots + nreads) * 3)
  run.put("slots", nslots)
  run.put("world_cases", len(wcases))
  run.put("world_reads", nreads)
  run.put("world_reads_judged", njudged)
  run.put("evaluations", len(cases))
  run.put("distinct_nontrivial",
          len({k["src"] for k in keep if "slots" in k and len(k["slots"]) >= 3})
          + sum(1 for n, _ in wcases if judged[n] >= 3))
  run.put("rule", "one case = one upstream program (or one world of upstream modules) x 3 "
                  "configurations; non-trivial = >= 3 reader slots (reads judged by TLC)")
  if not a.replay:
    # vacuity guards of the world families: alias names that collide across modules must have been
    # read through, and so must generic classes whose parameters are not in alphabetical order
    ncol = sum(judged[n] for n, c in wcases if c["fam"] == "dag" and keep[n - 1]["collide"])
    nna = sum(judged[n] for n, c in wcases if c["fam"] == "gen" and keep[n - 1]["nonalpha"])
    ndag = sum(1 for _, c in wcases if c["fam"] == "dag")
    ngen = sum(1 for _, c in wcases if c["fam"] == "gen")
    nnest = sum(1 for _, c in wcases if c["fam"] == "nest")
    nnj = sum(nestedj[n] for n, _ in wcases)
    nnj2 = sum(nestedj[n] for n, c in wcases if c["fam"] == "nest" and c["w"]["loc"] != "same")
    run.put("nest_worlds", nnest)
    run.put("reads_judged_through_nested_class_types", nnj)
    run.put("reads_judged_through_nested_class_of_another_module", nnj2)
    run.put("dag_worlds", ndag)
    run.put("gen_worlds", ngen)
    run.put("reads_judged_in_alias_collision_worlds", ncol)
    run.put("reads_judged_in_nonalphabetical_generic_worlds", nna)
    common.require(ndag >= 100 and ngen >= 48, "too few worlds: dag %d gen %d" % (ndag, ngen))
    common.require(nnest >= 66 and nnj >= 1200 and nnj2 >= 800,
                   "nested classes were not exercised (%d worlds, %d reads through a nested class type, "
                   "%d through one of another upstream module)" % (nnest, nnj, nnj2))
    common.require(ncol >= 120, "alias collisions across modules were not exercised (%d reads)" % ncol)
    common.require(nna >= 400, "non-alphabetical generic templates were not exercised (%d reads)" % nna)
    common.require(njudged * 10 >= nreads * 9, "too many reads the upstream declarations do not type: "
                   "%d of %d judged" % (njudged, nreads))
  for k in keep:
    if "slots" in k:
      run.sample({"A": k["src"][:600], "B": k["bsrc"][:600], "slots": k["slots"][:3]})
      break
  for fam in ("dag", "gen", "nest"):
    for k in keep:
      if k.get("case", {}).get("fam") == fam and (k["collide"] or k["nonalpha"] or fam == "nest"):
        run.sample({"world": world_text(k["case"]["w"]), "modules": k["srcs"], "B": k["bsrc"][:500],
                    "seen": {c: [_t(t) for t in v] for c, v in k["case"]["seen"].items()}})
        break
  npred = 0
  for rb in tlc.parse_cases(r.out, "BAD"):
    res = keep[rb["i"] - 1]
    if "case" in res:
      c = res["case"]
      w = c["w"]
      wt = world_text(w)
      payload = {"world": res["world"], "modules": res["srcs"], "stubs": res["pyis"],
                 "bsrc": res.get("bsrc", ""), "pyiB": res.get("pyiB", {})}
      for f in rb["fails"]:
        if f[0] == "mach:reads":
          raise common.Machinery("the reads replayed for world %s are not the spec's Derive" % wt)
        if f[0] == "pred":
          npred += 1
          run.diverge({"note": "upstream declarations differ from the world model", "world": wt,
                       "read": read_src(res["last"], c["reads"][f[1] - 1]),
                       "recorded": rb["exp"][f[1] - 1]})
          continue
        if f[0] == "error":
          who = ("the analysis of upstream module %s (reading the earlier modules' stubs)" % f[2]
                 if c["fam"] == "uperr" else "B's analysis under %s" % f[2])
          run.violation("C06:%s:error:%s:%s" % (w["fam"], f[1], f[2]),
                        "world [%s]: %s reports %s" % (wt, who, f[1]), dict(payload, fail=f))
          continue
        rd = read_src(res["last"], c["reads"][f[1] - 1])
        if f[0] == "wtype":
          e, sn = rb["exp"][f[1] - 1], c["seen"][f[2]][f[1] - 1]
          run.violation("C06:%s:type:%s:%s->%s" % (w["fam"], f[2], _t(e), _t(sn)),
                        "world [%s]: read `%s`: the upstream analyses give %s, B (%s) sees %s"
                        % (wt, rd, _t(e), f[2], _t(sn)), dict(payload, fail=f))
        else:
          c1, c2 = f[2].split("/")
          run.violation("C06:%s:configs-disagree:%s:%s!=%s" % (
              w["fam"], f[2], _t(c["seen"][c1][f[1] - 1]), _t(c["seen"][c2][f[1] - 1])),
                        "world [%s]: read `%s`: B sees %s under %s but %s under %s" % (
                            wt, rd, _t(c["seen"][c1][f[1] - 1]), c1, _t(c["seen"][c2][f[1] - 1]), c2),
                        dict(payload, fail=f))
      continue
    for f in rb["fails"]:
      if f[0] == "type:none-attr-any":
        s = res["slots"][f[1] - 1]
        key = "C06:type:none-attr-any"
        what = "slot %s: A inferred %s, B (%s) sees Any" % (s["n"], s["ta"], f[2])
      elif f[0] == "type":
        s = res["slots"][f[1] - 1]
        key = "C06:type:%s:%s->%s" % (f[2], json.dumps(s["ta"], separators=(",", ":")),
                                      json.dumps(s["tb"][f[2]], separators=(",", ":")))
        what = "slot %s: A inferred %s, B (%s) sees %s" % (s["n"], s["ta"], f[2], s["tb"][f[2]])
      elif f[0] == "agree":
        s = res["slots"][f[1] - 1]
        c1, c2 = f[2].split("/")
        key = "C06:configs-disagree:%s:%s!=%s" % (f[2], json.dumps(s["tb"][c1], separators=(",", ":")),
                                                  json.dumps(s["tb"][c2], separators=(",", ":")))
        what = "slot %s: B sees %s under %s but %s under %s" % (s["n"], s["tb"][c1], c1, s["tb"][c2], c2)
      else:
        key = "C06:error:%s:%s" % (f[1], f[2])
        what = "B's analysis under %s reports %s" % (f[2], f[1])
      run.violation(key, what, {"src": res["src"], "bsrc": res["bsrc"], "pyiA": res["pyiA"],
                                "pyiB": res["pyiB"], "fail": f})
  run.put("world_model_mismatches", npred)
  return run.finish()


if __name__ == "__main__":
  common.main(PID, main)

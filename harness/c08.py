"""C08 - solver answers do not depend on what was asked or built before.

spec -> code: histories (behaviours of Typegraph.tla: every API mutator and Query interleaved;
exhaustive at a tiny bound, tlc -simulate beyond it, cycles/conditions/paste operations
included) are executed on one long-lived cfg.Program.  At every Query a replica is rebuilt from
scratch by replaying the mutating prefix into a fresh Program and asked the same question.
code -> spec: TraceC08.tla advances the spec state with the spec's own actions and judges each
query: r = replica's answer, repeated queries never flip, and on acyclic unconditioned graphs
r = SolverRef.  The number of solver instances (calculate_metrics) is recorded after each step to
observe cache invalidation without source hooks.

Cache epochs (TypegraphEpoch.tla): the same state machine started from populated CFG skeletons of
3-5 nodes (chains, diamonds, ...), then build; sweep; (non-topological mutator | sweep)*; sweep.
Every backward path of the skeleton is queried before and after the mutators while no node or
edge is created - the stretch in which anything the implementation keys on the topology alone
stays alive.  TraceC08 reports (COV lines) the queries whose backward path crosses a node that
was conditioned after an identical query walked it; the driver's vacuity guards count them.
"""
import argparse
import json
import os
import sys

sys.path.insert(0, os.path.dirname(os.path.abspath(__file__)))
import boot  # noqa: E402
import common  # noqa: E402
import tgraph  # noqa: E402
import tlc  # noqa: E402

PID = "C08"
BIG = dict(MaxNodes=100000, MaxVars=100000, MaxBindings=100000, MaxData=100000, MaxOrigins=100000,
           MaxSS=100000, UseCond="TRUE", AllowCycles="TRUE", OrderedEdges="FALSE",
           PasteOps="TRUE", FreshData="FALSE", MaxOps=100000, MaxQueries=100000,
           ExportMode='"none"')
PATHCOND = {}   # family -> distinct (graph, query node, goals, conditioned walked node, condition)
MUTATORS = ("NewCFGNode", "ConnectNew", "ConnectTo", "NewVariable", "AddBinding", "AddOrigin",
            "SetCondition", "PasteBinding", "AssignToNewVariable", "PasteBindingWithNewData")


ALL_SKELETONS = ("chain3", "chain4", "chain5", "short3", "diamond4", "stemdiamond5",
                 "diamondtail5", "twopaths5")
NONTOPO = ("SetCondition", "NewVariable", "AddBinding", "AddOrigin")
PASTE = ("PasteBinding", "AssignToNewVariable", "PasteBindingWithNewData")


def tla_set(xs):
  return "{" + ", ".join('"%s"' % x for x in xs) + "}"


def epoch_cfg(**kw):
  """cfg of TypegraphEpoch.tla (SpecE): Typegraph's constants + the epoch family's."""
  d = dict(MaxNodes=5, MaxVars=3, MaxBindings=4, MaxData=2, MaxOrigins=5, MaxSS=0, UseCond="TRUE",
           AllowCycles="FALSE", PasteOps="FALSE", FreshData="FALSE", MaxOps=0, MaxQueries=0,
           ExportMode='"none"', SPEC="SpecE", INVARIANTS=["EpochOK", "ExportEpoch"],
           Skeletons=tla_set(ALL_SKELETONS), Placement='"head"', EpochMuts=tla_set(["SetCondition"]),
           MaxMut=1, CondInterior="FALSE", NeedCond="FALSE", MidSweeps="FALSE", WarmSize=1, SweepSize=1,
           SweepOrders=tla_set(["up"]))
  d.update(kw)
  return tgraph.typegraph_cfg(**d)


def epoch_families(thorough):
  """(label, cfg kwargs, simulate N or None, min histories, min path-cond queries)."""
  fams = [
      # every (skeleton, placement of the third binding, node m, binding c): sweep; m.condition = c; sweep
      ("epoch-cond", dict(SweepSize=2, SweepOrders=tla_set(["up", "down"] if thorough else ["up"])),
       None, 400, 400),
      # the same on interior nodes with one unrelated non-topological mutator before or after
      ("epoch-noise", dict(Placement='"head0"', MaxMut=2, CondInterior="TRUE", NeedCond="TRUE",
                           EpochMuts=tla_set(NONTOPO if thorough else ("SetCondition", "AddBinding")),
                           Skeletons=tla_set(ALL_SKELETONS if thorough else
                                             ("chain3", "chain4", "diamond4"))),
       None, 500, 500),
      # random epochs: any placement, every non-topological mutator incl. the paste operations
      ("epoch-sim", dict(Placement='"any"', MaxMut=4, MidSweeps="TRUE", SweepSize=2, MaxSS=1,
                         MaxVars=4, MaxBindings=5, MaxOrigins=8, MaxData=3, INVARIANTS=["ExportEpoch"],
                         EpochMuts=tla_set(NONTOPO + PASTE), SweepOrders=tla_set(["up", "down"])),
       1000 if thorough else 120, None, 5),
  ]
  if thorough:
    fams += [
        ("epoch-cond-any", dict(Placement='"any"'), None, 9000, 5000),
        # the per-transition family lifted to the skeletons: one mutator of any kind
        ("epoch-any1", dict(EpochMuts=tla_set(NONTOPO + PASTE), MaxSS=1, MaxVars=3, MaxBindings=4,
                            MaxOrigins=6, Placement='"head0"'), None, 1000, 100),
    ]
  return fams


def trace_cfg():
  lines = ["INIT TInit", "NEXT TNext", "CONSTANTS"]
  lines += [" %s = %s" % kv for kv in BIG.items()]
  lines += ["INVARIANT Ok", "POSTCONDITION Done"]
  return "\n".join(lines) + "\n"


class Live:
  """A real Program driven by spec operations (1-based spec ids)."""

  def __init__(self):
    from pytype.typegraph import cfg
    self.p = cfg.Program()
    self.nodes = []
    self.vars = []
    self.b = {}        # real binding id -> binding
    self.datas = {}
    self._bs = None    # bindings by id, valid until the next mutator

  def data(self, d):
    if d not in self.datas:
      self.datas[d] = ["data", d]     # unique, kept alive
    return self.datas[d]

  def bind(self, k):
    return self.binding_by_id()[k - 1]

  def binding_by_id(self):
    if self._bs is None:
      out = {}
      for v in self.vars:
        for b in v.bindings:
          out[b.id] = b
      self._bs = [out[k] for k in sorted(out)]
    return self._bs

  def apply(self, o):
    op = o["op"]
    p = self.p
    if op != "Query":
      self.binding_by_id()   # ids in o refer to the bindings that exist before the op
      try:
        return self._mutate(o, op, p)
      finally:
        self._bs = None
    return bool(self.nodes[o["n"] - 1].HasCombination([self.bind(x) for x in o["G"]]))

  def _mutate(self, o, op, p):
    if op == "NewCFGNode":
      c = self.bind(o["c"]) if o["c"] else None
      self.nodes.append(p.NewCFGNode("n", c) if c is not None else p.NewCFGNode("n"))
    elif op == "ConnectNew":
      c = self.bind(o["c"]) if o["c"] else None
      a = self.nodes[o["a"] - 1]
      self.nodes.append(a.ConnectNew("n", c) if c is not None else a.ConnectNew("n"))
    elif op == "ConnectTo":
      self.nodes[o["a"] - 1].ConnectTo(self.nodes[o["b"] - 1])
    elif op == "NewVariable":
      self.vars.append(p.NewVariable())
    elif op == "AddBinding":
      v = self.vars[o["v"] - 1]
      if o["n"]:
        v.AddBinding(self.data(o["d"]), [self.bind(x) for x in o["ss"]], self.nodes[o["n"] - 1])
      else:
        v.AddBinding(self.data(o["d"]))
    elif op == "AddOrigin":
      self.bind(o["b"]).AddOrigin(self.nodes[o["n"] - 1], [self.bind(x) for x in o["ss"]])
    elif op == "SetCondition":
      self.nodes[o["n"] - 1].condition = self.bind(o["c"]) if o["c"] else None
    elif op == "PasteBinding":
      where = self.nodes[o["n"] - 1] if o["n"] else None
      self.vars[o["v"] - 1].PasteBinding(self.bind(o["b"]), where, [self.bind(x) for x in o["ss"]])
    elif op == "AssignToNewVariable":
      where = self.nodes[o["n"] - 1] if o["n"] else None
      self.vars.append(self.bind(o["b"]).AssignToNewVariable(where))
    elif op == "PasteBindingWithNewData":
      self.vars[o["v"] - 1].PasteBindingWithNewData(self.bind(o["b"]), self.data(o["d"]))
    else:
      raise common.Machinery("unknown op %r" % (o,))
    return None

  def project(self):
    bs = self.binding_by_id()
    vid = {id(v): k + 1 for k, v in enumerate(self.vars)}
    vmap = {v.id: k + 1 for k, v in enumerate(self.vars)}
    g = {"nn": len(self.nodes), "edges": [], "cond": [], "bvar": [], "origins": []}
    for n in self.nodes:
      for m in n.outgoing:
        g["edges"].append([n.id + 1, m.id + 1])
      c = n.condition
      g["cond"].append(c.id + 1 if c is not None else 0)
    for b in bs:
      g["bvar"].append(vmap[b.variable.id])
      for o in b.origins:
        for ss in o.source_sets:
          g["origins"].append({"b": b.id + 1, "n": o.where.id + 1,
                               "ss": sorted(x.id + 1 for x in ss)})
    del vid
    return g

  def nsolvers(self):
    return len(self.p.calculate_metrics().solver_metrics)


def execute(hist):
  live = Live()
  obs = []
  inval = []      # (ops between two queries that changed the graph, new solver created?)
  last_q_ns = None
  between = []
  for k, o in enumerate(hist):
    if o["op"] == "End":
      obs.append({"g": obs[-1]["g"] if obs else live.project(), "r": False, "rr": False, "ns": 0})
      continue
    if o["op"] == "Query" and (o["n"] > len(live.nodes) or
                               max(o["G"]) > len(live.binding_by_id())):
      o = hist[k] = {"op": "End"}
      obs.append({"g": obs[-1]["g"], "r": False, "rr": False, "ns": 0})
      continue
    r = live.apply(o)
    rec = {"g": live.project(), "r": False, "rr": False, "ns": live.nsolvers()}
    if o["op"] == "Query":
      rep = Live()
      for o2 in hist[:k]:
        if o2["op"] not in ("Query", "End"):
          rep.apply(o2)
      rec["r"] = r
      rec["rr"] = rep.apply(o)
      if last_q_ns is not None and between:
        inval.append(("+".join(sorted(set(between))), rec["ns"] > last_q_ns))
      last_q_ns = rec["ns"]
      between = []
    elif obs and rec["g"] != obs[-1]["g"] and last_q_ns is not None:
      between.append(o["op"])
    obs.append(rec)
  return obs, inval


def canonical_history(g):
  """Primitive spec operations that build graph record g from the empty program."""
  h = [{"op": "NewVariable"} for _ in range(g["nv"])]
  h += [{"op": "NewCFGNode", "c": 0} for _ in range(g["nn"])]
  h += [{"op": "ConnectTo", "a": a, "b": b} for a, b in sorted(g["edges"])]
  h += [{"op": "AddBinding", "v": v, "d": d, "n": 0, "ss": []}
        for v, d in zip(g["bvar"], g["bdata"])]
  h += [{"op": "AddOrigin", "b": o["b"], "n": o["n"], "ss": sorted(o["ss"])}
        for o in sorted(g["origins"], key=lambda o: (o["b"], o["n"], sorted(o["ss"])))]
  h += [{"op": "SetCondition", "n": n + 1, "c": c} for n, c in enumerate(g["cond"]) if c]
  return h


def transition_history(g, op):
  """build(g); ask every small query (fills the solver's caches); op; ask again."""
  nb = len(g["bvar"]) + 1          # op may add one binding
  h = canonical_history(g)
  qs = [{"op": "Query", "n": n, "G": [b]} for n in range(1, g["nn"] + 1)
        for b in range(1, len(g["bvar"]) + 1)]
  h += qs
  h.append(op)
  nn2 = g["nn"] + (1 if op["op"] in ("NewCFGNode", "ConnectNew") else 0)
  nb2 = len(g["bvar"]) + (1 if op["op"] in ("AddBinding", "PasteBinding", "AssignToNewVariable",
                                            "PasteBindingWithNewData") else 0)
  del nb
  post = [{"op": "Query", "n": n, "G": [b]} for n in range(1, nn2 + 1) for b in range(1, nb2 + 1)]
  post += [{"op": "Query", "n": n, "G": [b, c]} for n in range(1, nn2 + 1)
           for b in range(1, nb2 + 1) for c in range(b + 1, nb2 + 1)]
  return h, post


def is_cyclic(g):
  import c07
  return c07.is_cyclic(g)


def judge(run, hists, label):
  cases = []
  for h in hists:
    obs, inval = execute(h)
    cases.append({"ops": h, "obs": obs})
    for op, ok in inval:
      run.add("mutations_after_query")
      if not ok:
        run.add("mutations_without_invalidation")
        run.cov.setdefault("no_invalidation_by_op", {})
        run.cov["no_invalidation_by_op"][op] = run.cov["no_invalidation_by_op"].get(op, 0) + 1
    run.add("queries", sum(1 for o in h if o["op"] == "Query"))
  if not cases:
    return 0
  shards = 4 if len(cases) > 6000 else 1
  n = len(cases)
  step = (n + shards - 1) // shards
  import concurrent.futures as cf

  def one(off):
    part = cases[off:off + step]
    nv, bad, r = tlc.validate_cases("TraceC08", part, cfg=trace_cfg(), timeout=3000, heap="4g")
    common.require(bad is None, "TraceC08 invariant cannot fail (verdicts are printed)")
    out = [(off + rec["i"] - 1, rec["k"], rec["fails"], rec) for rec in tlc.parse_cases(r.out, "BAD")]
    div = [(off + rec["i"] - 1, rec["k"]) for rec in tlc.parse_cases(r.out, "DIV")]
    cov = [(off + rec["i"] - 1, rec["k"], rec["m"]) for rec in tlc.parse_cases(r.out, "COV")]
    return nv, out, div, cov
  total = 0
  pcs = run.cov.setdefault("pathcond_queries_by_family", {})
  pcs.setdefault(label, 0)
  with cf.ThreadPoolExecutor(max_workers=shards) as ex:
    for nv, out, div, cov in ex.map(one, range(0, n, step)):
      total += nv
      for idx, k, ms in cov:
        # TLC: this query's backward path crosses node(s) ms, conditioned (None -> binding)
        # after an identical query walked them, no node/edge created since
        pcs[label] += 1
        c = cases[idx]
        g = c["obs"][k - 1]["g"]
        o = c["ops"][k - 1]
        PATHCOND.setdefault(label, set()).update(
            (json.dumps([g["nn"], sorted(g["edges"]), g["bvar"], sorted(
                (x["b"], x["n"], tuple(x["ss"])) for x in g["origins"])]), o["n"], tuple(o["G"]),
             m, g["cond"][m - 1]) for m in ms)
      for idx, k, fails, rec in out:
        c = cases[idx]
        o = c["ops"][k - 1]
        ob = c["obs"][k - 1]
        g = ob["g"]
        # discriminator of the cyclic known findings: computed by TLC on the spec's own graph
        cyc = bool(rec["cyc"]) if "cyc" in rec else is_cyclic(g)
        # last mutator kind before this query (the op whose effect was or was not seen)
        # mutators since the last time a new solver instance was observed (ns grew)
        # (queries after the latest mutator are skipped: the failing query need not be the
        # first one of its sweep)
        prev = []
        for j in range(k - 2, -1, -1):
          x = c["ops"][j]
          if x["op"] == "Query":
            if prev and c["obs"][j]["ns"] > max([q["ns"] for q in c["obs"][:j]] or [0]):
              break
          elif x["op"] != "End":
            prev.append(x["op"])
        last_mut = "+".join(sorted(set(prev))) if prev else "none"
        # spec-computed description of the cache epoch of the failing query (TraceC08.tla)
        renewed = bool(rec.get("renewed"))
        pc = list(rec.get("pc", []))
        epoch = "; latest mutator block %s" % "+".join(sorted(rec.get("muts", []))) if rec.get("muts") else ""
        if renewed:
          epoch += "; a NEW solver instance answered (the stale state outlives the solver)"
        if pc:
          epoch += ("; the query's backward path crosses node(s) %s whose condition was set (None -> "
                    "binding) after an identical query had walked them, no node/edge created since "
                    "(a result keyed on the CFG topology survived the condition change)" % pc)
        for f in fails:
          if cyc and f in ("fresh", "flip"):
            key = "C08:%s:cyclic:provisional-true-memo" % f
          elif f == "fresh":
            key = "C08:fresh:stale-after:%s%s" % (last_mut, ":solver-renewed" if renewed else "")
          else:
            key = "C08:%s:%s" % (f, "cyclic" if cyc else "acyclic")
          run.violation(key, "%s: Query(node %d, goals %s) long-lived=%s replica=%s after history of %d ops (last mutator %s)%s" % (
              f, o["n"], o["G"], ob["r"], ob["rr"], k - 1, last_mut, epoch),
              {"history": c["ops"][:k], "graph": g, "family": label})
      for idx, k in div:
        run.diverge({"case": label, "op": cases[idx]["ops"][k - 1],
                     "note": "spec state differs from projected real graph"})
  return total


def main():
  ap = argparse.ArgumentParser()
  ap.add_argument("--tier", default="quick")
  ap.add_argument("--replay")
  a = ap.parse_args()
  run = common.Run(PID, "model_checking", a.tier)
  boot.boot()
  if a.replay:
    with open(a.replay) as f:
      case = json.load(f)["case"]
    n = judge(run, [case["history"]], "replay")
    run.put("traces_validated_against_impl", n)
    run.put("states", 1); run.put("transitions", 1); run.sample(case["history"][:8])
    return run.finish()
  thorough = run.tier == "thorough"
  T = tgraph.typegraph_cfg
  total = 0
  # 1. every history of the tiny model (all mutators incl. paste ops, conditions, cycles, queries)
  kw = dict(MaxNodes=2, MaxVars=2, MaxBindings=2, MaxData=2, MaxOrigins=3, MaxSS=1,
            UseCond="TRUE", AllowCycles="TRUE", PasteOps="TRUE", FreshData="FALSE",
            MaxOps=7, MaxQueries=2, ExportMode='"hist"')   # MaxOps=8 needs > 35 GB in the driver
  r = tlc.run("Typegraph", T(INVARIANTS=["TypeOK", "ExportInv"], **kw), workers=1, timeout=3000,
              heap="12g")
  hists = [c["h"] for c in r.cases if any(o["op"] == "Query" for o in c["h"])]
  hists = [h[:-1] if h[-1]["op"] == "End" else h for h in hists]
  run.put("states", r.distinct)
  run.put("transitions", r.generated)
  run.put("exhaustive_histories", len(hists))
  common.require(len(hists) > 1000, "only %d exhaustive histories" % len(hists))
  total += judge(run, hists, "exhaustive")
  run.sample({"exhaustive_history": hists[len(hists) // 3]})
  print("  exhaustive: %d histories t=%.0fs" % (len(hists), __import__("time").time() - run.t0), flush=True)
  # 1b. every transition of the state graph: build(g), warm the caches, op, ask everything
  tkw = dict(MaxNodes=2, MaxVars=2, MaxBindings=3, MaxData=2, MaxOrigins=3, MaxSS=1,
             UseCond="TRUE", AllowCycles="TRUE", PasteOps="TRUE", FreshData="FALSE",
             MaxOps=6 if thorough else 5, MaxQueries=0, ExportMode='"trans"', VIEW="GraphView")
  r = tlc.run("Typegraph", T(INVARIANTS=["TypeOK"], **tkw) + "ACTION_CONSTRAINT ExportTrans\n",
              workers=1, timeout=3000, heap="12g")
  th = []
  for c in r.cases:
    if c["g"]["nn"] == 0 or not c["g"]["bvar"]:
      continue
    h, post = transition_history(c["g"], c["op"])
    # queries about a binding that the op did not create are dropped by the executor
    th.append(h + post)
  run.put("transitions_replayed", len(th))
  common.require(len(th) > 2000, "only %d transitions exported" % len(th))
  total += judge(run, th, "transitions")
  run.sample({"transition": {"g": r.cases[-1]["g"], "op": r.cases[-1]["op"]}})
  print("  transitions: %d t=%.0fs" % (len(th), __import__("time").time() - run.t0), flush=True)
  hists += th
  # 1c. the committed known-finding probes: build, ask every query in order
  with open(os.path.join(common.VERIF, "fixtures", "c07_known_cases.json")) as f:
    probes = []
    for c in json.load(f):
      g = c["graph"]
      probes.append(canonical_history(g) + [{"op": "Query", "n": n, "G": G}
                                            for n, G in tgraph.all_queries(g, 3)])
  total += judge(run, probes, "known-probes")
  # 2. long random histories from the spec
  sims = [
      ("sim-small", dict(MaxNodes=4, MaxVars=3, MaxBindings=4, MaxData=3, MaxOrigins=6, MaxSS=2,
                         MaxOps=22, MaxQueries=8)),
      ("sim-paste", dict(MaxNodes=3, MaxVars=3, MaxBindings=4, MaxData=2, MaxOrigins=6, MaxSS=1,
                         MaxOps=16, MaxQueries=6)),
      ("sim-large", dict(MaxNodes=7, MaxVars=4, MaxBindings=5, MaxData=3, MaxOrigins=8, MaxSS=1,
                         MaxOps=34, MaxQueries=12)),
  ]
  nsim = 20000 if thorough else 1500
  for j, (label, skw) in enumerate(sims):
    kw2 = dict(UseCond="TRUE", AllowCycles="TRUE", PasteOps="TRUE", FreshData="FALSE",
               ExportMode='"hist"')
    kw2.update(skw)
    r = tlc.run("Typegraph", T(INVARIANTS=["ExportInv"], **kw2), workers=1, timeout=3000,
                seed=run.seed * 10 + j, simulate="num=%d" % nsim, depth=skw["MaxOps"] + 1,
                heap="8g")
    hs = [c["h"][:-1] for c in r.cases if any(o["op"] == "Query" for o in c["h"])]
    common.require(len(hs) >= nsim // 2, "simulation %s gave %d histories" % (label, len(hs)))
    run.put("histories_" + label, len(hs))
    total += judge(run, hs, label)
    run.sample({label: hs[0][:10]})
    print("  %s: %d histories t=%.0fs" % (label, len(hs), __import__("time").time() - run.t0), flush=True)
    hists += hs
  # 3. cache epochs on skeletons of 3-5 nodes (TypegraphEpoch.tla)
  ep_states = ep_trans = 0
  for j, (label, ekw, nsim_e, min_h, min_pc) in enumerate(epoch_families(thorough)):
    if nsim_e:
      r = tlc.run("TypegraphEpoch", epoch_cfg(**ekw), workers=1, timeout=3000, heap="8g",
                  seed=run.seed * 10 + 5 + j, simulate="num=%d" % nsim_e, depth=3 * ekw["MaxMut"] + 4)
      common.require(r.violated is None, "TypegraphEpoch violates %s" % r.violated)
      # (in simulation the export fires for every candidate final sweep: keep distinct ones)
      hs = list({json.dumps(c["h"], sort_keys=True): c["h"] for c in r.cases}.values())[:nsim_e]
      common.require(len(hs) >= nsim_e // 2, "simulation %s gave %d histories" % (label, len(hs)))
    else:
      r = tlc.run("TypegraphEpoch", epoch_cfg(**ekw), workers=1, timeout=3000, heap="8g")
      common.require(r.violated is None, "TypegraphEpoch violates %s" % r.violated)
      hs = [c["h"] for c in r.cases]
      ep_states += r.distinct
      ep_trans += r.generated
      common.require(len(hs) >= min_h, "vacuity: %s exported only %d histories" % (label, len(hs)))
    run.put("histories_" + label, len(hs))
    total += judge(run, hs, label)
    npc = run.cov["pathcond_queries_by_family"].get(label, 0)
    common.require(npc >= min_pc, "vacuity: %s judged only %d queries across a node conditioned after "
                   "the path was walked (need %d)" % (label, npc, min_pc))
    run.sample({label: hs[len(hs) // 2][-12:]})
    print("  %s: %d histories, %d path-cond queries t=%.0fs" % (
        label, len(hs), npc, __import__("time").time() - run.t0), flush=True)
    hists += hs
  run.put("epoch_states", ep_states)
  run.put("epoch_transitions", ep_trans)
  run.put("pathcond_distinct_by_family", {k: len(v) for k, v in sorted(PATHCOND.items())})
  # every skeleton's (walked path, conditioned interior node, condition) was judged, including
  # conditions that cannot hold (a sibling binding of the goal) and ones that can
  cond_combos = {(c[0], c[3], c[4]) for c in PATHCOND.get("epoch-cond", set())}
  run.put("epoch_cond_graph_node_condition_combos", len(cond_combos))
  common.require(len(cond_combos) >= 200,
                 "vacuity: epoch-cond covered only %d (graph, conditioned walked node, condition) "
                 "combinations" % len(cond_combos))
  run.put("traces_validated_against_impl", total)
  run.put("evaluations", total)
  run.put("distinct_nontrivial", len({json.dumps(h, sort_keys=True) for h in hists if sum(
      1 for k, o in enumerate(h) if o["op"] == "Query" and any(
          x["op"] != "Query" for x in h[k + 1:])) >= 1}))
  run.put("rule", "one case = one history; non-trivial = a mutator follows a query (cache could leak)")
  common.require(run.cov.get("mutations_after_query", 0) > 100, "vacuity: no mutation after a query")
  run.assumptions += ["epoch families: skeletons %s, three initial bindings (two of one variable), "
                      "sweeps of goal sets <= 2" % ", ".join(ALL_SKELETONS),
                      "replica = fresh Program fed the same mutators in the same order",
                      "solver invalidation is observed through calculate_metrics().solver_metrics (informational)"]
  return run.finish()


if __name__ == "__main__":
  common.main(PID, main)

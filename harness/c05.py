"""C05 - every stub pytype emits is a valid stub that pytype reads back unchanged.

spec: specs/StubRoundTrip.tla (the life cycle of one stub as a state machine over an artifact
record; the property is the operator C05Fails), specs/StubGen.tla (generator of stubs in the
emitted dialect as a state machine), specs/TraceC05.tla (code -> spec: replays the recorded runs
with StubRoundTrip's own actions and judges them).

inputs (i)  stubs emitted by io.generate_pyi for programs: harness/c05_progs.py (one program per
            dialect construct + witnesses), progs_d.HAND, progs_d.generate (seeded), programs
            drawn from ProgGen.tla (as C01/C06 obtain them), the programs embedded in pytype's
            own tests (progs_d.upstream_snippets);
       (ii) StubGen behaviours (tlc -simulate, and exhaustive families at tiny bounds) turned
            into real pytd ASTs by stubgen_terms.stub_ast;
       (iii) special method names: StubGen's NextD draws the function name from the alphabet of
            names the reader / printer / inferencer treat by NAME (__new__, __init_subclass__,
            __class_getitem__, __init__, __call__, __getattr__, __eq__, ...) crossed with the kind
            (plain / @staticmethod / @classmethod), flags, overloads and the first parameter
            (absent / self / cls / other, bare or annotated with the class) - families dunder-*
            (exhaustive) and a simulation; c05_progs.DUNDER defines the same names the way users
            write them.  The spec pins the name convention and states, per declaration, the kind
            the printed text denotes (rk); clause orig compares the re-read declarations with that.
per stub (harness/stublife.py, real code only): pytd_utils.Print -> parser.parse_string (no
module name) -> VerifyVisitor -> Print -> parse_string -> canonical_pyi -> loader resolution
[-> comparison with the original declarations for StubGen stubs]; every step is one event with
the digest of what it produced.  TLC judges: t2 = t1, the parse verifies, the re-read
declarations are structurally equal, the text resolves, emitted text = Print(ast) + newline.
A failing run is attributed by TLC to documented deviations through counterfactual runs (the same
stub without the deviation's trigger); anything not explained that way is reported under its own key.
"""
import argparse
import concurrent.futures as cf
import hashlib
import json
import os
import random
import re
import sys
import time

sys.path.insert(0, os.path.dirname(os.path.abspath(__file__)))
import boot  # noqa: E402
import common  # noqa: E402
import pyt  # noqa: E402
import tlc  # noqa: E402

PID = "C05"
TRACE_CFG = "INIT TInit\nNEXT TNext\nCONSTANTS Digests = {}\nINVARIANT Ok\nPOSTCONDITION Done\n"
ALL_FRAGS = ("alias", "import", "tvar", "func", "class", "literal", "callable", "tuple", "union",
             "generic", "type", "nothing", "default", "posonly", "kwonly", "star", "flags", "prop",
             "slots", "meta", "extern", "value")
GEN_INVS = ("TypeOK", "WellScoped", "TermsOK", "SignaturesOK", "NoDeadEnd", "ExportInv")


def tlaset(xs):
  return "{%s}" % ", ".join('"%s"' % x for x in xs)


def stubgen_cfg(top, body, depth, params, sigs, nest, bases, builtins, frags, invs=GEN_INVS, nxt="Next"):
  return ("INIT Init\nNEXT %s\nCONSTANTS MaxTop = %d\n MaxBody = %d\n MaxDepth = %d\n"
          " MaxParams = %d\n MaxSigs = %d\n MaxNest = %d\n MaxBases = %d\n Builtins = %s\n"
          " Frags = %s\n ExportMode = \"final\"\n" % (nxt, top, body, depth, params, sigs, nest, bases,
                                                     tlaset(builtins), tlaset(frags))
          + "".join("INVARIANT %s\n" % i for i in invs) + "VIEW StubView\n")


# exhaustive families: every stub the generator can build within the bounds (name, cfg)
FAMILIES = {
    "classes": stubgen_cfg(1, 2, 0, 0, 1, 1, 1, ["int"], ["class", "func", "prop"]),
    "generic-classes": stubgen_cfg(2, 0, 0, 0, 1, 1, 1, ["int"], ["class", "tvar"]),
    "types": stubgen_cfg(1, 0, 1, 0, 1, 1, 0, ["int", "NoneType"],
                         ["alias", "import", "value", "union", "tuple", "callable", "type", "literal"]),
    "overloads": stubgen_cfg(1, 0, 0, 1, 2, 1, 0, ["int", "str"], ["func", "default"]),
    # thorough only
    "signatures": stubgen_cfg(1, 0, 0, 2, 1, 1, 0, ["int"], ["func", "default", "kwonly", "posonly", "star"]),
    "param-types": stubgen_cfg(1, 0, 1, 1, 1, 1, 0, ["int", "str"], ["func", "union", "generic"]),
    "methods": stubgen_cfg(1, 1, 0, 1, 1, 2, 0, ["int"], ["class", "func", "flags"]),
}
QUICK_FAMILIES = ("classes", "generic-classes", "types", "overloads")
# special method names (StubGen.tla NextD: BeginDunder / WantDunderProp).  Kept apart from FAMILIES /
# SIM_CFG, which C12 shares.  name alphabet x kind x first parameter (x flags, overloads, pairs)
DUNDER_INVS = ("TypeOK", "WellScoped", "TermsOK", "SignaturesOK", "NoDeadEndD", "KindConvention", "ExportInv")
DUNDER_FAMILIES = {
    # one special-named method (12 names x 3 kinds x first parameter absent / self / cls / other,
    # unannotated or annotated with the class) or property per class; module-level functions
    "dunder-methods": stubgen_cfg(1, 1, 0, 0, 1, 1, 0, ["int"], ["class", "func", "prop", "dunder", "dunder2", "fptype"],
                                  invs=DUNDER_INVS, nxt="NextD"),
    # thorough only: the kind-by-name names with flags; two methods per class; two signatures
    "dunder-flags": stubgen_cfg(1, 1, 0, 0, 1, 1, 0, [], ["class", "func", "dunder", "dunder2", "flags"],
                                invs=DUNDER_INVS, nxt="NextD"),
    "dunder-pairs": stubgen_cfg(1, 2, 0, 0, 1, 1, 0, [], ["class", "func", "dunder"], invs=DUNDER_INVS, nxt="NextD"),
    "dunder-overloads": stubgen_cfg(1, 1, 0, 1, 2, 1, 0, [], ["class", "func", "dunder"], invs=DUNDER_INVS, nxt="NextD"),
}
QUICK_DUNDER = ("dunder-methods",)
DUNDER_FRAGS = ALL_FRAGS + ("dunder", "dunder2", "fptype")
SIM_DUNDER_CFG = stubgen_cfg(4, 3, 1, 2, 2, 2, 1, ["int", "str", "NoneType"], DUNDER_FRAGS,
                             invs=("WellScoped", "TermsOK", "SignaturesOK", "KindConvention", "ExportInv"), nxt="NextD")
# the cells of the cross that must have been replayed (vacuity): cell = name/KIND/first parameter
KIND_NAMES = ("__new__", "__init_subclass__", "__class_getitem__", "__init__")
MORE_DUNDER = ("__call__", "__getattr__", "__eq__", "__getitem__", "__setattr__", "__hash__", "__enter__", "__post_init__")
NEED_CELLS_GEN = (["%s/%s/%s/c" % (n, k, f) for n in KIND_NAMES + MORE_DUNDER for k in ("METHOD", "STATICMETHOD", "CLASSMETHOD")
                   for f in ("-", "self", "cls", "other")]
                  + ["%s/METHOD/%s/m" % (n, f) for n in KIND_NAMES + MORE_DUNDER for f in ("-", "self", "cls", "other")])
NEED_CELLS_EMITTED = [
    "__class_getitem__/METHOD/cls/c", "__class_getitem__/CLASSMETHOD/cls/c", "__class_getitem__/STATICMETHOD/item/c",
    "__class_getitem__/METHOD/klass/c", "__class_getitem__/METHOD/self/c", "__class_getitem__/METHOD/x/m",
    "__new__/METHOD/cls/c", "__new__/STATICMETHOD/cls/c", "__new__/CLASSMETHOD/cls/c", "__new__/METHOD/mcs/c", "__new__/METHOD/x/m",
    "__init_subclass__/CLASSMETHOD/cls/c", "__init_subclass__/CLASSMETHOD/klass/c", "__init_subclass__/METHOD/x/m",
    "__init__/METHOD/self/c", "__init__/METHOD/this/c", "__init__/CLASSMETHOD/cls/c",
    "__call__/METHOD/self/c", "__call__/STATICMETHOD/x/c", "__call__/METHOD/cls/c",
    "__getattr__/METHOD/self/c", "__getattr__/METHOD/name/m", "__getattr__/CLASSMETHOD/cls/c",
    "__eq__/METHOD/self/c", "__eq__/CLASSMETHOD/cls/c", "__getitem__/METHOD/self/c", "__getitem__/STATICMETHOD/k/c",
    "__setattr__/METHOD/self/c", "__hash__/METHOD/self/c", "__enter__/METHOD/self/c", "__post_init__/METHOD/self/c"]
SIM_CFG = stubgen_cfg(5, 3, 2, 3, 2, 2, 2, ["int", "str", "NoneType", "float"], ALL_FRAGS,
                      invs=("WellScoped", "TermsOK", "SignaturesOK", "ExportInv"))


def model_checks():
  """TLC on the protocol model alone: type/protocol invariants, CleanMeansFaithful, every clause
  can fail alone, and a faithful implementation (GoodSpec) violates nothing."""
  dg = 'CONSTANTS Digests = {"d1", "d2"}\n'
  r1 = tlc.run("StubRoundTrip", "SPECIFICATION MarkSpec\n" + dg +
               "INVARIANT TypeOK\nINVARIANT Protocol\nINVARIANT CleanMeansFaithful\n"
               "INVARIANT MarkSingletons\nPOSTCONDITION AllClausesIndependent\n", workers=1, timeout=900)
  r2 = tlc.run("StubRoundTrip", "SPECIFICATION GoodSpec\n" + dg + "INVARIANT GoodIsClean\n",
               workers=1, timeout=900)
  for r in (r1, r2):
    if r.violated or not r.ok or "violated" in r.out:
      raise common.Machinery("StubRoundTrip.tla fails its own checks (%s):\n%s" % (
          r.violated, (r.error_trace or r.out)[-2500:]))
  return r1.distinct + r2.distinct, r1.generated + r2.generated


def gen_family(name, seed):
  r = tlc.run("StubGen", FAMILIES[name] if name in FAMILIES else DUNDER_FAMILIES[name], workers=1, timeout=3000,
              seed=seed, heap="6g")
  if r.violated or not r.ok:
    raise common.Machinery("StubGen.tla (%s) violates %s:\n%s" % (name, r.violated, (r.error_trace or r.out)[-2500:]))
  return name, r


def gen_sim(num, seed):
  r = tlc.run("StubGen", SIM_CFG, workers=1, timeout=3000, seed=seed, simulate="num=%d" % num,
              depth=500, heap="4g")
  if r.violated:
    raise common.Machinery("StubGen.tla emitted an ill-formed stub:\n" + r.error_trace[:2500])
  return r


def gen_sim_dunder(num, seed):
  r = tlc.run("StubGen", SIM_DUNDER_CFG, workers=1, timeout=3000, seed=seed, simulate="num=%d" % num,
              depth=500, heap="4g")
  if r.violated:
    raise common.Machinery("StubGen.tla (NextD) emitted an ill-formed stub:\n" + r.error_trace[:2500])
  return r


def gen_programs(plan, seed):
  """Programs from ProgGen.tla, as C01/C06 obtain them (statements that run to completion)."""
  import c01
  import progterms
  srcs, states = [], 0
  for j, (ns, dpt, num) in enumerate(plan):
    r = tlc.run("ProgGen", c01.gen_cfg(ns, dpt), workers=1, timeout=3000, seed=seed * 13 + 500 + j,
                simulate="num=%d" % num, depth=ns + 3)
    common.require(not r.violated and len(r.cases) >= num, "ProgGen failed")
    states += r.generated
    for c in r.cases:
      rec = progterms.run_program(c["p"])
      if rec:
        srcs.append(rec["src"])
  return srcs, states


# ---------------------------------------------------------------------------------------------

def strip(evs):
  return [{"op": e["op"], "ok": e["ok"], "d": e["d"], "e": e["e"]} for e in evs]


def first_error(rec):
  for e in rec["events"]:
    if not e["ok"]:
      return "%s: %s" % (e["op"], e["x"])
  return ""


def signature(rec, residual):
  """Stable discriminator of an unexplained failure: the failing step's message with positions
  and names abstracted, or the shape of the first differing line."""
  msg = first_error(rec)
  if not msg and rec.get("texts", {}).get("t2") is not None:
    import difflib
    t1, t2 = rec["texts"]["t1"].split("\n"), rec["texts"]["t2"].split("\n")
    d = [l for l in difflib.unified_diff(t1, t2, lineterm="", n=0) if l[:1] in "+-" and l[:3] not in ("+++", "---")]
    msg = " | ".join(d[:2])
  if not msg:      # only clause orig fails: what the Compare step says differs
    msg = " ".join(e["x"] for e in rec["events"] if e["op"] == "Compare" and e["ok"] and not e["e"])
  msg = re.sub(r"line \d+", "line N", msg)
  msg = re.sub(r"verif_stub_\d+_\d+", "<stub>", msg)
  msg = re.sub(r"\s+", " ", msg)
  return hashlib.sha1(msg.encode()).hexdigest()[:8], msg[:300]


def judge(run, items, results, selftest=True):
  """TLC judges every recorded run.  Returns the case records that were judged."""
  import stubgen_terms as st
  recs, keep_items = [], []
  for it, r in zip(items, results):
    if r.get("skip"):
      if r["skip"].startswith("harness:"):
        raise common.Machinery("harness failure on %s: %s" % (it["id"], r["skip"]))
      run.add("programs_not_analysed")        # crash / compile error: C15's matter, no stub to judge
      continue
    recs.append(r)
    keep_items.append(it)
  common.require(recs, "no stub was produced")
  cases = [{"id": r["id"], "events": strip(r["events"]), "devs": r["devs"], "emit_eq": r["emit_eq"],
            "variants": [{"without": v["without"], "events": strip(v["events"])} for v in r["variants"]]}
           for r in recs]
  # binding demonstration on every run: a recorded clean run with ONE corrupted field must be rejected
  expect = {}
  base = next((c for c in cases if not c["devs"] and len(c["events"]) >= 7 and all(e["ok"] for e in c["events"])
               and c["events"][3]["d"] == c["events"][0]["d"]), None)
  if selftest:
    common.require(base is not None, "no clean run to demonstrate the binding on")
    for name, idx, field, val, clause in (("fixpoint", 3, "d", "corrupted", "fixpoint"), ("verify", 2, "ok", False, "verify"),
                                          ("asteq", 4, "d", "corrupted", "asteq"), ("resolve", 6, "ok", False, "resolve")):
      c = json.loads(json.dumps(base))
      c["id"] = "selftest:" + name
      c["events"][idx][field] = val
      expect[c["id"]] = clause
      cases.append(c)
  t0 = time.time()
  nv, bad, res = tlc.validate_cases("TraceC05", cases, cfg=TRACE_CFG, timeout=3000, heap="6g")
  common.require(bad is None and nv == len(cases), "TraceC05 did not consume its cases:\n" + res.out[-1500:])
  bads = tlc.parse_cases(res.out, "BAD")
  for b in bads:
    if b["id"] in expect and expect[b["id"]] in b["fails"] and b["attr"] == ["unexplained"]:
      del expect[b["id"]]
      run.add("selftest_rejected")
  common.require(not expect, "binding demonstration failed: TLC accepted corrupted runs %s" % sorted(expect))
  bads = [b for b in bads if not b["id"].startswith("selftest:")]
  run.add("tlc_trace_wall_s", round(time.time() - t0, 1))
  run.add("trace_states", res.distinct)
  for n in tlc.parse_cases(res.out, "NOTE"):
    if n["id"].startswith("selftest:"):
      continue
    for k in n["notes"]:
      run.add("note_" + k)
    if run.cov.get("divergences_total", 0) < 6:
      r = recs[n["i"] - 1]
      run.diverge({"id": r["id"], "notes": n["notes"],
                   "what": "not part of the property: canonical_pyi re-sorts unions over unqualified names / "
                           "pytd_utils.ASTeq vs structural digest"})
  for b in bads:
    r, it = recs[b["i"] - 1], keep_items[b["i"] - 1]
    payload = {"kind": it["kind"], "id": r["id"], "fails": b["fails"], "attr": b["attr"],
               "events": r["events"], "texts": r.get("texts", {})}
    payload["src" if it["kind"] == "emitted" else "stub"] = it.get("src", it.get("stub"))
    inp = (it["src"] if it["kind"] == "emitted" else "StubGen stub:\n" + r.get("texts", {}).get("t1", ""))
    run.add("failing_stubs")
    for d in b["attr"]:
      if d == "unexplained":
        h, msg = signature(r, b["residual"])
        key = "C05:unexplained:%s:%s" % ("+".join(sorted(b["residual"])), h)
        what = "clauses %s fail, not explained by a documented deviation (%s) on %s" % (
            sorted(b["fails"]), msg, json.dumps(inp[:1500]))
      else:
        key = "C05:" + d
        what = "clauses %s fail because of %s on %s" % (sorted(b["fails"]), st.DEVIATIONS.get(d, d),
                                                       json.dumps(inp[:1500]))
      run.violation(key, what, payload)
  return recs


def account(run, recs):
  feats = {}
  for r in recs:
    o = "emitted" if r["origin"] == "emitted" else "stubgen"
    run.add("stubs_" + o)
    for k, v in r["feats"].items():
      if v:
        feats[o + "_" + k] = feats.get(o + "_" + k, 0) + 1
  run.put("stubs_with_feature", feats)
  # special method names: cells name/KIND/first parameter/c|m of the cross that were replayed
  cells = {"emitted": set(), "stubgen": set()}
  for r in recs:
    o = "emitted" if r["origin"] == "emitted" else "stubgen"
    for c in r.get("cells", ()):
      parts = c.split("/")
      cells[o].add("/".join(parts[:4]))
      run.add("dunder_functions_" + o)
      if parts[4] == "2":
        run.add("dunder_overloaded_" + o)
      if parts[5]:
        run.add("dunder_flagged_" + o)
    if r.get("exp"):
      run.add("stubgen_expected_read_differs")
  run.put("dunder_cells", {o: len(v) for o, v in cells.items()})
  feats["_cells"] = cells
  run.put("programs", len(recs))
  run.put("evaluations", len(recs) + sum(len(r["variants"]) for r in recs))
  run.put("counterfactual_runs", sum(len(r["variants"]) for r in recs))
  run.put("disagreements_checked", sum(len(r["events"]) for r in recs))
  run.put("stub_lines", sum(r["lines"] for r in recs))
  run.put("distinct_nontrivial", len({r["tdigest"] for r in recs if sum(r["feats"].values()) >= 3}))
  run.put("rule", "one case = one stub AST taken through Print/Parse/Verify/Reprint/Reparse/Canon/Resolve "
          "on the real code, every step outcome judged by TLC (disagreements_checked = step outcomes); "
          "distinct = digest of the printed text; non-trivial = the AST shows >= 3 dialect features "
          "(classes, overloads, generics, TypeVars, callables, unions, ...)")
  return feats


def main():
  ap = argparse.ArgumentParser()
  ap.add_argument("--tier", default="quick")
  ap.add_argument("--replay")
  a = ap.parse_args()
  run = common.Run(PID, "translation_validation", a.tier)
  boot.boot()
  import stublife as sl
  if a.replay:
    with open(a.replay) as f:
      case = json.load(f)["case"]
    it = {"kind": case["kind"], "id": case.get("id", "replay"), "keep": True}
    it["src" if case["kind"] == "emitted" else "stub"] = case["src" if case["kind"] == "emitted" else "stub"]
    recs = judge(run, [it], [sl.c05_work(it)], selftest=False)
    account(run, recs)
    run.sample({"id": it["id"], "events": recs[0]["events"] if recs else []})
    return run.finish()

  thorough = run.tier == "thorough"
  import c05_progs
  import progs_d
  rng = random.Random(run.seed)
  items = [{"kind": "emitted", "id": "dialect%02d" % k, "src": s} for k, s in enumerate(c05_progs.DIALECT)]
  items += [{"kind": "emitted", "id": "witness:" + k, "src": s} for k, s in sorted(c05_progs.WITNESS.items())]
  items += [{"kind": "emitted", "id": "dunder%02d" % k, "src": s} for k, s in enumerate(c05_progs.DUNDER)]
  items += [{"kind": "emitted", "id": "witness:" + k, "src": s} for k, s in sorted(c05_progs.DUNDER_WITNESS.items())]
  items += [{"kind": "emitted", "id": "hand%02d" % k, "src": s} for k, s in enumerate(progs_d.HAND)]
  items += [{"kind": "emitted", "id": "gen%d" % k, "src": s}
            for k, s in enumerate(progs_d.generate(run.seed, 1500 if thorough else 100))]
  ups = progs_d.upstream_snippets(boot.REPO)
  if not thorough:
    ups = sorted(rng.sample(ups, min(len(ups), 420)))
  items += [{"kind": "emitted", "id": "up:" + n, "src": s} for n, s in ups]

  families = tuple(FAMILIES) if thorough else QUICK_FAMILIES
  families += tuple(DUNDER_FAMILIES) if thorough else QUICK_DUNDER
  nsim, sims = (4000, 4) if thorough else (300, 2)
  ndsim = 3000 if thorough else 150
  plan = [(8, 2, 1200), (12, 2, 600)] if thorough else [(8, 2, 60), (10, 2, 30)]
  import multiprocessing as mp
  ctx = mp.get_context("spawn")
  t0 = time.time()
  with cf.ThreadPoolExecutor(max_workers=12) as ex, \
       ctx.Pool(8, initializer=pyt._init_worker, initargs=(boot.REPO, 0)) as pool:  # pylint: disable=protected-access
    f_model = ex.submit(model_checks)
    f_prog = ex.submit(gen_programs, plan, run.seed)
    f_fams = [ex.submit(gen_family, n, run.seed) for n in families]
    f_sims = [ex.submit(gen_sim, nsim, run.seed * 31 + 7 + j) for j in range(sims)]
    f_dsim = ex.submit(gen_sim_dunder, ndsim, run.seed * 41 + 3)
    first = pool.map_async(sl.c05_work, items, chunksize=4)
    # spec-generated inputs
    items2 = []
    srcs, pstates = f_prog.result()
    items2 += [{"kind": "emitted", "id": "proggen%d" % k, "src": s} for k, s in enumerate(srcs)]
    gstates = gtrans = 0
    seen = set()
    for f in f_fams:
      name, r = f.result()
      gstates += r.distinct
      gtrans += r.generated
      run.put("stubgen_family_" + name, len(r.cases))
      common.require(len(r.cases) >= 20, "family %s exported only %d stubs" % (name, len(r.cases)))
      for k, c in enumerate(r.cases):
        key = json.dumps(c, sort_keys=True)
        if key not in seen:
          seen.add(key)
          items2.append({"kind": "stubgen", "id": "fam:%s:%d" % (name, k), "stub": c})
    nfam = len(seen)
    for j, f in enumerate(f_sims):
      r = f.result()
      run.add("stubgen_sim_states", r.generated)
      for k, c in enumerate(r.cases):
        key = json.dumps(c, sort_keys=True)
        if key not in seen:
          seen.add(key)
          items2.append({"kind": "stubgen", "id": "sim%d:%d" % (j, k), "stub": c})
    run.put("stubgen_simulated", len(seen) - nfam)
    common.require(len(seen) - nfam >= nsim * sims // 2, "simulation produced only %d stubs" % (len(seen) - nfam))
    nplain = len(seen)
    r = f_dsim.result()
    run.add("stubgen_sim_states", r.generated)
    for k, c in enumerate(r.cases):
      key = json.dumps(c, sort_keys=True)
      if key not in seen:
        seen.add(key)
        items2.append({"kind": "stubgen", "id": "dsim:%d" % k, "stub": c})
    run.put("stubgen_simulated_dunder", len(seen) - nplain)
    common.require(len(seen) - nplain >= ndsim // 2, "dunder simulation produced only %d stubs" % (len(seen) - nplain))
    run.add("tlc_generation_wall_s", round(time.time() - t0, 1))
    second = pool.map_async(sl.c05_work, items2, chunksize=8)
    results = first.get() + second.get()
    mstates, mtrans = f_model.result()
  items += items2
  run.add("pipeline_wall_s", round(time.time() - t0, 1))
  run.put("states", mstates + gstates)
  run.put("transitions", mtrans + gtrans)
  run.put("model_states", {"StubRoundTrip": mstates, "StubGen_exhaustive_families": gstates,
                           "ProgGen_simulated": pstates})
  run.put("exhaustive_families", list(families))
  recs = judge(run, items, results)
  feats = account(run, recs)
  cells = feats.pop("_cells")
  for r in recs:
    if r["id"] in ("dialect05", "fam:classes:7", "sim0:3", "dunder00", "fam:dunder-methods:40"):
      run.sample({"id": r["id"], "origin": r["origin"], "devs": r["devs"],
                  "events": [[e["op"], e["ok"], e["d"]] for e in r["events"]]})
  run.sample({"emitted_program": items[5]["src"]})
  # vacuity guards
  need_e = {"classes": 100, "bases": 40, "overloads": 8, "generics": 60, "typevars": 40, "callables": 10,
            "unions": 60, "optionals": 20, "tuples": 20, "properties": 3, "static_class": 5,
            "defaults": 40, "stars": 15, "aliases": 3, "imports": 10, "literals": 5, "nested": 2,
            "generic_class": 5}
  need_g = {"classes": 150, "bases": 50, "overloads": 100, "generics": 100, "typevars": 60, "callables": 60,
            "unions": 80, "optionals": 30, "tuples": 60, "properties": 40, "static_class": 40,
            "defaults": 100, "stars": 60, "kwonly": 40, "posonly": 10, "aliases": 40, "imports": 40,
            "literals": 40, "nested": 10, "generic_class": 10, "metaclass": 10, "slots": 10, "values": 30,
            "nothing": 30, "flags": 40}
  lack = ["emitted_%s=%d<%d" % (k, feats.get("emitted_" + k, 0), n) for k, n in need_e.items()
          if feats.get("emitted_" + k, 0) < n]
  lack += ["stubgen_%s=%d<%d" % (k, feats.get("stubgen_" + k, 0), n) for k, n in need_g.items()
           if feats.get("stubgen_" + k, 0) < n]
  common.require(not lack, "vacuity: too few stubs with " + ", ".join(lack))
  # the special-method-name families were exercised: every cell of the spec's cross (exhaustive family
  # dunder-methods) and the cells the dialect programs are written for were replayed and judged
  miss = [c for c in NEED_CELLS_GEN if c not in cells["stubgen"]]
  common.require(not miss, "vacuity: %d cells of the special-name cross were not replayed from StubGen: %s" % (
      len(miss), miss[:6]))
  miss = [c for c in NEED_CELLS_EMITTED if c not in cells["emitted"]]
  common.require(not miss, "vacuity: no emitted stub with %s" % miss[:8])
  lack = ["%s=%d<%d" % (k, run.cov.get(k, 0), n) for k, n in (
      ("dunder_functions_emitted", 100), ("dunder_functions_stubgen", 900), ("dunder_overloaded_emitted", 6),
      ("dunder_overloaded_stubgen", 20), ("dunder_flagged_emitted", 5), ("dunder_flagged_stubgen", 20),
      ("stubgen_expected_read_differs", 150)) if run.cov.get(k, 0) < n]
  common.require(not lack, "vacuity (special method names): " + ", ".join(lack))
  common.require(run.cov.get("stubs_emitted", 0) >= 400 and run.cov.get("stubs_stubgen", 0) >= 800,
                 "vacuity: %s emitted / %s generated stubs" % (run.cov.get("stubs_emitted"), run.cov.get("stubs_stubgen")))
  run.assumptions += [
      "the witness of re-readability is parser.parse_string without a module name (as canonical_pyi does); "
      "with a module name the re-printed text is qualified and is not meant to re-parse",
      "structural equality of declarations is a digest of an explicit dump of the node tree (class names, "
      "fields; ClassType.cls pointers excluded), independent of pytd's own __eq__/__hash__ and printer",
      "programs that pytype does not analyse to a result (crash, compile error) yield no stub and are "
      "counted, not judged (C15's matter); the fixture typeshed limits importable modules",
      "canonical_pyi(t1) = t1 is recorded as a note, not judged: CanonicalOrderingVisitor sorts union members "
      "of the unresolved (unqualified) tree differently from the resolved tree the stub was printed from",
      "counterfactual runs (a stub with a deviation's trigger removed) are used for attribution only",
      "for StubGen declarations with a special method name the original that clause orig compares with is the "
      "declaration the spec says the printed text denotes (StubGen.tla: rk = Denoted(name, kind) under the name "
      "convention pinned there - __new__ static, __init_subclass__ class, nothing else; `self: C` / `cls: type[C]` "
      "printed bare), not the AST as built"]
  return run.finish()


if __name__ == "__main__":
  common.main(PID, main)

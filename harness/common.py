"""Shared scaffolding for the per-property drivers: tiers, seeds, evidence, replays,
known findings, verdict/exit-code rules."""
import hashlib
import json
import os
import sys
import time
import traceback

VERIF = os.path.dirname(os.path.dirname(os.path.abspath(__file__)))
# a scratch copy of the repository (VERIF_REPO=<dir>, mutation experiments) never overwrites the
# evidence / replays of the real tree
_SCRATCH = os.environ.get("VERIF_REPO", "/repo") != "/repo"
EVID = os.path.join(VERIF, "build", "scratch-evidence") if _SCRATCH else os.path.join(VERIF, "evidence")
REPLAYS = os.path.join(VERIF, "build", "scratch-replays") if _SCRATCH else os.path.join(VERIF, "replays")
KNOWN = os.path.join(VERIF, "known_findings.json")


class Machinery(Exception):
  """Something prevented a decision (exit 2)."""


def load_known():
  """Committed known findings: known_findings.json plus known_findings.d/*.json (one file per
  property, same format).  Never written at run time."""
  with open(KNOWN) as f:
    out = list(json.load(f)["findings"])
  d = os.path.join(VERIF, "known_findings.d")
  if os.path.isdir(d):
    for fn in sorted(os.listdir(d)):
      if fn.endswith(".json"):
        with open(os.path.join(d, fn)) as f:
          out += json.load(f)["findings"]
  return out


class Run:
  """One run of one property's check."""

  def __init__(self, pid, level, tier=None, seed=None):
    self.pid = pid
    self.level = level
    self.tier = os.environ.get("VERIF_TIER") or tier or "quick"
    if self.tier not in ("quick", "thorough"):
      self.tier = "quick"
    self.seed = int(os.environ.get("VERIF_SEED", seed if seed is not None else 0))
    self.t0 = time.time()
    self.cov = {"samples": []}
    self.assumptions = []
    self.violations = []        # (key, what, replay_payload)
    self.known_hits = {}        # key -> count
    self.divergences = []
    self.known = [k for k in load_known() if k["property"] == pid]
    self._sample_cap = 6

  # ---- coverage helpers
  def add(self, key, n=1):
    self.cov[key] = self.cov.get(key, 0) + n

  def put(self, key, value):
    self.cov[key] = value

  def sample(self, s):
    if len(self.cov["samples"]) < self._sample_cap:
      self.cov["samples"].append(s)

  def diverge(self, what):
    if len(self.divergences) < 50:
      self.divergences.append(what)
    self.add("divergences_total")

  # ---- verdicts
  def violation(self, key, what, payload):
    """Report a property-level violation.  key = canonical identity at spec level."""
    for k in self.known:
      if k["status"] == "known" and k["key"] == key:
        self.known_hits[key] = self.known_hits.get(key, 0) + 1
        return False
    # de-duplicate by key
    for v in self.violations:
      if v[0] == key:
        return True
    self.violations.append((key, what, payload))
    return True

  def finish(self):
    wall = time.time() - self.t0
    os.makedirs(EVID, exist_ok=True)
    cov = dict(self.cov)
    if self.divergences:
      cov["divergences"] = self.divergences
    cov["known_findings_hit"] = self.known_hits
    ev = {
        "property_id": self.pid, "tier": self.tier, "seed": self.seed, "level": self.level,
        "coverage": cov, "assumptions": self.assumptions, "wall_s": round(wall, 2),
        "violations": len(self.violations),
    }
    with open(os.path.join(EVID, self.pid + ".json"), "w") as f:
      json.dump(ev, f, indent=1, sort_keys=True, default=str)
    for k in self.known:
      if k["status"] == "known" and k["key"] in self.known_hits:
        print("KNOWN-FINDING: property=%s %s [%s; %d case(s) this run]" % (
            self.pid, k["what"], k["key"], self.known_hits[k["key"]]))
    if self.violations:
      d = os.path.join(REPLAYS, self.pid)
      os.makedirs(d, exist_ok=True)
      for key, what, payload in self.violations[:500]:
        blob = json.dumps({"property": self.pid, "key": key, "what": what, "case": payload},
                          indent=1, sort_keys=True, default=str)
        h = hashlib.sha1(blob.encode()).hexdigest()[:12]
        p = os.path.join(d, h + ".json")
        with open(p, "w") as f:
          f.write(blob)
        print("VIOLATION property=%s replay=%s" % (self.pid, p))
        print("  key=%s :: %s" % (key, what[:400]))
      sys.stdout.flush()
      return 1
    print("OK property=%s tier=%s wall=%.1fs %s" % (
        self.pid, self.tier, wall,
        " ".join("%s=%s" % (k, v) for k, v in sorted(cov.items())
                 if isinstance(v, (int, float)) and not isinstance(v, bool))))
    return 0


def main(pid, fn):
  """Entry point wrapper: exit 0/1 from the verdict, 2 on machinery failure."""
  try:
    rc = fn()
  except SystemExit:
    raise
  except Exception:  # pylint: disable=broad-except
    traceback.print_exc()
    print("MACHINERY-FAILURE property=%s" % pid)
    sys.exit(2)
  sys.exit(rc)


def require(cond, msg):
  if not cond:
    raise Machinery(msg)

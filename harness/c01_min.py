"""Delta-debugging helper for C01 findings (exploration aid, not a verdict): shrink a program while
(a) it still runs to completion under CPython, (b) the run-time class of the slot's value stays the
same and (c) pytype still prints the same (unsound) type for the slot.
usage: c01_min.py <replay.json>"""
import json
import os
import re
import sys

sys.path.insert(0, os.path.dirname(os.path.abspath(__file__)))
import boot  # noqa: E402

boot.boot()
import pyt  # noqa: E402


def slot_text(pyi, kind, name):
  pat = {"name": r"^%s: (.*)$" % re.escape(name), "ret": r"^def %s\(.*\) -> (.*): \.\.\.$" % re.escape(name)}.get(kind)
  if not pat:
    return None
  m = re.search(pat, pyi, re.M)
  return m.group(1) if m else None


def runtime_class(src, kind, name):
  g = {}
  try:
    exec(compile(src, "<m>", "exec"), g)  # pylint: disable=exec-used
  except BaseException:  # pylint: disable=broad-except
    return None
  if kind == "name":
    return type(g[name]).__name__ if name in g else None
  return "ret"


def main():
  d = json.load(open(sys.argv[1]))["case"]
  src, slot = d["src"], d["slot"]
  kind, name = slot["k"], slot["n"]
  want_t = slot_text(pyt.analyze(src)["pyi"], kind, name)
  want_c = runtime_class(src, kind, name)
  print("target: %s %s inferred %r, run-time %r" % (kind, name, want_t, want_c))

  def bad(s):
    try:
      compile(s, "<m>", "exec")
    except SyntaxError:
      return False
    if runtime_class(s, kind, name) != want_c:
      return False
    r = pyt.analyze(s)
    return r["outcome"] == "result" and slot_text(r["pyi"], kind, name) == want_t
  lines = src.splitlines()
  n = 2
  while len(lines) >= 2:
    chunk = max(1, len(lines) // n)
    done = False
    for i in range(0, len(lines), chunk):
      cand = lines[:i] + lines[i + chunk:]
      if cand and bad("\n".join(cand) + "\n"):
        lines = cand
        n = max(n - 1, 2)
        done = True
        break
    if not done:
      if chunk == 1:
        break
      n = min(n * 2, len(lines))
  print("\n".join(lines))


if __name__ == "__main__":
  main()

"""C04 - analysis output is a pure function of the source and the options.

Determinism.tla models processes (hash seeds) that analyse programs one after the other, with an
option set (default / protocols), a fresh or a reused loader and possibly after some amount of
unrelated earlier work; the property: one observation per (program, options) whatever the
circumstances.  TLC enumerates the history space in three configurations:

  mixed   all 3-step histories over 3 processes x 3 programs x 2 option sets x 2 loader modes x
          warm-ups {0, 4}, up to renaming; sampled histories are executed literally (several of
          them back to back on one group of worker processes, so later ones run after more work)
  seeds   all pairs of analyses over SIX processes = six hash seeds; executed as one session in
          which every process analyses every program of the union family (SigGen.tla: annotated
          signatures over unions from an alphabet with the PEP 484 compat pairs, None, containers,
          in every position of a signature), the open-function family and some ProgGen programs
  prefix  all pairs of "amounts of earlier work" 0..12 over processes with the SAME hash seed;
          executed as one session of 13 processes: process n first does n units of unrelated work
          (a unit = one un-annotated parameter of another module) and then analyses the same
          sequence of programs (open functions with option protocols, ...), so that every program
          is analysed at 13 consecutive offsets of whatever per-process counters exist, and once
          more at the end of the sequence.

The driver instantiates the abstract programs, executes the histories on real worker processes
(c04_worker.py) and records per analysis digests of the stub text, of the ordered error report
and of the pickled stub.  TraceC04.tla replays each recorded session through the spec's Observe
action and gives the verdict (which parts differ, and which circumstance - hash seed, earlier
work, loader mode - distinguishes the closest differing observation); error reports must be
sorted and unique.

Beside the sessions runs the error-log family (c04_errorlog.py, ErrorLog.tla / TraceErrorLog.tla):
"unique and sorted" and the checkpoint discipline of the real errors.ErrorLog for ALL bounded
histories of its operations (violation keys C04:errorlog:<clause>:<op>).
"""
import argparse
import concurrent.futures as cf
import hashlib
import json
import os
import random
import re
import subprocess
import sys
import threading

sys.path.insert(0, os.path.dirname(os.path.abspath(__file__)))
import boot  # noqa: E402
import c04_errorlog  # noqa: E402
import common  # noqa: E402
import progterms  # noqa: E402
import tlc  # noqa: E402

PID = "C04"
OPTS = ["default", "protocols"]
PARAM_POS = ["param", "default", "method", "star", "nested"]
OTHER_POS = ["return", "attr", "var"]
N_SEEDS = 6
WARMUPS = list(range(13))

FAMILIES = ("mixed", "seeds", "prefix")
CFG = "CONSTANTS\n Families = {%s}\n Export = %s\n"


def run_model():
  """One TLC run over the three families of Determinism.tla (the bounds are in the spec)."""
  r = tlc.run("Determinism", "SPECIFICATION Spec\n" + CFG % (",".join('"%s"' % f for f in FAMILIES), "TRUE") +
              "INVARIANT Consistent\nINVARIANT ExportInv\n", workers=1, timeout=1800)
  if r.violated:
    raise common.Machinery("Determinism.tla violated %s" % r.violated)
  return r


# ---------------------------------------------------------------------------------- programs
def snippets(limit, rng):
  """Programs from the repository's own tests that import modules (loader state matters)."""
  import glob
  import textwrap
  out = []
  allowed = ("typing", "collections", "enum", "abc", "os", "sys", "types")
  for fn in sorted(glob.glob(os.path.join(boot.REPO, "pytype", "tests", "test_*.py"))):
    with open(fn, encoding="utf-8") as f:
      text = f.read()
    for m in re.finditer(r'"""(.*?)"""', text, re.S):
      body = m.group(1)
      if "import" not in body or len(body) > 1500 or "\\" in body:
        continue
      src = textwrap.dedent(body).strip("\n") + "\n"
      mods = re.findall(r"^\s*(?:from|import)\s+([A-Za-z_\.]+)", src, re.M)
      if not mods or any(x.split(".")[0] not in allowed for x in mods):
        continue
      try:
        compile(src, "<snippet>", "exec")
      except Exception:  # pylint: disable=broad-except
        continue
      out.append(src)
  rng.shuffle(out)
  return out[:limit]


def union_sig(idx, members, pos):
  """One signature of the union family (SigGen.tla) -> (module-level text, class-level text)."""
  r = idx % len(members)
  u = "Union[%s]" % ", ".join(members[r:] + members[:r])
  if pos == "param":
    s = "def f%d(x: %s) -> None: ...\n" % (idx, u)
    if idx % 3 == 0:    # the union also shows up in an error message
      s += "f%d(object())\n" % idx
    return s, ""
  if pos == "default":
    return "def d%d(x: %s = ...) -> None: ...\n" % (idx, u), ""
  if pos == "method":
    return "", "  def m%d(self, x: %s) -> None: ...\n" % (idx, u)
  if pos == "star":
    return "def s%d(*a: %s, **k: %s) -> None: ...\n" % (idx, u, u), ""
  if pos == "nested":
    return "def n%d(x: List[%s], y: Dict[str, %s]) -> None: ...\n" % (idx, u, u), ""
  if pos == "return":
    return "def r%d() -> %s: ...\n" % (idx, u), ""
  if pos == "attr":
    return "", "  a%d: %s\n" % (idx, u)
  if pos == "var":
    return "v%d: %s = ...\n" % (idx, u), ""
  raise ValueError(pos)


def union_programs(sigs, per):
  """sigs: list of (members, pos); programs of `per` signatures each."""
  out = []
  for k in range(0, len(sigs), per):
    top, cls = [], []
    for j, (members, pos) in enumerate(sigs[k:k + per]):
      a, b = union_sig(k + j, members, pos)
      top.append(a)
      cls.append(b)
    src = "from typing import Dict, List, Union\n" + "".join(top)
    if any(cls):
      src += "class K:\n" + "".join(cls)
    out.append(src)
  return out


def open_fn(idx, it):
  """One open function of SigGen.tla -> (module-level text, class-level text)."""
  n = it["n"]
  ps = ["p%d" % (j + 1) for j in range(n)]
  first, second, last = ps[0], ps[min(1, n - 1)], ps[-1]
  ret = {"rot": "(%s,)" % ", ".join([last] + ps[:-1]),
         "list": "[%s, %s]" % (first, last),
         "dict": "{%s: %s}" % (first, last),
         "first": first,
         "cond": "%s if %s else %s" % (first, second, last),
         "nest": "((%s, %s), [%s])" % (first, last, second)}[it["ret"]]
  params = list(ps)
  if it["star"]:
    params += ["*rest", "key=None", "**extra"]
  if it["meth"]:
    return "", "  def m%d(self, %s):\n    return %s\n" % (idx, ", ".join(params), ret)
  return "def g%d(%s):\n  return %s\n" % (idx, ", ".join(params), ret), ""


def open_programs(items, per):
  out = []
  for k in range(0, len(items), per):
    top, cls = [], []
    for j, it in enumerate(items[k:k + per]):
      a, b = open_fn(k + j, it)
      top.append(a)
      cls.append(b)
    src = "".join(top)
    if any(cls):
      src += "class B:\n" + "".join(cls)
    out.append(src)
  return out


def pid_of(src):
  return "s" + hashlib.sha1(src.encode()).hexdigest()[:10]


# ---------------------------------------------------------------------------------- execution
class Worker:
  def __init__(self, seed):
    env = boot.child_env(seed)
    self.p = subprocess.Popen([sys.executable, os.path.join(os.path.dirname(__file__), "c04_worker.py")],
                              stdin=subprocess.PIPE, stdout=subprocess.PIPE, env=env, text=True)

  def ask(self, req):
    self.p.stdin.write(json.dumps(req) + "\n")
    self.p.stdin.flush()
    line = self.p.stdout.readline()
    if not line:
      raise common.Machinery("C04 worker died")
    return json.loads(line)

  def close(self):
    try:
      self.p.stdin.close()
      self.p.wait(timeout=20)
    except Exception:  # pylint: disable=broad-except
      self.p.kill()


def run_proc(args):
  """All steps of one worker process of one session, in order (processes do not interact, so
  the processes of a session run concurrently; the session's step order is only the order in
  which the spec replays the observations)."""
  seed, reqs = args
  w = Worker(seed)
  try:
    return [w.ask(r) for r in reqs]
  finally:
    w.close()


def execute(jobs, pool):
  """jobs: [{"family", "seeds": {proc: seed}, "progs": {id: src}, "steps": [{proc, prog, opt,
  mode, warm}]}] -> per job the steps completed with seed, obs, errs, pyi."""
  futs = []
  for j in jobs:
    per = {}
    for n, s in enumerate(j["steps"]):
      per.setdefault(s["proc"], []).append(n)
    for proc, idxs in per.items():
      reqs = [{"src": j["progs"][j["steps"][n]["prog"]], "mode": j["steps"][n]["mode"],
               "opt": j["steps"][n]["opt"], "warm": j["steps"][n]["warm"]} for n in idxs]
      futs.append((j, idxs, pool.submit(run_proc, (j["seeds"][proc], reqs))))
  results = {id(j): [None] * len(j["steps"]) for j in jobs}
  for j, idxs, f in futs:
    for n, o in zip(idxs, f.result()):
      results[id(j)][n] = dict(j["steps"][n], seed=j["seeds"][j["steps"][n]["proc"]], **o)
  return [results[id(j)] for j in jobs]


def session_steps(procs, seq, first_warm, repeat):
  """The session shape of the seeds / prefix families, linearised program by program: every
  process analyses the sequence seq = [(prog, opt, mode)] in the same order (process p after
  first_warm[p] units of unrelated work), then the programs of `repeat` once more, process p
  after repeat[k][3][p] further units."""
  steps = []
  for n, (prog, opt, mode) in enumerate(seq):
    for p in procs:
      steps.append({"proc": p, "prog": prog, "opt": opt, "mode": mode,
                    "warm": first_warm[p] if n == 0 else 0})
  for prog, opt, mode, warm in repeat:
    for p in procs:
      steps.append({"proc": p, "prog": prog, "opt": opt, "mode": mode, "warm": warm[p]})
  return steps


# ---------------------------------------------------------------------------------- main
def main():
  ap = argparse.ArgumentParser()
  ap.add_argument("--tier", default="quick")
  ap.add_argument("--replay")
  a = ap.parse_args()
  run = common.Run(PID, "exploration", a.tier)
  boot.boot()
  thorough = run.tier == "thorough"
  rng = random.Random(run.seed)
  pool = cf.ThreadPoolExecutor(max_workers=8)
  jvm = cf.ThreadPoolExecutor(max_workers=3)

  if a.replay:
    with open(a.replay) as f:
      case = json.load(f)["case"]
    if "errorlog" in case:      # a violation of the error-log family (ErrorLog.tla)
      c04_errorlog.replay_case(run, case)
      return run.finish()
    jobs = [case["job"]]
    models = {}
  else:
    import c01
    # 0. the error-log family (ErrorLog.tla on the real errors.ErrorLog) runs beside the sessions
    errorlog = c04_errorlog.start(run.seed, thorough)
    # 1. the models: history spaces, program generators (JVMs side by side)
    fm = jvm.submit(run_model)
    nprog = 240 if thorough else 45
    fp = jvm.submit(tlc.run, "ProgGen", c01.gen_cfg(9, 2), workers=1, timeout=3000,
                    seed=run.seed + 40, simulate="num=%d" % nprog, depth=12)
    fs = jvm.submit(tlc.run, "SigGen", "INIT Init\nNEXT Next\nCONSTANTS MaxUnion = %d\n MaxParams = 6\n"
                    "INVARIANT ExportInv\n" % (5 if thorough else 4), workers=1, timeout=3000)
    rr = fp.result()
    common.require(not rr.violated and len(rr.cases) >= nprog, "ProgGen failed")
    gen = ["".join(progterms.stmt(s) for s in c["p"]) for c in rr.cases]
    snip = snippets(120 if thorough else 27, rng)
    rs = fs.result()
    common.require(not rs.violated and rs.cases, "SigGen failed")
    unions = sorted((c for c in rs.cases if c["kind"] == "union"), key=lambda c: c["u"])
    fns = sorted((c for c in rs.cases if c["kind"] == "fn"),
                 key=lambda c: (c["n"], c["ret"], c["meth"], c["star"]))
    run.put("siggen_states", rs.distinct)
    run.put("unions_in_model", len(unions))
    run.put("sensitive_unions_in_model", sum(1 for c in unions if c["sens"]))
    run.put("open_functions_in_model", len(fns))

    # 2a. union family: every Sensitive union in parameter positions, the others in a slice
    sigs = []
    sens = [c for c in unions if c["sens"]]
    rest = [c for c in unions if not c["sens"]]
    rng.shuffle(rest)
    rng.shuffle(sens)
    allpos = PARAM_POS + OTHER_POS
    for n, c in enumerate(sens if thorough else sens[:120]):
      # thorough: every parameter position and one other; quick: one parameter position
      poss = PARAM_POS + [OTHER_POS[(n + run.seed) % 3]] if thorough else [PARAM_POS[(n + run.seed) % 5]]
      sigs += [(c["u"], p) for p in poss]
    for n, c in enumerate(rest if thorough else rest[:40]):
      poss = [allpos[(n + run.seed) % 8]]
      if thorough:
        poss.append(allpos[(n + run.seed + 3) % 8])
      sigs += [(c["u"], p) for p in poss]
    rng.shuffle(sigs)
    uprogs = union_programs(sigs, 40)
    n_sens_param = sum(1 for u, p in sigs if p in PARAM_POS and
                       any(c["u"] == u and c["sens"] for c in sens))
    run.put("union_signatures", len(sigs))
    run.put("sensitive_unions_in_parameter_position", n_sens_param)
    common.require(n_sens_param >= 100 and len({p for _, p in sigs}) == 8,
                   "vacuity: union family too small (%d sensitive parameter unions)" % n_sens_param)
    # 2b. open-function family
    multi = [c for c in fns if c["reused"] >= 2]
    rng.shuffle(fns)
    oprogs = open_programs(fns if thorough else fns[:72], 6)
    common.require(len(multi) >= 60, "vacuity: open-function family too small")
    n_multi = sum(1 for c in (fns if thorough else fns[:72]) if c["reused"] >= 2)
    common.require(n_multi >= 24, "vacuity: too few open functions with >= 2 re-used parameters")
    run.put("open_functions_multi_typevar", n_multi)

    rng.shuffle(gen)
    rng.shuffle(snip)
    jobs = []
    # 3a. seeds session: six hash seeds, every process analyses every program
    procs = ["h%d" % k for k in range(1, N_SEEDS + 1)]
    hs = ["0", "1", "2"] + [str(rng.randrange(3, 10**6)) for _ in range(N_SEEDS - 3)]
    sprogs = ([(s, "default") for s in uprogs] + [(s, "protocols") for s in oprogs[:3]] +
              [(s, rng.choice(OPTS)) for s in gen[:4] + snip[:2]])
    progs = {pid_of(s): s for s, _ in sprogs}
    seq = [(pid_of(s), o, rng.choice(["fresh", "reused"])) for s, o in sprogs]
    jobs.append({"family": "seeds", "seeds": dict(zip(procs, hs)), "progs": progs,
                 "steps": session_steps(procs, seq, {p: 0 for p in procs}, [])})
    # 3b. prefix session: one hash seed, process n starts after n units of unrelated work
    procs = ["w%d" % w for w in WARMUPS]
    nopen = len(oprogs) if thorough else 6
    pprogs = [(s, "protocols") for s in oprogs[:nopen]] + [(s, "protocols") for s in gen[4:5]]
    if thorough:   # three passes: the per-process counters go well beyond 1000
      pprogs = pprogs + [(uprogs[0], "protocols")] + pprogs + pprogs
    pprogs.insert(4, (oprogs[-1], "default"))
    progs = {pid_of(s): s for s, _ in pprogs}
    seq = [(pid_of(s), o, "fresh" if n % 3 else "reused") for n, (s, o) in enumerate(pprogs)]
    common.require(seq[0][1] == "protocols" and seq[0][0] != seq[1][0], "prefix sequence")
    rep = [(seq[0][0], seq[0][1], seq[0][2], {p: (5 * w) % 13 for p, w in zip(procs, WARMUPS)}),
           (seq[1][0], seq[1][1], seq[1][2], {p: 0 for p in procs})]
    jobs.append({"family": "prefix", "seeds": {p: hs[0] for p in procs}, "progs": progs,
                 "steps": session_steps(procs, seq, dict(zip(procs, WARMUPS)), rep)})
    # 3c. mixed histories (need the model's histories)
    model = fm.result()
    models = {f: [c["h"] for c in model.cases if c["f"] == f] for f in FAMILIES}
    hists = models["mixed"]
    common.require(len(hists) > 500, "history space too small: %d" % len(hists))
    mprogs = gen[6:] + snip[2:] + oprogs[3:6] + uprogs[:1]
    rng.shuffle(mprogs)
    ngroups = 10 if thorough else 5
    pergroup = 12 if thorough else 4
    per = 6 if thorough else 3
    triples = [mprogs[k:k + 3] for k in range(0, len(mprogs) - 2, 3)][:ngroups * pergroup]
    for g in range(ngroups):
      # several model histories back to back: the processes keep their state in between
      names = {k: "m%d.%d" % (g, k) for k in (1, 2, 3)}
      seeds = {names[1]: "0", names[2]: str(rng.randrange(1, 10**6)), names[3]: str(rng.randrange(1, 10**6))}
      progs, steps = {}, []
      for t in triples[g * pergroup:(g + 1) * pergroup]:
        ids = {k + 1: pid_of(s) for k, s in enumerate(t)}
        progs.update({pid_of(s): s for s in t})
        for hh in rng.sample(hists, per):
          steps += [{"proc": names[x["proc"]], "prog": ids[x["prog"]], "opt": x["opt"],
                     "mode": x["mode"], "warm": x["warm"]} for x in hh]
      if steps:
        jobs.append({"family": "mixed", "seeds": seeds, "progs": progs, "steps": steps})

  results = execute(jobs, pool)
  cases = [{"steps": [{"proc": s["proc"], "seed": s["seed"], "prog": s["prog"], "opt": s["opt"],
                       "mode": s["mode"], "warm": s["warm"], "obs": s["obs"], "errs": s["errs"]}
                      for s in steps]} for steps in results]
  nv, bad, rr = tlc.validate_cases(
      "TraceC04", cases, cfg="INIT TInit\nNEXT TNext\n" + CFG % ('"mixed"', "FALSE") +
      "INVARIANT Ok\nINVARIANT Agree\nINVARIANT CovInv\nPOSTCONDITION Done\n", timeout=3000)
  common.require(bad is None, "TraceC04 invariant cannot fail")
  cov = {c["i"] - 1: c["per"] for c in tlc.parse_cases(rr.out, "COV")}
  common.require(len(cov) == len(cases), "TraceC04 did not report the coverage of every case")

  nsteps = sum(len(c["steps"]) for c in cases)
  run.put("traces_validated_against_impl", nv)
  run.put("analyses", nsteps)
  run.put("evaluations", nsteps)
  run.put("sessions", len(jobs))
  run.put("worker_processes", sum(len(j["seeds"]) for j in jobs))
  keys = [(j["family"], p["prog"], p["opt"], p) for n, j in enumerate(jobs) for p in cov[n]]
  run.put("distinct_nontrivial", sum(1 for k in keys if k[3]["n"] >= 2))
  run.put("rule", "one case = one session of worker processes (mixed: 3 processes, hash seeds 0 and two random, "
          "sampled model histories back to back; seeds: 6 hash seeds x every program; prefix: 13 processes with one "
          "hash seed starting after 0..12 units of earlier work x the same program sequence); distinct_nontrivial = "
          "distinct (program, options) analysed at least twice under different circumstances")
  run.put("worker_cpu_s_by_family", {f: round(sum(s["cpu"] for j, st in zip(jobs, results) if j["family"] == f
                                                  for s in st), 1) for f in sorted({j["family"] for j in jobs})})
  run.put("errors_seen", sum(len(s["errs"]) for st in results for s in st))
  run.put("exceptions_seen", sum(1 for st in results for s in st if s["obs"][0].startswith("exc:")))
  # crash messages are not part of the observation; differing ones are logged (never an alarm)
  for j, st in zip(jobs, results):
    msgs = {}
    for s in st:
      if "excmsg" in s:
        msgs.setdefault((s["prog"], s["opt"], s["obs"][0]), set()).add(s["excmsg"])
    for (prog, opt, exc), ms in sorted(msgs.items()):
      if len(ms) > 1:
        run.diverge("%s session: program %s (options %s) escapes with %s in every analysis, but with %d different "
                    "messages, e.g. %r / %r" % (j["family"], prog, opt, exc[4:], len(ms), sorted(ms)[0][:160],
                                                sorted(ms)[1][:160]))
  for j, st in zip(jobs[:3], results):
    run.sample({"family": j["family"], "seeds": j["seeds"],
                "history": [[s["proc"], s["prog"], s["opt"], s["mode"], s["warm"]] for s in j["steps"][:6]],
                "obs": st[0]["obs"]})

  if not a.replay:
    for name, hs_ in models.items():
      run.put("histories_in_model_" + name, len(hs_))
    run.put("states", model.distinct)
    run.put("transitions", model.generated)
    run.put("histories_in_model", len(model.cases))
    # vacuity guards, stated on what the spec counted per (program, options) of each session
    fam = {f: [k[3] for k in keys if k[0] == f] for f in ("seeds", "prefix", "mixed")}
    common.require(fam["seeds"] and all(p["seeds"] == N_SEEDS for p in fam["seeds"]),
                   "vacuity: seeds session did not analyse every program under %d hash seeds" % N_SEEDS)
    common.require(fam["prefix"] and all(p["works"] >= len(WARMUPS) and p["seeds"] == 1 for p in fam["prefix"]),
                   "vacuity: prefix session did not analyse every program after %d amounts of work" % len(WARMUPS))
    nproto = sum(1 for p in fam["prefix"] if p["opt"] == "protocols")
    common.require(nproto >= 6, "vacuity: prefix session has only %d programs with option protocols" % nproto)
    common.require(sum(1 for p in fam["mixed"] if p["n"] >= 2) >= (100 if thorough else 25) and
                   {p["opt"] for p in fam["mixed"]} == set(OPTS),
                   "vacuity: mixed histories repeat too few (program, options)")
    # the executed sessions embed every pair of the seeds / prefix models
    want = {(h[0]["proc"], h[1]["proc"]) for h in models["seeds"]
            if h[0]["proc"] != h[1]["proc"]}
    first = jobs[0]["steps"][0]["prog"]
    did = {int(s["proc"][1:]) for s in jobs[0]["steps"] if s["prog"] == first}
    have = {(x, y) for x in did for y in did if x != y}
    common.require(len(want) == N_SEEDS * (N_SEEDS - 1) and want <= have,
                   "vacuity: seeds session misses %d of the model's process pairs" % len(want - have))
    run.put("seed_pairs_embedded", len(want))
    want = {(h[0]["warm"], h[1]["warm"]) for h in models["prefix"]
            if h[0]["proc"] != h[1]["proc"] and h[0]["warm"] != h[1]["warm"]}
    st = [s for s in jobs[1]["steps"] if s["prog"] == jobs[1]["steps"][0]["prog"]][:len(WARMUPS)]
    have = {(x["warm"], y["warm"]) for x in st for y in st if x["proc"] != y["proc"]}
    common.require(want and want <= have, "vacuity: prefix session misses %d of the model's pairs of "
                   "amounts of earlier work" % len(want - have))
    run.put("prefix_pairs_embedded", len(want))
    same = {(h[0]["warm"], h[1]["warm"]) for h in models["prefix"]
            if h[0]["proc"] == h[1]["proc"]}
    run.put("prefix_same_process_pairs_in_model", len(same))
    # the unsolved part of the protocols dimension must really have been printed
    tv = sum(1 for st in results for s in st if s["opt"] == "protocols" and "_T1 = TypeVar" in s["pyi"])
    common.require(tv >= 50, "vacuity: only %d protocols analyses printed >= 2 generated TypeVars" % tv)
    run.put("protocols_analyses_with_typevars", tv)
    un = sum(s["pyi"].count("Union[") for s in results[0] if s["proc"] == "h1")
    common.require(un >= 120, "vacuity: only %d unions printed by the seeds session" % un)
    run.put("unions_printed_per_process", un)
    # "reported errors are unique and sorted by position" on the data structure, for all histories
    c04_errorlog.run_family(run, thorough, errorlog)

  for rb in tlc.parse_cases(rr.out, "BAD"):
    job = jobs[rb["i"] - 1]
    steps = results[rb["i"] - 1]
    s = steps[rb["k"] - 1]
    for f in rb["fails"]:
      if f == "differs":
        d = rb["diff"][0]
        peer = [x for x in steps[:rb["k"] - 1] if x["prog"] == s["prog"] and x["opt"] == s["opt"] and
                x["proc"] == d["peer"]["proc"] and x["obs"] != s["obs"]]
        peer = peer[0] if peer else s
        key = "C04:differs:%s:varies-with:%s" % ("+".join(sorted(d["parts"])), "+".join(sorted(d["dims"])))
        import difflib
        delta = [l for l in difflib.unified_diff(peer["pyi"].splitlines(), s["pyi"].splitlines(), lineterm="", n=0)
                 if l[:1] in "+-" and l[:3] not in ("+++", "---")][:8]
        what = ("%s session: program %s (options %s) analysed in process %s (hash seed %s, %s loader, after %d "
                "units of work) differs in %s from the analysis in process %s (hash seed %s, %s loader, after %d "
                "units of work); distinguishing circumstances: %s; %s" % (
                    job["family"], s["prog"], s["opt"], s["proc"], s["seed"], s["mode"], d["now"]["work"],
                    sorted(d["parts"]), d["peer"]["proc"], d["peer"]["seed"], d["peer"]["mode"], d["peer"]["work"],
                    sorted(d["dims"]), " | ".join(delta)))
        payload = {"job": job, "step": rb["k"], "src": job["progs"][s["prog"]], "opt": s["opt"],
                   "pyi_peer": peer["pyi"], "pyi_now": s["pyi"], "errs_peer": peer["errs"], "errs_now": s["errs"],
                   "diff": d}
      else:
        key = "C04:%s" % f
        what = "error report not sorted/unique: %s" % s["errs"]
        payload = {"job": job, "step": rb["k"], "src": job["progs"][s["prog"]], "opt": s["opt"]}
      run.violation(key, what, payload)
  return run.finish()


if __name__ == "__main__":
  common.main(PID, main)

"""C04 - analysis output is a pure function of the source and the options.

Determinism.tla enumerates the history space (which process, i.e. which hash seed, analyses which
program with a fresh or a reused loader, in which order).  The driver instantiates the abstract
programs with concrete ones (ProgGen programs and test snippets that import several modules),
executes the histories on real worker processes started with different PYTHONHASHSEED values and
records, per analysis, digests of the stub text, of the ordered error report and of the pickled
stub.  TraceC04.tla replays each recorded history through the spec's Observe action: every
observation of one program must equal the first one; error reports must be sorted and unique.
"""
import argparse
import json
import os
import random
import re
import subprocess
import sys

sys.path.insert(0, os.path.dirname(os.path.abspath(__file__)))
import boot  # noqa: E402
import common  # noqa: E402
import progterms  # noqa: E402
import tlc  # noqa: E402

PID = "C04"
PROCS = ["a", "b", "c"]
PROGS = ["p1", "p2", "p3"]
CONSTS = 'CONSTANTS\n Procs = {"a", "b", "c"}\n Progs = {"p1", "p2", "p3"}\n MaxSteps = %d\n Export = %s\n'


def snippets(limit, rng):
  """Programs from the repository's own tests that import modules (loader state matters)."""
  import glob
  out = []
  allowed = ("typing", "collections", "enum", "abc", "os", "sys", "types")
  for fn in sorted(glob.glob(os.path.join(boot.REPO, "pytype", "tests", "test_*.py"))):
    with open(fn, encoding="utf-8") as f:
      text = f.read()
    for m in re.finditer(r'"""(.*?)"""', text, re.S):
      body = m.group(1)
      if "import" not in body or len(body) > 1500 or "\\" in body:
        continue
      import textwrap
      src = textwrap.dedent(body).strip("\n") + "\n"
      mods = re.findall(r"^\s*(?:from|import)\s+([A-Za-z_\.]+)", src, re.M)
      if not mods or any(x.split(".")[0] not in allowed for x in mods):
        continue
      try:
        compile(src, "<snippet>", "exec")
      except Exception:  # pylint: disable=broad-except
        continue
      out.append(src)
  rng.shuffle(out)
  return out[:limit]


class Worker:
  def __init__(self, seed):
    env = boot.child_env(seed)
    self.p = subprocess.Popen([sys.executable, os.path.join(os.path.dirname(__file__), "c04_worker.py")],
                              stdin=subprocess.PIPE, stdout=subprocess.PIPE, env=env, text=True)

  def ask(self, src, mode):
    self.p.stdin.write(json.dumps({"src": src, "mode": mode}) + "\n")
    self.p.stdin.flush()
    line = self.p.stdout.readline()
    if not line:
      raise common.Machinery("C04 worker died")
    return json.loads(line)

  def close(self):
    try:
      self.p.stdin.close()
      self.p.wait(timeout=20)
    except Exception:  # pylint: disable=broad-except
      self.p.kill()


def execute(job):
  triple, hist, seeds = job
  workers = {}
  steps = []
  try:
    for proc, prog, mode in hist:
      if proc not in workers:
        workers[proc] = Worker(seeds[proc])
      o = workers[proc].ask(triple[prog], mode)
      steps.append({"proc": proc, "prog": prog, "mode": mode, "seed": seeds[proc],
                    "obs": o["obs"], "errs": o["errs"], "nraw": o["nraw"], "pyi": o["pyi"]})
  finally:
    for w in workers.values():
      w.close()
  return steps


def main():
  ap = argparse.ArgumentParser()
  ap.add_argument("--tier", default="quick")
  ap.add_argument("--replay")
  a = ap.parse_args()
  run = common.Run(PID, "exploration", a.tier)
  boot.boot()
  thorough = run.tier == "thorough"
  rng = random.Random(run.seed)
  # 1. the history space
  r = tlc.run("Determinism", "SPECIFICATION Spec\n" + CONSTS % (3, "TRUE") +
              "INVARIANT Consistent\nINVARIANT ExportInv\n", workers=1, timeout=1800)
  if r.violated:
    raise common.Machinery("Determinism.tla violated %s" % r.violated)
  run.put("states", r.distinct)
  run.put("transitions", r.generated)
  hists = [c["h"] for c in r.cases]
  common.require(len(hists) > 500, "history space too small: %d" % len(hists))
  run.put("histories_in_model", len(hists))
  # 2. concrete programs
  import c01
  if a.replay:
    with open(a.replay) as f:
      case = json.load(f)["case"]
    jobs = [(case["triple"], case["history"], case["seeds"])]
  else:
    nprog = 240 if thorough else 45
    rr = tlc.run("ProgGen", c01.gen_cfg(9, 2), workers=1, timeout=3000, seed=run.seed + 40,
                 simulate="num=%d" % nprog, depth=12)
    common.require(not rr.violated and len(rr.cases) >= nprog, "ProgGen failed")
    progs = ["".join(progterms.stmt(s) for s in c["p"]) for c in rr.cases]
    progs += snippets(120 if thorough else 27, rng)
    rng.shuffle(progs)
    triples = [dict(zip(PROGS, progs[k:k + 3])) for k in range(0, len(progs) - 2, 3)]
    per = 12 if thorough else 4
    jobs = []
    for t in triples:
      # several model histories concatenated: the processes keep their state in between
      h = []
      for hh in rng.sample(hists, per):
        h += [tuple(x) for x in hh]
      seeds = {"a": "0", "b": str(rng.randrange(1, 10**6)), "c": str(rng.randrange(1, 10**6))}
      jobs.append((t, h, seeds))
  import concurrent.futures as cf
  with cf.ThreadPoolExecutor(max_workers=6) as ex:
    results = list(ex.map(execute, jobs))
  cases = []
  for steps in results:
    cases.append({"steps": [{"proc": s["proc"], "prog": s["prog"], "mode": s["mode"],
                             "obs": s["obs"], "errs": s["errs"]} for s in steps]})
  nv, bad, rr = tlc.validate_cases("TraceC04", cases, cfg="INIT TInit\nNEXT TNext\n" +
                                   CONSTS % (1000000, "FALSE") + "INVARIANT Ok\nPOSTCONDITION Done\n",
                                   timeout=3000)
  common.require(bad is None, "TraceC04 invariant cannot fail")
  nsteps = sum(len(c["steps"]) for c in cases)
  run.put("traces_validated_against_impl", nv)
  run.put("analyses", nsteps)
  run.put("evaluations", nsteps)
  run.put("program_triples", len(jobs))
  run.put("distinct_nontrivial", len({(json.dumps(j[0], sort_keys=True)) for j in jobs}) * 3)
  run.put("rule", "one case = one program triple x a history of analyses over 3 processes (hash seeds 0 and two random) and 2 loader modes; distinct_nontrivial = distinct programs analysed at least twice under different circumstances")
  run.put("errors_seen", sum(len(s["errs"]) for st in results for s in st))
  run.put("exceptions_seen", sum(1 for st in results for s in st if s["obs"][0].startswith("exc:")))
  run.sample({"history": [list(x) for x in jobs[0][1][:6]], "seeds": jobs[0][2],
              "obs": results[0][0]["obs"]})
  for rb in tlc.parse_cases(rr.out, "BAD"):
    job = jobs[rb["i"] - 1]
    steps = results[rb["i"] - 1]
    s = steps[rb["k"] - 1]
    for f in rb["fails"]:
      if f == "differs":
        first = [x for x in steps if x["prog"] == s["prog"]][0]
        which = [n for n, (x, y) in zip(("pyi", "errors", "pickle"), zip(first["obs"], s["obs"])) if x != y]
        key = "C04:differs:%s" % "+".join(which)
        what = "program analysed in process %s (seed %s, %s loader) differs in %s from its first analysis (process %s, seed %s, %s loader)" % (
            s["proc"], s["seed"], s["mode"], which, first["proc"], first["seed"], first["mode"])
        payload = {"triple": job[0], "history": [list(x) for x in job[1][:rb["k"]]], "seeds": job[2],
                   "src": job[0][s["prog"]], "pyi_first": first["pyi"], "pyi_now": s["pyi"],
                   "errs_first": first["errs"], "errs_now": s["errs"]}
      else:
        key = "C04:%s" % f
        what = "error report not sorted/unique: %s" % s["errs"]
        payload = {"triple": job[0], "history": [list(x) for x in job[1][:rb["k"]]], "seeds": job[2],
                   "src": job[0][s["prog"]]}
      run.violation(key, what, payload)
  return run.finish()


if __name__ == "__main__":
  common.main(PID, main)

"""C15 - any compilable source is analysed to a result, never an internal failure.

Specification: specs/Outcome.tla (the analysis pipeline as a stage machine
Read -> Directors -> Compile -> Blocks -> Fold -> Run -> Analyze -> ComputeTypes -> Optimize ->
Print, where a stage may fail only in the ways the machine allows, with the terminal outcomes
Result / CompileError(line) / FoldError(line) / Skipped and the report each admits).

1. TLC model-checks Outcome.tla: every behaviour the machine allows satisfies C15 as stated
   (not compilable => exactly one python-compiler-error at CPython's line; compilable => a result;
   every reported line inside the file; nothing escapes), in two runs: inputs x mutation plans x
   main pipeline (exports the Mutate(kind, slot) sequences the driver applies to real token
   lists), and inputs x pipeline with sub-runs (the Compile -> Blocks -> Run sub-machine of
   annotation / type-comment evaluation, nested up to depth 2).
2. Exploration (code -> spec): pytype's top-level entry io.check_or_generate_pyi runs on a virtual
   file for hand-written and generated programs (all constructs), spec-chosen token mutations of
   them, edge texts, the minimal inputs of earlier findings (FOUND), the programs embedded in
   pytype/tests and small CPython standard-library files; harness wrappers emit one event per
   stage (sub-runs included); CPython's compile() is the oracle for compilability and the blamed
   line.  TLC (TraceC15.tla) accepts or rejects each recorded run with Outcome!Verdict.
   Worker processes are killed at a per-item time cap; such an item is 'not explored'.
   A rejected run whose exception escaped gets the key C15:escaped:<type>@<file>:<function>
   (innermost pytype frame); harness/c15_min.py reduces its input (ddmin, same type, same site).
3. Spec-planned families (Outcome.tla PlanCall / Provoke / Compose / Precondition / MutateExo,
   rendered by harness/c15_fam.py): (a) ill-typed calls - every callable shape (def, lambda,
   method / staticmethod / classmethod through instance and class, constructor, non-callable
   values; 0..2 parameters named self / cls / a / b; default, *args, **kw, keyword-only,
   annotations) called with every call shape (0..3 positionals x unknown / duplicate / keyword-only
   keywords), one call per line; the binding faults are computed by the spec, confirmed against
   CPython on every call, and re-computed by TraceC15 when it names the classes that were reported
   where expected; (b) one provoking text per error class of the PINNED catalogue of
   pytype/errors/errors.py (and per formatter that shares a class name); (c) composed texts
   head;precondition;middle;tail where the precondition makes pytype rewrite or re-read the source
   (bare annotations at function / async function / method / class / module level, type comments,
   directives) and the tail puts an error on the last line of a compilable or a non-compilable
   text, with one character that str.splitlines() treats as a line break and CPython does not
   (FF VT FS GS RS NEL LS PS) at a token boundary, inside a string literal or inside a comment of
   one region; the same characters in pool texts, with or without a bare annotation put into
   every function body.  The spec's predictions about these characters (never a new line;
   harmless inside strings and comments, form feed harmless between tokens, everything else an
   invalid character) are confirmed against CPython on every text.  Vacuity guards: every class
   of the catalogue observed where planned, every failed-call class by the call family alone,
   failed calls with an empty argument list, harmless characters after a rewritten annotation.
"""
import argparse
import hashlib
import json
import multiprocessing as mp
import multiprocessing.connection as mpc
import os
import random
import shutil
import sys
import time
import warnings

sys.path.insert(0, os.path.dirname(os.path.abspath(__file__)))
import boot  # noqa: E402
import common  # noqa: E402
import c15_fam  # noqa: E402
import c15_run  # noqa: E402
import progs_d  # noqa: E402
import tlc  # noqa: E402

PID = "C15"
TRACE_CFG = ("INIT TInit\nNEXT TNext\nINVARIANT Ok\nPOSTCONDITION Done\nCHECK_DEADLOCK FALSE\n"
             "CONSTANTS MaxLines = 1\n MutKinds = {}\n Slots = {}\n MaxMut = 0\n Export = FALSE\n"
             " MaxSub = 0\n MaxSubDepth = 0\n Families = {}\n ExoChars = {}\n CallFlagSlice = {}\n NSlices = 1\n Slice = 0\n")
MODEL_INVS = ("NeverEscapes", "Accepts", "NotCompilable", "Compilable", "LinesInFile",
              "FailOnlyWhereAllowed", "StagesInOrder", "SubRunsInWindow", "SubRunsClosed", "SubRunsNested",
              "PlansInCatalogue")
SLOTS = 8
CHARSEQ = ("ff", "vt", "fs", "gs", "rs", "nel", "ls", "ps")      # Outcome!CharSeq
NFLAGSETS = 32                                                   # Outcome!NFlagSets
QUICK_SLICES = 48                                                # slices of the composed texts at quick tier


def _tset(xs):
  return "{" + ",".join('"%s"' % x if isinstance(x, str) else str(x) for x in xs) + "}"


def model_cfg(maxlines, maxmut, export, maxsub, families=(), chars=(), flags=(), nslices=1, slice_=0):
  return ("SPECIFICATION Spec\nCONSTANTS MaxLines = %d\n MutKinds = %s\n Slots = %s\n MaxMut = %d\n Export = %s\n"
          " MaxSub = %d\n MaxSubDepth = 2\n Families = %s\n ExoChars = %s\n CallFlagSlice = %s\n NSlices = %d\n Slice = %d\n"
          % (maxlines, _tset(progs_d.MUTATIONS), _tset(range(SLOTS)), maxmut, "TRUE" if export else "FALSE", maxsub,
             _tset(families), _tset(chars), _tset(flags), nslices, slice_)
          + "".join("INVARIANT %s\n" % i for i in MODEL_INVS) + ("INVARIANT ExportInv\n" if export else ""))


class TimedPool:
  """Process pool with a hard per-item time cap: a worker that exceeds it is killed and replaced."""

  def __init__(self, procs, keep=False):
    self.ctx = mp.get_context("spawn")
    self.procs = procs
    self.workers = []
    self.keep = keep            # keep the workers alive between map() calls (close() ends them)

  def _spawn(self):
    a, b = self.ctx.Pipe()
    p = self.ctx.Process(target=c15_run.worker_main, args=(b, boot.REPO), daemon=True)
    p.start()
    b.close()
    return {"p": p, "conn": a, "ready": False, "job": None, "t0": None, "cap": None}

  def map(self, items, cap_of):
    """items: list of dicts; cap_of(item) -> seconds.  Returns list of records; a timed-out item
    yields {"label":..., "timeout": cap}."""
    n = len(items)
    out = [None] * n
    nxt = 0
    done = 0
    self.workers += [self._spawn() for _ in range(min(self.procs, max(1, n)) - len(self.workers))]
    try:
      while done < n:
        conns = [w["conn"] for w in self.workers]
        for c in mpc.wait(conns, timeout=0.05):
          w = next(x for x in self.workers if x["conn"] is c)
          try:
            idx, rec = c.recv()
          except (EOFError, OSError):
            # the worker died (e.g. a hard crash of the interpreter): that item escaped
            if w["job"] is not None:
              out[w["job"]] = {"label": items[w["job"]]["label"], "died": True}
              done += 1
            self.workers[self.workers.index(w)] = self._spawn()
            continue
          if idx == "ready":
            w["ready"] = True
          else:
            out[idx] = rec
            done += 1
            w["job"] = None
        now = time.time()
        for k, w in enumerate(self.workers):
          if w["job"] is not None and now - w["t0"] > w["cap"]:
            out[w["job"]] = {"label": items[w["job"]]["label"], "timeout": w["cap"]}
            done += 1
            w["p"].kill()
            w["p"].join(5)
            self.workers[k] = self._spawn()
          elif w["job"] is None and w["ready"] and nxt < n:
            w["job"] = nxt
            w["t0"] = time.time()
            w["cap"] = cap_of(items[nxt])
            w["conn"].send((nxt, items[nxt]))
            nxt += 1
    finally:
      if not self.keep:
        self.close()
    return out

  def close(self):
    for w in self.workers:
      try:
        w["conn"].send(None)
      except (OSError, BrokenPipeError):
        pass
    for w in self.workers:
      w["p"].join(2)
      if w["p"].is_alive():
        w["p"].kill()
    self.workers = []


def trace_plan(it):
  """the part of an item's plan TraceC15 reads (call shapes with their lines; the wanted class)"""
  pl = it.get("plan") or {"fam": "none"}
  if pl["fam"] == "call":
    return {"fam": "call", "group": [{"c": g["c"], "calls": [{"npos": c["npos"], "kws": c["kws"], "line": c["line"]}
                                                              for c in g["calls"]]} for g in it["group"]]}
  if pl["fam"] == "provoke":
    return {"fam": "provoke", "want": pl["want"]}
  return {"fam": pl["fam"]}


def judge(run, recs, items_by_label, cover=None):
  """TLC judges every recorded run.  cover (a dict) collects what the COVER lines say: error
  classes reported where the spec expects them, per family; names outside the pinned catalogue."""
  cases = [{"nlines": r["nlines"], "compiles": r["compiles"], "cline": r["cline"], "skip": r["skip"],
            "mode": r["mode"], "events": r["events"], "crashed": r["crashed"], "errs": r["errs"],
            "anntrail": r.get("anntrail", []), "plan": trace_plan(items_by_label[r["label"]])} for r in recs]
  if not cases:
    return 0
  nv, bad, res = tlc.validate_cases("TraceC15", cases, cfg=TRACE_CFG, timeout=1800, heap="4g")
  common.require(bad is None and not res.violated, "TraceC15 verdicts are total; TLC stopped:\n" + res.out[-3000:])
  for c in tlc.parse_cases(res.out, "COVER"):
    if cover is None:
      continue
    for cl in c["hit"]:
      cover.setdefault("hit:" + c["fam"], {}).setdefault(cl, 0)
      cover["hit:" + c["fam"]][cl] += 1
    for nm in c["unknown"]:
      cover.setdefault("unknown", {}).setdefault(nm, recs[c["i"] - 1]["label"])
    if c["spurious"]:
      cover["spurious"] = cover.get("spurious", 0) + c["spurious"]
    for g, j in c["silent"]:
      it = items_by_label[recs[c["i"] - 1]["label"]]
      cover.setdefault("silent", []).append("%s [%s]" % (it["group"][g - 1]["calls"][j - 1]["expr"],
                                                         " / ".join(it["src"].split("\n")[:2]) if len(it["group"]) == 1 else
                                                         json.dumps(it["group"][g - 1]["c"], sort_keys=True)))
  for c in tlc.parse_cases(res.out, "BAD"):
    r = recs[c["i"] - 1]
    fails = sorted(c["fails"])
    src = items_by_label[r["label"]]["src"]
    if r["crashed"]:
      key = "C15:escaped:%s@%s" % (r.get("exc_type", "?"), r.get("site", "?"))
      what = "an exception escaped the analysis of %s: %s (site %s)" % (r["label"], r.get("exc_head"), r.get("site"))
    else:
      key = "C15:%s" % "+".join(fails)
      if "line-outside-file" in fails:
        bad_lines = sorted({(e[0], e[1]) for e in r["errs"] if e[1] < 1 or e[1] > r["nlines"]})
        key += ":" + ",".join(sorted({b[0] for b in bad_lines}))
        what = "errors outside 1..%d: %s on %s" % (r["nlines"], bad_lines[:4], r["label"])
      else:
        what = "clauses %s fail on %s: compiles=%s cline=%s events=%s errs=%s msgs=%s" % (
            fails, r["label"], r["compiles"], r["cline"], r["events"][-2:], r["errs"][:3], r.get("first_msgs"))
      if c.get("attr"):
        key += ":" + c["attr"]           # Outcome!Attribution (spec-computed, from oracle-side facts)
    run.violation(key, what, {"label": r["label"], "mode": r["mode"], "src": src, "fails": fails,
                              "opts": items_by_label[r["label"]].get("opts") or {},
                              "deps": (items_by_label[r["label"]].get("plan") or {}).get("deps") or [],
                              "record": {k: v for k, v in r.items() if k != "tb"}, "tb": r.get("tb", "")})
    run.add("bad_runs")
  return nv


def classify_plans(cases):
  """the exported plans of the model run, by family (deduplicated; one entry per plan and mode)"""
  out = {"classic": [], "exo": [], "call": [], "provoke": [], "compose": [], "catalogue": None, "callclasses": None}
  seen = set()
  for c in cases:
    if "catalogue" in c:
      out["catalogue"], out["callclasses"] = sorted(c["catalogue"]), sorted(c["callclasses"])
      continue
    k = json.dumps(c, sort_keys=True)
    if k in seen:
      continue
    seen.add(k)
    fam = c["plan"]["fam"]
    if fam in ("call", "provoke", "compose"):
      out[fam].append(c)
    elif c["muts"] and c["muts"][0][0].startswith("ws-"):
      out["exo"].append(c)
    elif c["muts"] and fam == "none":
      out["classic"].append(c)
  for k in ("classic", "exo", "call", "provoke", "compose"):
    out[k].sort(key=lambda c: json.dumps(c, sort_keys=True))
  return out


def build_inputs(run, thorough, plans, fam, deps_dir):
  rng = random.Random(run.seed)
  items = []

  def add(label, src, mode=None, fam="gen", **extra):
    it = {"label": label, "src": src, "mode": mode or ("check" if rng.random() < 0.25 else "infer"), "family": fam}
    it.update(extra)
    items.append(it)
  for k, s in enumerate(progs_d.HAND):
    add("hand%02d" % k, s, "infer", "hand")
  base = progs_d.generate(run.seed, 5000 if thorough else 260)
  for k, s in enumerate(base):
    add("gen%05d" % k, s)
  # mutants: the spec's plans (sequences of Mutate(kind, slot)) applied to the real token lists
  nm = 7000 if thorough else 330
  pool = list(progs_d.HAND) + base
  for k in range(nm):
    src = pool[k % len(pool)]
    plan = plans[k % len(plans)]
    out = src
    for kind, slot, _ in plan:
      try:
        nt = max(1, len(progs_d.tokens(out)))
        pos = (slot * nt) // SLOTS + rng.randrange(max(1, nt // SLOTS))
        out = progs_d.mutate(out, kind, pos, rng)
      except SystemError:
        # CPython 3.12.1's tokenize raises SystemError on a text that already holds a NUL byte
        # (inserted by the previous mutation of the plan): keep that text as it is
        break
    if out != src:
      add("mut%05d" % k, out, None, "mutant")
  # exotic characters in pool texts (MutateExo, optionally after Precondition "ann")
  exo = fam["exo"]
  nx = 1500 if thorough else len(exo) // 3
  frng = random.Random(run.seed + 77)
  fpool = [s for s in pool if "def " in s]
  for k in range(nx):
    c = exo[k % len(exo)]
    (kind, slot, ch), = c["muts"]
    pre = c["plan"]["fam"] == "pre"
    src = (fpool if pre else pool)[frng.randrange(len(fpool if pre else pool))]
    if pre:
      src = c15_fam.add_bare_annotations(src)
    out = c15_fam.insert_exotic(src, kind, slot, SLOTS, ch, frng.randrange(1000))
    if out != src:
      add("exo%05d" % k, out, c["mode"], "exo", base=src, harmless=(kind != "ws-token" or ch == "ff"),
          annotated=pre and out.count("v_ann: int") > 0, plan={"fam": c["plan"]["fam"]})
  # ill-typed calls: one text per parameter list and flag set (all kinds of callables), one call per line
  calls = [c for c in fam["call"] if c["mode"] == "infer"]
  for k, c in enumerate(calls):
    src, grp = c15_fam.render_call(c["plan"])
    add("call%04d" % k, src, "check" if (k + run.seed) % 4 == 0 else "infer", "call", plan=c["plan"], group=grp)
  # one provoking text per error class / formatter (thorough: in both modes; quick: the mode alternates)
  for k, c in enumerate(fam["provoke"]):
    pl = c["plan"]
    if not thorough and (pl["k"] + run.seed) % 2 != (c["mode"] == "check"):
      continue
    opts = {o: True for o in pl["opts"]}
    if pl["deps"]:
      opts["pythonpath"] = deps_dir
    add("provoke:%s:%s" % (pl["id"], c["mode"]), pl["src"], c["mode"], "provoke", plan=pl, opts=opts)
  # composed texts with one exotic character (mode alternates per plan)
  comp = [c for c in fam["compose"] if c["mode"] == "infer"]
  for k, c in enumerate(comp):
    pl = c["plan"]
    b, text, line = c15_fam.render_compose(pl)
    common.require(text is not None, "composed text has no %s position in region %s: %r" % (pl["place"], pl["region"], pl))
    lab = "compose:%s:%s:%s:%s:%s:%s" % (pl["pre"], pl["tail"], "eol" if pl["eol"] else "noeol", pl["region"], pl["place"], pl["ch"])
    add(lab, text, "check" if (k + run.seed) % 5 == 0 else "infer", "compose", plan=pl, base=b, at_line=line,
        harmless=pl["harmless"])
  # texts CPython rejects in ways a token mutation rarely produces
  for k, s in enumerate(EDGE):
    add("edge%02d" % k, s, "infer", "edge")
  # minimal inputs of the findings of earlier runs (harness/c15_min.py), in both modes: a finding
  # stays exercised whatever the seed, and a fix is confirmed by the same check
  for k, s in enumerate(FOUND):
    add("found%02d:infer" % k, s, "infer", "found")
    add("found%02d:check" % k, s, "check", "found")
  ups = progs_d.upstream_snippets(boot.REPO)
  if not thorough:
    ups = rng.sample(ups, 160)
  for lab, s in ups:
    add("up:" + lab, s, "infer", "upstream")
  files = progs_d.stdlib_files(recursive=False)
  files = sorted(files, key=os.path.getsize)
  files = [p for p in files if os.path.getsize(p) > 300]
  files = files[:95] if thorough else rng.sample(files[:45], 14)
  for p in files:
    try:
      with open(p, encoding="utf8") as f:
        add("std:" + os.path.basename(p), f.read(), "infer", "stdlib")
    except (OSError, UnicodeDecodeError):
      pass
  return items


def confirm_language(run, items):
  """The spec's statements about the LANGUAGE, confirmed against CPython on every planned text
  (disagreement = machinery failure, exit 2): the binding faults of every call of the call family;
  an exotic character never adds a line and, where the spec calls it harmless, leaves compile()'s
  verdict and blamed line unchanged, otherwise makes the text not compilable."""
  ncalls = 0
  for it in items:
    if it["family"] == "call":
      _, outs = c15_fam.cpython_call_outcomes(it["plan"])
      for expr, faults, got in outs:
        ncalls += 1
        common.require((got == "" and not faults) or got in faults,
                       "Outcome!BindingFaults disagrees with CPython on %s of %s: spec %s, CPython %r"
                       % (expr, it["label"], faults, got))
    if it["family"] in ("compose", "exo"):
      ob, ot = c15_run.oracle(it["base"]), c15_run.oracle(it["src"])
      common.require(len(it["base"].split("\n")) == len(it["src"].split("\n")), "exotic character added a line: " + it["label"])
      if it["family"] == "compose":
        pl = it["plan"]
        common.require(ob[0] == pl["basecompiles"] and ot[0] == pl["compiles"],
                       "Outcome!ComposeCompiles disagrees with CPython on %s: base %s text %s" % (it["label"], ob, ot))
      if it["harmless"]:
        common.require(ob[:2] == ot[:2], "Outcome!Harmless disagrees with CPython on %s: base %s text %s (%r)"
                       % (it["label"], ob, ot, it["src"][:400]))
        run.add("exotic_harmless_confirmed")
      else:
        common.require(not ot[0], "a non-harmless exotic character left %s compilable" % it["label"])
        run.add("exotic_invalid_confirmed")
  run.put("call_bindings_confirmed_against_cpython", ncalls)


EDGE = [
    "x = (\n", "if x:\n", "def f(:\n pass\n", "x = 1\n  y = 2\n", "return 1\n", "x = '''abc\n", "\x00", "x = 1\n\x00\n",
    "def f(a, a): pass\n", "a, *b, *c = x\n", "f'{'\n", "if 1:\n\tx=1\n        y=2\n", "await x\n",
    "def f():\n  nonlocal q\n", "x = 1 +\n", "class C:\n  return\n", "# pytype: skip-file\nx = (\n",
    "# pytype: skip-file\nx = 1\n", "", "\n\n", "(" * 300 + ")" * 300 + "\n", "1 = x\n", "x = 1\n" * 3 + "y = ?\n",
    "x = {[]}\n", "x = [*42]\n", "x = {**42}\n", "def f():\n  yield\n  return (yield from f())\nasync def g():\n  yield from f()\n",
    "break\n", "def f():\n  x = 1\n  global x\n", "from __future__ import braces\n", "x: int\nx = ''  # type: str\n",
    "def f(x):\n  # type: (int, int) -> None\n  pass\n", "x = 1  # type: (\n", "print 'a'\n", "match x:\n  case 1 | y: pass\n",
    "class A(A): pass\n", "def f(*, **k): pass\n", "lambda: (yield)\n", "x = 0777\n", "\\\n", "x = 1 if else 2\n",
    "try:\n  pass\nexcept* E:\n  return\n", "async def f():\n  [x async for x in y]\n  await = 1\n", "\ufeffx = 1\n", "x = '\\N{foo}'\n",
    "def f():\n" + "  if x:\n" * 30 + "  " * 31 + "pass\n", "\tx = 1\n", "x = 1\r\ny = (\r\n", "@\ndef f(): pass\n",
]


def _case(events, compiles=True, cline=0, nlines=3, skip=False, mode="infer", crashed=False, errs=(), anntrail=(),
          plan=None):
  return {"nlines": nlines, "compiles": compiles, "cline": cline, "skip": skip, "mode": mode,
          "events": [list(e) for e in events], "crashed": crashed, "errs": [list(e) for e in errs],
          "anntrail": list(anntrail), "plan": plan or {"fam": "none"}}


_MAIN = [("Read", "ok"), ("Directors", "ok"), ("Compile", "ok"), ("Blocks", "ok"), ("Fold", "ok")]
_TAIL = [("Analyze", "ok"), ("ComputeTypes", "ok"), ("Optimize", "ok"), ("Print", "ok")]
_SUB = [("Compile", "ok"), ("Blocks", "ok"), ("Run", "ok")]
# synthetic runs with the verdict the spec must give (binding self-test of Outcome!Verdict):
# accepted shapes of sub-runs and rejected malformed ones
SPEC_CASES = [
    (_case(_MAIN + [("Run", "ok")] + _TAIL), []),
    (_case(_MAIN + [("Run", "ok")] + _SUB + _TAIL), []),                               # late annotation
    (_case(_MAIN + _SUB + _SUB + [("Run", "ok")] + _SUB + _TAIL), []),                  # inside Run, before/inside Analyze
    (_case(_MAIN + [("Compile", "ok"), ("Blocks", "ok")] + _SUB + [("Run", "ok"), ("Run", "ok")] + _TAIL), []),  # nested
    (_case(_MAIN + [("Compile", "CompileError"), ("Run", "ok")] + _TAIL), []),           # bad annotation text, caught
    (_case(_MAIN + [("Run", "ok"), ("Compile", "ok"), ("Blocks", "ok")] + _TAIL), ["stage-order"]),   # sub-run never ran
    (_case(_MAIN + [("Run", "ok"), ("Compile", "ok"), ("Run", "ok")] + _TAIL), ["stage-order"]),      # Blocks skipped
    (_case(_MAIN + [("Run", "ok"), ("Blocks", "ok")] + _TAIL), ["stage-order"]),                        # Blocks without Compile
    (_case(_MAIN + [("Run", "ok"), ("Analyze", "ok")] + _SUB + _TAIL[1:]), ["stage-order"]),            # sub-run after Analyze
    (_case(_MAIN[:3] + _SUB + _MAIN[3:] + [("Run", "ok")] + _TAIL), ["stage-order"]),                   # sub-run before Fold
    (_case(_MAIN + [("Run", "ok")] + _TAIL[:2]), ["stage-order", "compilable-not-analysed"]),           # stops early
    (_case(_MAIN + [("Run", "ok"), ("Compile", "SyntaxError")] + _TAIL), ["stage-order"]),              # not what eval_expr catches
    (_case(_MAIN + [("Compile", "ok"), ("Blocks", "ok"), ("Run", "KeyError"), ("Run", "KeyError")], crashed=True), ["escaped"]),
    (_case(_MAIN + [("Run", "ok")] + _TAIL, errs=[("name-error", 0)]), ["line-outside-file"]),
    (_case(_MAIN + [("Run", "ok")] + _TAIL, errs=[("name-error", 4)]), ["line-outside-file"]),
    (_case(_MAIN + [("Run", "ok")] + _TAIL, errs=[("python-compiler-error", 1)]), ["compiler-error-on-compilable"]),
    # a string annotation that is not an expression: the caught sub-Compile failure is reported as one compiler error
    (_case(_MAIN + [("Compile", "CompileError"), ("Run", "ok")] + _TAIL, errs=[("name-error", 1), ("python-compiler-error", 2)]), []),
    (_case(_MAIN + [("Compile", "CompileError"), ("Run", "ok")] + _TAIL,
           errs=[("python-compiler-error", 1), ("python-compiler-error", 2)]), ["compiler-error-on-compilable"]),
    (_case(_MAIN + [("Compile", "CompileError"), ("Run", "ok")] + _TAIL, errs=[("python-compiler-error", 4)]), ["line-outside-file"]),
    (_case([("Read", "ok"), ("Directors", "SyntaxError")], compiles=False, cline=2, errs=[("python-compiler-error", 2)]), []),
    (_case([("Read", "ok"), ("Directors", "SyntaxError")], compiles=False, cline=2, errs=[("python-compiler-error", 1)]), ["blamed-line"]),
    (_case([("Read", "ok"), ("Directors", "SyntaxError")], compiles=True), ["compiler-error-on-compilable", "stage-order"]),
    (_case(_MAIN[:2] + [("Compile", "CompileError")], compiles=True, errs=[("python-compiler-error", 2)]),
     ["compiler-error-on-compilable", "stage-order"]),
    # the known defect: ` = ...` appended to a bare-annotation line that carries more code (attribution by the spec)
    (_case([("Read", "ok"), ("Directors", "SyntaxError")], compiles=True, errs=[("python-compiler-error", 2)], anntrail=[2]),
     ["compiler-error-on-compilable", "stage-order"], "bare-annotation-line-with-trailing-code"),
    (_case([("Read", "ok"), ("Directors", "SyntaxError")], compiles=True, errs=[("python-compiler-error", 3)], anntrail=[2]),
     ["compiler-error-on-compilable", "stage-order"], ""),          # another line: not that defect
    (_case(_MAIN + [("Run", "ok")] + _TAIL, errs=[("name-error", 4)], anntrail=[2]), ["line-outside-file"], ""),
    (_case(_MAIN + [("Run", "ok")] + _TAIL, compiles=False, cline=1), ["stage-order"]),
    (_case(_MAIN[:4] + [("Fold", "ConstantError")], errs=[("python-compiler-error", 1)]), []),
]


_F = {"kind": "def", "ps": ["self", "b"], "dflt": False, "star": False, "kw": False, "kwonly": False, "ann": False, "val": ""}
_CALLS = [{"npos": 0, "kws": [], "line": 3}, {"npos": 2, "kws": [], "line": 4},
          {"npos": 3, "kws": ["first"], "line": 5}, {"npos": 1, "kws": ["zz"], "line": 6}]


def _callplan(**kw):
  return {"fam": "call", "group": [{"c": {"kind": "value", "ps": [], "dflt": False, "star": False, "kw": False, "kwonly": False,
                                          "ann": False, "val": "int"}, "calls": [{"npos": 0, "kws": [], "line": 1}]},
                                   {"c": dict(_F, **kw), "calls": _CALLS}]}


_CALLPLAN = _callplan()
_RUN_OK = _MAIN + [("Run", "ok")] + _TAIL
# synthetic runs of the planned families with the COVER line the spec must print:
# (case, hit, unknown, spurious, silent = [callable index, call index] of faulty calls with nothing on their line)
COVER_CASES = [
    # f() misses both, f(1,'s') binds, f(1,'s',None,self='s') has too many and a duplicate, f(1, zz=1) unknown + missing
    (_case(_RUN_OK, nlines=7, plan=_CALLPLAN, errs=[("missing-parameter", 3), ("wrong-arg-count", 5), ("wrong-keyword-args", 6)]),
     ["missing-parameter", "wrong-arg-count", "wrong-keyword-args"], [], 0, [[1, 1]]),
    (_case(_RUN_OK, nlines=7, plan=_CALLPLAN, errs=[("duplicate-keyword-argument", 5), ("missing-parameter", 6)]),
     ["duplicate-keyword-argument", "missing-parameter"], [], 0, [[1, 1], [2, 1]]),
    (_case(_RUN_OK, nlines=7, plan=_CALLPLAN, errs=[("missing-parameter", 4)]), [], [], 1,
     [[1, 1], [2, 1], [2, 3], [2, 4]]),                                                             # the well-bound call blamed
    (_case(_RUN_OK, nlines=7, plan=_CALLPLAN, errs=[("wrong-arg-count", 3)]), [], [], 0,
     [[1, 1], [2, 3], [2, 4]]),                                                                     # not the expected class
    (_case(_RUN_OK, nlines=7, plan=_callplan(ann=True), errs=[("wrong-arg-types", 4), ("not-callable", 1)]),
     ["not-callable", "wrong-arg-types"], [], 0, [[2, 1], [2, 3], [2, 4]]),                          # b: int gets 's'
    (_case(_RUN_OK, nlines=7, plan=_callplan(kind="method"), errs=[("missing-parameter", 3), ("wrong-arg-count", 4)]),
     ["missing-parameter", "wrong-arg-count"], [], 0, [[1, 1], [2, 3], [2, 4]]),                     # the receiver is bound first
    (_case(_RUN_OK, plan={"fam": "provoke", "want": "bad-slots"}, errs=[("bad-slots", 2)]), ["bad-slots"], [], 0, []),
    (_case(_RUN_OK, plan={"fam": "provoke", "want": "bad-slots"}, errs=[("name-error", 2)]), [], [], 0, []),
    (_case(_RUN_OK, errs=[("brand-new-error", 2)]), [], ["brand-new-error"], 0, []),
]


def spec_selftest():
  allc = [c[0] for c in SPEC_CASES] + [c[0] for c in COVER_CASES]
  nv, bad, res = tlc.validate_cases("TraceC15", allc, cfg=TRACE_CFG, timeout=600, heap="2g")
  common.require(bad is None and not res.violated, "TraceC15 stopped on the self-test cases:\n" + res.out[-2000:])
  got = {c["i"]: c for c in tlc.parse_cases(res.out, "BAD")}
  for k, t in enumerate(SPEC_CASES, 1):
    want = sorted(t[1])
    have = sorted(got[k]["fails"]) if k in got else []
    common.require(have == want, "Outcome!Verdict self-test case %d: expected %s, TLC says %s" % (k, want, have))
    if len(t) > 2:
      common.require(got[k]["attr"] == t[2], "Outcome!Attribution self-test case %d: expected %r, TLC says %r"
                     % (k, t[2], got[k]["attr"]))
  cov = {c["i"]: c for c in tlc.parse_cases(res.out, "COVER")}
  for k, (_, hit, unknown, spurious, silent) in enumerate(COVER_CASES, len(SPEC_CASES) + 1):
    c = cov.get(k)
    if not hit and not unknown and not spurious and not silent:
      common.require(c is None, "TraceC15 COVER self-test case %d: expected no line, TLC says %s" % (k, c))
      continue
    common.require(c is not None and sorted(c["hit"]) == sorted(hit) and sorted(c["unknown"]) == sorted(unknown)
                   and c["spurious"] == spurious and sorted(c["silent"]) == silent,
                   "TraceC15 COVER self-test case %d: expected hit=%s unknown=%s spurious=%d silent=%s, TLC says %s"
                   % (k, hit, unknown, spurious, silent, c))
  return len(allc)


FOUND = [
    "x = {[1]: 2}\n", "x = {1: 2, **{3: 4}, {5}: 6}\n",
    'import enum\nenum.Enum(1, "A")\n', 'import enum\nenum.Enum("X", 5)\n', 'import enum\nenum.Enum("X", [1, 2])\n',
    'import enum\nenum.Enum("X", [(1, 2)])\n', 'import enum\nenum.Enum("X", [("a", 2, 3)])\n',
    'import enum\nenum.Enum("X", ["a", 1])\n', 'import enum\nenum.Enum("X", [("a", 1), "b"])\n',
    'import enum\nX = enum.Enum("X", [("a", 1), ("b", 2)])\nY = enum.Enum("Y", "a b")\nZ = enum.Enum("Z", ["a", "b"])\nprint(X.a, Y.b, Z.a.value)\n',
    "class C:\n  type L[T] = list[T]\n", "class C:\n  T = 1\n  type L[T] = list[T]\n  type M = T\n",
    "def f[T](x=1): pass\n", "def f[T](*, x=1) -> T: pass\n", "def g[T](a: T, b: int = 3, *, c='') -> T: return a\n",
    "def f(): pass\nif __random__:\n  f = classmethod(f)\n",
    "def f(): pass\ntry:\n  import foo\nexcept ImportError:\n  f = staticmethod(f)\n",
    'from typing import LiteralString\nx = ""\n', 'from typing import *\nx = ""\n', 'from typing_extensions import Text\nx = ""\n',
    'y = ""\ndef f():\n  match y:\n    case str():\n      pass\n', 'y = ""\nclass C:\n  match y:\n    case str():\n      pass\n',
    "f'{r:{d=}'\n", "x = 1\nf'{r:{d=}'\n",
    "def g():\n  class C:\n    for a in zip(xs): ()\n    def __init__(): super\n  yield (xs := ())\n",
    "class A:\n  class B[T]:\n    def __init__(self): pass\n",
    "def g():\n  class C:\n    x = [g()]\n  def g(): pass\n",
    'import enum\nimport foo\nclass M(enum.Enum):\n  A = foo.x or ""\n',
    "from typing import Callable, Concatenate\ndef f(x: Callable[[P]]) -> Callable[Concatenate[int]]:return x\n(f(g))\n",
    "from typing import Callable, Concatenate\ndef f(x) -> Callable[Concatenate[int]]: return x\nf(len)\n",
    "x: int\ntype B[x] = tuple[x]\n",
    # found while strengthening (seeded-change round): three escaped exceptions and the bare-annotation rewrite
    "t = ()[::0]\n", "t = (1, 2, 3)\nu = t[::0]\n",
    "import collections\nP = collections.namedtuple('P', ['a', 1])\n",
    "x = {0: 1, 2: 2, 3: 3, 4: 4, 5: 5, 6: 6, 7: 7, 8: 8, 9: 9, 10: 10, 11: 11, 12: 12, 13: 13, 14: 14, 15: 15, []: 1}\n",
    "def f():\n  x: int; y = 1\n", "def f(): x: int; y = 1\n", "def f():\n  class K:\n    x: int;\n",
    # fixture typeshed: modules pytype's own overlays look up (an artefact of the sandbox when absent)
    "from typing import Pattern, Match\nimport re\np: Pattern[str] = re.compile('a')\n",
    "from typing_extensions import Literal\ndef f(x: Literal[1]) -> str: ...\n",
    "from collections import abc\ndef f(x: abc.Sequence[int]) -> abc.Mapping[str, int]: ...\n",
    "import abc\nclass A(abc.ABCMeta): pass\n",
    "import types\n@types.coroutine\ndef f():\n  yield 1\nasync def g():\n  await f()\n",
    "import abc\nclass C(abc.ABC):\n  @abc.abstractclassmethod\n  def f(cls) -> int: ...\n  @abc.abstractstaticmethod\n  def g(): ...\n",
    "from typing_extensions import dataclass_transform\n@dataclass_transform()\ndef dc(cls): return cls\n@dc\nclass A:\n  x: int\na = A(x=10)\n",
    "import dataclasses\n@dataclasses.dataclass\nclass P:\n  x: int\n  y: list = dataclasses.field(default_factory=list)\np = P(1)\n",
]


def main():
  ap = argparse.ArgumentParser()
  ap.add_argument("--tier", default="quick")
  ap.add_argument("--replay")
  a = ap.parse_args()
  warnings.simplefilter("ignore")
  os.environ["PYTHONWARNINGS"] = "ignore"
  run = common.Run(PID, "exploration", a.tier)
  boot.boot()
  thorough = run.tier == "thorough"
  cap_small, cap_file = (120, 300) if thorough else (45, 60)
  if a.replay:
    with open(a.replay) as f:
      case = json.load(f)["case"]
    items = [{"label": case["label"], "src": case["src"], "mode": case.get("mode", "infer"), "family": "replay",
              "opts": dict(case.get("opts") or {})}]
    deps_dir = os.path.join(tlc.BUILD, "c15_pyi_%d" % os.getpid())
    if case.get("deps"):          # the stub files a provoking text imports
      items[0]["opts"]["pythonpath"] = c15_fam.write_deps(deps_dir, [{"deps": case["deps"]}])
    try:
      recs = TimedPool(1).map(items, lambda it: cap_file)
    finally:
      shutil.rmtree(deps_dir, ignore_errors=True)
    recs = [r for r in recs if "events" in r]
    n = judge(run, recs, {it["label"]: it for it in items})
    run.put("evaluations", max(1, n)); run.put("distinct_nontrivial", 2)
    run.put("rule", "replay of one recorded input"); run.sample({"label": case["label"], "src": case["src"][:400]})
    return run.finish()

  # ---- 1. the design: the allowed behaviours satisfy C15; export the mutation plan
  # (a) inputs x mutation plans x main pipeline (no sub-runs: `muts` only multiplies the state space)
  #     + the planned families (calls, provoking texts, composed texts, exotic characters in pool
  #     texts), exports the plans; quick enumerates a seed-chosen slice of each family (flag set 0 and
  #     one more of the 32 flag sets of the callables; one of 48 slices of the composed texts, which
  #     every (precondition, tail, region) meets once; form feed and one more character in pool
  #     texts), thorough larger slices (half of the flag sets, a sixth of the composed texts, all characters);
  # (b) all inputs x pipeline with sub-runs (annotation evaluation) nested <= 2
  if thorough:
    # thorough: flag set 0 and every second one of the other flag sets (two consecutive seeds cover all 32),
    # all characters, one of 6 slices of the composed texts (every (precondition, tail, region) meets it 8 times)
    flags = [0] + [f for f in range(1, NFLAGSETS) if bin(f).count("1") % 2 == run.seed % 2]   # each half has every flag on and off
    chars, nsl, sl = list(CHARSEQ), 6, run.seed % 6
  else:
    flags = [0, 1 + run.seed % (NFLAGSETS - 1)]
    chars = ["ff", CHARSEQ[1 + run.seed % (len(CHARSEQ) - 1)]]
    nsl, sl = QUICK_SLICES, run.seed % QUICK_SLICES
  r = tlc.run("Outcome", model_cfg(3, 2 if thorough else 1, True, 0, ("call", "provoke", "compose"), chars, flags, nsl, sl),
              workers=1, timeout=3000, seed=run.seed)
  r2 = tlc.run("Outcome", model_cfg(3, 0, False, 11 if thorough else 9), workers=4, timeout=3000, seed=run.seed)
  for rr in (r, r2):
    if rr.violated or rr.rc != 0:
      raise common.Machinery("Outcome.tla violates %s:\n%s" % (rr.violated, (rr.error_trace or rr.out[-3000:])[:3000]))
  common.require(r2.distinct > 10000, "sub-run model too small: %d states" % r2.distinct)
  run.put("states", r.distinct + r2.distinct)
  run.put("transitions", r.generated + r2.generated)
  run.put("model_states_mutation_part", r.distinct)
  run.put("model_states_subrun_part", r2.distinct)
  fam = classify_plans(r.cases)
  plans = sorted({json.dumps(c["muts"]) for c in fam["classic"]})
  plans = [json.loads(p) for p in plans]
  common.require(len(plans) >= 4 * SLOTS, "mutation plan export too small: %d" % len(plans))
  random.Random(run.seed).shuffle(plans)
  run.put("mutation_plans", len(plans))
  for k in ("exo", "call", "provoke", "compose"):
    run.put("plans_" + k, len(fam[k]))
  common.require(fam["catalogue"] and len(fam["catalogue"]) >= 50, "the pinned catalogue was not exported")
  common.require(len(fam["exo"]) >= 2 * 3 * SLOTS * len(chars) and len(fam["call"]) >= 2 * 10 * len(flags)
                 and len(fam["provoke"]) >= 2 * len(fam["catalogue"]) and len(fam["compose"]) >= 2 * 250,
                 "plan export too small: %s" % {k: len(v) for k, v in fam.items() if isinstance(v, list)})
  print("  [model] states=%d+%d plans=%d exo=%d call=%d provoke=%d compose=%d t=%.0fs" % (
      r.distinct, r2.distinct, len(plans), len(fam["exo"]), len(fam["call"]), len(fam["provoke"]), len(fam["compose"]),
      time.time() - run.t0), flush=True)

  run.put("spec_selftest_cases", spec_selftest())

  # ---- 2. exploration
  deps_dir = os.path.join(tlc.BUILD, "c15_pyi_%d" % os.getpid())
  table = {json.dumps(c["plan"], sort_keys=True): c["plan"] for c in fam["provoke"]}
  c15_fam.write_deps(deps_dir, table.values())
  try:
    items = build_inputs(run, thorough, plans, fam, deps_dir)
    by_label = {it["label"]: it for it in items}
    common.require(len(by_label) == len(items), "duplicate labels")
    confirm_language(run, items)
    caps = {"stdlib": cap_file}
    procs = 10 if thorough else 8
    # long items first so that the tail of the run is short
    order = sorted(range(len(items)), key=lambda k: -len(items[k]["src"]) if items[k]["family"] == "stdlib" else 0)
    items = [items[k] for k in order]
    tp = TimedPool(procs, keep=True)
    try:
      res = tp.map(items, lambda it: caps.get(it["family"], cap_small))
      # a call text that crashed is taken apart: one text per callable; and where that still crashes with
      # a key that is a KNOWN finding, one text per call - a known crash cannot hide a new one
      known = {k["key"] for k in run.known if k["status"] == "known"}

      def broken(rec):
        return bool(rec) and (rec.get("crashed") or "died" in rec or "timeout" in rec)
      extra = []
      for it, rec in zip(items, res):
        if it["family"] == "call" and broken(rec):
          for g in it["group"]:
            src1, grp1 = c15_fam.render_call(it["plan"], only=(g["gi"],))
            extra.append({"label": "%s#%d" % (it["label"], g["gi"]), "src": src1, "mode": it["mode"], "family": "call",
                          "plan": it["plan"], "group": grp1, "single": True})
      if extra:
        res1 = tp.map(extra, lambda it: cap_small)
        extra2 = []
        for it, rec in zip(extra, res1):
          if broken(rec) and "C15:escaped:%s@%s" % (rec.get("exc_type", "?"), rec.get("site", "?")) in known:
            gi = it["group"][0]["gi"]
            for j in range(len(it["group"][0]["calls"])):
              src2, grp2 = c15_fam.render_call(it["plan"], only=(gi, j))
              extra2.append({"label": "%s#%02d" % (it["label"], j), "src": src2, "mode": it["mode"], "family": "call",
                             "plan": it["plan"], "group": grp2, "single": True})
        res += res1 + (tp.map(extra2, lambda it: cap_small) if extra2 else [])
        items += extra + extra2
        by_label.update({it["label"]: it for it in extra + extra2})
    finally:
      tp.close()
  finally:
    shutil.rmtree(deps_dir, ignore_errors=True)
  print("  [explored] %d inputs t=%.0fs" % (len(items), time.time() - run.t0), flush=True)
  recs = []
  for it, rec in zip(items, res):
    fam_ = it["family"]
    if rec is None or "harness_error" in (rec or {}):
      raise common.Machinery("worker failed on %s: %r" % (it["label"], rec))
    if "timeout" in rec:
      run.add("not_explored_timeout")
      run.cov.setdefault("not_explored", []).append({"label": it["label"], "cap_s": rec["timeout"]})
      continue
    if "died" in rec:
      run.violation("C15:escaped:worker-process-died", "the interpreter died while analysing %s" % it["label"],
                    {"label": it["label"], "mode": it["mode"], "src": it["src"]})
      continue
    run.add("inputs_" + fam_)
    run.cov["secs_" + fam_] = round(run.cov.get("secs_" + fam_, 0) + rec.get("secs", 0), 1)
    run.add("compilable" if rec["compiles"] else "not_compilable")
    if rec["compiles"] and not rec["crashed"] and rec["errs"]:
      run.add("results_with_errors")
    if not rec["compiles"] and rec["cline"] == 0:
      run.add("oracle_blames_no_line")
    ncomp = sum(1 for e in rec["events"] if e[0] == "Compile")
    if ncomp > 1:
      run.add("runs_with_subruns")       # annotation / type-comment evaluation (Outcome!AllowedSub)
      run.add("subruns", ncomp - 1)
      if any(e[0] == "Compile" and e[1] != "ok" for e in rec["events"][3:]):
        run.add("subruns_compile_error_caught")
    last = rec["events"][-1] if rec["events"] else ["", ""]
    if last[1] == "ConstantError":
      run.add("fold_errors")
    if last[1] == "SkipFileError":
      run.add("skipped")
    # what the new families exercised (vacuity guards below)
    if fam_ == "call" and not it.get("single"):
      lines = {}
      for e in rec["errs"]:
        lines.setdefault(e[1], set()).add(e[0])
      for g in it["group"]:
        c0 = g["c"]
        for c in g["calls"]:
          if c["faults"] or c["tfault"]:
            run.add("failed_calls")
            if c["npos"] == 0 and not c["kws"]:
              run.add("failed_calls_empty_arglist")
              if c0["ps"] and c0["ps"][0] in ("self", "cls") and c0["kind"] in ("def", "lambda"):
                run.add("failed_calls_empty_arglist_self_or_cls_function")
            if lines.get(c["line"]):
              run.add("failed_calls_reported")
    if fam_ in ("compose", "exo") and it["harmless"]:
      # texts pytype rewrites before compiling (a bare annotation inside a plain function)
      rewritten = (it["plan"]["pre"] in ("ann-func", "ann-method", "ann-semi") if fam_ == "compose"
                   else bool(it.get("annotated")))
      if rewritten:
        run.add("harmless_exotic_in_rewritten_text")
        if not rec["compiles"]:
          run.add("harmless_exotic_in_rewritten_noncompilable_text")
        elif rec["errs"] and max(e[1] for e in rec["errs"]) >= rec["nlines"] - 1:
          run.add("harmless_exotic_in_rewritten_text_with_error_on_last_line")
    recs.append(rec)
  print("  [cpu seconds by family] " + " ".join("%s=%s" % (k[5:], v) for k, v in sorted(run.cov.items()) if k.startswith("secs_")),
        flush=True)
  cover = {}
  nv = judge(run, recs, by_label, cover)
  run.put("traces_validated_against_impl", nv)
  run.put("evaluations", nv)
  distinct = {hashlib.sha1(by_label[r["label"]]["src"].encode("utf8", "replace")).hexdigest()
              for r in recs if r["nlines"] >= 3}
  run.put("distinct_nontrivial", len(distinct))
  run.put("rule", "one case = one source text analysed by io.check_or_generate_pyi (infer or check mode); families: "
          "hand-written, generated (all constructs), spec-planned token mutants, spec-planned ill-typed calls (one text per "
          "callable shape, one call per line), one provoking text per error class of the pinned catalogue, spec-planned "
          "composed texts and pool texts with one exotic line-separator character, edge texts, minimal inputs of earlier "
          "findings (both modes), pytype test snippets, stdlib files; non-trivial = at least 3 lines; distinct by text")
  for r in recs:
    if r["label"].startswith(("mut", "gen")) and r["nlines"] <= 12:
      run.sample({"label": r["label"], "src": by_label[r["label"]]["src"], "compiles": r["compiles"],
                  "cline": r["cline"], "events": r["events"], "errs": r["errs"]})
  need = {"compilable": 2500 if thorough else 300, "not_compilable": 2500 if thorough else 150,
          "results_with_errors": 500 if thorough else 80, "inputs_stdlib": 40 if thorough else 6,
          "inputs_upstream": 1000 if thorough else 100, "fold_errors": 2, "skipped": 1,
          "runs_with_subruns": 200 if thorough else 20, "subruns_compile_error_caught": 1,
          # the strengthened families
          "inputs_call": 200 if thorough else 25, "inputs_provoke": 100 if thorough else 55,
          "inputs_compose": 2000 if thorough else 240, "inputs_exo": 700 if thorough else 20,
          "failed_calls": 35000 if thorough else 3000, "failed_calls_reported": 30000 if thorough else 2500,
          "failed_calls_empty_arglist": 800 if thorough else 60,
          "failed_calls_empty_arglist_self_or_cls_function": 80 if thorough else 8,
          "exotic_harmless_confirmed": 1500 if thorough else 180, "exotic_invalid_confirmed": 600 if thorough else 50,
          "harmless_exotic_in_rewritten_text": 400 if thorough else 50,
          "harmless_exotic_in_rewritten_noncompilable_text": 100 if thorough else 15,
          "harmless_exotic_in_rewritten_text_with_error_on_last_line": 80 if thorough else 8}
  vac = ["%s = %d < %d" % (k, run.cov.get(k, 0), v) for k, v in need.items() if run.cov.get(k, 0) < v]
  # vacuity on the error names observed, as named by TraceC15's COVER lines: every class of the pinned
  # catalogue is reported by its provoking text; the call family alone reaches every failed-call class
  hit_p, hit_c = cover.get("hit:provoke", {}), cover.get("hit:call", {})
  run.put("error_classes_provoked", len(hit_p))
  run.put("call_classes_reported_where_expected", hit_c)
  run.put("calls_without_fault_with_binding_error", cover.get("spurious", 0))
  missing = sorted(set(fam["catalogue"]) - set(hit_p))
  if missing:
    vac.append("error classes of the pinned catalogue not provoked by their text: %s" % missing)
  # (the classes the enumerated slice of call plans expects at all: wrong-arg-types needs a flag set with annotations)
  planned = {cl for c in fam["call"] for g in c["plan"]["group"] for call in g["calls"]
             for cl in (call["faults"] or (["wrong-arg-types"] if call["tfault"] else []))}
  common.require(planned >= set(fam["callclasses"]) - {"wrong-arg-types"} and (not thorough or planned == set(fam["callclasses"])),
                 "the call plans do not expect every failed-call class: %s" % sorted(planned))
  missing = sorted(planned - set(hit_c))
  if missing:
    vac.append("failed-call classes never reported where the spec expects them: %s" % missing)
  # a fault that is reported as a VIOLATION may itself empty a counter (a crashing report path reports
  # nothing): the violation is the verdict then, the guard failure is logged
  if vac and run.violations:
    run.diverge("vacuity guards not met in a run with violations: " + "; ".join(vac))
  else:
    common.require(not vac, "vacuity: " + "; ".join(vac))
  for nm, lab in sorted(cover.get("unknown", {}).items()):
    run.diverge("an error class outside the pinned catalogue (Outcome!ErrorClasses) was reported: %s on %s" % (nm, lab))
  run.put("calls_with_fault_and_no_report", len(cover.get("silent", [])))
  for x in cover.get("silent", [])[:8]:
    run.diverge("a call with a binding fault got no report on its line (C13's subject, not judged here): " + x)
  if cover.get("spurious"):
    run.diverge("%d calls the binding rules accept got a binding error (C13's subject, not judged here)" % cover["spurious"])
  run.assumptions += [
      "compile() of CPython 3.12 is the oracle for compilability and the blamed line; where it blames no line "
      "(NUL byte) the two line clauses are vacuous",
      "nlines counts the empty last line after a trailing newline (CPython blames that line for a missing block)",
      "a text carrying `# pytype: skip-file` may end as Skipped (default stub, no errors) whatever CPython says",
      "a malformed literal CPython compiles ({[]}, [*42]) may end as FoldError: one python-compiler-error inside the file",
      "analysis of an item that exceeds the time cap (quick %d/%d s, thorough 120/300 s) is 'not explored'" % (45, 60),
      "fixture typeshed (typeshed is absent in this image): it holds the modules pytype's own overlays look up "
      "(re, typing_extensions, collections.abc, abc, types, dataclasses, sys, os); every other stdlib import "
      "resolves to [import-error], a normal outcome",
      "upstream test snippets run with the command-line default options (the upstream harness sets strict flags "
      "and mostly check mode); generated/mutated inputs run in infer mode or, with probability 1/4, check mode",
  ]
  return run.finish()


if __name__ == "__main__":
  common.main(PID, main)

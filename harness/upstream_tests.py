"""Run upstream pytype test modules (which the pinned baseline cannot import) against the
repository under test (VERIF_REPO or /repo) with the out-of-tree extension; prints one line per
failing/erroring test id.  Used to compare a candidate fix with the unchanged tree: the sets of
failing tests must be identical (many fail in this image because typeshed is absent).
usage: upstream_tests.py <module> [<module>...]   e.g. pytype.tests.test_classes1"""
import os
import sys
import unittest

sys.path.insert(0, os.path.dirname(os.path.abspath(__file__)))
import boot  # noqa: E402

boot.boot()
bad = []
total = 0
for name in sys.argv[1:]:
  try:
    suite = unittest.defaultTestLoader.loadTestsFromName(name)
  except Exception as e:  # pylint: disable=broad-except
    print("LOADERROR %s %s" % (name, type(e).__name__))
    continue
  r = unittest.TextTestRunner(stream=open(os.devnull, "w"), verbosity=0).run(suite)
  total += r.testsRun
  for t, _ in r.failures + r.errors:
    bad.append(t.id())
for b in sorted(bad):
  print("FAIL " + b)
print("TOTAL %d run, %d failing" % (total, len(bad)))

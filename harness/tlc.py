"""Run TLC (model checking, simulation, batch trace validation) and parse its output."""
import json
import os
import re
import shutil
import subprocess
import sys
import tempfile
import time

VERIF = os.path.dirname(os.path.dirname(os.path.abspath(__file__)))
SPECS = os.path.join(VERIF, "specs")
BUILD = os.path.join(VERIF, "build")
JAR = "/opt/veriftools/tla/tla2tools.jar:/opt/veriftools/tla/CommunityModules-deps.jar"


class TLCError(Exception):
  pass


class Result:
  def __init__(self):
    self.rc = None
    self.out = ""
    self.generated = 0
    self.distinct = 0
    self.depth = 0
    self.violated = None      # name of violated invariant / property, or None
    self.cases = []           # decoded JSON payloads printed with PrintT(<<"CASE", ToJson(x)>>)
    self.coverage = {}        # action name -> (distinct, total)
    self.wall = 0.0
    self.error_trace = ""

  @property
  def ok(self):
    return self.rc == 0


_CASE_RE = re.compile(r'^<<"([A-Z]+)", "(.*)">>\s*$')


def _unescape(s):
  # TLC prints strings with \" and \\ escapes (TLA+ string syntax) -> same as JSON escapes
  return json.loads('"' + s + '"')


def parse_cases(out, tag="CASE"):
  cases = []
  for line in out.splitlines():
    m = _CASE_RE.match(line)
    if m and m.group(1) == tag:
      try:
        cases.append(json.loads(_unescape(m.group(2))))
      except Exception as e:  # pylint: disable=broad-except
        raise TLCError("cannot decode exported case: %r (%s)" % (line[:200], e))
  return cases


def scratch(prefix):
  os.makedirs(os.path.join(BUILD, "tlc"), exist_ok=True)
  return tempfile.mkdtemp(prefix=prefix + "-", dir=os.path.join(BUILD, "tlc"))


def run(module, cfg, *, workers=16, timeout=600, env=None, simulate=None, depth=None,
        seed=0, coverage=False, extra=(), heap="8g", tag="CASE", keep=False,
        deadlock=False, dfs=False):
  """Run TLC on specs/<module>.tla with the given cfg text.

  cfg: text of the .cfg file.  Returns Result.  Raises TLCError on machinery failure
  (parse error, TLC crash, timeout).
  """
  d = scratch(module)
  try:
    cfgp = os.path.join(d, module + ".cfg")
    with open(cfgp, "w") as f:
      f.write(cfg)
    cmd = ["java", "-Xmx" + heap]
    cmd += ["-XX:+UseSerialGC", "-XX:ActiveProcessorCount=2"] if workers == 1 else ["-XX:+UseParallelGC"]
    if dfs:
      cmd.append("-Dtlc2.tool.queue.IStateQueue=StateDeque")
    cmd += ["-cp", JAR, "tlc2.TLC", "-workers", str(workers),
            "-metadir", os.path.join(d, "meta"), "-noGenerateSpecTE",
            "-config", cfgp, "-seed", str(seed)]
    if not deadlock:
      cmd.append("-deadlock")   # -deadlock DISABLES deadlock checking
    if coverage:
      cmd += ["-coverage", "1"]
    if simulate:
      cmd += ["-simulate", simulate]
      if depth:
        cmd += ["-depth", str(depth)]
    cmd += list(extra)
    cmd.append(os.path.join(SPECS, module + ".tla"))
    e = dict(os.environ)
    if env:
      e.update(env)
    t0 = time.time()
    try:
      p = subprocess.run(cmd, stdout=subprocess.PIPE, stderr=subprocess.STDOUT, env=e,
                         cwd=SPECS, timeout=timeout)
    except subprocess.TimeoutExpired as ex:
      subprocess.run(["pkill", "-f", d], check=False)
      raise TLCError("TLC timed out after %ss on %s" % (timeout, module)) from ex
    r = Result()
    r.wall = time.time() - t0
    r.rc = p.returncode
    r.out = p.stdout.decode(errors="replace")
    m = None
    for m in re.finditer(r"(\d+) states generated, (\d+) distinct states found", r.out):
      pass
    if m:
      r.generated, r.distinct = int(m.group(1)), int(m.group(2))
    if not r.generated:
      m = re.search(r"The number of states generated: (\d+)", r.out)
      if m:
        r.generated = r.distinct = int(m.group(1))
    m = re.search(r"The depth of the complete state graph search is (\d+)", r.out)
    if m:
      r.depth = int(m.group(1))
    m = re.search(r"Invariant (\S+) is violated", r.out)
    if m:
      r.violated = m.group(1)
    m = re.search(r"Action property (\S+) is violated", r.out) or m
    if m and not r.violated:
      r.violated = m.group(1)
    if r.violated:
      i = r.out.find("is violated")
      r.error_trace = r.out[i:i + 20000]
    r.cases = parse_cases(r.out, tag)
    if coverage:
      for m in re.finditer(r"<(\w+) line \d+, col \d+ to line \d+, col \d+ of module \w+>: (\d+):(\d+)", r.out):
        r.coverage[m.group(1)] = (int(m.group(2)), int(m.group(3)))
    if r.rc not in (0, 12, 13) or ("Error:" in r.out and r.rc == 0 and not simulate):
      if r.rc not in (0, 12, 13):
        raise TLCError("TLC failed rc=%s on %s:\n%s" % (r.rc, module, r.out[-4000:]))
    if keep:
      r.dir = d
    return r
  finally:
    if not keep:
      shutil.rmtree(d, ignore_errors=True)


def validate_cases(module, cases, *, cfg=None, timeout=900, env=None, heap="8g", shards=1,
                   extra_constants=""):
  """Batch trace validation: write `cases` (list of JSON-able records) to a file, let the
  trace module read it with JsonDeserialize(IOEnv.TRACE_FILE) and check INVARIANT Ok on every
  case; POSTCONDITION Done checks that all cases were consumed.

  The trace module must define Init, Next, Ok, Done and print
  PrintT(<<"BAD", ToJson([i |-> i, why |-> ...])>>) is optional.  Returns
  (n_validated, bad_index or None, Result).  With shards>1 the cases are split and checked by
  parallel TLC processes.
  """
  if not cases:
    raise TLCError("no cases to validate for %s" % module)
  cfg = cfg or ("INIT Init\nNEXT Next\nINVARIANT Ok\nPOSTCONDITION Done\nCHECK_DEADLOCK FALSE\n"
                + extra_constants)
  if shards > 1 and len(cases) >= shards * 2:
    import concurrent.futures as cf
    n = len(cases)
    step = (n + shards - 1) // shards
    parts = [(i, cases[i:i + step]) for i in range(0, n, step)]
    total = 0
    with cf.ThreadPoolExecutor(max_workers=shards) as ex:
      futs = [(off, ex.submit(validate_cases, module, part, cfg=cfg, timeout=timeout, env=env,
                              heap="3g")) for off, part in parts]
      bad = None
      last = None
      for off, f in futs:
        nv, b, r = f.result()
        total += nv
        last = r
        if b is not None and bad is None:
          bad = off + b
    return total, bad, last
  d = scratch("trace-" + module)
  try:
    tf = os.path.join(d, "trace.json")
    with open(tf, "w") as f:
      json.dump(cases, f)
    e = {"TRACE_FILE": tf}
    if env:
      e.update(env)
    r = run(module, cfg, workers=1, timeout=timeout, env=e, heap=heap)
    bad = None
    if r.violated:
      # the counterexample's last state has i = index of the offending case
      idx = re.findall(r"\bi = (\d+)", r.error_trace)
      bad = int(idx[-1]) - 1 if idx else 0
      return (bad, bad, r)
    if r.rc != 0:
      raise TLCError("trace validation of %s did not complete:\n%s" % (module, r.out[-3000:]))
    if "Done" in r.out and "violated" in r.out:
      raise TLCError("trace validation postcondition failed for %s:\n%s" % (module, r.out[-3000:]))
    return (len(cases), None, r)
  finally:
    shutil.rmtree(d, ignore_errors=True)


def sany(module):
  p = subprocess.run(["java", "-cp", JAR, "tla2sany.SANY", os.path.join(SPECS, module + ".tla")],
                     stdout=subprocess.PIPE, stderr=subprocess.STDOUT, cwd=SPECS)
  out = p.stdout.decode(errors="replace")
  return p.returncode == 0 and "error" not in out.lower().replace("errors: 0", ""), out


if __name__ == "__main__":
  ok, out = sany(sys.argv[1])
  print(out)
  sys.exit(0 if ok else 2)

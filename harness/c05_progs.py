"""Hand-written programs for C05/C12: one per construct of the stub dialect that io.generate_pyi
emits (classes, bases, generics, TypeVars, overloads, properties, static/class methods, nested
classes, callables, tuples, literals, Optional, aliases, imports, enums, NamedTuple, Protocol,
async defs, decorators, defaults, *args/**kwargs, keyword-only / positional-only parameters),
plus the minimal witnesses of the known findings.  Only fixture-typeshed modules are imported
(typing, enum, collections, abc, os, sys, types)."""

DIALECT = [
    # classes, bases, attributes, methods
    "class A:\n  x = 1\n  def __init__(self, a, b=2):\n    self.a = a\n    self.b = b\n  def m(self):\n    return self.a\n",
    "class A:\n  pass\nclass B(A):\n  y = 'a'\nclass C(B, object):\n  def f(self, x: int) -> str:\n    return str(x)\n",
    "class A:\n  class N:\n    z = 1.5\n    def g(self): return self.z\n  n = N()\n",
    # static / class methods, properties
    "class A:\n  @staticmethod\n  def s(x: int) -> int: return x\n  @classmethod\n  def c(cls): return cls()\n"
    "  @property\n  def p(self) -> int: return 1\n  @p.setter\n  def p(self, v): pass\n",
    "class A:\n  def __init__(self): self._v = 0\n  @property\n  def v(self): return self._v\n  @v.deleter\n  def v(self): del self._v\n",
    # generics and type variables
    "from typing import Generic, TypeVar\nT = TypeVar('T')\nclass Box(Generic[T]):\n  def __init__(self, x: T):\n    self.x = x\n"
    "  def get(self) -> T: return self.x\nb = Box(1)\nv = b.get()\n",
    "from typing import TypeVar, Sequence\nT = TypeVar('T', int, str)\nS = TypeVar('S', bound=Sequence)\n"
    "def f(x: T) -> T: return x\ndef g(x: S) -> S: return x\n",
    "from typing import Generic, TypeVar, Dict\nK = TypeVar('K')\nV = TypeVar('V')\nclass M(Generic[K, V]):\n"
    "  def put(self, k: K, v: V) -> None: pass\n  def items(self) -> Dict[K, V]: return {}\nclass IM(M[int, V]):\n  pass\n",
    "def ident(x): return x\ndef first(xs): return xs[0]\ndef pair(a, b): return (a, b)\n",
    # overloads
    "from typing import overload, Union\n@overload\ndef f(x: int) -> int: ...\n@overload\ndef f(x: str) -> str: ...\n"
    "def f(x): return x\n",
    "from typing import overload\nclass A:\n  @overload\n  def m(self, x: int) -> int: ...\n  @overload\n  def m(self, x: str, y: int = 0) -> str: ...\n"
    "  def m(self, x, y=0): return x\n",
    "def f(x):\n  if x:\n    return 1\n  return 'a'\ndef g(x, y):\n  return x if y else [x]\n",
    # callables, lambdas
    "from typing import Callable, Optional\ndef ap(f: Callable[[int, str], bool], g: Callable[..., int]) -> Callable[[], None]:\n"
    "  return lambda: None\nh: Optional[Callable[[int], int]] = None\n",
    "inc = lambda x: x + 1\ndef mk():\n  def inner(a: int, b: str = '') -> float: return 1.0\n  return inner\nk = mk()\n",
    "from typing import Callable, Union, List\ncb: Union[Callable[[int], str], List[Callable[[], int]], None] = None\n",
    # tuples, Optional, unions, containers
    "def t():\n  return (1, 'a', None)\ne = ()\nh = (1, 2, 3)\nfrom typing import Tuple\nu: Tuple[int, ...] = (1,)\n",
    "from typing import Optional, Union, List, Dict, Set, FrozenSet\ndef f(a: Optional[int], b: Union[int, str, None] = None) -> Optional[List[Dict[str, Set[int]]]]:\n"
    "  return None\nx = [1, 'a', None]\ny = {1: [2.0], 'k': (1,)}\nz = frozenset([1])\n",
    "import collections\nod = collections.OrderedDict()\nnt = collections.namedtuple('nt', ['a', 'b'])\np = nt(1, 2)\n",
    # literals, Final, enums
    "from typing import Literal, Final\ndef f(x: Literal['a', 'b', 1]) -> Literal[True]: return True\nK: Final = 3\nS: Final[str] = 's'\n",
    "import enum\nclass Color(enum.Enum):\n  RED = 1\n  GREEN = 'g'\nc = Color.RED\ndef f(x: Color): return x.value\n",
    "import enum\nclass F(enum.IntEnum):\n  A = 1\n  B = 2\nx = F.A\n",
    # NamedTuple, Protocol, TypedDict-free
    "from typing import NamedTuple\nclass P(NamedTuple):\n  x: int\n  y: str = ''\np = P(1)\nq = p.x\n",
    "from typing import Protocol\nclass Sized2(Protocol):\n  def size(self) -> int: ...\nclass Impl:\n  def size(self): return 1\ndef use(s: Sized2): return s.size()\nr = use(Impl())\n",
    "import abc\nclass Base(abc.ABC):\n  @abc.abstractmethod\n  def run(self) -> int: ...\nclass D(Base):\n  def run(self): return 1\n",
    "import abc\nclass Meta(type): pass\nclass WithMeta(metaclass=Meta):\n  pass\nclass AB(metaclass=abc.ABCMeta):\n  pass\n",
    # signatures: defaults, star args, kw-only, pos-only
    "def f(a, b=1, *args, c, d=2, **kwargs): return a\ndef g(a, /, b, *, c): return b\ndef h(*a: int, **k: str) -> None: pass\n",
    "def f(x: int = 0, y: 'str' = '', z=None, w=(1, 2), v=[]) -> None: pass\n",
    "class A:\n  def m(self, /, a, *, b=1): return a\n  def __call__(self, *args, **kwargs): return args\n",
    # async, generators, decorators
    "async def co(x: int) -> str: return ''\nasync def agen():\n  yield 1\ndef gen():\n  yield 1\n  return 'a'\n",
    "import functools\ndef deco(f): return f\n@deco\ndef g(x): return x\nclass A:\n  @deco\n  def m(self): return 1\n",
    # aliases, imports, module attributes
    "import os\nimport sys\nfrom typing import List, Dict\nIntList = List[int]\nMapping2 = Dict[str, IntList]\ndef f(x: IntList) -> Mapping2: return {}\nsep = os.sep\nv = sys.version_info\n",
    "import os as o\nimport collections as cc\nfrom os import path as p\nx = o.sep\ny = cc\n",
    "from typing import Any, Type\nclass A: pass\ndef mk(c: Type[A]) -> A: return c()\nt = A\nu: Type[Any] = int\n",
    "from typing import TypeVar, Type\nT = TypeVar('T', bound='A')\nclass A:\n  @classmethod\n  def make(cls: Type[T]) -> T: return cls()\n  def me(self: T) -> T: return self\n",
    "class A:\n  __slots__ = ('a', 'b')\n  def __init__(self): self.a = 1; self.b = 2\n",
    "import types\nm = types.ModuleType('m')\ndef f(): pass\nft = type(f)\nn = None\nnr = NotImplemented\nel = ...\n",
    "def never() -> 'NoReturn':\n  raise ValueError()\nfrom typing import NoReturn\ndef n2() -> NoReturn:\n  raise ValueError()\nx = []\ny = {}\n",
    "class E1(Exception): pass\nclass E2(E1, ValueError):\n  def __init__(self, msg: str, code: int = 0):\n    super().__init__(msg)\n    self.code = code\n",
    "from typing import Iterator, Iterable, Generator, Sequence, Mapping\ndef it(xs: Iterable[int]) -> Iterator[int]: return iter(xs)\n"
    "def g() -> Generator[int, str, bool]:\n  x = yield 1\n  return True\ndef s(a: Sequence[str], m: Mapping[str, int]): return a[0], m\n",
    "x: int\ny: 'str'\nclass A:\n  a: int\n  b: 'A'\n  c: 'list[A]' = []\n",
]

# minimal witnesses of the known findings (kept so that every run exercises the attribution)
WITNESS = {
    "class-body-comprehension-leaks-.0": "class A:\n  y = [i for i in range(3)]\n",
    "module-alias-requalified": "import enum as en\nclass E(en.Enum):\n  A = 1\nx = E.A\n",
    "recursive-alias-unrolled": "from typing import List\nX = List['X']\nx: X = None\n",
    "generic-self-annotation-becomes-mutation": "class MyList(list):\n  write = list.append\n",
    "typing-self-desugared": "from typing import Self\nclass A:\n  def f(self) -> Self:\n    return self\n",
    "reexported-typing-name-dropped":
        "from typing import Mapping\nfrom collections import MutableMapping\ndef f(x: Mapping): ...\nf(MutableMapping())\n",
    "default-before-required-parameter":
        "import attr\n@attr.s(auto_attribs=True)\nclass Foo:\n  x: int = 10\n  y: str\n",
    "literal-bool-int-collapse": "from typing import Literal\ndef f(x: Literal[1, True]): return x\n",
}

# C05 strengthening: special method names the way users write them - with and without explicit
# decorators, with conventional and unconventional first-parameter names, overloaded, abstract.
# The stub reader / printer / inferencer decide the kind (method / classmethod / staticmethod) of
# __new__, __init_subclass__ (and only those) by NAME; every other dunder keeps the kind its
# decorator states.  Kept apart from DIALECT (which C12 shares).
DUNDER = [
    # the implicit-kind trio, undecorated (how they are always written)
    "class Registry:\n  def __class_getitem__(cls, item):\n    return cls\n",
    "class Base:\n  subs = []\n  def __init_subclass__(cls, **kwargs):\n    super().__init_subclass__(**kwargs)\n    Base.subs.append(cls)\n"
    "class D(Base): pass\n",
    "class P:\n  def __new__(cls, x):\n    self = super().__new__(cls)\n    self.x = x\n    return self\n  def __init__(self, x):\n    self.y = x\n",
    "class A:\n  def __new__(cls, x):\n    return super().__new__(cls)\n  def __init_subclass__(cls, **kw):\n    super().__init_subclass__(**kw)\n"
    "  def __class_getitem__(cls, item):\n    return cls\n",
    # the same, explicitly decorated
    "class A:\n  @staticmethod\n  def __new__(cls, x):\n    return object.__new__(cls)\n  @classmethod\n  def __init_subclass__(cls, **kw):\n    pass\n"
    "  @classmethod\n  def __class_getitem__(cls, item):\n    return cls\n",
    "class A:\n  @classmethod\n  def __class_getitem__(cls, item):\n    return list\nx = A[int]\n",
    # generic class (typing.Generic brings its own __class_getitem__) with __init__
    "from typing import Generic, TypeVar\nT = TypeVar('T')\nclass Box(Generic[T]):\n  def __init__(self, x: T) -> None:\n    self.x = x\n"
    "  def __class_getitem__(cls, item):\n    return super().__class_getitem__(item)\n",
    # containers, callables, context managers
    "class Bag:\n  def __init__(self): self.d = {}\n  def __getitem__(self, k): return self.d[k]\n  def __setitem__(self, k, v): self.d[k] = v\n"
    "  def __delitem__(self, k): del self.d[k]\n  def __len__(self): return len(self.d)\n  def __iter__(self): return iter(self.d)\n"
    "  def __contains__(self, k): return k in self.d\n",
    "class F:\n  def __call__(self, x: int, *args, **kwargs) -> str: return str(x)\n  def __enter__(self): return self\n"
    "  def __exit__(self, exc_type, exc, tb): return False\nr = F()(1)\n",
    # attribute hooks, in a class and at module level
    "class Lazy:\n  def __getattr__(self, name: str): return 1\n  def __setattr__(self, name, value): object.__setattr__(self, name, value)\n"
    "  def __getattribute__(self, name): return object.__getattribute__(self, name)\n  def __delattr__(self, name): pass\n  def __dir__(self): return []\n",
    "def __getattr__(name: str):\n  raise AttributeError(name)\ndef __dir__():\n  return []\n",
    "def __getattr__(name): return 1\ndef __new__(x): return x\ndef __init_subclass__(x): return x\ndef __class_getitem__(x): return 1\ndef __call__(self): return self\n",
    # comparisons, hashing, arithmetic
    "class V:\n  def __init__(self, v: int): self.v = v\n  def __eq__(self, other): return isinstance(other, V) and self.v == other.v\n"
    "  def __ne__(self, other): return not self == other\n  def __lt__(self, other: 'V') -> bool: return self.v < other.v\n  def __hash__(self): return hash(self.v)\n"
    "  def __add__(self, other): return V(self.v + other.v)\n  def __radd__(self, other): return self\n  def __iadd__(self, other): return self\n"
    "  def __bool__(self): return bool(self.v)\n  def __repr__(self): return 'V'\n",
    "class U:\n  def __eq__(self, other): return NotImplemented\n  __hash__ = None\n",
    # metaclass
    "class M(type):\n  def __call__(cls, *a):\n    return super().__call__(*a)\n  def __new__(mcs, name, bases, ns):\n    return super().__new__(mcs, name, bases, ns)\n"
    "  def __init__(cls, name, bases, ns):\n    super().__init__(name, bases, ns)\n  def __instancecheck__(cls, inst): return True\n"
    "  @classmethod\n  def __prepare__(mcs, name, bases): return {}\nclass K(metaclass=M): pass\n",
    # overloads
    "from typing import overload\nclass A:\n  @overload\n  def __getitem__(self, i: int) -> int: ...\n  @overload\n  def __getitem__(self, i: slice) -> list: ...\n"
    "  def __getitem__(self, i): return i\n  @overload\n  def __new__(cls, x: int) -> 'A': ...\n  @overload\n  def __new__(cls, x: str) -> 'A': ...\n"
    "  def __new__(cls, x): return object.__new__(cls)\n",
    "from typing import overload\nclass A:\n  @overload\n  def __class_getitem__(cls, i: int) -> int: ...\n  @overload\n  def __class_getitem__(cls, i: str) -> str: ...\n"
    "  def __class_getitem__(cls, i): return i\n  @overload\n  def __call__(self, x: int) -> int: ...\n  @overload\n  def __call__(self, x: str) -> str: ...\n"
    "  def __call__(self, x): return x\n",
    "from typing import overload\nclass A:\n  @overload\n  @classmethod\n  def __class_getitem__(cls, i: int) -> int: ...\n  @overload\n  @classmethod\n"
    "  def __class_getitem__(cls, i: str) -> str: ...\n  @classmethod\n  def __class_getitem__(cls, i): return i\n",
    # abstract
    "import abc\nclass A(abc.ABC):\n  @abc.abstractmethod\n  def __call__(self): ...\n  @classmethod\n  @abc.abstractmethod\n  def __class_getitem__(cls, i): ...\n"
    "  @abc.abstractmethod\n  def __getitem__(self, i): ...\n",
    "import abc\nclass A(abc.ABC):\n  @abc.abstractmethod\n  def __new__(cls): ...\n  @abc.abstractmethod\n  def __init_subclass__(cls): ...\n"
    "  @abc.abstractmethod\n  def __class_getitem__(cls, k): ...\n  @abc.abstractmethod\n  def __init__(self): ...\n",
    # unusual but legal decorators on dunders
    "class A:\n  @staticmethod\n  def __class_getitem__(item):\n    return 1\n  @staticmethod\n  def __call__(x): return x\n  @classmethod\n  def __eq__(cls, other): return True\n"
    "  @staticmethod\n  def __getitem__(k): return k\n  @classmethod\n  def __getattr__(cls, name): return 1\n",
    "class A:\n  @classmethod\n  def __init__(cls, x): pass\n  @staticmethod\n  def __hash__(): return 1\n  @classmethod\n  def __enter__(cls): return cls\n"
    "  @staticmethod\n  def __exit__(*a): return None\n",
    # first-parameter names other than self / cls
    "class A:\n  def __init_subclass__(klass): pass\n  def __class_getitem__(klass, k): return 1\n  def __init__(this, x): this.x = x\n  def __call__(me): return me\n"
    "  def __eq__(a, b): return True\n",
    "class A:\n  def __class_getitem__(self, k): return self\n  def __call__(cls): return cls\n  def __getitem__(other, k): return k\n",
    # async protocol, descriptors, pickling
    "class A:\n  async def __aenter__(self): return self\n  async def __aexit__(self, *a): return None\n  def __await__(self): return iter([])\n"
    "  def __aiter__(self): return self\n  async def __anext__(self): return 1\n",
    "class D:\n  def __get__(self, obj, objtype=None): return 1\n  def __set__(self, obj, v): pass\n  def __delete__(self, obj): pass\n"
    "  def __set_name__(self, owner, name): self.n = name\nclass A:\n  d = D()\nv = A().d\n",
    "class A:\n  def __reduce__(self): return (A, ())\n  def __copy__(self): return self\n  def __deepcopy__(self, memo): return self\n"
    "  def __getstate__(self): return {}\n  def __setstate__(self, s): pass\n  def __sizeof__(self): return 1\n  def __format__(self, spec): return ''\n",
    # properties under dunder names, class-level assignment of dunders
    "class A:\n  @property\n  def __dict__(self): return {}\n  @property\n  def __doc2__(self) -> str: return ''\n  __slots__ = ()\n",
    "class A:\n  def f(self, k): return k\n  __getitem__ = f\n  __call__ = f\n  __class_getitem__ = classmethod(lambda cls, k: k)\n",
    # builtin subclasses, NamedTuple, dataclass-like, nested class
    "class S(str):\n  def __new__(cls, v):\n    return super().__new__(cls, v)\nclass T(tuple):\n  def __new__(cls, a, b):\n    return tuple.__new__(cls, (a, b))\n"
    "class I(int):\n  def __init__(self, v): pass\n",
    "import dataclasses\n@dataclasses.dataclass\nclass P:\n  x: int\n  y: int = 0\n  def __post_init__(self):\n    self.z = self.x + self.y\n",
    "import collections\nclass P(collections.namedtuple('P', ['x'])):\n  def __new__(cls, x):\n    return super().__new__(cls, x)\n  def __str__(self): return 'P'\n"
    "  def __call__(self): return self.x\n",
    "class Outer:\n  class Inner:\n    def __class_getitem__(cls, item): return cls\n    def __new__(cls): return object.__new__(cls)\n"
    "    def __init_subclass__(cls): pass\n    def __call__(self): return 1\n  def __call__(self): return Outer.Inner()\n",
    "import enum\nclass E(enum.Enum):\n  A = 1\n  def __str__(self): return 'e'\n  def __call__(self): return 1\n  @classmethod\n  def __class_getitem__(cls, k): return cls.A\n",
]

# minimal witnesses of the findings made with the special-name alphabet
DUNDER_WITNESS = {
    "classmethod-new-read-as-staticmethod": "class A:\n  @classmethod\n  def __new__(cls, *args):\n    return 1\n",
    "module-getattr-overloads-rejected":
        "from typing import overload\n@overload\ndef __getattr__(name: int) -> int: ...\n@overload\ndef __getattr__(name: str) -> str: ...\n"
        "def __getattr__(name): return name\n",
}

# C12: minimal witness of the serialisation finding
C12_WITNESS = {
    "alias-node-in-type-position": "class C:\n  import sys\n",
}

"""C01 - inferred types admit every value the program actually computes (loop-free code).

spec -> code: ProgGen.tla (tlc -simulate) generates well-scoped loop-free programs; the driver
renders them, executes them under CPython (statements that raise are dropped, the remaining
program is re-executed from scratch with a profile hook), records every module-level value,
instance attribute and module-level call result as value terms, and runs the real pytype
(io.generate_pyi) on the same source, converting the inferred AST to type terms.
code -> spec: TLC (TraceC01.tla / Soundness.tla) judges Sound: every observed value is admitted
by the declared type (Admits of PytdTypes.tla, soundness reading, the program's own hierarchy).

A failing slot is attributed to a known root cause only by a counterfactual that TLC judges as
well, tried in this order: (1) call cache: same program, skip_repeat_calls=False; (2)
simplify_variable: same program, that optimisation replaced by the identity in the worker;
(3) "ret" slots, signature inferred in the module's final state: Soundness.tla FinalStateSlotOK =
ReadsRebound (from the program term) and admitted by the stub of the program cut off right before
the calling statement.  Anything else is keyed by the exact input
(C01:input:<sha1(src)[:12]>:<kind>:<name>); known findings: known_findings.d/C01.json.
"""
import argparse
import hashlib
import json
import os
import sys

sys.path.insert(0, os.path.dirname(os.path.abspath(__file__)))
import boot  # noqa: E402
import common  # noqa: E402
import progterms  # noqa: E402
import pyt  # noqa: E402
import tlc  # noqa: E402

PID = "C01"
TRACE_CFG = "INIT TInit\nNEXT TNext\nINVARIANT Ok\nPOSTCONDITION Done\n"
MISSING = ["missing", "", []]


def gen_cfg(stmts, depth):
  return ("INIT Init\nNEXT Next\nCONSTANTS MaxStmts = %d\n Depth = %d\n"
          "INVARIANT WellScoped\nINVARIANT ExportInv\n") % (stmts, depth)


def infer(src):
  """Worker: run pytype on src, return slots table of the inferred stub (picklable)."""
  import terms
  r = pyt.analyze(src, want_ast=True)
  if r["outcome"] != "result":
    return {"outcome": r["outcome"], "exc": r["exc"], "errors": r["errors"]}
  return {"outcome": "result", "slots": terms.stub_slots(r["ast"]), "pyi": r["pyi"],
          "errors": [e[0] for e in r["errors"]]}


def infer_nocache(src):
  """Counterfactual for the known call-cache finding: the same analysis with
  skip_repeat_calls=False (every call of an interpreter function is re-analysed)."""
  import terms
  r = pyt.analyze(src, want_ast=True, skip_repeat_calls=False)
  if r["outcome"] != "result":
    return {"outcome": r["outcome"], "exc": r["exc"], "errors": r["errors"]}
  return {"outcome": "result", "slots": terms.stub_slots(r["ast"]), "pyi": r["pyi"],
          "errors": [e[0] for e in r["errors"]]}


def infer_nosimplify(src):
  """Counterfactual for the known finding KNOWN_SIMPLIFY: the same analysis with
  abstract_utils.simplify_variable (an optimisation: 'Deduplicates identical data') switched off,
  i.e. replaced by the identity, in this worker process only (nothing in the repository changes)."""
  import terms
  boot.boot()
  from pytype.abstract import abstract_utils
  orig = abstract_utils.simplify_variable
  abstract_utils.simplify_variable = lambda var, node, ctx: var
  try:
    r = pyt.analyze(src, want_ast=True)
  finally:
    abstract_utils.simplify_variable = orig
  if r["outcome"] != "result":
    return {"outcome": r["outcome"], "exc": r["exc"], "errors": r["errors"]}
  return {"outcome": "result", "slots": terms.stub_slots(r["ast"]), "pyi": r["pyi"],
          "errors": [e[0] for e in r["errors"]]}


KNOWN_CACHE = "C01:call-cache-return-invisible-in-sibling-branch"
KNOWN_SIMPLIFY = "C01:simplify-variable-conjoins-merged-bindings"
KNOWN_FINAL = "C01:function-signature-inferred-in-final-module-state"
NSLICES = 20


def build_case(run_rec, inf):
  """Join run-time observations with the stub's declarations -> slot table."""
  st = inf["slots"]
  H = run_rec["H"]
  slots = []
  anyget = st["has_getattr"]
  for n, v in sorted(run_rec["names"].items()):
    t = st["names"].get(n)
    if t is None:
      t = ["any", "", []] if anyget else MISSING
    slots.append({"k": "name", "n": n, "t": t, "v": v})
  for cls, a, v in run_rec["attrs"]:
    t = None
    for c in H.get(cls, [cls]):
      if c in st["classes"]:
        if a in st["classes"][c]:
          t = st["classes"][c][a]
          break
        if c in st["class_getattr"]:
          t = ["any", "", []]
          break
      elif c != "object":
        t = ["any", "", []]      # a base the stub does not describe (e.g. Any base)
        break
    slots.append({"k": "attr", "n": "%s.%s" % (cls, a), "t": t or MISSING, "v": v})
  sites = run_rec.get("ret_sites") or [-1] * len(run_rec["rets"])
  for (f, v), site in zip(run_rec["rets"], sites):
    t = ret_type(st, H, f)
    if t is None:
      continue      # property: values returned by module-level calls of functions the stub declares
    # site = 1-based index (in the surviving statements) of the module-level statement making the call
    slots.append({"k": "ret", "n": f, "t": t, "v": v, "site": site + 1, "root": f.split(".")[0]})
  return {"H": H, "slots": slots}


def ret_type(st, H, f):
  """Return type the stub declares for function / Class.method f (methods: along the MRO)."""
  t = st["rets"].get(f)
  if t is None and "." in f:
    cls, m = f.split(".")
    for c in H.get(cls, [cls]):
      if "%s.%s" % (c, m) in st["rets"]:
        return st["rets"]["%s.%s" % (c, m)]
  return t


def slot_id(s):
  return (s["k"], s["n"], json.dumps(s["v"]), s.get("site", 0))


def main():
  ap = argparse.ArgumentParser()
  ap.add_argument("--tier", default="quick")
  ap.add_argument("--replay")
  a = ap.parse_args()
  run = common.Run(PID, "translation_validation", a.tier)
  boot.boot()
  thorough = run.tier == "thorough"
  progs = []
  if a.replay:
    with open(a.replay) as f:
      progs = [json.load(f)["case"]["program"]]
  else:
    # The corpus is FIXED: NSLICES slices of 600 spec-generated programs each (TLC simulation seeds
    # derived from the slice number only).  quick runs the slice VERIF_SEED mod NSLICES, thorough
    # all of them.  pytype is unsound on a small fraction of random loop-free programs (about 1 in
    # 300); because the corpus is fixed, each such genuine finding is listed by its exact input
    # (known_findings.d/C01.json) and any other violation is reported.
    plan = [(8, 2, 260), (14, 2, 200), (10, 3, 140)]
    slices = list(range(NSLICES)) if thorough else [run.seed % NSLICES]
    run.put("corpus_slices", slices)
    for sl in slices:
      for j, (ns, d, num) in enumerate(plan):
        r = tlc.run("ProgGen", gen_cfg(ns, d), workers=1, timeout=3000, seed=sl * 7 + j,
                    simulate="num=%d" % num, depth=ns + 3)
        if r.violated:
          raise common.Machinery("ProgGen.tla emitted an ill-scoped program:\n" + r.error_trace[:2000])
        common.require(len(r.cases) >= num, "ProgGen produced %d programs, wanted %d" % (len(r.cases), num))
        progs += [c["p"] for c in r.cases]
        run.add("states", r.generated)
  run.put("programs_generated", len(progs))
  recs = []
  kinds = {}
  for p in progs:
    rec = progterms.run_program(p)
    if rec is None:
      run.add("programs_not_completing")
      continue
    rec["program"] = p
    recs.append(rec)
    for k, n in progterms.kinds(rec["stmts"]).items():
      kinds[k] = kinds.get(k, 0) + n
  run.put("construct_counts", kinds)
  need = {"assign", "if", "ifonly", "try", "def", "class", "lambda", "lcomp", "cond", "or", "and",
          "isinst", "isnone", "call", "attr", "meth", "sub", "bcall", "list", "dict", "tuple", "set"}
  common.require(need <= set(kinds) or a.replay,
                 "generator coverage: missing %s" % sorted(need - set(kinds)))
  infs = pyt.batch(infer, [r["src"] for r in recs], procs=8, chunksize=4)
  cases = []
  keep = []
  for rec, inf in zip(recs, infs):
    if inf["outcome"] != "result":
      # not a C01 matter (C15 covers crashes); count and continue
      run.add("pytype_" + inf["outcome"])
      run.diverge({"outcome": inf["outcome"], "exc": inf.get("exc", "")[-300:], "src": rec["src"][:400]})
      continue
    cases.append(build_case(rec, inf))
    keep.append((rec, inf))
  common.require(len(cases) >= (1 if a.replay else 100), "too few analysed programs: %d" % len(cases))
  nv, bad, r = tlc.validate_cases("TraceC01", cases, cfg=TRACE_CFG, timeout=3000, heap="6g")
  common.require(bad is None, "TraceC01 invariant cannot fail")
  nslots = sum(len(c["slots"]) for c in cases)
  run.put("programs", len(cases))
  run.put("slots_judged", nslots)
  run.put("slots_by_kind", {k: sum(1 for c in cases for s in c["slots"] if s["k"] == k)
                            for k in ("name", "attr", "ret")})
  run.put("disagreements_checked", nslots)
  run.put("evaluations", len(cases))
  run.put("distinct_nontrivial", len({rec["src"] for rec, _ in keep if len(rec["stmts"]) >= 3}))
  run.put("rule", "one case = one generated program that runs to completion; non-trivial = at least 3 statements survived")
  run.sample({"src": keep[0][0]["src"], "pyi": keep[0][1]["pyi"], "slots": cases[0]["slots"][:4]})
  common.require(run.cov["slots_by_kind"]["attr"] > 10 and run.cov["slots_by_kind"]["ret"] > 10
                 or a.replay, "vacuity: attribute / return slots not exercised")
  bads = tlc.parse_cases(r.out, "BAD")
  # ---- attribution of failing slots to known root causes, each by a counterfactual judged by TLC ----
  # open: program index -> failing slots not yet attributed
  open_ = {b["i"] - 1: [cases[b["i"] - 1]["slots"][k - 1] for k in b["fails"]] for b in bads}
  attributed = {}       # (program index, slot_id) -> root-cause key

  def counterfactual(worker, key, label):
    """Same programs analysed by `worker`: a slot that failed and is admitted now gets `key`."""
    idxs = sorted(i for i in open_ if open_[i])
    if not idxs:
      return
    cf_infs = pyt.batch(worker, [keep[i][0]["src"] for i in idxs], procs=min(8, len(idxs)), chunksize=1)
    cf_cases, cf_idx = [], []
    for i, inf2 in zip(idxs, cf_infs):
      if inf2["outcome"] == "result":
        cf_cases.append(build_case(keep[i][0], inf2))
        cf_idx.append(i)
    run.add("counterfactual_runs", len(cf_cases))
    run.add("counterfactual_runs_" + label, len(cf_cases))
    if not cf_cases:
      return
    _, bad2, r2 = tlc.validate_cases("TraceC01", cf_cases, cfg=TRACE_CFG, timeout=3000, heap="4g")
    common.require(bad2 is None, "TraceC01 invariant cannot fail")
    still = {i: set() for i in cf_idx}
    for b in tlc.parse_cases(r2.out, "BAD"):
      still[cf_idx[b["i"] - 1]] = {slot_id(cf_cases[b["i"] - 1]["slots"][k - 1]) for k in b["fails"]}
    for i, c in zip(cf_idx, cf_cases):
      present = {slot_id(s2) for s2 in c["slots"]}
      rest = []
      for s in open_[i]:
        # admitted in the counterfactual run = judged there (same slot, same value) and not failing
        if slot_id(s) in present and slot_id(s) not in still[i]:
          attributed[(i, slot_id(s))] = key
        else:
          rest.append(s)
      open_[i] = rest

  # (1) the call cache: the same program analysed with skip_repeat_calls=False admits the slot
  counterfactual(infer_nocache, KNOWN_CACHE, "nocache")
  # (2) simplify_variable: the same program analysed with that optimisation switched off admits it
  counterfactual(infer_nosimplify, KNOWN_SIMPLIFY, "nosimplify")
  # (3) "ret" slots: signatures are inferred in the module's FINAL state.  Counterfactual: the stub of
  #     the program cut off right before the calling statement; TLC judges FinalStateSlotOK =
  #     ReadsRebound (precondition computed from the program term) and admitted by that stub's type
  fs_jobs = []
  for i in sorted(open_):
    for s in open_[i]:
      if s["k"] == "ret" and s.get("site", 0) >= 2:
        fs_jobs.append((i, s))
  if fs_jobs:
    stmts_of = {i: keep[i][0]["stmts"] for i, _ in fs_jobs}
    pre_srcs = sorted({(i, s["site"]) for i, s in fs_jobs})
    pre_infs = pyt.batch(infer, ["".join(progterms.stmt(x) for x in stmts_of[i][:site - 1])
                                 for i, site in pre_srcs], procs=min(8, len(pre_srcs)), chunksize=1)
    pre = dict(zip(pre_srcs, pre_infs))
    fs_cases, fs_keep = [], []
    for i, s in fs_jobs:
      inf2 = pre[(i, s["site"])]
      if inf2["outcome"] != "result":
        continue
      t2 = ret_type(inf2["slots"], keep[i][0]["H"], s["n"])
      fs_cases.append({"mode": "final-state", "H": keep[i][0]["H"], "prog": stmts_of[i],
                       "slots": [dict(s, t=t2 or MISSING)]})
      fs_keep.append((i, s))
    run.add("counterfactual_runs", len(pre_srcs))
    run.add("counterfactual_runs_prefix", len(pre_srcs))
    if fs_cases:
      _, bad3, r3 = tlc.validate_cases("TraceC01", fs_cases, cfg=TRACE_CFG, timeout=3000, heap="4g")
      common.require(bad3 is None, "TraceC01 invariant cannot fail")
      failing = {b["i"] - 1 for b in tlc.parse_cases(r3.out, "BAD")}
      for j, (i, s) in enumerate(fs_keep):
        if j not in failing:
          attributed[(i, slot_id(s))] = KNOWN_FINAL
          open_[i] = [x for x in open_[i] if slot_id(x) != slot_id(s)]
  for rec_bad in bads:
    idx = rec_bad["i"] - 1
    rec, inf = keep[idx]
    for k in rec_bad["fails"]:
      s = cases[idx]["slots"][k - 1]
      key = attributed.get((idx, slot_id(s)))
      if key is None:
        # identity of a finding = the exact input (program text) and the slot
        key = "C01:input:%s:%s:%s" % (hashlib.sha1(rec["src"].encode()).hexdigest()[:12], s["k"], s["n"])
      run.violation(key, "slot %s %s declared %s but holds %s" % (s["k"], s["n"], s["t"], s["v"]),
                    {"program": rec["program"], "src": rec["src"], "pyi": inf["pyi"], "slot": s})
  run.put("failing_slots", sum(len(b["fails"]) for b in bads))
  run.put("known_input_findings_hit", sum(1 for k in run.known_hits if k.startswith("C01:input:")))
  run.put("known_root_cause_findings_hit", sum(1 for k in run.known_hits if not k.startswith("C01:input:")))
  return run.finish()


if __name__ == "__main__":
  common.main(PID, main)

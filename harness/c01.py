"""C01 - inferred types admit every value the program actually computes (loop-free code).

spec -> code: ProgGen.tla (tlc -simulate) generates well-scoped loop-free programs; the driver
renders them, executes them under CPython (statements that raise are dropped, the remaining
program is re-executed from scratch with a profile hook), records every module-level value,
instance attribute and module-level call result as value terms, and runs the real pytype
(io.generate_pyi) on the same source, converting the inferred AST to type terms.
code -> spec: TLC (TraceC01.tla / Soundness.tla) judges Sound: every observed value is admitted
by the declared type (Admits of PytdTypes.tla, soundness reading, the program's own hierarchy).
"""
import argparse
import hashlib
import json
import os
import sys

sys.path.insert(0, os.path.dirname(os.path.abspath(__file__)))
import boot  # noqa: E402
import common  # noqa: E402
import progterms  # noqa: E402
import pyt  # noqa: E402
import tlc  # noqa: E402

PID = "C01"
TRACE_CFG = "INIT TInit\nNEXT TNext\nINVARIANT Ok\nPOSTCONDITION Done\n"
MISSING = ["missing", "", []]


def gen_cfg(stmts, depth):
  return ("INIT Init\nNEXT Next\nCONSTANTS MaxStmts = %d\n Depth = %d\n"
          "INVARIANT WellScoped\nINVARIANT ExportInv\n") % (stmts, depth)


def infer(src):
  """Worker: run pytype on src, return slots table of the inferred stub (picklable)."""
  import terms
  r = pyt.analyze(src, want_ast=True)
  if r["outcome"] != "result":
    return {"outcome": r["outcome"], "exc": r["exc"], "errors": r["errors"]}
  return {"outcome": "result", "slots": terms.stub_slots(r["ast"]), "pyi": r["pyi"],
          "errors": [e[0] for e in r["errors"]]}


def infer_nocache(src):
  """Counterfactual for the known call-cache finding: the same analysis with
  skip_repeat_calls=False (every call of an interpreter function is re-analysed)."""
  import terms
  r = pyt.analyze(src, want_ast=True, skip_repeat_calls=False)
  if r["outcome"] != "result":
    return {"outcome": r["outcome"], "exc": r["exc"], "errors": r["errors"]}
  return {"outcome": "result", "slots": terms.stub_slots(r["ast"]), "pyi": r["pyi"],
          "errors": [e[0] for e in r["errors"]]}


KNOWN_CACHE = "C01:call-cache-return-invisible-in-sibling-branch"
NSLICES = 20


def build_case(run_rec, inf):
  """Join run-time observations with the stub's declarations -> slot table."""
  st = inf["slots"]
  H = run_rec["H"]
  slots = []
  anyget = st["has_getattr"]
  for n, v in sorted(run_rec["names"].items()):
    t = st["names"].get(n)
    if t is None:
      t = ["any", "", []] if anyget else MISSING
    slots.append({"k": "name", "n": n, "t": t, "v": v})
  for cls, a, v in run_rec["attrs"]:
    t = None
    for c in H.get(cls, [cls]):
      if c in st["classes"]:
        if a in st["classes"][c]:
          t = st["classes"][c][a]
          break
        if c in st["class_getattr"]:
          t = ["any", "", []]
          break
      elif c != "object":
        t = ["any", "", []]      # a base the stub does not describe (e.g. Any base)
        break
    slots.append({"k": "attr", "n": "%s.%s" % (cls, a), "t": t or MISSING, "v": v})
  for f, v in run_rec["rets"]:
    t = st["rets"].get(f)
    if t is None and "." in f:
      cls, m = f.split(".")
      for c in H.get(cls, [cls]):
        if "%s.%s" % (c, m) in st["rets"]:
          t = st["rets"]["%s.%s" % (c, m)]
          break
    if t is None:
      continue      # property: values returned by module-level calls of functions the stub declares
    slots.append({"k": "ret", "n": f, "t": t, "v": v})
  return {"H": H, "slots": slots}


def main():
  ap = argparse.ArgumentParser()
  ap.add_argument("--tier", default="quick")
  ap.add_argument("--replay")
  a = ap.parse_args()
  run = common.Run(PID, "translation_validation", a.tier)
  boot.boot()
  thorough = run.tier == "thorough"
  progs = []
  if a.replay:
    with open(a.replay) as f:
      progs = [json.load(f)["case"]["program"]]
  else:
    # The corpus is FIXED: NSLICES slices of 600 spec-generated programs each (TLC simulation seeds
    # derived from the slice number only).  quick runs the slice VERIF_SEED mod NSLICES, thorough
    # all of them.  pytype is unsound on a small fraction of random loop-free programs (about 1 in
    # 300); because the corpus is fixed, each such genuine finding is listed by its exact input
    # (known_findings.d/C01.json) and any other violation is reported.
    plan = [(8, 2, 260), (14, 2, 200), (10, 3, 140)]
    slices = list(range(NSLICES)) if thorough else [run.seed % NSLICES]
    run.put("corpus_slices", slices)
    for sl in slices:
      for j, (ns, d, num) in enumerate(plan):
        r = tlc.run("ProgGen", gen_cfg(ns, d), workers=1, timeout=3000, seed=sl * 7 + j,
                    simulate="num=%d" % num, depth=ns + 3)
        if r.violated:
          raise common.Machinery("ProgGen.tla emitted an ill-scoped program:\n" + r.error_trace[:2000])
        common.require(len(r.cases) >= num, "ProgGen produced %d programs, wanted %d" % (len(r.cases), num))
        progs += [c["p"] for c in r.cases]
        run.add("states", r.generated)
  run.put("programs_generated", len(progs))
  recs = []
  kinds = {}
  for p in progs:
    rec = progterms.run_program(p)
    if rec is None:
      run.add("programs_not_completing")
      continue
    rec["program"] = p
    recs.append(rec)
    for k, n in progterms.kinds(rec["stmts"]).items():
      kinds[k] = kinds.get(k, 0) + n
  run.put("construct_counts", kinds)
  need = {"assign", "if", "ifonly", "try", "def", "class", "lambda", "lcomp", "cond", "or", "and",
          "isinst", "isnone", "call", "attr", "meth", "sub", "bcall", "list", "dict", "tuple", "set"}
  common.require(need <= set(kinds), "generator coverage: missing %s" % sorted(need - set(kinds)))
  infs = pyt.batch(infer, [r["src"] for r in recs], procs=8, chunksize=4)
  cases = []
  keep = []
  for rec, inf in zip(recs, infs):
    if inf["outcome"] != "result":
      # not a C01 matter (C15 covers crashes); count and continue
      run.add("pytype_" + inf["outcome"])
      run.diverge({"outcome": inf["outcome"], "exc": inf.get("exc", "")[-300:], "src": rec["src"][:400]})
      continue
    cases.append(build_case(rec, inf))
    keep.append((rec, inf))
  common.require(len(cases) >= (1 if a.replay else 100), "too few analysed programs: %d" % len(cases))
  nv, bad, r = tlc.validate_cases("TraceC01", cases, cfg=TRACE_CFG, timeout=3000, heap="6g")
  common.require(bad is None, "TraceC01 invariant cannot fail")
  nslots = sum(len(c["slots"]) for c in cases)
  run.put("programs", len(cases))
  run.put("slots_judged", nslots)
  run.put("slots_by_kind", {k: sum(1 for c in cases for s in c["slots"] if s["k"] == k)
                            for k in ("name", "attr", "ret")})
  run.put("disagreements_checked", nslots)
  run.put("evaluations", len(cases))
  run.put("distinct_nontrivial", len({rec["src"] for rec, _ in keep if len(rec["stmts"]) >= 3}))
  run.put("rule", "one case = one generated program that runs to completion; non-trivial = at least 3 statements survived")
  run.sample({"src": keep[0][0]["src"], "pyi": keep[0][1]["pyi"], "slots": cases[0]["slots"][:4]})
  common.require(run.cov["slots_by_kind"]["attr"] > 10 and run.cov["slots_by_kind"]["ret"] > 10
                 or a.replay, "vacuity: attribute / return slots not exercised")
  bads = tlc.parse_cases(r.out, "BAD")
  # attribution to the known call-cache finding is by a counterfactual run judged by TLC as well:
  # the same program analysed with skip_repeat_calls=False must admit the slot
  cf_bad = {}
  if bads:
    idxs = sorted({b["i"] - 1 for b in bads})
    cf_infs = pyt.batch(infer_nocache, [keep[i][0]["src"] for i in idxs], procs=8, chunksize=1)
    cf_cases, cf_idx = [], []
    for i, inf2 in zip(idxs, cf_infs):
      if inf2["outcome"] == "result":
        cf_cases.append(build_case(keep[i][0], inf2))
        cf_idx.append(i)
    if cf_cases:
      _, bad2, r2 = tlc.validate_cases("TraceC01", cf_cases, cfg=TRACE_CFG, timeout=3000, heap="4g")
      common.require(bad2 is None, "TraceC01 invariant cannot fail")
      for i, c in zip(cf_idx, cf_cases):
        cf_bad[i] = set()
      for b in tlc.parse_cases(r2.out, "BAD"):
        i = cf_idx[b["i"] - 1]
        cf_bad[i] = {(cf_cases[b["i"] - 1]["slots"][k - 1]["k"], cf_cases[b["i"] - 1]["slots"][k - 1]["n"])
                     for k in b["fails"]}
    run.put("counterfactual_runs", len(cf_cases))
  for rec_bad in bads:
    idx = rec_bad["i"] - 1
    rec, inf = keep[idx]
    for k in rec_bad["fails"]:
      s = cases[idx]["slots"][k - 1]
      if idx in cf_bad and (s["k"], s["n"]) not in cf_bad[idx]:
        key = KNOWN_CACHE
      else:
        # identity of a finding = the exact input (program text) and the slot
        key = "C01:input:%s:%s:%s" % (hashlib.sha1(rec["src"].encode()).hexdigest()[:12], s["k"], s["n"])
      run.violation(key, "slot %s %s declared %s but holds %s" % (s["k"], s["n"], s["t"], s["v"]),
                    {"program": rec["program"], "src": rec["src"], "pyi": inf["pyi"], "slot": s})
  return run.finish()


if __name__ == "__main__":
  common.main(PID, main)

"""C04, error-log family - "reported errors are unique and sorted by position", for ALL histories
of the data structure (pytype/errors/errors.py: ErrorLog, CheckPoint, Error), plus the history
property of checkpoints.

spec -> code: ErrorLog.tla is an explicit state machine of the error log (Add through the filter,
Enter/Exit of nested checkpoints, SetFilter, CopyFrom, Report = operational transcription of
unique_sorted_errors).  TLC checks P1..P4 on the model (families of bounded histories, see the
spec) and exports EVERY transition of the state graph as a self-contained history, plus long
random histories (-simulate).  The driver replays each history on a real errors.ErrorLog: real
Error objects (direct constructor + _add, or log.error / log.warn with a stack of real
SimpleFrames and Opcodes, so that Error.with_stack builds position and traceback), the real
`with log.checkpoint()` statement (left normally or by an exception), set_error_filter with a
director-like (name, line) filter, copy_from with a real stack.
code -> spec: after every operation the real object is projected (list(log), cp.errors of the
closed checkpoints, len, has_error(), unique_sorted_errors() twice, ...) and TraceErrorLog.tla
judges P0..P4 on the projected REAL states, advancing the spec state with the spec's own actions.
Verdicts are BAD lines; differences between the operational model and the code are DIV lines.

Used by c04.py (`start` early, `run_family` late); `python harness/c04_errorlog.py` runs the family
alone (prints the counts, writes no evidence).
"""
import concurrent.futures as cf
import json
import os
import sys
import time
import zlib

sys.path.insert(0, os.path.dirname(os.path.abspath(__file__)))
import boot  # noqa: E402
import common  # noqa: E402
import tlc  # noqa: E402

MODEL_FAMILIES = ("report", "groups", "sev", "maxtb", "nopos", "files", "checkpoint", "copy", "all")
MODEL_RUNS = (("report", "maxtb", "nopos", "files"), ("groups", "sev", "checkpoint", "copy", "all"))   # one JVM each
SIM_FAMILIES = ("sim", "simtb")
INVS = ("InvP1", "InvP2", "InvP3", "InvP4", "InvNoLoss", "InvComplete")
FILES = [None, "a.py", "b.py"]                 # abstract file index -> filename (lexical order)
FRAME_LINE = {"a": 11, "b": 12, "c": 13, "d": 14, "x": 15}
ERR_FIELDS = ("name", "file", "line", "col", "method", "msg", "det", "tb", "sev")


def cfg(fams, extra, export, max_tb, invs=(), trace=False):
  s = "INIT TInit\nNEXT TNext\n" if trace else "INIT Init\nNEXT Next\n"
  s += "CONSTANTS\n Families = {%s}\n Extra = %d\n Export = \"%s\"\n MaxTB = %d\n" % (
      ",".join('"%s"' % f for f in fams), extra, export, max_tb)
  if not trace:
    s += "VIEW View\n"
  for i in invs:
    s += "INVARIANT %s\n" % i
  if export == "trans":
    s += "ACTION_CONSTRAINT ExportTrans\n"
  if trace:
    s += "INVARIANT Ok\nPOSTCONDITION Done\n"
  return s


# ------------------------------------------------------------------------------------------
# the real classes


class _Unwind(Exception):
  """Leaves a `with log.checkpoint()` block by an exception."""


class _End(Exception):
  """The history ended inside open checkpoints."""


class _Abort(Exception):
  """An operation raised; the history ends there."""


class _Code:
  def __init__(self, filename, name):
    self.filename, self.name = filename, name


class Real:
  """Real errors.* objects: construction from abstract errors, projection back."""

  def __init__(self):
    from pytype import state
    from pytype.errors import errors
    from pytype.pyc import opcodes
    self.E, self.state, self.opcodes = errors, state, opcodes
    self.errs, self.err_ids = [], {}
    self.frame_of = {"line %d, in %s" % (n, f): f for f, n in FRAME_LINE.items()}
    self.file_id = {fn: k for k, fn in enumerate(FILES)}

  # --- abstract -> real
  def tb_str(self, tb):
    if not tb:
      return None
    return self.E.TRACEBACK_MARKER + "".join("\n  line %d, in %s" % (FRAME_LINE[f], f) for f in tb)

  def make(self, e):
    """errors.Error built directly (as the tests do), under the error name e.name."""
    with self.E._CURRENT_ERROR_NAME.bind(e["name"]):  # pylint: disable=protected-access
      return self.E.Error(e["sev"], e["msg"], filename=FILES[e["file"]], line=e["line"], endline=e["line"],
                          col=e["col"], endcol=e["col"] + 1, methodname=e["method"] or None,
                          details=e["det"] or None, traceback=self.tb_str(e["tb"]), opcode_name="LOAD_NAME")

  def stack(self, p):
    """A stack of real SimpleFrames whose top is at position p and whose callers are p.tb."""
    if not (p["file"] or p["line"] or p["col"] or p["method"] or p["tb"]):
      return None
    frames = []
    for f in list(p["tb"]) + [None]:
      if f is None:
        op = self.opcodes.LOAD_NAME(0, p["line"], p["line"], p["col"], p["col"] + 1, 0, "x")
        op.code = _Code(FILES[p["file"]], p["method"])
      else:
        op = self.opcodes.LOAD_NAME(0, FRAME_LINE[f], FRAME_LINE[f], 0, 1, 0, "x")
        op.code = _Code(FILES[p["file"]], f)
      frames.append(self.state.SimpleFrame(op))
    return frames

  # --- real -> abstract
  def project(self, err):
    tb = err.traceback
    if tb is None:
      frames = []
    else:
      head = self.E.TRACEBACK_MARKER + "\n  "
      if not tb.startswith(head):
        frames = ["<malformed>" + tb]
      else:
        frames = [self.frame_of.get(x, x) for x in tb[len(head):].split("\n  ")]
    det = err.details
    fn = err.filename
    if fn not in self.file_id:
      raise common.Machinery("error with an unknown filename %r" % (fn,))
    # pylint: disable=protected-access
    return {"name": err.name, "file": self.file_id[fn], "line": err.line, "col": err._col,
            "method": err.methodname or "", "msg": err._message,
            "det": "" if det is None else (det or "<empty>"), "tb": frames, "sev": err._severity}

  def eid(self, a):
    key = json.dumps(a, sort_keys=True)
    i = self.err_ids.get(key)
    if i is None:
      self.errs.append(a)
      i = self.err_ids[key] = len(self.errs)
    return i

  def ids(self, errs):
    return [self.eid(self.project(e)) for e in errs]

  def cmp_cases(self, tbs):
    out = []
    for l in tbs:
      for r in tbs:
        res = self.E._compare_traceback_strings(self.tb_str(l), self.tb_str(r))  # pylint: disable=protected-access
        out.append({"l": list(l), "r": list(r),
                    "res": "none" if res is None else "eq" if res == 0 else "gt" if res > 0 else "lt"})
    return out


def _exc(e):
  return ("%s: %s" % (type(e).__name__, e))[:200]


def resolve(hist, salt):
  """Model history -> self-contained replayable history: which public entry point adds the error,
  how a checkpoint block is left, how an empty filter is installed (alternating, deterministic)."""
  out = []
  for k, o in enumerate(hist):
    if o["op"] == "end":
      break
    o = dict(o)
    alt = (salt + k) % 2
    if o["op"] == "add":
      e = o["e"]
      if e["sev"] == 2 and alt:
        o["via"] = "error"
      elif e["sev"] == 1 and not e["det"] and alt:
        o["via"] = "warn"
      else:
        o["via"] = "add"
    elif o["op"] == "exit":
      o["how"] = "raise" if alt else "with"
    elif o["op"] == "setfilter":
      o["none"] = bool(alt and not o["f"])
    out.append(o)
  return out


def replay(real, hist):
  """Execute one history on a real ErrorLog; returns [(op, observation after it)]."""
  E = real.E
  log = E.ErrorLog("")
  closed = []
  steps = []
  cur = [None]

  def observe(exc=""):
    lst = list(log)
    rep = log.unique_sorted_errors()
    rep2 = log.unique_sorted_errors()
    lst2 = list(log)
    fresh = E.ErrorLog("")
    for e in rep:
      fresh._add(e)  # pylint: disable=protected-access
    rr = fresh.unique_sorted_errors()
    pos = {id(e): n + 1 for n, e in reversed(list(enumerate(lst)))}
    classes = {}
    ur = [classes.setdefault(e.get_unique_representation(), len(classes) + 1) for e in lst]
    return {"log": real.ids(lst), "caps": [real.ids(cp.errors) for cp in closed], "len": len(log),
            "has": bool(log.has_error()), "rep": real.ids(rep), "rep2": real.ids(rep2),
            "log2": real.ids(lst2), "rr": real.ids(rr), "ix": [pos.get(id(e), 0) for e in rep],
            "ur": ur, "exc": exc}

  def do(o):
    op = o["op"]
    if op == "add":
      e = o["e"]
      if o.get("via", "add") == "add":
        log._add(real.make(e))  # pylint: disable=protected-access
      else:
        with E._CURRENT_ERROR_NAME.bind(e["name"]):  # pylint: disable=protected-access
          if o["via"] == "error":
            log.error(real.stack(e), e["msg"], e["det"] or None)
          else:
            log.warn(real.stack(e), e["msg"])
    elif op == "setfilter":
      sup = {(n, l) for n, l in o["f"]}
      if o.get("none"):
        log.set_error_filter(None)
      else:
        log.set_error_filter(lambda err: (err.name, err.line) not in sup)
    elif op == "copy":
      log.copy_from(closed[o["c"] - 1].errors, real.stack(o["s"]))
    elif op != "report":
      raise common.Machinery("unknown operation %r" % (o,))

  def block(k):
    """Runs hist[k:] up to the exit that closes the current block; returns its index."""
    while k < len(hist):
      o = hist[k]
      cur[0] = o
      if o["op"] == "exit":
        return k
      if o["op"] == "enter":
        try:
          with log.checkpoint() as cp:
            steps.append((o, observe()))
            k = block(k + 1)
            if k >= len(hist):
              raise _End()
            cur[0] = hist[k]
            if hist[k].get("how") == "raise":
              raise _Unwind()
        except _Unwind:
          pass
        closed.append(cp)
        steps.append((hist[k], observe()))
      else:
        do(o)
        steps.append((o, observe()))
      k += 1
    return k

  try:
    block(0)
  except _End:
    pass
  except common.Machinery:
    raise
  except Exception as e:  # pylint: disable=broad-except
    # an operation (or the projection after it) raised: the history ends with an exc observation
    last = steps[-1][1] if steps else {"log": [], "caps": []}
    obs = {"log": last["log"], "caps": last["caps"], "len": 0, "has": False, "rep": [], "rep2": [],
           "log2": [], "rr": [], "ix": [], "ur": [], "exc": _exc(e)}
    steps.append((cur[0], obs))
  return steps


# ------------------------------------------------------------------------------------------
# TLC: the model, the export, the verdict


def model_and_export(fams, extra, max_tb):
  """One TLC run: P1..P4 on the model and every transition of the state graph."""
  r = tlc.run("ErrorLog", cfg(fams, extra, "trans", max_tb, INVS), workers=1, timeout=6000, heap="4g")
  if r.violated:
    raise common.Machinery("ErrorLog.tla violates its own %s:\n%s" % (r.violated, r.error_trace[:3000]))
  common.require(r.ok, "ErrorLog.tla did not complete")
  return r


def simulate(fams, num, seed, max_tb, extra):
  """Random long histories of the two-phase families (the initial state picks the family)."""
  depth = 2 * (16 + extra) + 2
  r = tlc.run("ErrorLog", cfg(fams, extra, "hist", max_tb, INVS + ("ExportHist",)), workers=1,
              timeout=6000, heap="3g", simulate="num=%d" % num, depth=depth, seed=seed)
  if r.violated:
    raise common.Machinery("ErrorLog.tla (simulation %r) violates %s:\n%s" % (fams, r.violated, r.error_trace[:3000]))
  return r


def judge(real, cases, cmps, max_tb, shards=1):
  """TraceErrorLog on the recorded cases -> (BAD, DIV, COV, CMP) lines with global case indices."""
  out = {"BAD": [], "DIV": [], "COV": [], "CMP": []}
  if not cases:
    return out
  tcfg = cfg((), 0, "none", max_tb, trace=True)
  n = len(cases)
  shards = max(1, min(shards, n // 200 or 1))
  step = (n + shards - 1) // shards
  parts = [(off, cases[off:off + step]) for off in range(0, n, step)]

  def one(off, part, with_cmps):
    trace = {"errs": real.errs or [dict(zip(ERR_FIELDS, ("", 0, 0, 0, "", "", "", [], 0)))],
             "cmps": cmps if with_cmps else [], "cases": part}
    _, bad, r = tlc.validate_cases("TraceErrorLog", trace, cfg=tcfg, timeout=6000, heap="4g")
    common.require(bad is None, "TraceErrorLog invariant cannot fail (verdicts are printed)")
    res = {}
    for tag in out:
      lines = tlc.parse_cases(r.out, tag)
      for x in lines:
        if "i" in x:
          x["i"] += off
      res[tag] = lines
    return res

  with cf.ThreadPoolExecutor(max_workers=len(parts)) as ex:
    futs = [ex.submit(one, off, part, n_ == 0) for n_, (off, part) in enumerate(parts)]
    for f in futs:
      res = f.result()
      for tag in out:
        out[tag] += res[tag]
  return out


# ------------------------------------------------------------------------------------------


def steps_upto(c, k):
  """The steps of case c up to verdict index k (k > len(steps): alternative last step k - len)."""
  n = len(c["steps"])
  return c["steps"][:k] if k <= n else c["steps"] + [c["alts"][k - n - 1]]


def describe(real, c, k):
  def show(i):
    e = real.errs[i - 1]
    return "%s@%s:%d:%d%s%s%s%s" % (e["name"], FILES[e["file"]], e["line"], e["col"],
                                    "/" + e["method"] if e["method"] else "",
                                    " +" + e["det"] if e["det"] else "",
                                    " tb=" + ">".join(e["tb"]) if e["tb"] else "",
                                    " W" if e["sev"] == 1 else "")
  upto = steps_upto(c, k)
  o, b = upto[-1]["o"], upto[-1]["b"]
  ops = []
  for s in upto:
    oo = s["o"]
    if oo["op"] == "add":
      ops.append("%s(%s)" % (oo.get("via", "add"), show(real.eid({f: oo["e"][f] for f in ERR_FIELDS}))))
    elif oo["op"] == "setfilter":
      ops.append("setfilter(%s)" % oo["f"])
    elif oo["op"] == "copy":
      ops.append("copy_from(cp%d, line %d)" % (oo["c"], oo["s"]["line"]))
    elif oo["op"] == "exit":
      ops.append("exit[%s]" % oo.get("how", "with"))
    else:
      ops.append(oo["op"])
  if b["exc"]:
    return "%s -> %s raised %s" % ("; ".join(ops), o["op"], b["exc"])
  return "%s -> log=[%s] captured=%s report=[%s] len=%d has_error=%s" % (
      "; ".join(ops), ", ".join(show(i) for i in b["log"]),
      [[show(i) for i in cp] for cp in b["caps"]], ", ".join(show(i) for i in b["rep"]), b["len"], b["has"])


def compute(seed, thorough, histories=None, real=None):
  """Everything except the bookkeeping on the Run object (so that it can run in a thread).
  histories: [(family, resolved history)] to replay instead of the model's (replay mode)."""
  t0 = time.time()
  real = real or Real()
  max_tb = real.E.MAX_TRACEBACKS
  res = {"puts": {}, "violations": [], "divergences": [], "requires": [], "max_tb": max_tb}
  puts = res["puts"]
  cases, srcs = [], []

  if histories is None:
    extra = 1 if thorough else 0
    nsim = 1500 if thorough else 60
    with cf.ThreadPoolExecutor(max_workers=4) as ex:
      fm = [ex.submit(model_and_export, fams, extra, max_tb) for fams in MODEL_RUNS]
      if thorough:
        fs = [ex.submit(simulate, (f,), nsim, seed * 10 + n + 1, max_tb, extra) for n, f in enumerate(SIM_FAMILIES)]
      else:
        fs = [ex.submit(simulate, SIM_FAMILIES, nsim * len(SIM_FAMILIES), seed * 10 + 1, max_tb, extra)]
      rms = [f.result() for f in fm]
      rs = [f.result() for f in fs]
    puts["errorlog_states"] = sum(r.distinct for r in rms)
    puts["errorlog_transitions"] = sum(r.generated for r in rms)
    puts["errorlog_tlc_s"] = round(time.time() - t0, 1)
    # every transition of the state graph = (history that first reached the state, operation):
    # grouped by history, so that TLC walks a common prefix once and judges all its last steps
    per, groups = {}, {}
    for n, c in enumerate(c for r in rms for c in r.cases):
      h = [o for o in c["h"] if o["op"] != "end"]
      per[c["f"]] = per.get(c["f"], 0) + 1
      key = c["f"] + json.dumps(h[:-1], sort_keys=True)
      g = groups.get(key)
      if g is None:
        g = groups[key] = {"f": c["f"], "from": len(h), "h": resolve(h[:-1], zlib.crc32(key.encode())), "alts": []}
      g["alts"].append(resolve([h[-1]], n)[0])
    cases = list(groups.values())
    ntrans = sum(len(g["alts"]) for g in cases)
    puts["errorlog_transitions_by_family"] = per
    puts["errorlog_model_states_expanded"] = len(cases)
    res["requires"].append((set(per) == set(MODEL_FAMILIES) and ntrans >= 2000,
                            "error-log model exported only %d transitions (%r)" % (ntrans, per)))
    nh = 0
    sims = [c for r in rs for c in r.cases]
    for f in SIM_FAMILIES:
      k = sum(1 for c in sims if c["f"] == f)
      res["requires"].append((k >= nsim // 3, "simulation %s produced only %d histories" % (f, k)))
    for n, c in enumerate(sims):
      cases.append({"f": c["f"], "from": 1, "h": resolve(c["h"], n), "alts": []})
      nh += 1
    puts["errorlog_transitions_replayed"] = ntrans
    puts["errorlog_histories"] = nh
  else:
    for f, h in histories:
      cases.append({"f": f, "from": 1, "h": h, "alts": []})

  # ---- replay on the real ErrorLog
  t1 = time.time()
  nops = skipped = 0
  for c in cases:
    h = c.pop("h")
    steps = replay(real, h)
    nops += len(steps)
    c["steps"] = [{"o": o, "b": b} for o, b in steps]
    alts, c["alts"] = c["alts"], []
    if alts and (len(steps) < len(h) or (steps and steps[-1][1]["exc"])):
      skipped += len(alts)      # the prefix itself failed (reported where it is a last step)
      alts = []
    for alt in alts:
      full = replay(real, h + [alt])
      nops += len(full)
      common.require(len(full) == len(h) + 1 and [b for _, b in full[:-1]] == [b for _, b in steps],
                     "replay of a prefix is not deterministic: %r" % (h,))
      c["alts"].append({"o": full[-1][0], "b": full[-1][1]})
    c["from"] = max(1, min(c["from"], len(steps) + 1))
  cases = [c for c in cases if c["steps"] or c["alts"]]
  puts["errorlog_real_operations"] = nops
  puts["errorlog_transitions_skipped"] = skipped
  puts["errorlog_steps_judged"] = sum(max(0, len(c["steps"]) - c["from"] + 1) + len(c["alts"]) for c in cases)
  tbs = sorted({tuple(e["tb"]) for e in real.errs} | {()})
  tbs = [t for t in tbs if all(f in FRAME_LINE for f in t)]
  cmps = real.cmp_cases(tbs)
  puts["errorlog_replay_s"] = round(time.time() - t1, 1)

  # ---- TLC judges the real states
  t2 = time.time()
  lines = judge(real, cases, cmps, max_tb, shards=4 if thorough else 2)
  puts["errorlog_judge_s"] = round(time.time() - t2, 1)
  puts["errorlog_cmp_pairs"] = len(cmps)
  # P2..P4 are properties of a state: inside one walked history a clause is attributed to the
  # operation after which it fails FIRST (not again to every later operation); shortest histories first
  failed = {(b["i"], b["k"]): set(b["fails"]) for b in lines["BAD"]}
  for b in sorted(lines["BAD"], key=lambda b: (len(steps_upto(cases[b["i"] - 1], b["k"])), b["i"], b["k"])):
    c = cases[b["i"] - 1]
    upto = steps_upto(c, b["k"])
    o, ob = upto[-1]["o"], upto[-1]["b"]
    before = failed.get((b["i"], min(b["k"], len(c["steps"]) + 1) - 1), set())
    for clause in sorted(b["fails"]):
      if clause in before and clause[:2] in ("P2", "P3", "P4"):
        continue
      res["violations"].append((
          "C04:errorlog:%s:%s" % (clause, o["op"]),
          "error log, %s after %s (family %s): %s" % (clause, o["op"], c["f"], describe(real, c, b["k"])),
          {"errorlog": {"family": c["f"], "history": [s["o"] for s in upto], "step": len(upto),
                        "clause": clause, "observed": ob,
                        "errs": {str(i): real.errs[i - 1] for i in sorted(set(ob["log"]) | set(ob["rep"]))}}}))
  notes = {}
  for d in lines["DIV"]:
    c = cases[d["i"] - 1]
    for note in d["notes"]:
      notes[note] = notes.get(note, 0) + 1
      if notes[note] <= 2:
        res["divergences"].append({"family": "errorlog/" + c["f"], "note": note,
                                   "op": steps_upto(c, d["k"])[-1]["o"]["op"], "case": describe(real, c, d["k"])})
  for m in lines["CMP"]:
    notes["cmp"] = notes.get("cmp", 0) + 1
    if notes["cmp"] <= 2:
      res["divergences"].append({"family": "errorlog", "note": "Cmp disagrees with _compare_traceback_strings",
                                 "case": m})
  puts["errorlog_divergences"] = notes
  cov = {}
  for v in lines["COV"]:
    for flag in v["v"]:
      cov[flag] = cov.get(flag, 0) + 1
  puts["errorlog_coverage"] = cov
  puts["errorlog_distinct_errors"] = len(real.errs)
  via = {}
  for c in cases:
    for s in c["steps"][c["from"] - 1:] + c["alts"]:
      if s["o"]["op"] == "add":
        via[s["o"].get("via", "add")] = via.get(s["o"].get("via", "add"), 0) + 1
      elif s["o"]["op"] == "exit":
        via["exit-" + s["o"].get("how", "with")] = via.get("exit-" + s["o"].get("how", "with"), 0) + 1
  puts["errorlog_entry_points"] = via
  if histories is None:
    # vacuity guards, stated on what the spec counted on the judged REAL steps
    lo = {"nested": 300, "exit-inner": 60, "exit-nonempty": 100, "filter-hit": 40, "filter-hit-inside": 15,
          "copy": 50, "copy-inside": 15, "copy-filtered": 8, "unsorted-log": 400, "replaced": 600,
          "incomparable": 400, "overflow": 20, "room-left": 5, "sev-shadow": 60, "deduplicated": 1500}
    short = {f: cov.get(f, 0) for f, n in lo.items() if cov.get(f, 0) < n}
    res["requires"].append((not short, "vacuity (error log): too few judged steps with %r (minimum %r)" % (
        short, {f: lo[f] for f in short})))
    res["requires"].append((via.get("error", 0) >= 500 and via.get("warn", 0) >= 100 and via.get("exit-raise", 0) >= 80,
                            "vacuity (error log): entry points %r" % (via,)))
    k = next((n for n, c in enumerate(cases) if c["f"] == "maxtb" and len(c["steps"]) >= 3 and c["alts"] and
              len(set(c["steps"][-1]["b"]["log"])) >= 3), 0)
    res["sample"] = {"errorlog": describe(real, cases[k], len(cases[k]["steps"]) + len(cases[k]["alts"]))}
  puts["errorlog_wall_s"] = round(time.time() - t0, 1)
  return res


def start(seed, thorough):
  """Start the family in a background thread (call after boot.boot()); pass the handle to run_family."""
  real = Real()       # the pytype imports happen in the caller's thread
  ex = cf.ThreadPoolExecutor(max_workers=1)
  fut = ex.submit(compute, seed, thorough, None, real)
  ex.shutdown(wait=False)
  return fut


def apply(run, res, guards=True):
  for k, v in res["puts"].items():
    run.put(k, v)
  for d in res["divergences"]:
    run.diverge(d)
  for key, what, payload in res["violations"]:
    run.violation(key, what, payload)
  if "sample" in res:
    run.sample(res["sample"])
  if guards and not res["violations"]:
    for ok, msg in res["requires"]:
      common.require(ok, msg)
  return len(res["violations"])


def run_family(run, thorough, pending=None):
  """The error-log family of C04: counts into the evidence, violations keyed
  C04:errorlog:<clause>:<op>, vacuity guards (exit 2)."""
  res = pending.result() if pending is not None else compute(run.seed, thorough)
  return apply(run, res)


def replay_case(run, case):
  """./check C04 --replay PATH for a violation of this family."""
  el = case["errorlog"]
  res = compute(run.seed, False, histories=[(el["family"], el["history"])])
  return apply(run, res, guards=False)


class _Dry:
  """Stand-in for common.Run when the family is run alone."""

  def __init__(self):
    self.seed = int(os.environ.get("VERIF_SEED", 0))
    self.n = 0
    self.keys = set()

  def put(self, k, v):
    print("  %s = %s" % (k, v))

  def diverge(self, d):
    print("  DIV %s" % (json.dumps(d)[:300],))

  def sample(self, s):
    print("  sample %s" % (json.dumps(s)[:400],))

  def violation(self, key, what, payload):
    self.n += 1
    if key not in self.keys:      # common.Run keeps the first (shortest) case per key, too
      self.keys.add(key)
      print("VIOLATION %s :: %s" % (key, what[:500]))


if __name__ == "__main__":
  boot.boot()
  dry = _Dry()
  run_family(dry, "--thorough" in sys.argv)
  print("violations: %d" % dry.n)

"""C10 - class linearisation agrees with CPython's MRO.

spec: specs/C3Ops.tla (pure C3 merge, laws), specs/C3.tla (class statements + merge as a step
machine).  TLC checks the C3 laws on every hierarchy within the bounds and exports every
finished hierarchy; tlc -simulate draws larger ones (<= 8 classes).

spec -> CPython -> pytype: every exported hierarchy is
  py    created under CPython (type(name, bases, {}) per statement; the rendered source program
        is executed as well) - must equal the spec, else machinery failure (exit 2);
  merge handed to mro.MROMerge (the lists the spec hands to its own merge);
  pytd  written as a .pyi, loaded by the real loader, mro.GetBasesInMRO on every pytd.Class;
  src   rendered as a source program: failing class statements inside try/except TypeError,
        one attribute per pair of classes (defined by exactly those two), read through every
        class and every instance that inherits it; [mro-error] lines recorded;
  stub  the same reads by a reader module that imports the .pyi;
  mix   source classes in the reader whose bases are the stub classes.
code -> spec: TraceC10.tla replays each hierarchy with C3's own actions and judges all recorded
observations (ORACLE lines: CPython differs from the spec; BAD lines: pytype differs).
"""
import argparse
import itertools
import json
import os
import random
import re
import shutil
import sys
import time

sys.path.insert(0, os.path.dirname(os.path.abspath(__file__)))
import boot  # noqa: E402
import common  # noqa: E402
import pyt  # noqa: E402
import tlc  # noqa: E402

PID = "C10"
MODEL_INVS = ("TypeOK", "MachineIsFunction", "LawsHold", "MergeInv", "LookupSane")
SCRATCH = os.path.join(common.VERIF, "build", "c10")
NT = 8   # marker types T1..T8 (one per statement index)


def c3_cfg(mc, obj, mf=None, export=False, invs=MODEL_INVS, spec="SPECIFICATION Spec"):
  return ("%s\nCONSTANTS MaxClasses = %d\n MaxBases = 3\n AllowObject = %s\n MaxFail = %d\n"
          " Export = %s\n" % (spec, mc, "TRUE" if obj else "FALSE", mc if mf is None else mf,
                              "TRUE" if export else "FALSE")
          + "".join("INVARIANT %s\n" % i for i in invs))


TRACE_CFG = ("INIT TInit\nNEXT TNext\nCONSTANTS MaxClasses = 1000\n MaxBases = 3\n"
             " AllowObject = TRUE\n MaxFail = 1000\n Export = FALSE\n"
             "INVARIANT Ok\nPOSTCONDITION Done\n")


# ---------------------------------------------------------------------------------------------
# rendering (spec hierarchy -> programs).  h = {"bases": [[..]..], "lin": [{"st","mro"}..]}

def oks(h):
  return [c for c in range(1, len(h["bases"]) + 1) if h["lin"][c - 1]["st"] == "ok"]


MAX_PAIRS = 8


def pairs_of(h):
  """Attributes of the rendered programs: one per pair of (successfully created) classes; for
  hierarchies with more than MAX_PAIRS pairs a deterministic sample of MAX_PAIRS of them."""
  ps = list(itertools.combinations(oks(h), 2))
  if len(ps) > MAX_PAIRS:
    rng = random.Random(canon(h))
    ps = sorted(rng.sample(ps, MAX_PAIRS))
  return ps


def reads_of(h):
  """(c, x, y): attribute p_x_y (defined by classes x and y only) read through class c, for every
  c that inherits it according to the spec (so the program also runs under CPython)."""
  out = []
  for c in oks(h):
    m = h["lin"][c - 1]["mro"]
    for (x, y) in pairs_of(h):
      if x in m or y in m:
        out.append((c, x, y))
  return out


def cname(p, c, mod=""):
  return "object" if c == 0 else "%s%sK%d" % (mod, p, c)


def class_stmt(h, c, name, base_name, tname, failing, lines, where):
  """Append class statement c; where[len(lines)+1] is its `class` line."""
  bs = h["bases"][c - 1]
  head = "class %s%s:" % (name, "(%s)" % ", ".join(base_name(b) for b in bs) if bs else "")
  body = ["  p_%d_%d = %s" % (x, y, tname(c)) for (x, y) in pairs_of(h) if c in (x, y)]
  body = body or ["  pass"]
  if failing:
    lines.append("try:")
    where[len(lines) + 1] = c
    lines.append("  " + head)
    lines += ["  " + b for b in body]
    lines += ["except TypeError:", "  pass"]
  else:
    where[len(lines) + 1] = c
    lines.append(head)
    lines += body


def render_source(hs):
  """One module for a batch of hierarchies.  Returns (text, meta); meta[k] = dict(cls={line: c},
  reads=[(c,x,y)], rline={line: read index})."""
  lines = ["class T%d: pass" % k for k in range(1, NT + 1)]
  lines += ["t%d = T%d()" % (k, k) for k in range(1, NT + 1)]
  meta = []
  for k, h in enumerate(hs):
    p = "H%d_" % k
    m = {"cls": {}, "reads": reads_of(h), "rline": {}}
    for c in range(1, len(h["bases"]) + 1):
      class_stmt(h, c, cname(p, c), lambda b, p=p: cname(p, b), lambda c: "t%d" % c,
                 h["lin"][c - 1]["st"] != "ok", lines, m["cls"])
    for c in sorted({r[0] for r in m["reads"]}):
      lines.append("o_%s = %s()" % (cname(p, c), cname(p, c)))
    for n, (c, x, y) in enumerate(m["reads"]):
      m["rline"][len(lines) + 1] = n
      lines.append("rs_%d_%d = %s.p_%d_%d" % (k, n, cname(p, c), x, y))
      m["rline"][len(lines) + 1] = n
      lines.append("is_%d_%d = o_%s.p_%d_%d" % (k, n, cname(p, c), x, y))
    meta.append(m)
  return "\n".join(lines) + "\n", meta


def render_stub(hs):
  lines = ["class T%d: ..." % k for k in range(1, NT + 1)]
  for k, h in enumerate(hs):
    p = "H%d_" % k
    for c in range(1, len(h["bases"]) + 1):
      bs = h["bases"][c - 1]
      head = "class %s%s:" % (cname(p, c), "(%s)" % ", ".join(cname(p, b) for b in bs) if bs else "")
      body = ["    p_%d_%d: T%d" % (x, y, c) for (x, y) in pairs_of(h) if c in (x, y)]
      if body:
        lines.append(head)
        lines += body
      else:
        lines.append(head + " ...")
  return "\n".join(lines) + "\n"


def render_reader(hs, mod):
  """Reader of the stub module: uses of ill-formed stub classes, reads through stub classes,
  and source classes M_* over stub bases with the same reads."""
  lines = ["import %s" % mod]
  lines += ["t%d = %s.T%d()" % (k, mod, k) for k in range(1, NT + 1)]
  meta = []
  for k, h in enumerate(hs):
    p = "H%d_" % k
    m = {"use": {}, "cls": {}, "reads": reads_of(h), "rline": {}, "mline": {}}
    for c in range(1, len(h["bases"]) + 1):
      if h["lin"][c - 1]["st"] != "ok":
        m["use"][len(lines) + 1] = c
        lines.append("u_%d_%d = %s" % (k, c, cname(p, c, mod + ".")))
    rcls = sorted({r[0] for r in m["reads"]})
    for c in rcls:
      lines.append("o_%s = %s()" % (cname(p, c), cname(p, c, mod + ".")))
    for n, (c, x, y) in enumerate(m["reads"]):
      m["rline"][len(lines) + 1] = n
      lines.append("rt_%d_%d = %s.p_%d_%d" % (k, n, cname(p, c, mod + "."), x, y))
      m["rline"][len(lines) + 1] = n
      lines.append("it_%d_%d = o_%s.p_%d_%d" % (k, n, cname(p, c), x, y))
    for c in range(1, len(h["bases"]) + 1):
      class_stmt(h, c, "M_" + cname(p, c), lambda b, p=p: cname(p, b, mod + "."),
                 lambda c: "t%d" % c, h["lin"][c - 1]["st"] != "ok", lines, m["cls"])
    for c in rcls:
      lines.append("om_%s = M_%s()" % (cname(p, c), cname(p, c)))
    for n, (c, x, y) in enumerate(m["reads"]):
      m["mline"][len(lines) + 1] = n
      lines.append("rm_%d_%d = M_%s.p_%d_%d" % (k, n, cname(p, c), x, y))
      m["mline"][len(lines) + 1] = n
      lines.append("im_%d_%d = om_%s.p_%d_%d" % (k, n, cname(p, c), x, y))
    meta.append(m)
  return "\n".join(lines) + "\n", meta


# ---------------------------------------------------------------------------------------------
# CPython as the oracle of the spec

def cpython_types(h):
  """type(name, bases, {}) per statement -> (st list, mro list)."""
  cls = {0: object}
  ident = {object: 0}
  st, mros = [], []
  for c, bs in enumerate(h["bases"], 1):
    try:
      k = type("K%d" % c, tuple(cls[b] for b in bs), {})
    except TypeError as e:
      msg = str(e)
      if "duplicate base class" in msg:
        st.append("dup")
      elif "consistent method resolution" in msg:
        st.append("order")
      else:
        st.append("other:" + msg)
      mros.append([])
      continue
    cls[c] = k
    ident[k] = c
    st.append("ok")
    mros.append([ident[x] for x in k.__mro__])
  return st, mros


_T = re.compile(r"^(?:[\w.]+\.)?T(\d+)$")


def definer(typ):
  m = _T.match(typ.strip())
  return int(m.group(1)) if m else -1


def globals_of_pyi(pyi):
  out = {}
  for line in pyi.splitlines():
    m = re.match(r"^(\w+): (.+)$", line)
    if m:
      out[m.group(1)] = m.group(2)
  return out


def collect(res, metas, rprefix, iprefix, cls_key, read_key, use_key=None):
  """Project one pytype result onto per-hierarchy observations."""
  g = globals_of_pyi(res["pyi"])
  attr_err = set()
  mro_err = set()
  other = []
  for name, line, msg in res["errors"]:
    if name == "mro-error":
      mro_err.add(line)
    elif name == "attribute-error":
      attr_err.add(line)
    else:
      other.append([name, line, msg[:200]])
  out = []
  known_lines = set()
  for k, m in enumerate(metas):
    errs = sorted(c for line, c in m[cls_key].items() if line in mro_err)
    known_lines |= set(m[cls_key])
    if use_key:
      errs += sorted(c for line, c in m[use_key].items() if line in mro_err)
      known_lines |= set(m[use_key])
    bylines = {}
    for line, n in m[read_key].items():
      bylines.setdefault(n, []).append(line)
    reads = []
    for n, (c, x, y) in enumerate(m["reads"]):
      vals = []
      for pref, line in zip((rprefix, iprefix), sorted(bylines[n])):
        t = g.get("%s_%d_%d" % (pref, k, n), "<missing>")
        if line in attr_err:
          vals.append(0)
        else:
          vals.append(definer(t))
      reads.append([c, x, y] + vals)
    out.append({"mroerr": errs, "reads": reads})
  stray = sorted(mro_err - known_lines)
  for line in stray:
    other.append(["mro-error", line, "mro-error on an unexpected line"])
  return out, other


_serial = 0


def work(item):
  """Worker: all observations for one batch of hierarchies.  Returns (cases, other_errors)."""
  bid, hs, sdir = item
  boot.boot()
  from pytype.pytd import mro as mro_lib
  os.makedirs(sdir, exist_ok=True)
  global _serial
  _serial += 1
  mod = "c10s_%d_%d_%d" % (os.getpid(), _serial, bid)
  src, smeta = render_source(hs)
  stub = render_stub(hs)
  reader, rmeta = render_reader(hs, mod)
  stub_path = os.path.join(sdir, mod + ".pyi")
  with open(stub_path, "w") as f:
    f.write(stub)
  cases = []
  others = []
  try:
    # --- CPython
    ns = {}
    exec(compile(src, "<c10-src>", "exec"), ns)   # pylint: disable=exec-used
    # --- pytype: source program, reader over the stub
    rs = pyt.analyze(src, pythonpath=sdir)
    rr = pyt.analyze(reader, pythonpath=sdir)
    for r, what in ((rs, "source"), (rr, "reader")):
      if r["outcome"] != "result":
        raise common.Machinery("pytype did not analyse the %s module: %s %s" % (
            what, r["outcome"], r["exc"] or r["errors"]))
    sobs, o1 = collect(rs, smeta, "rs", "is", "cls", "rline")
    tobs, o2 = collect(rr, rmeta, "rt", "it", "use", "rline")
    # the `use` lines carry the stub-level MRO errors; class lines of M_* the mix-level ones
    mobs, _ = collect(rr, rmeta, "rm", "im", "cls", "mline")
    # lines known to either projection are not stray
    o2 = [e for e in o2 if not (e[0] == "mro-error" and any(e[1] in m["cls"] for m in rmeta))]
    others = [["source"] + e for e in o1] + [["reader"] + e for e in o2]
    # --- pytd level: the loaded stub
    ast = pyt._loader.import_name(mod)   # pylint: disable=protected-access
    for k, h in enumerate(hs):
      p = "H%d_" % k
      st, mros = cpython_types(h)
      py_reads = []
      for n, (c, x, y) in enumerate(smeta[k]["reads"]):
        py_reads.append([c, x, y, definer(type(ns["rs_%d_%d" % (k, n)]).__name__),
                         definer(type(ns["is_%d_%d" % (k, n)]).__name__)])
      merge, pytd = [], []
      names = {"builtins.object": 0}
      for c in range(1, len(h["bases"]) + 1):
        names["%s.%s" % (mod, cname(p, c))] = c
      for c, bs in enumerate(h["bases"], 1):
        # level 1a: MROMerge on the spec's merge input (MROs of the bases are the spec's)
        eb = bs or [0]
        inp = [[c]] + [([0] if b == 0 else list(h["lin"][b - 1]["mro"])) for b in eb] + [list(eb)]
        try:
          merge.append({"ok": True, "mro": list(mro_lib.MROMerge(inp))})
        except mro_lib.MROError:
          merge.append({"ok": False, "mro": []})
        # level 1b: GetBasesInMRO on the loaded pytd.Class
        node = ast.Lookup("%s.%s" % (mod, cname(p, c)))
        try:
          pytd.append({"ok": True, "mro": [c] + [names.get(t.name, -1)
                                                 for t in mro_lib.GetBasesInMRO(node)]})
        except mro_lib.MROError:
          pytd.append({"ok": False, "mro": []})
      cases.append({"bases": h["bases"],
                    "py": {"st": st, "mro": mros, "reads": py_reads},
                    "merge": merge, "pytd": pytd,
                    "src": sobs[k], "stub": tobs[k], "mix": mobs[k]})
  finally:
    try:
      os.unlink(stub_path)
    except OSError:
      pass
  return cases, others


# ---------------------------------------------------------------------------------------------

def canon(h):
  return json.dumps(h["bases"], separators=(",", ":"))


def make_batches(hs, sdir, target=260):
  """Batches of hierarchies of roughly `target` reads each (pytype is superlinear in module size)."""
  out, cur, w = [], [], 0
  for h in hs:
    cost = 2 * len(reads_of(h)) + 4 * len(h["bases"]) + 4
    if cur and w + cost > target:
      out.append(cur)
      cur, w = [], 0
    cur.append(h)
    w += cost
  if cur:
    out.append(cur)
  return [(bid, b, sdir) for bid, b in enumerate(out)]


def judge(run, hs, procs=8):
  """Observe all hierarchies and let TLC judge.  Returns number of hierarchies validated."""
  sdir = os.path.join(SCRATCH, "stubs-%d" % os.getpid())
  os.makedirs(sdir, exist_ok=True)
  try:
    items = make_batches(hs, sdir)
    t0 = time.time()
    if len(items) <= 2:
      results = [work(it) for it in items]
    else:
      results = pyt.batch(work, items, procs=procs, chunksize=1)
    run.add("pytype_wall_s", round(time.time() - t0, 1))
  finally:
    shutil.rmtree(sdir, ignore_errors=True)
  lins = {canon(h): h["lin"] for h in hs}
  cases = []
  for cs, others in results:
    cases += cs
    for o in others:
      run.diverge({"unexpected-error": o})
  run.add("pytype_modules", 2 * len(items))
  run.add("reads_judged", sum(2 * (len(c["src"]["reads"]) + len(c["stub"]["reads"])
                                   + len(c["mix"]["reads"])) for c in cases))
  run.add("statements_err", sum(1 for c in cases for s in c["py"]["st"] if s != "ok"))
  run.add("statements_ok", sum(1 for c in cases for s in c["py"]["st"] if s == "ok"))
  # TLC verdicts, in chunks (JSON size) on up to 4 JVMs
  chunk = 4000
  parts = [cases[k:k + chunk] for k in range(0, len(cases), chunk)]
  import concurrent.futures as cf

  def one(arg):
    off, part = arg
    nv, bad, r = tlc.validate_cases("TraceC10", part, cfg=TRACE_CFG, timeout=3000, heap="4g")
    common.require(bad is None and nv == len(part), "TraceC10 did not consume its cases")
    return off, tlc.parse_cases(r.out, "ORACLE"), tlc.parse_cases(r.out, "BAD"), r.distinct
  t0 = time.time()
  with cf.ThreadPoolExecutor(max_workers=4) as ex:
    outs = list(ex.map(one, [(k * chunk, p) for k, p in enumerate(parts)]))
  run.add("tlc_trace_wall_s", round(time.time() - t0, 1))
  for off, oracle, bad, distinct in outs:
    run.add("trace_states", distinct)
    if oracle:
      rec = oracle[0]
      raise common.Machinery("spec disagrees with CPython on %s: %s" % (
          json.dumps(cases[off + rec["i"] - 1]["bases"]), rec["fails"]))
    for rec in bad:
      c = cases[off + rec["i"] - 1]
      for clause, arg in rec["fails"]:
        level, what = clause.split(":", 1)
        if what == "duplicate-direct-base":
          key = "C10:duplicate-direct-base:" + level
          msg = ("no MRO error for statement %d of hierarchy %s (bases repeat; CPython: "
                 "TypeError duplicate base class) at level %s" % (arg, canon(c), level))
          run.add("dupbase_" + level)
        else:
          key = "C10:%s" % clause
          detail = c[level]["reads"][arg - 1] if what.endswith("-read") else arg
          msg = "%s on hierarchy %s: %s (spec linearisation by TLC)" % (clause, canon(c), detail)
        run.violation(key, msg, {"hier": {"bases": c["bases"], "lin": lins[canon(c)]}, "clause": clause, "arg": arg,
                                 "observed": {k: c[k] for k in ("merge", "pytd", "src", "stub", "mix")}})
  return len(cases)


def lin_of(bases):
  """Fallback for hand-written replay files without the exported `lin`: CPython (the confirmed
  oracle) decides how each statement is *rendered* (try/except or not, which reads); the verdict
  is still TLC's."""
  st, mros = cpython_types({"bases": bases})
  return [{"st": s if s in ("ok", "dup", "order") else "order", "mro": m} for s, m in zip(st, mros)]


def main():
  ap = argparse.ArgumentParser()
  ap.add_argument("--tier", default="quick")
  ap.add_argument("--replay")
  a = ap.parse_args()
  run = common.Run(PID, "model_checking", a.tier)
  boot.boot()
  if a.replay:
    with open(a.replay) as f:
      case = json.load(f)["case"]
    bases = case["hier"]["bases"]
    n = judge(run, [{"bases": bases, "lin": case["hier"].get("lin") or lin_of(bases)}])
    run.put("traces_validated_against_impl", n)
    run.put("states", 1); run.put("transitions", 1); run.sample({"bases": bases})
    return run.finish()
  thorough = run.tier == "thorough"
  # 1-3. TLC: (a) the design - C3 laws on every reachable hierarchy and every intermediate merge
  # state; (b) export of every finished hierarchy; (c) larger hierarchies from the spec's
  # generator (tlc -simulate).  The five TLC jobs run side by side.
  fams = [("plain", 5 if thorough else 4, False), ("explicit-object", 4 if thorough else 3, True)]
  nsim = 3000 if thorough else 250
  import concurrent.futures as cf
  jobs = {}
  with cf.ThreadPoolExecutor(max_workers=5) as ex:
    for label, mc, obj in fams:
      jobs["model", label] = ex.submit(tlc.run, "C3", c3_cfg(mc, obj), workers=8 if thorough else 4,
                                       timeout=3000, seed=run.seed)
      jobs["export", label] = ex.submit(tlc.run, "C3", c3_cfg(mc, obj, export=True, invs=("ExportInv",)),
                                        workers=1, timeout=3000, seed=run.seed, heap="6g")
    jobs["sim", "sim"] = ex.submit(tlc.run, "C3", c3_cfg(8, True, mf=2, export=True, invs=("ExportInv",)),
                                   workers=1, timeout=3000, seed=run.seed + 1,
                                   simulate="num=%d" % nsim, depth=200)
  states = trans = 0
  for label, mc, obj in fams:
    r = jobs["model", label].result()
    if r.violated or not r.ok:
      raise common.Machinery("C3.tla violates %s:\n%s" % (r.violated, (r.error_trace or r.out)[-3000:]))
    states += r.distinct
    trans += r.generated
    run.put("model_states_" + label, r.distinct)
    run.add("tlc_model_wall_s", round(r.wall, 1))
  run.put("states", states)
  run.put("transitions", trans)
  run.put("model_bounds", {"plain": fams[0][1], "explicit-object": fams[1][1], "MaxBases": 3})
  seen = {}
  for label, mc, obj in fams:
    r = jobs["export", label].result()
    n0 = len(seen)
    for h in r.cases:
      seen.setdefault(canon(h), h)
    run.add("tlc_export_wall_s", round(r.wall, 1))
    run.put("hierarchies_" + label, len(seen) - n0)
    common.require(len(seen) - n0 > 300, "family %s exported only %d hierarchies" % (label, len(seen) - n0))
  run.put("exhaustive", True)
  r = jobs["sim", "sim"].result()
  n0 = len(seen)
  for h in r.cases:
    seen.setdefault(canon(h), h)
  run.add("tlc_export_wall_s", round(r.wall, 1))
  run.put("hierarchies_simulated", len(seen) - n0)
  common.require(len(seen) - n0 > nsim // 2, "simulation produced %d hierarchies" % (len(seen) - n0))
  hs = list(seen.values())
  n = judge(run, hs, procs=8)
  run.put("traces_validated_against_impl", n)
  run.put("evaluations", n)
  nontriv = sum(1 for h in hs if any(len(set(b)) >= 2 for b in h["bases"]))
  run.put("distinct_nontrivial", nontriv)
  run.put("rule", "one case = one hierarchy (sequence of class statements) observed at 6 levels; "
          "non-trivial = some statement has >= 2 distinct bases")
  run.sample({"hierarchy": hs[len(hs) // 2]["bases"], "lin": hs[len(hs) // 2]["lin"]})
  common.require(run.cov["statements_err"] > 200 and run.cov["statements_ok"] > 1000
                 and run.cov["reads_judged"] > 10000 and nontriv > 300,
                 "vacuity: too few failing/succeeding statements or reads")
  run.assumptions += [
      "classes are plain (no metaclasses, generics, __slots__ or __mro_entries__); object is implicit "
      "or written explicitly",
      "attribute order is observed pairwise: for every pair of classes an attribute defined by "
      "exactly those two, read through every class/instance that inherits it",
      "ill-formed stub classes: the MRO error is expected where the reader first uses the class"]
  return run.finish()


if __name__ == "__main__":
  common.main(PID, main)

"""C10 - class linearisation agrees with CPython's MRO.

spec: specs/C3Ops.tla (pure C3 merge, laws), specs/C3.tla (class statements + merge as a step
machine).  TLC checks the C3 laws on every hierarchy within the bounds and exports every
finished hierarchy; tlc -simulate draws larger ones (<= 8 classes).

spec -> CPython -> pytype: every exported hierarchy is
  py    created under CPython (type(name, bases, {}) per statement; the rendered source program
        is executed as well) - must equal the spec, else machinery failure (exit 2);
  merge handed to mro.MROMerge (the lists the spec hands to its own merge);
  pytd  written as a .pyi, loaded by the real loader, mro.GetBasesInMRO on every pytd.Class;
  src   rendered as a source program: failing class statements inside try/except TypeError,
        one attribute per pair of classes (defined by exactly those two), read through every
        class and every instance that inherits it; [mro-error] lines recorded;
  stub  the same reads by a reader module that imports the .pyi;
  mix   source classes in the reader whose bases are the stub classes.
code -> spec: TraceC10.tla replays each hierarchy with C3's own actions and judges all recorded
observations (ORACLE lines: CPython differs from the spec; BAD lines: pytype differs).

Two further families (kinds) of cases come from the same spec:
  gen   class statements whose bases are generic classes under several spellings (`K`, `K[int]`,
        `K[str]`, `K[T]`, a trailing `Generic[T]`): the linearisation and the duplicate-base test
        work on the origins; observed at levels py, src, mix (statements + reads) and stub (reads
        through the stub classes of the statements that succeed);
  hist  attribute histories: class statements (the body may define `tag`), `K.tag = v` on an
        existing class and reads of `tag` through a class / an old instance / a fresh instance,
        in any order; CPython executes the program, pytype analyses it, and TLC judges every read
        against the definition the spec's Read action recorded (first class of the MRO whose
        dictionary has `tag` at that moment).
"""
import argparse
import itertools
import json
import os
import random
import re
import shutil
import sys
import time

sys.path.insert(0, os.path.dirname(os.path.abspath(__file__)))
import boot  # noqa: E402
import common  # noqa: E402
import pyt  # noqa: E402
import tlc  # noqa: E402

PID = "C10"
MODEL_INVS = ("TypeOK", "MachineIsFunction", "LawsHold", "MergeInv", "LookupSane", "HistInv")
SCRATCH = os.path.join(common.VERIF, "build", "c10")
NT = 8   # marker types T1..T8 (one per statement index)
NTH = 16  # marker types T0..T16 of history programs (one per program step; T0: attribute missing)
GEN = 99  # spec code of the base `Generic[T]`
SUFFIX = {0: "", 1: "[int]", 2: "[str]", 3: "[T]"}
TYPING_PRELUDE = ["from typing import Generic, TypeVar", 'T = TypeVar("T")']


def tla_set(xs):
  return "{%s}" % ", ".join(('"%s"' % x) if isinstance(x, str) else str(x) for x in xs)


def c3_cfg(mc, obj, mf=None, export=False, invs=MODEL_INVS, spec="SPECIFICATION Spec", mb=3,
           spellings=(0,), generic=False, defs=False, events=0, modes=("all",)):
  return ("%s\nCONSTANTS MaxClasses = %d\n MaxBases = %d\n AllowObject = %s\n MaxFail = %d\n"
          " Export = %s\n Spellings = %s\n AllowGeneric = %s\n AllowDef = %s\n MaxEvents = %d\n"
          " Modes = %s\n" % (spec, mc, mb, "TRUE" if obj else "FALSE", mc if mf is None else mf,
                            "TRUE" if export else "FALSE", tla_set(spellings),
                            "TRUE" if generic else "FALSE", "TRUE" if defs else "FALSE", events,
                            tla_set(modes))
          + "".join("INVARIANT %s\n" % i for i in invs))


ALL_MODES = ("cls", "old", "new", "all")
TRACE_CFG = ("INIT TInit\nNEXT TNext\nCONSTANTS MaxClasses = 1000\n MaxBases = 3\n"
             " AllowObject = TRUE\n MaxFail = 1000\n Export = FALSE\n Spellings = {0, 1, 2, 3}\n"
             " AllowGeneric = TRUE\n AllowDef = TRUE\n MaxEvents = 1000\n Modes = %s\n"
             "INVARIANT Ok\nPOSTCONDITION Done\n" % tla_set(ALL_MODES))


# ---------------------------------------------------------------------------------------------
# rendering (spec hierarchy -> programs).  h = {"bases": [[..]..], "lin": [{"st","mro"}..]}

def oks(h):
  return [c for c in range(1, len(h["bases"]) + 1) if h["lin"][c - 1]["st"] == "ok"]


MAX_PAIRS = 8


def pairs_of(h):
  """Attributes of the rendered programs: one per pair of (successfully created) classes; for
  hierarchies with more than MAX_PAIRS pairs a deterministic sample of MAX_PAIRS of them."""
  ps = list(itertools.combinations(oks(h), 2))
  if len(ps) > MAX_PAIRS:
    rng = random.Random(canon(h))
    ps = sorted(rng.sample(ps, MAX_PAIRS))
  return ps


def reads_of(h):
  """(c, x, y): attribute p_x_y (defined by classes x and y only) read through class c, for every
  c that inherits it according to the spec (so the program also runs under CPython)."""
  out = []
  for c in oks(h):
    m = h["lin"][c - 1]["mro"]
    for (x, y) in pairs_of(h):
      if x in m or y in m:
        out.append((c, x, y))
  return out


def cname(p, c, mod=""):
  return "object" if c == 0 else "%s%sK%d" % (mod, p, c)


def bname(p, b, mod=""):
  """Written form of the base spelling b (spec code origin + 100 * spelling)."""
  if b == GEN:
    return "Generic[T]"
  return cname(p, b % 100, mod) + SUFFIX[b // 100]


def stub_bname(p, b):
  """Base spelling inside the stub: K[int] / K[str] are written bare there (a stub that binds one
  type variable to two types through different bases is refused as a whole by the loader -
  VerifyContainers - which is not the property under test); K[T] and Generic[T] are kept."""
  return bname(p, b if (b == GEN or b // 100 in (0, 3)) else b % 100)


def kind_of(h):
  return h.get("kind", "hier")


def class_stmt(h, c, name, base_name, tname, failing, lines, where, body=None):
  """Append class statement c; where[len(lines)+1] is its `class` line."""
  bs = h["bases"][c - 1]
  head = "class %s%s:" % (name, "(%s)" % ", ".join(base_name(b) for b in bs) if bs else "")
  if body is None:
    body = ["  p_%d_%d = %s" % (x, y, tname(c)) for (x, y) in pairs_of(h) if c in (x, y)]
  body = body or ["  pass"]
  if failing:
    lines.append("try:")
    where[len(lines) + 1] = c
    lines.append("  " + head)
    lines += ["  " + b for b in body]
    lines += ["except TypeError:", "  pass"]
  else:
    where[len(lines) + 1] = c
    lines.append(head)
    lines += body


def render_source(hs):
  """One module for a batch of hierarchies.  Returns (text, meta); meta[k] = dict(cls={line: c},
  reads=[(c,x,y)], rline={line: read index})."""
  lines = list(TYPING_PRELUDE) if any(kind_of(h) == "gen" for h in hs) else []
  lines += ["class T%d: pass" % k for k in range(1, NT + 1)]
  lines += ["t%d = T%d()" % (k, k) for k in range(1, NT + 1)]
  meta = []
  for k, h in enumerate(hs):
    p = "H%d_" % k
    m = {"cls": {}, "reads": reads_of(h), "rline": {}}
    for c in range(1, len(h["bases"]) + 1):
      class_stmt(h, c, cname(p, c), lambda b, p=p: bname(p, b), lambda c: "t%d" % c,
                 h["lin"][c - 1]["st"] != "ok", lines, m["cls"])
    for c in sorted({r[0] for r in m["reads"]}):
      lines.append("o_%s = %s()" % (cname(p, c), cname(p, c)))
    for n, (c, x, y) in enumerate(m["reads"]):
      m["rline"][len(lines) + 1] = n
      lines.append("rs_%d_%d = %s.p_%d_%d" % (k, n, cname(p, c), x, y))
      m["rline"][len(lines) + 1] = n
      lines.append("is_%d_%d = o_%s.p_%d_%d" % (k, n, cname(p, c), x, y))
    meta.append(m)
  return "\n".join(lines) + "\n", meta


def render_stub(hs):
  gen = any(kind_of(h) == "gen" for h in hs)
  lines = ["from typing import Generic, TypeVar", "T = TypeVar('T')"] if gen else []
  lines += ["class T%d: ..." % k for k in range(1, NT + 1)]
  for k, h in enumerate(hs):
    p = "H%d_" % k
    for c in range(1, len(h["bases"]) + 1):
      bs = h["bases"][c - 1]
      if kind_of(h) == "gen" and h["lin"][c - 1]["st"] != "ok":
        continue   # generic family: the stub holds the classes that exist
      head = "class %s%s:" % (cname(p, c), "(%s)" % ", ".join(stub_bname(p, b) for b in bs) if bs else "")
      body = ["    p_%d_%d: T%d" % (x, y, c) for (x, y) in pairs_of(h) if c in (x, y)]
      if body:
        lines.append(head)
        lines += body
      else:
        lines.append(head + " ...")
  return "\n".join(lines) + "\n"


def render_reader(hs, mod):
  """Reader of the stub module: uses of ill-formed stub classes, reads through stub classes,
  and source classes M_* over stub bases with the same reads."""
  lines = list(TYPING_PRELUDE) if any(kind_of(h) == "gen" for h in hs) else []
  lines += ["import %s" % mod]
  lines += ["t%d = %s.T%d()" % (k, mod, k) for k in range(1, NT + 1)]
  meta = []
  for k, h in enumerate(hs):
    p = "H%d_" % k
    m = {"use": {}, "cls": {}, "reads": reads_of(h), "rline": {}, "mline": {}}
    for c in range(1, len(h["bases"]) + 1):
      if h["lin"][c - 1]["st"] != "ok" and kind_of(h) != "gen":
        m["use"][len(lines) + 1] = c
        lines.append("u_%d_%d = %s" % (k, c, cname(p, c, mod + ".")))
    rcls = sorted({r[0] for r in m["reads"]})
    for c in rcls:
      lines.append("o_%s = %s()" % (cname(p, c), cname(p, c, mod + ".")))
    for n, (c, x, y) in enumerate(m["reads"]):
      m["rline"][len(lines) + 1] = n
      lines.append("rt_%d_%d = %s.p_%d_%d" % (k, n, cname(p, c, mod + "."), x, y))
      m["rline"][len(lines) + 1] = n
      lines.append("it_%d_%d = o_%s.p_%d_%d" % (k, n, cname(p, c), x, y))
    for c in range(1, len(h["bases"]) + 1):
      class_stmt(h, c, "M_" + cname(p, c), lambda b, p=p: bname(p, b, mod + "."),
                 lambda c: "t%d" % c, h["lin"][c - 1]["st"] != "ok", lines, m["cls"])
    for c in rcls:
      lines.append("om_%s = M_%s()" % (cname(p, c), cname(p, c)))
    for n, (c, x, y) in enumerate(m["reads"]):
      m["mline"][len(lines) + 1] = n
      lines.append("rm_%d_%d = M_%s.p_%d_%d" % (k, n, cname(p, c), x, y))
      m["mline"][len(lines) + 1] = n
      lines.append("im_%d_%d = om_%s.p_%d_%d" % (k, n, cname(p, c), x, y))
    meta.append(m)
  return "\n".join(lines) + "\n", meta


READ_EXPR = {"cls": "%s.tag", "old": "o_%s.tag", "new": "%s().tag"}


def modes_of(m):
  return ["cls", "old", "new"] if m == "all" else [m]


def render_hist(hs):
  """One module for a batch of attribute histories.  meta[k] = dict(cls={line: statement},
  rd={step: [(variable, line)]}).  Step s defines / assigns the marker value t<s>; a read the spec
  answers with "no such attribute" (exp 0) is wrapped in try/except AttributeError (value t0)."""
  lines = list(TYPING_PRELUDE)
  lines += ["class T%d: pass" % k for k in range(0, NTH + 1)]
  lines += ["t%d = T%d()" % (k, k) for k in range(0, NTH + 1)]
  meta = []
  for k, h in enumerate(hs):
    p = "H%d_" % k
    m = {"cls": {}, "rd": {}}
    common.require(len(h["prog"]) <= NTH, "history longer than %d steps" % NTH)
    c = 0
    for s, st in enumerate(h["prog"], 1):
      if st["op"] == "class":
        c += 1
        ok = h["lin"][c - 1]["st"] == "ok"
        class_stmt(h, c, cname(p, c), lambda b, p=p: bname(p, b), None, not ok, lines, m["cls"],
                   body=["  tag = t%d" % s] if st["def"] else ["  pass"])
        if ok:
          lines.append("o_%s = %s()" % (cname(p, c), cname(p, c)))
      elif st["op"] == "assign":
        lines.append("%s.tag = t%d" % (cname(p, st["c"]), s))
      else:
        m["rd"][s] = []
        for q, mode in enumerate(modes_of(st["m"])):
          var = "h_%d_%d_%d" % (k, s, q)
          expr = READ_EXPR[mode] % cname(p, st["c"])
          if st["exp"] == 0:
            lines.append("try:")
            m["rd"][s].append((var, len(lines) + 1))
            lines += ["  %s = %s" % (var, expr), "except AttributeError:", "  %s = t0" % var]
          else:
            m["rd"][s].append((var, len(lines) + 1))
            lines.append("%s = %s" % (var, expr))
    meta.append(m)
  return "\n".join(lines) + "\n", meta


def collect_hist(res, metas, hs):
  """Project the pytype result of a history module onto per-history observations."""
  g = globals_of_pyi(res["pyi"])
  attr_err, mro_err, other = set(), set(), []
  for name, line, msg in res["errors"]:
    if name == "mro-error":
      mro_err.add(line)
    elif name == "attribute-error":
      attr_err.add(line)
    else:
      other.append([name, line, msg[:200]])
  out, known = [], set()
  for m, h in zip(metas, hs):
    known |= set(m["cls"])
    obs = []
    for s in range(1, len(h["prog"]) + 1):
      obs.append([0 if line in attr_err else definer(g.get(var, "<missing>"))
                  for var, line in m["rd"].get(s, [])])
      known |= {line for _, line in m["rd"].get(s, [])}
    out.append({"mroerr": sorted(c for line, c in m["cls"].items() if line in mro_err), "obs": obs})
  for line in sorted((mro_err | attr_err) - known):
    other.append(["mro-or-attribute-error", line, "error on an unexpected line"])
  return out, other


def work_hist(hs):
  src, meta = render_hist(hs)
  ns = {}
  exec(compile(src, "<c10-hist>", "exec"), ns)   # pylint: disable=exec-used
  rs = pyt.analyze(src)
  if rs["outcome"] != "result":
    raise common.Machinery("pytype did not analyse the history module: %s %s" % (
        rs["outcome"], rs["exc"] or rs["errors"]))
  sobs, others = collect_hist(rs, meta, hs)
  cases = []
  for k, h in enumerate(hs):
    st, mros = cpython_types(h)
    py_obs = [[definer(type(ns[var]).__name__) for var, _ in meta[k]["rd"].get(s, [])]
              for s in range(1, len(h["prog"]) + 1)]
    prog = [{"op": x["op"], "bases": x["bases"], "def": x["def"], "c": x["c"], "m": x["m"]}
            for x in h["prog"]]
    cases.append({"kind": "hist", "bases": h["bases"], "prog": prog,
                  "py": {"st": st, "mro": mros, "obs": py_obs}, "src": sobs[k]})
  return cases, [["history"] + e for e in others]


# ---------------------------------------------------------------------------------------------
# CPython as the oracle of the spec

_TV = None


def cpython_types(h):
  """The class object CPython makes of every statement (types.new_class: type(name, bases, {})
  after __mro_entries__ has replaced subscripted generic bases) -> (st list, mro list)."""
  import types
  import typing
  global _TV
  if _TV is None:
    _TV = typing.TypeVar("T")
  cls = {0: object}
  ident = {object: 0, typing.Generic: GEN}
  args = {1: int, 2: str, 3: _TV}

  def written(b):
    if b == GEN:
      return typing.Generic[_TV]
    k = cls[b % 100]
    return k if b < 100 else k[args[b // 100]]
  st, mros = [], []
  for c, bs in enumerate(h["bases"], 1):
    try:
      k = types.new_class("K%d" % c, tuple(written(b) for b in bs))
    except TypeError as e:
      msg = str(e)
      if "duplicate base class" in msg:
        st.append("dup")
      elif "consistent method resolution" in msg:
        st.append("order")
      else:
        st.append("other:" + msg)
      mros.append([])
      continue
    cls[c] = k
    ident[k] = c
    st.append("ok")
    mros.append([ident[x] for x in k.__mro__])
  return st, mros


_T = re.compile(r"^(?:[\w.]+\.)?T(\d+)$")


def definer(typ):
  m = _T.match(typ.strip())
  return int(m.group(1)) if m else -1


def globals_of_pyi(pyi):
  out = {}
  for line in pyi.splitlines():
    m = re.match(r"^(\w+): (.+)$", line)
    if m:
      out[m.group(1)] = m.group(2)
  return out


def collect(res, metas, rprefix, iprefix, cls_key, read_key, use_key=None):
  """Project one pytype result onto per-hierarchy observations."""
  g = globals_of_pyi(res["pyi"])
  attr_err = set()
  mro_err = set()
  other = []
  for name, line, msg in res["errors"]:
    if name == "mro-error":
      mro_err.add(line)
    elif name == "attribute-error":
      attr_err.add(line)
    else:
      other.append([name, line, msg[:200]])
  out = []
  known_lines = set()
  for k, m in enumerate(metas):
    errs = sorted(c for line, c in m[cls_key].items() if line in mro_err)
    known_lines |= set(m[cls_key])
    if use_key:
      errs += sorted(c for line, c in m[use_key].items() if line in mro_err)
      known_lines |= set(m[use_key])
    bylines = {}
    for line, n in m[read_key].items():
      bylines.setdefault(n, []).append(line)
    reads = []
    for n, (c, x, y) in enumerate(m["reads"]):
      vals = []
      for pref, line in zip((rprefix, iprefix), sorted(bylines[n])):
        t = g.get("%s_%d_%d" % (pref, k, n), "<missing>")
        if line in attr_err:
          vals.append(0)
        else:
          vals.append(definer(t))
      reads.append([c, x, y] + vals)
    out.append({"mroerr": errs, "reads": reads})
  stray = sorted(mro_err - known_lines)
  for line in stray:
    other.append(["mro-error", line, "mro-error on an unexpected line"])
  return out, other


_serial = 0


def work(item):
  """Worker: all observations for one batch of hierarchies.  Returns (cases, other_errors, cpu)."""
  t0 = time.time()
  cases, others = work1(item)
  return cases, others, (kind_of(item[1][0]), time.time() - t0)


def work1(item):
  bid, hs, sdir = item
  boot.boot()
  kind = kind_of(hs[0])
  if kind == "hist":
    return work_hist(hs)
  from pytype.pytd import mro as mro_lib
  os.makedirs(sdir, exist_ok=True)
  global _serial
  _serial += 1
  mod = "c10s_%d_%d_%d" % (os.getpid(), _serial, bid)
  src, smeta = render_source(hs)
  stub = render_stub(hs)
  reader, rmeta = render_reader(hs, mod)
  stub_path = os.path.join(sdir, mod + ".pyi")
  with open(stub_path, "w") as f:
    f.write(stub)
  cases = []
  others = []
  try:
    # --- CPython
    ns = {}
    exec(compile(src, "<c10-src>", "exec"), ns)   # pylint: disable=exec-used
    # --- pytype: source program, reader over the stub
    rs = pyt.analyze(src, pythonpath=sdir)
    rr = pyt.analyze(reader, pythonpath=sdir)
    for r, what in ((rs, "source"), (rr, "reader")):
      if r["outcome"] != "result":
        raise common.Machinery("pytype did not analyse the %s module: %s %s" % (
            what, r["outcome"], r["exc"] or r["errors"]))
    sobs, o1 = collect(rs, smeta, "rs", "is", "cls", "rline")
    tobs, o2 = collect(rr, rmeta, "rt", "it", "use", "rline")
    # the `use` lines carry the stub-level MRO errors; class lines of M_* the mix-level ones
    mobs, _ = collect(rr, rmeta, "rm", "im", "cls", "mline")
    # lines known to either projection are not stray
    o2 = [e for e in o2 if not (e[0] == "mro-error" and any(e[1] in m["cls"] for m in rmeta))]
    others = [["source"] + e for e in o1] + [["reader"] + e for e in o2]
    # --- pytd level: the loaded stub
    ast = pyt._loader.import_name(mod)   # pylint: disable=protected-access
    for k, h in enumerate(hs):
      p = "H%d_" % k
      st, mros = cpython_types(h)
      py_reads = []
      for n, (c, x, y) in enumerate(smeta[k]["reads"]):
        py_reads.append([c, x, y, definer(type(ns["rs_%d_%d" % (k, n)]).__name__),
                         definer(type(ns["is_%d_%d" % (k, n)]).__name__)])
      if kind == "gen":
        cases.append({"kind": "gen", "bases": h["bases"],
                      "py": {"st": st, "mro": mros, "reads": py_reads},
                      "src": sobs[k], "stub": tobs[k], "mix": mobs[k]})
        continue
      merge, pytd = [], []
      names = {"builtins.object": 0}
      for c in range(1, len(h["bases"]) + 1):
        names["%s.%s" % (mod, cname(p, c))] = c
      for c, bs in enumerate(h["bases"], 1):
        # level 1a: MROMerge on the spec's merge input (MROs of the bases are the spec's)
        eb = bs or [0]
        inp = [[c]] + [([0] if b == 0 else list(h["lin"][b - 1]["mro"])) for b in eb] + [list(eb)]
        try:
          merge.append({"ok": True, "mro": list(mro_lib.MROMerge(inp))})
        except mro_lib.MROError:
          merge.append({"ok": False, "mro": []})
        # level 1b: GetBasesInMRO on the loaded pytd.Class
        node = ast.Lookup("%s.%s" % (mod, cname(p, c)))
        try:
          pytd.append({"ok": True, "mro": [c] + [names.get(t.name, -1)
                                                 for t in mro_lib.GetBasesInMRO(node)]})
        except mro_lib.MROError:
          pytd.append({"ok": False, "mro": []})
      cases.append({"kind": "hier", "bases": h["bases"],
                    "py": {"st": st, "mro": mros, "reads": py_reads},
                    "merge": merge, "pytd": pytd,
                    "src": sobs[k], "stub": tobs[k], "mix": mobs[k]})
  finally:
    try:
      os.unlink(stub_path)
    except OSError:
      pass
  return cases, others


# ---------------------------------------------------------------------------------------------

def canon(h):
  return json.dumps(h["bases"], separators=(",", ":"))


def ident(h):
  """Identity of a case: kind + program (histories) or kind + hierarchy."""
  if kind_of(h) == "hist":
    return "hist:" + json.dumps([[x["op"], x["bases"], x["def"], x["c"], x["m"]] for x in h["prog"]],
                                separators=(",", ":"))
  return kind_of(h) + ":" + canon(h)


def cost_of(h):
  if kind_of(h) == "hist":
    return 2 * len(h["prog"]) + 2 * sum(len(modes_of(x["m"])) for x in h["prog"] if x["op"] == "read") + 4
  return 2 * len(reads_of(h)) + 4 * len(h["bases"]) + 4


def make_batches(hs, sdir, target=260):
  """Batches of hierarchies of one kind of roughly `target` reads each (pytype is superlinear in
  module size)."""
  out = []
  for kind in ("hier", "gen", "hist"):
    cur, w = [], 0
    for h in hs:
      if kind_of(h) != kind:
        continue
      cost = cost_of(h)
      if cur and w + cost > target:
        out.append(cur)
        cur, w = [], 0
      cur.append(h)
      w += cost
    if cur:
      out.append(cur)
  return [(bid, b, sdir) for bid, b in enumerate(out)]


def hist_stats(run, h):
  """Coverage of one history (from the spec's exported expectations; not a verdict)."""
  last = {}      # class -> (by, exp) of the latest read through it
  lin = h["lin"]
  for x in h["prog"]:
    if x["op"] == "assign":
      run.add("hist_assigns")
    elif x["op"] == "read":
      run.add("hist_reads")
      c, by, exp = x["c"], x["by"], x["exp"]
      if exp == 0:
        run.add("hist_reads_missing")
      if c in last and last[c][1] != exp:
        run.add("hist_reads_answer_changed")
        pby = last[c][0]
        mro = lin[c - 1]["mro"]
        if pby and by and by != pby and mro.index(by) < mro.index(pby):
          # read, then `tag` appears on a class EARLIER in the MRO than the previous answer, read again
          run.add("hist_reads_shadowed_after_read")
        if pby == 0 and by:
          run.add("hist_reads_found_after_missing")
      last[c] = (by, exp)


def gen_stats(run, h):
  for bs, l in zip(h["bases"], h["lin"]):
    sub = [b for b in bs if b != GEN and b >= 100]
    if not sub:
      continue
    if l["st"] == "ok":
      run.add("gen_ok_statements_subscripted")
    elif l["st"] == "order":
      run.add("gen_order_statements_subscripted")
    else:
      run.add("gen_dup_statements_subscripted")
      orig = [b % 100 for b in bs]
      if any(orig[x] == orig[y] and bs[x] != bs[y] for x in range(len(bs)) for y in range(x)):
        run.add("gen_dup_mixed_spellings")   # same class twice under DIFFERENT spellings


def describe(c, rec, clause, arg):
  """Human-readable account of one failing clause (data: the case and TLC's BAD record)."""
  level, what = clause.split(":", 1)
  if what in ("stale-read-after-assign", "history-read"):
    step = rec["hist"][arg - 1]
    prog = " ; ".join(
        ("class K%d(%s)%s" % (sum(1 for y in c["prog"][:n + 1] if y["op"] == "class"),
                              ",".join(bname("", b) for b in x["bases"]), " tag=t%d" % (n + 1) if x["def"] else ""))
        if x["op"] == "class" else
        ("K%d.tag=t%d" % (x["c"], n + 1)) if x["op"] == "assign" else
        ("read[%s] K%d.tag" % (x["m"], x["c"]))
        for n, x in enumerate(c["prog"]))
    exp = ("the definition of step %d on K%d (first class of the MRO whose dictionary has `tag` now)"
           % (step["exp"], step["by"])) if step["exp"] else "no definition (AttributeError)"
    return ("%s at step %d of history [%s]: read of `tag` through K%d (%s) observed markers %s "
            "(0 = attribute-error, -1 = other type) but CPython and the spec find %s%s" % (
                clause, arg, prog, step["c"], step["m"], c[level]["obs"][arg - 1], exp,
                "; the observed value is what an EARLIER read through the same class had found "
                "(stale answer after a later assignment on the MRO)"
                if what == "stale-read-after-assign" else ""))
  detail = c[level]["reads"][arg - 1] if what.endswith("-read") else arg
  return "%s on hierarchy %s: %s (spec linearisation by TLC)" % (clause, canon(c), detail)


def judge(run, hs, procs=8):
  """Observe all hierarchies and let TLC judge.  Returns number of hierarchies validated."""
  sdir = os.path.join(SCRATCH, "stubs-%d" % os.getpid())
  os.makedirs(sdir, exist_ok=True)
  try:
    items = make_batches(hs, sdir)
    t0 = time.time()
    if len(items) <= 2:
      results = [work(it) for it in items]
    else:
      results = pyt.batch(work, items, procs=procs, chunksize=1)
    run.add("pytype_wall_s", round(time.time() - t0, 1))
  finally:
    shutil.rmtree(sdir, ignore_errors=True)
  byid = {ident(h): h for h in hs}
  cases = []
  for cs, others, (kind, secs) in results:
    cases += cs
    run.add("worker_s_" + kind, round(secs, 2))
    for o in others:
      run.diverge({"unexpected-error": o})
  for k in [k for k in run.cov if k.startswith("worker_s_")]:
    run.cov[k] = round(run.cov[k], 1)
  run.add("pytype_modules", sum(1 if kind_of(it[1][0]) == "hist" else 2 for it in items))
  for c in cases:
    run.add("cases_" + c["kind"])
    if c["kind"] == "hist":
      run.add("hist_reads_judged", sum(len(o) for o in c["src"]["obs"]))
      continue
    n = 2 * (len(c["src"]["reads"]) + len(c["stub"]["reads"]) + len(c["mix"]["reads"]))
    run.add("reads_judged" if c["kind"] == "hier" else "gen_reads_judged", n)
    if c["kind"] == "hier":
      run.add("statements_err", sum(1 for s in c["py"]["st"] if s != "ok"))
      run.add("statements_ok", sum(1 for s in c["py"]["st"] if s == "ok"))
  # TLC verdicts, in chunks (JSON size) on up to 4 JVMs
  chunk = 4000
  parts = [cases[k:k + chunk] for k in range(0, len(cases), chunk)]
  import concurrent.futures as cf

  def one(arg):
    off, part = arg
    nv, bad, r = tlc.validate_cases("TraceC10", part, cfg=TRACE_CFG, timeout=3000, heap="4g")
    common.require(bad is None and nv == len(part), "TraceC10 did not consume its cases")
    for cov in tlc.parse_cases(r.out, "COV"):
      run.add("%s_reads_wellTyped" % cov["kind"], cov["judged"])
      run.add("%s_reads_illTyped_notJudged" % cov["kind"], cov["total"] - cov["judged"])
    return off, tlc.parse_cases(r.out, "ORACLE"), tlc.parse_cases(r.out, "BAD"), r.distinct
  t0 = time.time()
  with cf.ThreadPoolExecutor(max_workers=4) as ex:
    outs = list(ex.map(one, [(k * chunk, p) for k, p in enumerate(parts)]))
  run.add("tlc_trace_wall_s", round(time.time() - t0, 1))
  for off, oracle, bad, distinct in outs:
    run.add("trace_states", distinct)
    if oracle:
      rec = oracle[0]
      c = cases[off + rec["i"] - 1]
      raise common.Machinery("spec disagrees with CPython on %s %s: %s" % (
          c["kind"], json.dumps(c.get("prog") or c["bases"]), rec["fails"]))
    for rec in bad:
      c = cases[off + rec["i"] - 1]
      h = byid[ident(c)]
      for clause, arg in rec["fails"]:
        level, what = clause.split(":", 1)
        if what == "duplicate-direct-base":
          key = "C10:duplicate-direct-base:" + level
          msg = ("no MRO error for statement %d of hierarchy %s (bases repeat%s; CPython: "
                 "TypeError duplicate base class) at level %s" % (
                     arg, canon(c), " as %s" % ", ".join(bname("", b) for b in c["bases"][arg - 1])
                     if c["kind"] != "hier" else "", level))
          run.add("dupbase_" + level)
        else:
          key = "C10:%s" % clause
          msg = describe(c, rec, clause, arg)
        hier = {"kind": c["kind"], "bases": c["bases"], "lin": h["lin"]}
        if c["kind"] == "hist":
          hier["prog"] = h["prog"]
        run.violation(key, msg, {"hier": hier, "clause": clause, "arg": arg,
                                 "observed": {k: c[k] for k in ("merge", "pytd", "src", "stub", "mix")
                                              if k in c}})
  return len(cases)


def lin_of(bases):
  """Fallback for hand-written replay files without the exported `lin`: CPython (the confirmed
  oracle) decides how each statement is *rendered* (try/except or not, which reads); the verdict
  is still TLC's."""
  st, mros = cpython_types({"bases": bases})
  return [{"st": s if s in ("ok", "dup", "order") else "order", "mro": m} for s, m in zip(st, mros)]


def note(msg):
  sys.stderr.write("[c10 %s] %s\n" % (time.strftime("%H:%M:%S"), msg))
  sys.stderr.flush()


def tag_kind(cases, kind):
  """Cases exported by TLC -> driver records of one kind (hist keeps the program, the others only
  the hierarchy: replaying the class statements alone is a behaviour of the spec as well)."""
  out = []
  for h in cases:
    r = {"kind": kind, "bases": h["bases"], "lin": h["lin"]}
    if kind == "hist":
      r["prog"] = h["prog"]
    out.append(r)
  return out


def main():
  ap = argparse.ArgumentParser()
  ap.add_argument("--tier", default="quick")
  ap.add_argument("--replay")
  a = ap.parse_args()
  run = common.Run(PID, "model_checking", a.tier)
  boot.boot()
  if a.replay:
    with open(a.replay) as f:
      case = json.load(f)["case"]
    hier = case["hier"]
    bases = hier["bases"]
    h = {"kind": hier.get("kind", "hier"), "bases": bases, "lin": hier.get("lin") or lin_of(bases)}
    if h["kind"] == "hist":
      h["prog"] = hier["prog"]
    n = judge(run, [h])
    run.put("traces_validated_against_impl", n)
    run.put("states", 1); run.put("transitions", 1); run.sample({"bases": bases})
    return run.finish()
  thorough = run.tier == "thorough"
  # 1-3. TLC: (a) the design - C3 laws on every reachable hierarchy and every intermediate merge
  # state; (b) export of every finished hierarchy; (c) larger hierarchies from the spec's
  # generator (tlc -simulate).  The TLC jobs run side by side.
  fams = [("plain", 5 if thorough else 4, False), ("explicit-object", 4 if thorough else 3, True)]
  nsim = 3000 if thorough else 250
  # (d) generic bases under several spellings and (e) attribute histories: small bounds
  # exhaustively (all model invariants and the export in one run), larger ones simulated (one
  # simulation with both dimensions switched on; every behaviour gives a gen and a hist case)
  sp = (0, 1, 2, 3)
  xfams = [("gen", "generic-bases", dict(mc=2, obj=False, mb=3, spellings=sp, generic=True))]
  xfams += [("hist", "histories-2x4", dict(mc=2, obj=False, mf=0, mb=2, defs=True, events=4))]
  if thorough:
    xfams += [("gen", "generic-bases-3", dict(mc=3, obj=False, mb=2, spellings=sp, generic=True)),
              ("hist", "histories-3x3", dict(mc=3, obj=False, mf=0, mb=2, defs=True, events=3))]
  # simulated: histories over <= 4 classes (bases bare or K[int]) with 8 events in all read modes;
  # hierarchies of 4 classes with all spellings and 3 written bases
  xsims = [("hist", "histories-sim", 2000 if thorough else 400,
            dict(mc=4, obj=False, mf=0, mb=2, spellings=(0, 1), generic=True, defs=True, events=8,
                 modes=ALL_MODES)),
           ("gen", "generic-bases-sim", 1200 if thorough else 250,
            dict(mc=4, obj=False, mf=1, mb=3, spellings=sp, generic=True))]
  import concurrent.futures as cf
  jobs = {}
  with cf.ThreadPoolExecutor(max_workers=12) as ex:
    for label, mc, obj in fams:
      jobs["model", label] = ex.submit(tlc.run, "C3", c3_cfg(mc, obj), workers=8 if thorough else 4,
                                       timeout=3000, seed=run.seed)
      jobs["export", label] = ex.submit(tlc.run, "C3", c3_cfg(mc, obj, export=True, invs=("ExportInv",)),
                                        workers=1, timeout=3000, seed=run.seed, heap="6g")
    jobs["sim", "sim"] = ex.submit(tlc.run, "C3", c3_cfg(8, True, mf=2, export=True, invs=("ExportInv",)),
                                   workers=1, timeout=3000, seed=run.seed + 1,
                                   simulate="num=%d" % nsim, depth=200)
    for kind, label, kw in xfams:
      jobs["x", label] = ex.submit(tlc.run, "C3", c3_cfg(export=True, invs=MODEL_INVS + ("ExportInv",), **kw),
                                   workers=1, timeout=3000, seed=run.seed, heap="6g")
    for kind, label, num, kw in xsims:
      jobs["xsim", label] = ex.submit(tlc.run, "C3", c3_cfg(export=True, invs=("ExportInv",), **kw),
                                      workers=1, timeout=3000, seed=run.seed + 2,
                                      simulate="num=%d" % num, depth=200)
  states = trans = 0
  for label, mc, obj in fams:
    r = jobs["model", label].result()
    if r.violated or not r.ok:
      raise common.Machinery("C3.tla violates %s:\n%s" % (r.violated, (r.error_trace or r.out)[-3000:]))
    states += r.distinct
    trans += r.generated
    run.put("model_states_" + label, r.distinct)
    run.add("tlc_model_wall_s", round(r.wall, 1))
  seen = {}

  def take(hs):
    n0 = len(seen)
    for h in hs:
      seen.setdefault(ident(h), h)
    return len(seen) - n0
  for label, mc, obj in fams:
    r = jobs["export", label].result()
    n = take(tag_kind(r.cases, "hier"))
    run.add("tlc_export_wall_s", round(r.wall, 1))
    run.put("hierarchies_" + label, n)
    common.require(n > 300, "family %s exported only %d hierarchies" % (label, n))
  run.put("exhaustive", True)
  r = jobs["sim", "sim"].result()
  n = take(tag_kind(r.cases, "hier"))
  run.add("tlc_export_wall_s", round(r.wall, 1))
  run.put("hierarchies_simulated", n)
  common.require(n > nsim // 2, "simulation produced %d hierarchies" % n)
  for kind, label, kw in xfams:
    r = jobs["x", label].result()
    if r.violated or not r.ok:
      raise common.Machinery("C3.tla (%s) violates %s:\n%s" % (label, r.violated, (r.error_trace or r.out)[-3000:]))
    states += r.distinct
    trans += r.generated
    run.put("model_states_" + label, r.distinct)
    run.add("tlc_model_wall_s", round(r.wall, 1))
    n = take(tag_kind(r.cases, kind))
    run.put("cases_exported_" + label, n)
    common.require(n >= 100, "family %s exported only %d cases" % (label, n))
  for kind, label, num, kw in xsims:
    r = jobs["xsim", label].result()
    run.add("tlc_export_wall_s", round(r.wall, 1))
    n = take(tag_kind(r.cases, kind))
    run.put("cases_exported_" + label, n)
    common.require(n > num // 2, "simulation %s produced %d cases" % (label, n))
  run.put("states", states)
  run.put("transitions", trans)
  run.put("model_bounds", {"plain": fams[0][1], "explicit-object": fams[1][1], "MaxBases": 3,
                           "extended": {label: kw for _, label, kw in xfams},
                           "simulated-extended": {label: kw for _, label, _, kw in xsims}})
  hs = list(seen.values())
  note("TLC jobs done: %s" % {"%s/%s" % k: round(j.result().wall, 1) for k, j in jobs.items()})
  for h in hs:
    if kind_of(h) == "hist":
      hist_stats(run, h)
    elif kind_of(h) == "gen":
      gen_stats(run, h)
  n = judge(run, hs, procs=8)
  note("judged: %s; violations so far: %s" % (
      {k: v for k, v in run.cov.items() if k != "samples" and not isinstance(v, dict)},
      [v[0] for v in run.violations]))
  run.put("traces_validated_against_impl", n)
  run.put("evaluations", n)
  nontriv = sum(1 for h in hs if kind_of(h) == "hier" and any(len(set(b)) >= 2 for b in h["bases"]))
  run.put("distinct_nontrivial", nontriv)
  run.put("rule", "one case = one hierarchy (sequence of class statements) observed at 6 levels, or one "
          "hierarchy with generic base spellings (4 levels), or one attribute history (class statements, "
          "assignments, reads; source level); non-trivial = plain hierarchy in which some statement has "
          ">= 2 distinct bases")
  mid = [h for h in hs if kind_of(h) == "hier"]
  run.sample({"hierarchy": mid[len(mid) // 2]["bases"], "lin": mid[len(mid) // 2]["lin"]})
  for kind in ("gen", "hist"):
    xs = [h for h in hs if kind_of(h) == kind]
    run.sample({"kind": kind, "bases": xs[len(xs) // 2]["bases"], "prog": xs[len(xs) // 2].get("prog", [])})
  common.require(run.cov["statements_err"] > 200 and run.cov["statements_ok"] > 1000
                 and run.cov["reads_judged"] > 10000 and nontriv > 300,
                 "vacuity: too few failing/succeeding statements or reads")
  g = run.cov.get
  common.require(g("gen_dup_mixed_spellings", 0) >= 60 and g("gen_ok_statements_subscripted", 0) >= 100
                 and g("gen_reads_judged", 0) >= 1000 and g("gen_reads_wellTyped", 0) >= 500,
                 "vacuity (generic bases): %s mixed-spelling duplicates, %s subscripted ok statements, %s reads"
                 % (g("gen_dup_mixed_spellings", 0), g("gen_ok_statements_subscripted", 0), g("gen_reads_judged", 0)))
  common.require(g("hist_reads_shadowed_after_read", 0) >= 12 and g("hist_reads_answer_changed", 0) >= 100
                 and g("hist_reads_found_after_missing", 0) >= 20 and g("hist_reads_judged", 0) >= 1500,
                 "vacuity (histories): %s shadowed-after-read, %s changed answers, %s found-after-missing, "
                 "%s reads" % (g("hist_reads_shadowed_after_read", 0), g("hist_reads_answer_changed", 0),
                               g("hist_reads_found_after_missing", 0), g("hist_reads_judged", 0)))
  run.assumptions += [
      "classes are plain or generic in one type variable (no metaclasses, __slots__, protocols); object is "
      "implicit or written explicitly; generic bases are written K, K[int], K[str] or K[T]; Generic[T] is "
      "written last in a list of bases (CPython's __mro_entries__ drops a Generic[...] that is followed by "
      "another subscripted base; that rule is not modelled)",
      "attribute order is observed pairwise: for every pair of classes an attribute defined by "
      "exactly those two, read through every class/instance that inherits it",
      "ill-formed stub classes: the MRO error is expected where the reader first uses the class",
      "attribute histories are straight-line module code on one attribute: class bodies, `K.tag = v` on "
      "existing classes and reads through a class, an instance made right after the class statement, or a "
      "fresh instance; no `del`, no instance attributes, no assignments under control flow; source level only"]
  return run.finish()


if __name__ == "__main__":
  common.main(PID, main)

"""C19 - the whole-project build plan orders every analysis after the stubs it reads.

1. TLC model-checks BuildPlan.tla: every import structure within the bounds (graph nodes = SCCs
   of 1..MaxGroup files, kinds Local/Direct/System/Builtin/Stub/SysExt, any requested subset, every
   order of the out-edges) is planned by the model of deps_from_import_graph + setup_build and
   executed by the model of ninja under every schedule: NoReadBeforeWrite, NeverStuck, StaticOK.
2. code -> spec (decisive): every structure TLC exports is handed to the REAL
   deps_from_import_graph (a fake import graph made of importlab's own node/provenance
   classes) and PytypeRunner.setup_build; build.ninja is parsed back with an own lexer for
   ninja's syntax, every .imports file with the real ImportsMapBuilder._read_from_file; TLC
   (TraceC19.tla) runs the executor on the real plan over all schedules and judges the static
   clauses; the planner model's prediction is compared (DIV lines, never an alarm).
   Directory names of the project root, the output directory and the system directory (home of
   pytype_extensions.* files) rotate through the family BuildPlanOps!AdvTriples (every ordered
   pair of space/colon/dollar adjacent, each of them first and last in a name); every path read
   back must be one the driver created beforehand.
   File kind "SysExt" = System provenance + module name pytype_extensions.* (the one class of
   system modules that gets a real infer step whose output importers read and must depend on).
3. sample: real file trees resolved by importlab (as analyze_project.main does), and plans
   executed by the real `ninja -j16` with a stand-in for pytype-single that records what it read
   and when; the recorded schedule is followed by TraceC19.
"""
import argparse
import json
import os
import random
import shutil
import subprocess
import sys
import time

sys.path.insert(0, os.path.dirname(os.path.abspath(__file__)))
import boot  # noqa: E402
import common  # noqa: E402
import tlc  # noqa: E402

PID = "C19"
BASE = os.path.join(common.VERIF, "build", "c19")
STUB_SINGLE = os.path.join(os.path.dirname(os.path.abspath(__file__)), "c19_single.py")
TRACE_CFG = "INIT TInit\nNEXT TNext\nINVARIANT Ok\nPOSTCONDITION Done\nCHECK_DEADLOCK FALSE\n"
PLAIN = {"root": "root", "out": "out", "sys": "sys"}     # BuildPlanOps!PlainTriple
EXT = "pytype_extensions"


def model_cfg(mode, max_files, max_group, kindset, orders, jobs=2, invs=()):
  s = "SPECIFICATION Spec\nCONSTANTS MaxFiles = %d\n MaxGroup = %d\n KindSet = \"%s\"\n" % (
      max_files, max_group, kindset)
  s += " DepOrders = \"%s\"\n Jobs = %d\n Mode = \"%s\"\nCHECK_DEADLOCK FALSE\n" % (orders, jobs, mode)
  for i in invs:
    s += "INVARIANT %s\n" % i
  return s


MODEL_INVS = ["TypeOK", "NoPlannerError", "StepwiseEqualsPure", "NoReadBeforeWrite", "NeverStuck",
              "StaticOK", "NothingAfterLastRequested"]


# ---------------------------------------------------------------------------------------------
# ninja syntax (https://ninja-build.org/manual.html#ref_lexer), independent of pytype's writer

class NinjaSyntaxError(Exception):
  pass


def _eval(text, pos, path_mode, scope):
  """Evaluate an EvalString starting at pos.  path_mode: stop at space : | newline."""
  out = []
  n = len(text)
  while pos < n:
    ch = text[pos]
    if ch == "\n":
      break
    if path_mode and ch in " :|":
      break
    if ch != "$":
      out.append(ch)
      pos += 1
      continue
    if pos + 1 >= n:
      raise NinjaSyntaxError("dangling $")
    nx = text[pos + 1]
    if nx in " :$":
      out.append(nx)
      pos += 2
    elif nx == "\n":
      pos += 2
      while pos < n and text[pos] == " ":
        pos += 1
    elif nx == "{":
      end = text.index("}", pos)
      out.append(scope.get(text[pos + 2:end], ""))
      pos = end + 1
    elif nx.isalnum() or nx in "_-":
      end = pos + 1
      while end < n and (text[end].isalnum() or text[end] in "_-"):
        end += 1
      out.append(scope.get(text[pos + 1:end], ""))
      pos = end
    else:
      raise NinjaSyntaxError("bad $-escape %r" % text[pos:pos + 2])
  return "".join(out), pos


def parse_ninja(text):
  """-> (rules {name: {var: raw value}}, builds [dict(outs, rule, ins, implicit, order, vars)])."""
  rules, builds = {}, []
  pos, n = 0, len(text)
  cur = None

  def skip_spaces(p):
    while p < n and text[p] == " ":
      p += 1
    return p

  while pos < n:
    if text[pos] == "\n":
      pos += 1
      continue
    if text[pos] == "#":
      pos = text.index("\n", pos) + 1 if "\n" in text[pos:] else n
      continue
    if text[pos] == " ":      # indented binding of the current rule / build
      pos = skip_spaces(pos)
      eq = text.index("=", pos)
      key = text[pos:eq].strip()
      pos = skip_spaces(eq + 1)
      if cur is None:
        raise NinjaSyntaxError("binding outside a block")
      if cur[0] == "rule":
        eol = text.find("\n", pos)
        eol = n if eol < 0 else eol
        cur[1][key] = text[pos:eol]          # rule bindings are evaluated lazily by ninja
        pos = eol
      else:
        val, pos = _eval(text, pos, False, cur[1]["vars"])
        cur[1]["vars"][key] = val
      continue
    eol_word = pos
    while eol_word < n and text[eol_word] not in " \n":
      eol_word += 1
    word = text[pos:eol_word]
    pos = skip_spaces(eol_word)
    if word == "rule":
      eol = text.index("\n", pos)
      name = text[pos:eol].strip()
      if name in rules:
        raise NinjaSyntaxError("duplicate rule " + name)
      rules[name] = {}
      cur = ("rule", rules[name])
      pos = eol
    elif word == "build":
      b = {"outs": [], "ins": [], "implicit": [], "order": [], "vars": {}}
      while True:
        pos = skip_spaces(pos)
        p, pos2 = _eval(text, pos, True, {})
        if not p:
          break
        b["outs"].append(p)
        pos = pos2
      if pos >= n or text[pos] != ":":
        raise NinjaSyntaxError("expected ':' in build line at %d: %r" % (pos, text[pos:pos + 20]))
      pos = skip_spaces(pos + 1)
      e = pos
      while e < n and text[e] not in " \n":
        e += 1
      b["rule"] = text[pos:e]
      pos = e
      bucket = "ins"
      while True:
        pos = skip_spaces(pos)
        if pos >= n or text[pos] == "\n":
          break
        if text.startswith("||", pos):
          bucket = "order"
          pos += 2
          continue
        if text[pos] == "|":
          bucket = "implicit"
          pos += 1
          continue
        p, pos2 = _eval(text, pos, True, {})
        if not p:
          raise NinjaSyntaxError("empty path at %d" % pos)
        b[bucket].append(p)
        pos = pos2
      builds.append(b)
      cur = ("build", b)
    else:
      raise NinjaSyntaxError("unexpected %r" % word)
  return rules, builds


# ---------------------------------------------------------------------------------------------
# a structure -> names -> real planner -> plan read back

class Layout:
  """File names for one structure.  All graph files live in one directory so that sorted file
  names are in id order (importlab's NodeSet sorts its files; the spec numbers the files of a
  node in that order).  A SysExt file f lives in its own system directory m<f><sys name> below
  that directory (so the order is kept), in the package pytype_extensions."""

  def __init__(self, S, base, variant, names=None):
    self.S = S
    self.n = len(S["kind"])
    self.variant = variant          # 0: flat modules, 1: package pk, 2: package with __init__ as file 1
    self.names = names = dict(names or PLAIN)
    top = os.path.join(base, names["root"])
    self.out = os.path.join(base, names["out"])
    if variant == 0:
      self.dir = top
      prefix = ""
    else:
      self.dir = os.path.join(top, "pk")
      prefix = "pk"
    self.root = top + os.sep
    self.path, self.modname, self.key, self.short = {}, {}, {}, {}
    first_ext = min([f for f in range(1, self.n + 1) if S["kind"][f - 1] == "SysExt"], default=0)
    for f in range(1, self.n + 1):
      kind = S["kind"][f - 1]
      ext = ".pyi" if kind == "Stub" else ".py"
      if kind == "SysExt":
        pkg = os.path.join(self.dir, "m%d%s" % (f, names["sys"]), EXT)
        if variant == 2 and f == first_ext:       # the package itself: pytype appends .__init__
          self.path[f] = os.path.join(pkg, "__init__.py")
          self.modname[f] = EXT
          self.key[f] = EXT + "/__init__"
        else:
          self.path[f] = os.path.join(pkg, "m%d.py" % f)
          self.modname[f] = "%s.m%d" % (EXT, f)
          self.key[f] = "%s/m%d" % (EXT, f)
      elif variant == 2 and f == 1 and kind != "Stub":
        self.path[f] = os.path.join(self.dir, "__init__" + ext)
        self.modname[f] = "pk"                       # importlab's name; pytype appends .__init__
        self.key[f] = "pk/__init__"
      else:
        base_name = "m%d" % f
        self.path[f] = os.path.join(self.dir, base_name + ext)
        self.modname[f] = (prefix + "." if prefix else "") + base_name
        self.key[f] = (prefix + "/" if prefix else "") + base_name
    self.pymod = {f: (self.modname[f] + ".__init__" if self.path[f].endswith("__init__.py")
                      else self.modname[f]) for f in self.path}

  def expected(self):
    """Every path the plan may mention, made by the driver before the code runs."""
    d = []
    for f in range(1, self.n + 1):
      if self.S["kind"][f - 1] == "Stub":
        continue
      d.append([self.path[f], ["src", f, 0]])
      for p, suf in ((0, ""), (1, "-1")):
        d.append([os.path.join(self.out, "pyi", self.key[f] + ".pyi" + suf), ["pyi", f, p]])
        d.append([os.path.join(self.out, "imports", self.pymod[f] + ".imports" + suf), ["imports", f, p]])
    d.append([os.path.join(self.out, "imports", "default.pyi"), ["default", 0, 0]])
    keys = [[self.key[f], f] for f in range(1, self.n + 1) if self.S["kind"][f - 1] != "Stub"]
    mods = [[self.pymod[f], f] for f in range(1, self.n + 1) if self.S["kind"][f - 1] != "Stub"]
    return d, keys, mods


class FakeImportGraph:
  """What deps_from_import_graph uses of importlab.graph.ImportGraph: deps_list() (a node
  before its dependencies) and provenance.  Nodes are file names or importlab NodeSets."""

  def __init__(self, nodes, provenance, node_deps):
    self.nodes = nodes              # dependencies first
    self.provenance = provenance
    self.node_deps = node_deps

  def deps_list(self):
    return [(x, self.node_deps[id(x)]) for x in reversed(self.nodes)]


def fake_graph(S, lay):
  from importlab import graph as igraph
  from importlab import resolve
  prov = {}
  for f in range(1, lay.n + 1):
    kind = S["kind"][f - 1]
    p, name = lay.path[f], lay.modname[f]
    if kind in ("Local", "Stub"):
      prov[p] = resolve.Local(p, name, None)
    elif kind == "Direct":
      prov[p] = resolve.Direct(p, name)
    elif kind in ("System", "SysExt"):
      prov[p] = resolve.System(p, name)
    else:
      prov[p] = resolve.Builtin(p, name)
  ng = len(S["gdeps"])
  nodes = []
  for g in range(1, ng + 1):
    files = [lay.path[f] for f in range(1, lay.n + 1) if S["grp"][f - 1] == g]
    nodes.append(files[0] if len(files) == 1 else igraph.NodeSet(files))
    if len(files) > 1:
      common.require(nodes[-1].nodes == files, "file names of a node do not sort in id order")
  node_deps = {id(nodes[g]): [nodes[d - 1] for d in S["gdeps"][g]] for g in range(ng)}
  return FakeImportGraph(nodes, prov, node_deps)


_parser = None
_imb = None


def _conf(out, inputs):
  global _parser
  from pytype.tools.analyze_project import parse_args
  if _parser is None:
    _parser = parse_args.make_parser()
  conf = _parser.config_from_defaults()
  conf.output = out
  conf.inputs = set(inputs)
  return conf


def read_imports(path):
  """The real reader of .imports files."""
  global _imb
  from pytype import imports_map_loader
  if _imb is None:
    from pytype import config as pconfig
    _imb = imports_map_loader.ImportsMapBuilder(pconfig.Options.create())
  return [[k, v] for k, v in _imb._read_from_file(path)]  # pylint: disable=protected-access


def read_plan(out):
  """build.ninja + *.imports of an output directory -> (plan, rules)."""
  with open(os.path.join(out, "build.ninja")) as f:
    rules, builds = parse_ninja(f.read())
  plan = []
  for b in builds:
    # the planner writes one output and one explicit input per statement; anything else (e.g. a
    # path that ninja's lexer splits in two) is recorded as `extra` and judged by TraceC19
    imports = b["vars"].get("imports", "")
    plan.append({"out": b["outs"][0] if b["outs"] else "", "action": b["rule"],
                 "input": b["ins"][0] if b["ins"] else "",
                 "extra": b["outs"][1:] + b["ins"][1:] + b["order"],
                 "deps": b["implicit"], "imports": imports, "module": b["vars"].get("module", ""),
                 "imap": read_imports(imports) if os.path.isfile(imports) else [["?", "<unreadable imports file>"]]})
  return plan, rules


def rule_facts(rules):
  """Token-level facts about the two commands (judged by TLC: RulesOK in TraceC19)."""
  out = []
  for name in sorted(rules):
    out.append([name, rules[name].get("command", "").split(" ")])
  return out


def existing_files(out):
  res = []
  for d, _, files in os.walk(out):
    for fn in files:
      if fn != "build.ninja":
        res.append(os.path.join(d, fn))
  return sorted(res)


def clean_out(out):
  """Remove the files of an output directory, keep the directories (rmdir is slow here)."""
  for d, _, files in os.walk(out):
    for fn in files:
      os.unlink(os.path.join(d, fn))


def realize(S, base, variant, names=None, graph=None, lay=None, keep=False, reuse=False):
  """Run the real planner on structure S; returns the case record for TraceC19.
  names: a member of BuildPlanOps!AdvTriples (None: the plain triple).
  reuse: `base` is a working directory shared by consecutive cases (only its files are removed)."""
  from pytype.tools.analyze_project import pytype_runner
  lay = lay or Layout(S, base, variant, names)
  dct, keys, mods = lay.expected()
  case = {"S": S, "dict": dct, "keys": keys, "mods": mods, "initial": [], "srcs": [], "plan": [],
          "rules": [], "events": [], "crash": "", "fault": "", "variant": variant,
          "names": lay.names}
  os.makedirs(lay.out, exist_ok=True)
  try:
    graph = graph or fake_graph(S, lay)
    deps = pytype_runner.deps_from_import_graph(graph)
    case["srcs"] = [{"group": [m.full_path for m in grp], "deps": [m.full_path for m in dd]}
                    for grp, dd in deps]
    inputs = [lay.path[f] for f in range(1, lay.n + 1) if S["req"][f - 1]]
    runner = pytype_runner.PytypeRunner(_conf(lay.out, inputs), deps)
    runner.setup_build()
    plan, rules = read_plan(lay.out)
    case["plan"] = plan
    case["rules"] = rule_facts(rules)
    case["initial"] = existing_files(lay.out) + [lay.path[f] for f in range(1, lay.n + 1)]
  except common.Machinery:
    raise
  except NinjaSyntaxError as e:
    case["crash"] = "build.ninja is not valid ninja syntax: %s" % e
    case["fault"] = "ninja-syntax"
  except Exception as e:  # pylint: disable=broad-except
    case["crash"] = "%s: %s" % (type(e).__name__, e)
    case["fault"] = "planner-exception"
  finally:
    if reuse:
      clean_out(lay.out)
    elif not keep:
      shutil.rmtree(base, ignore_errors=True)
  return case


# ---------------------------------------------------------------------------------------------
# verdicts

def judge(run, cases, label, shards=4):
  """TLC judges the cases; returns number validated.  Violations/divergences are recorded."""
  if not cases:
    return 0
  import concurrent.futures as cf
  n = len(cases)
  step = max(1, (n + shards - 1) // shards)

  def one(off):
    part = cases[off:off + step]
    nv, bad, r = tlc.validate_cases("TraceC19", part, cfg=TRACE_CFG, timeout=3000, heap="3g")
    common.require(bad is None, "TraceC19 invariant cannot fail (verdicts are printed)")
    res = {"BAD": [], "DIV": [], "NINJA": [], "FAMILY": []}
    for tag in res:
      for rec in tlc.parse_cases(r.out, tag):
        rec["i"] = off + rec["i"] - 1
        res[tag].append(rec)
    return nv, res, r.distinct
  total = 0
  with cf.ThreadPoolExecutor(max_workers=shards) as ex:
    results = list(ex.map(one, range(0, n, step)))
  for nv, res, distinct in results:
    total += nv
    run.add("schedule_states_explored", distinct)
    if res["NINJA"]:
      raise common.Machinery("the real ninja started a step that the executor model does not "
                             "enable: %r" % res["NINJA"][:3])
    if res["FAMILY"]:
      raise common.Machinery("directory names that are not in the spec's family: %r" % res["FAMILY"][:3])
    seen = set()
    for rec in res["BAD"]:
      c = cases[rec["i"]]
      fails = sorted(rec["fails"])
      if (rec["i"], tuple(fails)) in seen:
        continue
      seen.add((rec["i"], tuple(fails)))
      key = "C19:" + "+".join(fails)
      if fails == ["shell-argv"]:
        key = "C19:shell-argv:imports-variable-unquoted"
      what = "%s fails on %s structure %s, directory names %s" % (
          "+".join(fails), label, json.dumps(c["S"]), json.dumps(c["names"]))
      if c["crash"]:
        what += " :: " + c["crash"]
      if rec.get("unknown"):
        what += " :: the plan names %r, which is not a path of the project" % sorted(rec["unknown"])[0]
      if rec.get("undeclared"):
        s, f = rec["undeclared"][0]
        what += " :: step %d (%s) reads %s without depending on it" % (
            s, c["plan"][s - 1]["out"], next((p for p, ident in c["dict"] if ident == f), f))
      if rec.get("rbw") and "rbw" in fails:
        s, f = rec["rbw"][0]
        what += " :: after steps %s step %d (%s) may start but reads %s" % (
            sorted(rec.get("done", [])), s, c["plan"][s - 1]["out"], f)
      run.violation(key, what, {"S": c["S"], "variant": c.get("variant", 0), "family": label,
                                "names": c["names"], "fails": fails, "plan": c["plan"],
                                "tree": c.get("tree")})
    for rec in res["DIV"]:
      run.diverge({"family": label, "S": cases[rec["i"]]["S"], "divs": rec["divs"]})
  return total


def nontrivial(c):
  return len(c["plan"]) >= 2 and any(st["deps"] for st in c["plan"])


def ext_steps(c):
  """Outputs of the steps that analyse a pytype_extensions.* module of System provenance."""
  ext = {lay_mod for lay_mod, f in c["mods"] if c["S"]["kind"][f - 1] == "SysExt"}
  return {st["out"] for st in c["plan"] if st["module"] in ext}


def ext_read(c):
  """The plan has a step that reads (imports map) the output of a pytype_extensions step."""
  outs = ext_steps(c)
  return bool(outs) and any(t in outs for st in c["plan"] for _, t in st["imap"])


def suspect(c):
  """The plan read back is not made of the driver's paths (only used to decide whether the real
  ninja is worth running on it; the verdict is TraceC19's)."""
  known = {p for p, _ in c["dict"]}
  return bool(c["crash"]) or any(
      st["extra"] or not {st["out"], st["input"], st["imports"], *st["deps"]} <= known
      for st in c["plan"])


class Stats:
  """Vacuity counters of the two families added after the seeded changes."""

  def __init__(self):
    self.role = {r: {} for r in ("root", "out", "sys")}
    self.ext_read = 0

  def add(self, cases):
    for c in cases:
      if ext_read(c):
        self.ext_read += 1
      if not nontrivial(c):
        continue
      for r in ("root", "out"):
        self.role[r][c["names"][r]] = self.role[r].get(c["names"][r], 0) + 1
      if ext_steps(c):      # the system directory occurs in the plan only as input of such a step
        self.role["sys"][c["names"]["sys"]] = self.role["sys"].get(c["names"]["sys"], 0) + 1


# ---------------------------------------------------------------------------------------------
# real trees resolved by importlab

def write_tree(S, base, rng, names):
  """A real file tree whose import statements realise structure S (importlab then derives its own
  structure, which is what is judged).  The system directory holds the third-party stubs and the
  package pytype_extensions (found through sys.path, i.e. of System provenance)."""
  root = os.path.join(base, names["root"])
  stubdir = os.path.join(base, names["sys"])
  os.makedirs(root, exist_ok=True)
  os.makedirs(os.path.join(stubdir, EXT), exist_ok=True)
  with open(os.path.join(stubdir, EXT, "__init__.py"), "w") as fh:
    fh.write("x = 1\n")
  n = len(S["kind"])
  ng = len(S["gdeps"])
  members = {g: [f for f in range(1, n + 1) if S["grp"][f - 1] == g] for g in range(1, ng + 1)}
  name = {}
  first_ext = min([f for f in range(1, n + 1) if S["kind"][f - 1] == "SysExt"], default=0)
  for f in range(1, n + 1):
    k = S["kind"][f - 1]
    name[f] = {"System": ["json", "csv", "glob", "shlex", "copy", "bisect"][f % 6],
               "Builtin": "sys",
               "SysExt": EXT if f == first_ext else "%s.m%d" % (EXT, f)}.get(k, "m%d" % f)
  inputs = []
  for g in range(1, ng + 1):
    for x, f in enumerate(members[g]):
      k = S["kind"][f - 1]
      if k in ("System", "Builtin"):
        continue
      if k == "SysExt":          # importlab does not follow the imports of a system file (trim)
        if f != first_ext:
          with open(os.path.join(stubdir, EXT, "m%d.py" % f), "w") as fh:
            fh.write("x = 1\n")
        continue
      imports = []
      ring = members[g]
      if len(ring) > 1:
        imports.append(name[ring[(x + 1) % len(ring)]])
      if x == 0 or rng.random() < 0.5:
        for d in S["gdeps"][g - 1]:
          imports.append(name[members[d][rng.randrange(len(members[d]))]])
      p = os.path.join(stubdir, name[f] + ".pyi") if k == "Stub" else os.path.join(root, name[f] + ".py")
      with open(p, "w") as fh:
        for m in imports:
          fh.write("import %s\n" % m)
        fh.write("x = 1\n" if k != "Stub" else "x: int\n")
      if S["req"][f - 1]:
        inputs.append(p)
  if not inputs:
    cands = [f for f in range(1, n + 1) if S["kind"][f - 1] in ("Local", "Direct")]
    if not cands:
      return None
    inputs = [os.path.join(root, name[cands[-1]] + ".py")]
  return root, inputs, stubdir


class system_dir:
  """`d` is a site-packages directory of the interpreter for the duration: importlab asks the
  running Python (importlib.util.find_spec) where a module that is not on the project's
  pythonpath lives, and calls what it finds a System file."""

  def __init__(self, d):
    self.d = d

  @staticmethod
  def _drop():
    return {k: sys.modules.pop(k) for k in list(sys.modules) if k == EXT or k.startswith(EXT + ".")}

  def __enter__(self):
    import importlib
    self.saved = self._drop()
    sys.path.insert(0, self.d)
    importlib.invalidate_caches()

  def __exit__(self, *exc):
    import importlib
    sys.path.remove(self.d)
    self._drop()
    sys.modules.update(self.saved)
    importlib.invalidate_caches()


class closing_mkstemp:
  """importlab.fs.OSFileSystem() probes case sensitivity with tempfile.mkstemp() and keeps neither
  the descriptor nor the file; close and remove them (hundreds of trees per run)."""

  def __enter__(self):
    import tempfile
    self.orig, self.made = tempfile.mkstemp, []

    def mkstemp(*a, **k):
      r = self.orig(*a, **k)
      self.made.append(r)
      return r
    tempfile.mkstemp = mkstemp

  def __exit__(self, *exc):
    import tempfile
    tempfile.mkstemp = self.orig
    for fd, path in self.made:
      try:
        os.close(fd)
        os.unlink(path)
      except OSError:
        pass


def importlab_case(S0, base, rng, names):
  """Write a tree, resolve it as analyze_project.main does, read the structure off the real
  ImportGraph, run the planner on that graph."""
  import importlab.fs
  import importlab.graph
  from pytype.tools import environment
  from pytype.tools.analyze_project import environment as ap_env
  t = write_tree(S0, base, rng, names)
  if t is None:
    shutil.rmtree(base, ignore_errors=True)
    return None
  root, inputs, stubdir = t
  out = os.path.join(base, names["out"])
  conf = _conf(out, inputs)
  conf.pythonpath = [root]
  typeshed = environment.initialize_typeshed_or_die()
  with closing_mkstemp():
    env = ap_env.create_importlab_environment(conf, typeshed)
    # as if typeshed had one more third-party stub directory
    env.path.append(importlab.fs.PYIFileSystem(importlab.fs.OSFileSystem(stubdir)))
  with system_dir(stubdir):
    g = importlab.graph.ImportGraph.create(env, sorted(inputs), trim=True)
  # structure as importlab sees it: nodes in the order deps_from_import_graph visits them
  order = [node for node, _ in reversed(g.deps_list())]
  files, grp, kind, req = [], [], [], []
  index = {}
  for gi, node in enumerate(order, 1):
    index[id(node) if not isinstance(node, str) else node] = gi
    for p in ([node] if isinstance(node, str) else list(node.nodes)):
      files.append(p)
      grp.append(gi)
      cls = g.provenance[p].__class__.__name__
      name = g.provenance[p].module_name + (".__init__" if os.path.basename(p) == "__init__.py" else "")
      if cls == "System" and name.startswith(EXT + "."):
        common.require(p.startswith(stubdir + os.sep), "pytype_extensions resolved outside the tree: " + p)
        cls = "SysExt"
      kind.append("Stub" if p.endswith((".pyi", ".pytd")) else cls)
      req.append(p in inputs)
  gdeps = []
  for node, deps in reversed(g.deps_list()):
    gdeps.append([index[d if isinstance(d, str) else id(d)] for d in deps])
  S = {"kind": kind, "req": req, "grp": grp, "gdeps": gdeps}
  # expected names, from the real files
  lay = Layout.__new__(Layout)
  lay.S, lay.n, lay.out, lay.variant, lay.names = S, len(files), out, 9, dict(names)
  lay.path, lay.modname, lay.key, lay.pymod = {}, {}, {}, {}
  for f, p in enumerate(files, 1):
    prov = g.provenance[p]
    lay.path[f] = p
    lay.modname[f] = prov.module_name
    lay.pymod[f] = prov.module_name + (".__init__" if os.path.basename(p) == "__init__.py" else "")
    lay.key[f] = lay.pymod[f].replace(".", "/")
  case = realize(S, base, 9, graph=g, lay=lay)
  case["tree"] = {"root": root, "inputs": inputs, "files": files}
  return case


# ---------------------------------------------------------------------------------------------
# plans executed by the real ninja

def ninja_case(S, base, variant, rng, jobs=16, names=None):
  from pytype.tools.analyze_project import pytype_runner
  log = os.path.join(base, "log.txt")
  os.makedirs(base, exist_ok=True)
  saved = pytype_runner.PYTYPE_SINGLE
  pytype_runner.PYTYPE_SINGLE = [sys.executable, STUB_SINGLE, "--log", log,
                                 "--seed", str(rng.randrange(10**6))]
  try:
    case = realize(S, base, variant, names=names, keep=True)
  finally:
    pytype_runner.PYTYPE_SINGLE = saved
  if suspect(case):       # judged as it is (every schedule), without asking the real ninja
    shutil.rmtree(base, ignore_errors=True)
    return case
  if not case["plan"]:
    shutil.rmtree(base, ignore_errors=True)
    return None
  lay = Layout(S, base, variant, names)
  for f in range(1, lay.n + 1):        # ninja wants the inputs to exist
    os.makedirs(os.path.dirname(lay.path[f]), exist_ok=True)
    with open(lay.path[f], "w") as fh:
      fh.write("x = 1\n")
  env = dict(os.environ, VERIF_REPO=boot.REPO)
  ninja = os.path.join(os.path.dirname(sys.executable), "ninja")
  p = subprocess.run([ninja, "-C", lay.out, "-j", str(jobs), "-k", "0"], stdout=subprocess.PIPE,
                     stderr=subprocess.STDOUT, env=env)
  # the driver's ninja lexer must agree with ninja itself on this file
  q = subprocess.run([ninja, "-C", lay.out, "-t", "targets", "all"], stdout=subprocess.PIPE)
  mine = sorted("%s: %s" % (st["out"], st["action"]) for st in case["plan"])
  common.require(sorted(q.stdout.decode().splitlines()) == mine,
                 "own ninja lexer and `ninja -t targets all` disagree: %r vs %r" % (q.stdout[:500], mine[:3]))
  for st in case["plan"]:
    q = subprocess.run([ninja, "-C", lay.out, "-t", "query", st["out"]], stdout=subprocess.PIPE)
    ins, imp = [], []
    for line in q.stdout.decode().splitlines()[2:]:
      if line.startswith("  outputs:"):
        break
      if line.startswith("    | "):
        imp.append(line[6:])
      elif line.startswith("    "):
        ins.append(line[4:])
    common.require(ins == [st["input"]] and imp == st["deps"],
                   "own ninja lexer and `ninja -t query` disagree on %s: %r %r" % (st["out"], ins, imp))
  events = []
  outidx = {st["out"]: k for k, st in enumerate(case["plan"], 1)}
  if os.path.exists(log):
    with open(log) as fh:
      for line in fh:
        rec = json.loads(line)
        events.append([rec["ev"], outidx.get(rec["out"], 0), rec.get("missing", []),
                       rec.get("argv_imports", ""), rec.get("argv_in", [])])
  shutil.rmtree(base, ignore_errors=True)
  common.require(p.returncode == 0 and events,
                 "real ninja run failed: %s" % p.stdout.decode(errors="replace")[-1500:])
  case["events"] = events
  return case


# ---------------------------------------------------------------------------------------------

FAMILY = []      # BuildPlanOps!AdvTriples as printed by the spec (NAMES line of any BuildPlan run)


def _family(r):
  got = tlc.parse_cases(r.out, "NAMES")
  common.require(len(got) == 1 and len(got[0]) == 15, "BuildPlan.tla did not print its family of directory names")
  if not FAMILY:
    FAMILY.extend(got[0])
  common.require(FAMILY == got[0], "the family of directory names changed between TLC runs")


def export_structs(run, max_files, max_group, kindset, orders):
  r = tlc.run("BuildPlan", model_cfg("structs", max_files, max_group, kindset, orders,
                                     invs=["ExportInv"]), workers=1, timeout=3000, seed=run.seed)
  _family(r)
  return r.cases


def sim_structs(run, max_files, max_group, kindset, num, seed):
  r = tlc.run("BuildPlan", model_cfg("sim", max_files, max_group, kindset, "any", invs=["ExportInv"]),
              workers=1, timeout=3000, seed=seed, simulate="num=%d" % num, depth=max_files + 3)
  _family(r)
  return r.cases


def skey(S):
  return json.dumps(S, sort_keys=True, separators=(",", ":"))


def main():
  ap = argparse.ArgumentParser()
  ap.add_argument("--tier", default="quick")
  ap.add_argument("--replay")
  a = ap.parse_args()
  run = common.Run(PID, "model_checking", a.tier)
  boot.boot()
  base = os.path.join(BASE, "p%d" % os.getpid())
  shutil.rmtree(base, ignore_errors=True)
  import tempfile
  tempfile.tempdir = os.path.join(base, "tmp")      # scratch files only under /verif/build
  os.makedirs(tempfile.tempdir)
  try:
    return body(run, a, base)
  finally:
    tempfile.tempdir = None
    shutil.rmtree(base, ignore_errors=True)


def body(run, a, base):
  rng = random.Random(run.seed)
  counter = [0]
  wbase = os.path.join(base, "w")

  def scratch():
    counter[0] += 1
    return os.path.join(base, "c%d" % counter[0])

  if a.replay:
    with open(a.replay) as f:
      case = json.load(f)["case"]
    names = case.get("names") or PLAIN
    if case.get("tree"):
      c = importlab_case(case["S"], scratch(), rng, names)
    else:
      c = realize(case["S"], scratch(), case.get("variant", 0), names=names)
    n = judge(run, [c], "replay", shards=1)
    run.put("traces_validated_against_impl", n)
    run.put("states", 1); run.put("transitions", 1); run.sample(case["S"])
    return run.finish()

  thorough = run.tier == "thorough"
  # 1. the design: planner + executor over every structure and every schedule (runs in the
  #    background while the real planner is exercised)
  bounds = ([(4, 4, "lss", "any"), (5, 2, "l", "mono"), (3, 3, "x", "any")] if thorough
            else [(3, 3, "all", "any"), (3, 3, "x", "any")])
  import concurrent.futures as cf
  mex = cf.ThreadPoolExecutor(max_workers=2)
  mfuts = [(b, mex.submit(tlc.run, "BuildPlan", model_cfg("check", b[0], b[1], b[2], b[3], jobs=2, invs=MODEL_INVS),
                          workers=6, timeout=6000, seed=run.seed)) for b in bounds]

  # 2. every exported structure -> real planner -> TLC executor on the real plan
  #    ("x": Local / requested Local / System / pytype_extensions.* of System provenance)
  fams = [("exh3-all", 3, 3, "all", "any"), ("exh3-x", 3, 3, "x", "any"), ("exh4-l", 4, 4, "l", "any")]
  if thorough:
    # (4 files of kind set "x" would be 35 k more plans; the 5- and 6-file simulations below draw
    # from all kinds including pytype_extensions.*)
    fams = [("exh3-all", 3, 3, "all", "any"), ("exh3-x", 3, 3, "x", "any"), ("exh4-lss", 4, 4, "lss", "any"),
            ("exh5-l", 5, 3, "l", "mono")]
  seen = set()
  total = 0
  allcases = 0
  nontriv = 0
  two_pass = 0
  stats = Stats()
  serial = [run.seed]

  def plan_all(structs):
    """case k: module layout k % 3, directory names AdvTriples[(k div 3) % 15]."""
    cases = []
    for S in structs:
      k = serial[0]
      serial[0] += 1
      cases.append(realize(S, wbase, k % 3, names=FAMILY[(k // 3) % len(FAMILY)], reuse=True))
    stats.add(cases)
    return cases

  for label, mf, mg, ks, od in fams:
    structs = [S for S in export_structs(run, mf, mg, ks, od) if skey(S) not in seen]
    seen.update(skey(S) for S in structs)
    common.require(len(structs) > 300, "family %s exported only %d structures" % (label, len(structs)))
    cases = plan_all(structs)
    nontriv += sum(1 for c in cases if nontrivial(c))
    two_pass += sum(1 for c in cases if any(st["out"].endswith("-1") for st in c["plan"]))
    total += judge(run, cases, label)
    allcases += len(cases)
    run.put("structures_" + label, len(structs))
    run.sample({"family": label, "S": structs[len(structs) // 2], "names": cases[len(structs) // 2]["names"],
                "plan": cases[len(structs) // 2]["plan"][:2]})
    print("  [%s] %d structures, t=%.0fs" % (label, len(structs), time.time() - run.t0), flush=True)
  run.put("exhaustive", True)

  # 3. larger random structures from the spec's generator (all kinds)
  nsim = 15000 if thorough else 600
  for mf in ((5, 6) if thorough else (5,)):
    structs = []
    for S in sim_structs(run, mf, 3, "allx", nsim, run.seed * 7 + mf):
      if skey(S) not in seen:
        seen.add(skey(S))
        structs.append(S)
    common.require(len(structs) > nsim // 2, "simulation produced only %d structures" % len(structs))
    cases = plan_all(structs)
    nontriv += sum(1 for c in cases if nontrivial(c))
    two_pass += sum(1 for c in cases if any(st["out"].endswith("-1") for st in c["plan"]))
    total += judge(run, cases, "sim%d" % mf)
    allcases += len(cases)
    run.put("structures_sim%d" % mf, len(structs))
    print("  [sim%d] %d structures, t=%.0fs" % (mf, len(structs), time.time() - run.t0), flush=True)

  # 4. real trees resolved by importlab; a quarter of them import pytype_extensions
  pool = [json.loads(s) for s in sorted(seen)]
  rng.shuffle(pool)
  ntrees = 200 if thorough else 40

  def imports_ext(S):
    """a Local/Direct file's node has an edge to a node with a pytype_extensions file"""
    return any(S["kind"][f] in ("Local", "Direct") and
               any(S["kind"][x] == "SysExt" for d in S["gdeps"][S["grp"][f] - 1]
                   for x in range(len(S["kind"])) if S["grp"][x] == d)
               for f in range(len(S["kind"])))

  tcases = []
  ext_trees = 0
  for want_ext in (True, False):
    tried = 0
    for S in pool:
      if (ext_trees >= ntrees // 4 or tried >= ntrees) if want_ext else (len(tcases) >= ntrees):
        break
      if len(S["kind"]) < 3 or imports_ext(S) != want_ext:
        continue
      tried += 1
      c = importlab_case(S, scratch(), rng, FAMILY[(len(tcases) + run.seed) % len(FAMILY)])
      # counted on the structure importlab derived (the input of the planner), not on the plan
      if c is not None and (len(c["plan"]) >= 2 or c["crash"]) and (imports_ext(c["S"]) or not want_ext):
        tcases.append(c)
        ext_trees += 1 if imports_ext(c["S"]) else 0
  common.require(len(tcases) >= ntrees // 2, "too few importlab trees: %d" % len(tcases))
  stats.add(tcases)
  total += judge(run, tcases, "importlab", shards=1)
  run.put("importlab_trees", len(tcases))
  run.put("importlab_trees_with_cycle", sum(1 for c in tcases if any(st["out"].endswith("-1") for st in c["plan"])))
  run.put("importlab_trees_importing_pytype_extensions", ext_trees)
  run.put("importlab_kinds", sorted({k for c in tcases for k in c["S"]["kind"]}))
  run.sample({"family": "importlab", "S": tcases[0]["S"], "files": tcases[0]["tree"]["files"]})
  print("  [importlab] %d trees, t=%.0fs" % (len(tcases), time.time() - run.t0), flush=True)

  # 5. real ninja runs
  nnin = 50 if thorough else 8
  ncases = []
  cands = [S for S in pool if len(S["kind"]) >= 4 and len(S["gdeps"]) >= 2 and S["req"][-1]
           and len(S["gdeps"]) < len(S["kind"]) and any(S["gdeps"])]
  for S in cands:
    if len(ncases) >= nnin:
      break
    c = ninja_case(S, scratch(), rng.randrange(3), rng)
    if c is not None and len(c["plan"]) >= 3:
      ncases.append(c)
  common.require(len(ncases) >= nnin // 2, "too few real ninja runs: %d" % len(ncases))
  total += judge(run, ncases, "ninja", shards=1)
  # ... and with space, colon and dollar in the directories (what reaches pytype-single's argv)
  acases = []
  for S in cands[::-1]:
    if len(acases) >= (10 if thorough else 2):
      break
    c = ninja_case(S, scratch(), rng.randrange(3), rng, names=FAMILY[rng.randrange(len(FAMILY))])
    if c is not None:
      acases.append(c)
  total += judge(run, acases, "ninja-adversarial-dirs", shards=1)
  run.put("real_ninja_runs_adversarial_dirs", sum(1 for c in acases if c["events"]))
  run.put("real_ninja_runs", sum(1 for c in ncases if c["events"]))
  run.put("real_ninja_steps", sum(len(c["plan"]) for c in ncases))
  run.sample({"family": "ninja", "S": ncases[0]["S"], "events": ncases[0]["events"][:8]})

  states = trans = 0
  for b, fut in mfuts:
    r = fut.result()
    if r.violated:
      raise common.Machinery("BuildPlan.tla violates %s:\n%s" % (r.violated, r.error_trace[:4000]))
    _family(r)
    states += r.distinct
    trans += r.generated
    print("  [model %s] %d states, t=%.0fs" % (b, r.distinct, time.time() - run.t0), flush=True)
  run.put("states", states)
  run.put("transitions", trans)
  run.put("model_bounds", [list(b) for b in bounds])
  run.put("traces_validated_against_impl", total)
  run.put("evaluations", allcases + len(tcases) + len(ncases))
  run.put("distinct_nontrivial", nontriv)
  run.put("plans_with_two_passes", two_pass)
  run.put("plans_reading_a_pytype_extensions_stub", stats.ext_read)
  run.put("directory_name_family", [t["root"] for t in FAMILY])
  run.put("least_used_directory_name", {r: min([stats.role[r].get(t[r], 0) for t in FAMILY]) for r in stats.role})
  run.put("rule", "one case = one import structure, planned by the real deps_from_import_graph + "
          "setup_build, read back, executed by TLC under every schedule; non-trivial = at least two "
          "build statements and a declared dependency")
  common.require(nontriv > 300 and two_pass > 100, "vacuity: %d non-trivial, %d two-pass plans" % (nontriv, two_pass))
  # the counters below are read off the plans the code wrote; a run that already has a violation
  # to report is not made a machinery failure by them (a broken planner writes broken plans)
  if not run.violations:
    common.require(stats.ext_read >= 200 and ext_trees >= ntrees // 8,
                   "vacuity: %d plans (%d importlab trees) in which a step reads the stub of a "
                   "pytype_extensions step" % (stats.ext_read, ext_trees))
    for r, least in (("root", 20), ("out", 20), ("sys", 5)):
      for t in FAMILY:
        common.require(stats.role[r].get(t[r], 0) >= least,
                       "vacuity: directory name %r used as %s in only %d non-trivial plans" % (
                           t[r], r, stats.role[r].get(t[r], 0)))
  run.assumptions += [
      "a step reads its input, its imports file and every target of its imports map (over-approximation of what pytype-single opens)",
      "requested files are Local/Direct modules that occur in the import graph; module names are distinct; pytype_extensions.* modules are of System provenance and never requested",
      "special characters (space, colon, dollar; all ordered pairs adjacent, first and last position) in the names of the project root, the output directory and the system directory only (module short paths stay importable names); newline and '|' are not covered (ninja has no escape for '|')",
      "the command line of a step is passed to a shell by ninja; quoting of $imports in that shell command is outside the plan-level property",
  ]
  return run.finish()


if __name__ == "__main__":
  common.main(PID, main)

"""C07 - the typegraph solver decides binding visibility correctly.

spec -> code: TLC enumerates every distinct typegraph of Typegraph.tla within the bounds
(acyclic/unconditioned family and cyclic/conditioned family) and draws larger random graphs
with -simulate; each graph is built in a fresh cfg.Program and every query (node, goal set of
size <= 3) is put to the real solver.
code -> spec: TLC (TraceC07.tla) computes SolverRef on each recorded graph and judges the
observed answers by the four clauses of C07 (P1 exactness on acyclic unconditioned graphs, P2
completeness w.r.t. strictly explained combinations under conditions, P3 goals individually
reachable, P4 subset closure).
"""
import argparse
import json
import os
import random
import sys

sys.path.insert(0, os.path.dirname(os.path.abspath(__file__)))
import boot  # noqa: E402
import common  # noqa: E402
import tgraph  # noqa: E402
import tlc  # noqa: E402

PID = "C07"
TRACE_CFG = "INIT TInit\nNEXT TNext\nINVARIANT Ok\nPOSTCONDITION Done\n"


def canon(g):
  return json.dumps({"nn": g["nn"], "edges": sorted(g["edges"]), "cond": g["cond"],
                     "bvar": g["bvar"],
                     "origins": sorted([o["b"], o["n"], sorted(o["ss"])] for o in g["origins"])},
                    sort_keys=True, separators=(",", ":"))


def observe(g, reverse=False, maxq=3, fresh=False):
  """All queries on the real solver.  fresh: a newly built Program for every query (the pure
  reading of C07); otherwise one Program answers all queries in (reversed) canonical order."""
  qs = tgraph.all_queries(g, maxq)
  if reverse:
    qs = qs[::-1]
  if fresh:
    return [[n, G, bool(tgraph.Built(g).has(n, G))] for n, G in qs]
  b = tgraph.Built(g)
  return [[n, G, bool(b.has(n, G))] for n, G in qs]


def is_cyclic(g):
  succ = {}
  for a, b in g["edges"]:
    succ.setdefault(a, []).append(b)
  state = {}

  def dfs(x):
    state[x] = 1
    for y in succ.get(x, []):
      if state.get(y) == 1 or (y not in state and dfs(y)):
        return True
    state[x] = 2
    return False
  return any(x not in state and dfs(x) for x in range(1, g["nn"] + 1))


def nontrivial(g):
  return bool(g["edges"]) and any(o["ss"] for o in g["origins"])


def judge(run, graphs, label, fresh=False):
  """Observe all graphs on the real solver and let TLC judge.  Returns #validated."""
  cases = []
  for k, g in enumerate(graphs):
    if g["nn"] == 0 or not g["bvar"]:
      continue
    cases.append({"g": g, "qs": observe(g, reverse=bool(k % 2), fresh=fresh)})
  if not cases:
    return 0
  nq = sum(len(c["qs"]) for c in cases)
  run.add("queries", nq)
  run.add("answers_true", sum(1 for c in cases for q in c["qs"] if q[2]))
  shards = 4 if len(cases) > 20000 else 1
  bads = []
  n = len(cases)
  step = (n + shards - 1) // shards
  import concurrent.futures as cf

  def one(off):
    part = cases[off:off + step]
    nv, bad, r = tlc.validate_cases("TraceC07", part, cfg=TRACE_CFG, timeout=3000, heap="3g")
    common.require(bad is None, "TraceC07 invariant cannot fail (verdicts are printed)")
    out = []
    for rec in tlc.parse_cases(r.out, "BAD"):
      out.append((off + rec["i"] - 1, rec["fails"]))
    return nv, out
  total = 0
  with cf.ThreadPoolExecutor(max_workers=shards) as ex:
    for nv, out in ex.map(one, range(0, n, step)):
      total += nv
      bads += out
  for idx, fails in bads:
    c = cases[idx]
    g = c["g"]
    cyc = is_cyclic(g)
    hc = any(g["cond"])
    for clause, k in fails:
      q = c["qs"][k - 1]
      if clause in ("P3", "P4") and cyc:
        # root cause: provisional-true memoisation of revisited solver states (DESIGN 8.10)
        key = "C07:%s:cyclic:provisional-true-memo" % clause
      else:
        key = "C07:%s:%s:%s" % (clause, "cyclic" if cyc else "acyclic",
                                 "conditioned" if hc else "unconditioned")
      run.violation(key, "%s fails: HasCombination(node %d, goals %s) = %s on graph %s" % (
          clause, q[0], q[1], q[2], canon(g)), {"graph": g, "query": q, "clause": clause,
                                                  "family": label})
  return total


def main():
  ap = argparse.ArgumentParser()
  ap.add_argument("--tier", default="quick")
  ap.add_argument("--replay")
  a = ap.parse_args()
  run = common.Run(PID, "model_checking", a.tier)
  boot.boot()
  if a.replay:
    with open(a.replay) as f:
      case = json.load(f)["case"]
    n = judge(run, [case["graph"]], "replay")
    run.put("traces_validated_against_impl", n)
    run.put("states", 1); run.put("transitions", 1); run.sample(case["graph"])
    return run.finish()
  thorough = run.tier == "thorough"
  T = tgraph.typegraph_cfg
  # 1. design-level: the clauses of C07 are consistent on every graph of a small model
  r = tlc.run("Typegraph", T(MaxOps=8 if thorough else 6, UseCond="TRUE", AllowCycles="TRUE",
                             VIEW="GraphView", INVARIANTS=["TypeOK", "ClausesConsistent"]),
              workers=16, timeout=3000)
  if r.violated:
    raise common.Machinery("Typegraph.tla: %s violated:\n%s" % (r.violated, r.error_trace[:3000]))
  run.put("states", r.distinct)
  run.put("transitions", r.generated)
  # 2. exhaustive families -> code -> TLC verdict
  fams = [
      ("acyclic-uncond", dict(MaxOps=9 if thorough else 7, MaxOrigins=3, MaxSS=1)),
      ("acyclic-uncond-ss2", dict(MaxOps=8 if thorough else 7, MaxOrigins=4, MaxSS=2, MaxVars=3)),
      ("cyclic-cond", dict(MaxOps=8 if thorough else 7, UseCond="TRUE", AllowCycles="TRUE")),
      ("acyclic-cond", dict(MaxOps=8 if thorough else 7, UseCond="TRUE", OrderedEdges="TRUE",
                            MaxNodes=4)),
  ]
  seen = set()
  total = 0
  for label, kw in fams:
    r = tlc.run("Typegraph", T(ExportMode='"states"', VIEW="GraphView",
                               INVARIANTS=["ExportInv"], **kw),
                workers=1, timeout=3000, heap="12g")
    graphs = []
    for g in r.cases:
      c = canon(g)
      if c not in seen:
        seen.add(c)
        graphs.append(g)
    common.require(len(graphs) > 1000, "family %s exported only %d graphs" % (label, len(graphs)))
    run.put("graphs_" + label, len(graphs))
    total += judge(run, graphs, label)
    print("  [%s] %d graphs, t=%.0fs" % (label, len(graphs), __import__("time").time() - run.t0), flush=True)
    run.sample({"family": label, "graph": json.loads(canon(graphs[len(graphs) // 2]))})
  run.put("exhaustive", True)
  # 2b. the committed known-finding probes (specific inputs that are known to fail)
  with open(os.path.join(common.VERIF, "fixtures", "c07_known_cases.json")) as f:
    probes = [c["graph"] for c in json.load(f)]
  total += judge(run, probes + probes, "known-probes")   # both query orders
  total += judge(run, probes, "known-probes-fresh", fresh=True)
  # 3. larger random graphs from the spec (tlc -simulate), cyclic and conditioned included
  sims = [
      ("sim-acyclic", dict(MaxNodes=6, MaxVars=3, MaxBindings=5, MaxOrigins=7, MaxSS=2, MaxOps=24)),
      ("sim-cyclic-cond", dict(MaxNodes=6, MaxVars=3, MaxBindings=5, MaxOrigins=7, MaxSS=2,
                               MaxOps=26, UseCond="TRUE", AllowCycles="TRUE")),
      ("sim-acyclic-cond", dict(MaxNodes=7, MaxVars=3, MaxBindings=5, MaxOrigins=6, MaxSS=2,
                                MaxOps=26, UseCond="TRUE", OrderedEdges="TRUE")),
  ]
  nsim = 12000 if thorough else 700
  for k, (label, kw) in enumerate(sims):
    r = tlc.run("Typegraph", T(ExportMode='"final"', INVARIANTS=["ExportInv"], **kw),
                workers=1, timeout=3000, seed=run.seed * 10 + k, simulate="num=%d" % nsim,
                depth=kw["MaxOps"] + 1)
    graphs = []
    for g in r.cases:
      c = canon(g)
      if c not in seen:
        seen.add(c)
        graphs.append(g)
    common.require(len(graphs) > nsim // 2, "simulation %s produced %d graphs" % (label, len(graphs)))
    run.put("graphs_" + label, len(graphs))
    total += judge(run, graphs, label, fresh=True)
    run.sample({"family": label, "graph": json.loads(canon(graphs[0]))})
  run.put("traces_validated_against_impl", total)
  run.put("evaluations", total)
  run.put("distinct_nontrivial", sum(1 for c in seen if nontrivial(
      {"edges": json.loads(c)["edges"],
       "origins": [{"ss": o[2]} for o in json.loads(c)["origins"]]})))
  run.put("rule", "one case = one distinct typegraph with every query (node, goal subset <= 3); "
          "non-trivial = has an edge and an origin with a non-empty source set")
  common.require(run.cov.get("answers_true", 0) > 1000 and
                 run.cov["queries"] - run.cov["answers_true"] > 1000,
                 "vacuity: answers are not mixed")
  run.assumptions += ["P2 is judged on acyclic conditioned graphs; on cyclic graphs only P3/P4 are verdicts",
                      "exhaustive families: one Program per graph answers all queries (odd-numbered cases in reverse order); simulated graphs and probes: a fresh Program per query"]
  return run.finish()


if __name__ == "__main__":
  common.main(PID, main)

"""C12 - serialised stubs decode to the same declarations, byte-stably; equal type nodes hash
equally.

spec: specs/StubRoundTrip.tla (bytes line: Canonical -> Encode -> Decode -> Reencode ->
Reserialize; the property is the operator C12Fails), specs/PytdTerms.tla + specs/PytdEq.tla (the
equality law SpecEq of pytd type nodes - structural, unions set-like - and the enumeration of
every type term up to depth 2; TLC checks on all ordered pairs that SpecEq is reflexive,
symmetric and coincides with equality of a canonical form, i.e. a consistent hash exists),
specs/TraceC12.tla (code -> spec).

round trips (harness/stublife.py, real code only): for every AST x - the inferred AST of a
  program and the AST io.write_pickle serialises for it (serialize_ast.PrepareForExport), every
  StubGen AST (NamedType dialect and resolved through the loader), every bundled stub
  (stubs/builtins, stubs/stdlib) and fixture-typeshed module loaded through the loader, and the
  module bundle of Loader.save_to_pickle - pickle_utils.Serialize(x) -> DecodeAst -> Encode ->
  Serialize(decoded.ast); digests of the structure of the canonically ordered original (as
  SerializeAst defines it), of the decoded AST and of the three byte strings are recorded and TLC
  judges  struct(decode(encode x)) = struct(canonical x)  and  b2 = b1, b3 = b1.
  Strengthened (DESIGN 11.23): (1) a further origin of ASTs - stub TEXT read through
  serialize_ast.SourceToExportableAst (parse_pickle --pyi, PrepareForExport), which leaves the AST
  in a MIXED class-pointer state: specs/ExportStubs.tla enumerates module name x holder x union of
  same-constructor members over leaves of every pointer kind (+ enum-valued literals), and every
  StubGen stub is printed and re-read under one of the spec's module names; two more steps on the
  bytes line: Again (Serialize the SAME ast object a second time: b4 = b1) and Reorder (canonical
  ordering of the decoded AST changes nothing: s2 = s1); canonical(x) is computed on a pointer-free
  copy.  (2) the node line Hash -> Clear -> Found on every AST: hashes of its type nodes before /
  after Serialize cleared the pointers in place, membership in a set built before, the decoded
  AST's nodes against that set.
equality law: the real node is built for every exported term; for every ordered pair a == b,
  hash(a) == hash(b), len({a, b}) and len({a: 1, b: 2}) are observed; TLC judges `==` against
  SpecEq, a == b => equal hashes, equal nodes collapse in sets / dicts.
  Strengthened: a pointer-state dimension - PytdEq exports the term list in the ClassType dialect
  as well; cross rows compare every term built WITH class pointers (filled in by the real
  FillInLocalPointers inside a module) against every term built WITHOUT; life rows follow one node
  object per term through Fill -> Clear (Serialize) -> Decode -> Refill (PytdTerms.LifeOps) and
  record hash / set membership / equality at each step; enum-member and class-valued Literals are
  part of the alphabet.
"""
import argparse
import concurrent.futures as cf
import json
import os
import random
import sys
import time

sys.path.insert(0, os.path.dirname(os.path.abspath(__file__)))
import boot  # noqa: E402
import common  # noqa: E402
import pyt  # noqa: E402
import tlc  # noqa: E402

PID = "C12"
KEY_ORDER = "C12:union-hash-depends-on-member-order"
KEY_LIT = "C12:literal-raw-bool-equals-int"


KEY_PTR = "C12:%s-across-pointer-states:%s~%s"


def eq_consts(names, deep=True):
  return ('CONSTANTS NarrowNames = {%s}\n UnionLits = {"int:1", "pybool:True", "enum:E.X"}\n Deep = %s\n'
          % (", ".join('"%s"' % n for n in names), "TRUE" if deep else "FALSE"))


def tla_set(xs):
  return "{%s}" % ", ".join('"%s"' % x for x in xs)


# specs/ExportStubs.tla: module name x holder x type
MIX_QUICK = dict(mods=("app", "pkg.mod", "typing_x", "utils"), holders=("param", "const"),
                 unary=("list", "typing.Sequence"), binary=("typing.Mapping", "tuple"),
                 leaves1=("A", "int", "typing.Hashable", "collections.OrderedDict"), leaves2=("int", "str"),
                 triples=False)
MIX_THOROUGH = dict(mods=("app", "pkg.mod", "typing_x", "utils", "zoo.views"),
                    holders=("param", "ret", "const", "attr", "alias"),
                    unary=("list", "typing.Sequence"), binary=("typing.Mapping", "tuple", "callable"),
                    leaves1=("A", "int", "typing.Hashable", "typing.Sized", "collections.OrderedDict", "Any"),
                    leaves2=("int", "str", "A"), triples=True)


def mix_model(c):
  """TLC enumerates ExportStubs.tla (every stub is well-formed, flags consistent) and exports it."""
  cfg = ("SPECIFICATION Spec\nCONSTANTS ModNames = %s\n Holders = %s\n Unary = %s\n Binary = %s\n"
         " Leaves1 = %s\n Leaves2 = %s\n Triples = %s\nINVARIANT WellFormed\nINVARIANT FlagsOK\n"
         "INVARIANT ExportInv\n" % (tla_set(c["mods"]), tla_set(c["holders"]), tla_set(c["unary"]),
                                   tla_set(c["binary"]), tla_set(c["leaves1"]), tla_set(c["leaves2"]),
                                   "TRUE" if c["triples"] else "FALSE"))
  r = tlc.run("ExportStubs", cfg, workers=1, timeout=3000, heap="4g")
  if r.violated or not r.ok:
    raise common.Machinery("ExportStubs.tla violates %s:\n%s" % (r.violated, (r.error_trace or r.out)[-2500:]))
  common.require(len(r.cases) == r.distinct and r.cases, "ExportStubs exported %d of %d stubs" % (len(r.cases), r.distinct))
  # the spec's claims about the position of the module names are claims about Python's string order
  for c_ in r.cases:
    m = c_["mod"] + "."
    pos = "before-builtins" if m < "builtins." else "between" if m < "typing." else "after-typing"
    common.require(pos == c_["pos"], "ExportStubs.tla places module %s %s, Python's order says %s" % (c_["mod"], c_["pos"], pos))
  return r


def trace_cfg(names):
  return ("INIT TInit\nNEXT TNext\nCONSTANTS Digests = {}\n" + eq_consts(names)
          + "INVARIANT Ok\nPOSTCONDITION Done\n")


def eq_model(names):
  """TLC on the equality law alone (all ordered pairs) + export of the term list."""
  r = tlc.run("PytdEq", "SPECIFICATION EqSpec\n" + eq_consts(names) +
              "INVARIANT Reflexive\nINVARIANT Symmetric\nINVARIANT CanonAgrees\nINVARIANT DepthOK\n"
              "INVARIANT DialectIdem\nINVARIANT DialectCoarser\nINVARIANT DialectCanon\nINVARIANT DialectPtr\n",
              workers=4, timeout=3000)
  if r.violated or not r.ok:
    raise common.Machinery("PytdEq.tla violates %s:\n%s" % (r.violated, (r.error_trace or r.out)[-2500:]))
  x = tlc.run("PytdEq", "INIT EqInit\nNEXT EqNext\n" + eq_consts(names) + "INVARIANT ExportTerms\n",
              workers=1, timeout=3000)
  common.require(len(x.cases) == 1, "PytdEq exported %d term lists" % len(x.cases))
  terms, ct = x.cases[0]["terms"], x.cases[0]["ct"]
  common.require(r.distinct == len(terms) ** 2, "PytdEq: %d pairs for %d terms" % (r.distinct, len(terms)))
  common.require(len(ct) == len(terms), "PytdEq: %d dialect terms for %d terms" % (len(ct), len(terms)))
  return r, terms, ct


def strip(evs):
  return [{"op": e["op"], "ok": e["ok"], "d": e["d"], "e": e["e"]} for e in evs]


def term_str(t):
  tag, name, args = t
  inner = ", ".join(term_str(a) for a in args)
  return "%s%s%s" % (tag, "(%s)" % name if name else "", "[%s]" % inner if args else "")


def run_trace(job, cfg, timeout=6000):
  d = tlc.scratch("trace-TraceC12")
  try:
    tf = os.path.join(d, "trace.json")
    with open(tf, "w") as f:
      json.dump(job, f)
    r = tlc.run("TraceC12", cfg, workers=1, timeout=timeout, env={"TRACE_FILE": tf}, heap="6g")
  finally:
    import shutil
    shutil.rmtree(d, ignore_errors=True)
  if r.violated or r.rc != 0 or "violated" in r.out:
    raise common.Machinery("TraceC12 did not consume its trace:\n" + r.out[-2500:])
  return r


def mkjob(runs=(), terms=(), ct=(), rows=(), xrows=(), life=()):
  return {"runs": list(runs), "terms": list(terms), "ct": list(ct), "rows": list(rows),
          "xrows": list(xrows), "life": list(life)}


def observe_pair(na, nb):
  return {"a == b": na == nb, "hash(a) == hash(b)": hash(na) == hash(nb), "len({a, b})": len({na, nb})}


def report_rows(run, bads, terms, ct):
  """BAD lines of rows / cross rows / life rows -> violations."""
  import stubgen_terms as st
  import stublife as sl
  for b in bads:
    if "a" in b:
      a = terms[b["a"] - 1]
      for clause in ("eqm", "hash", "set"):
        for x in b[clause]:
          o = terms[x - 1]
          na, nb = st.type_node(a), st.type_node(o)
          obs = observe_pair(na, nb)
          run.add("pairs_failing_" + clause)
          if x in b["variant"]:
            key = KEY_ORDER
            what = "%s on %r vs %r: %s" % (clause, na, nb, obs)
          elif clause == "eqm" and x in b["litvar"]:
            # the known finding is about `==` alone (True == 1 with EQUAL hashes)
            key = KEY_LIT
            what = "%s on %r vs %r: %s" % (clause, na, nb, obs)
          else:
            key = "C12:%s:%s~%s" % (clause, term_str(a), term_str(o))
            what = "%s on %r vs %r: %s (SpecEq by TLC)" % (clause, na, nb, obs)
          run.violation(key, what, {"kind": "pair", "a": a, "b": o, "clause": clause, "observed": obs})
    elif "xa" in b:
      a = ct[b["xa"] - 1]
      for clause in ("eqm", "hash", "set"):
        for x in b[clause]:
          o = ct[x - 1]
          unit = sl.fill_pointers(sl.ct_unit([a]))
          na, nb = unit.constants[0].type, st.type_node(o, class_type=True)
          obs = observe_pair(na, nb)
          run.add("xpairs_failing_" + clause)
          if clause == "eqm" and x in b["litvar"]:
            key = KEY_LIT
          else:
            key = (KEY_PTR % (clause, term_str(a), term_str(o))).replace(" ", "")
          what = ("%s: %r (class pointers filled in) vs %r (no pointers): %s; SpecEq of the terms by TLC, "
                  "class pointers are not part of a node's identity" % (clause, na, nb, obs))
          run.violation(key, what, {"kind": "xpair", "a": a, "b": o, "clause": clause, "observed": obs})
    elif "la" in b:
      a = ct[b["la"] - 1]
      if b["proto"]:
        raise common.Machinery("life of %s did not follow PytdTerms.LifeOps / the expected pointer states: %s"
                               % (term_str(a), b))
      steps = sl.eq_life([a])[0]["steps"]
      for clause in ("moved", "lost", "uneq"):
        if b[clause]:
          run.add("life_failing_" + clause)
          ops = [steps[k - 1]["op"] for k in b[clause]]
          run.violation(("C12:life-%s:%s" % (clause, term_str(a))).replace(" ", ""),
                        "one node object %r through Fill -> Clear (Serialize) -> Decode -> Refill: %s at %s; steps %s"
                        % (st.type_node(a, class_type=True),
                           {"moved": "hash differs from the hash after Fill", "lost": "not found in a set built after Fill",
                            "uneq": "not equal to the original"}[clause], ops, steps),
                        {"kind": "life", "a": a, "clause": clause, "steps": steps})


def judge(run, recs, srcs, terms, ct, rows, xrows, life, names, selftest=False):
  """TLC judges the recorded runs (both lines) and the pair / cross / life rows (rows split over
  <= 6 JVMs)."""
  import stubgen_terms as st
  boot.boot()
  runs = [{"id": r["id"], "line": r["line"], "events": strip(r["events"]), "devs": r.get("devs", []),
           "variants": [{"without": v["without"], "events": strip(v["events"])} for v in r.get("variants", [])]}
          for r in recs]
  shards = []
  if rows or xrows:
    n = 6 if len(rows) + len(xrows) > 400 else 1
    s1 = (len(rows) + n - 1) // n or 1
    s2 = (len(xrows) + n - 1) // n or 1
    shards = [(rows[k * s1:(k + 1) * s1], xrows[k * s2:(k + 1) * s2]) for k in range(n)]
  # binding demonstration on every run: a recorded clean run / row with ONE corrupted field must be
  # rejected by TLC (else the machinery is vacuous: exit 2)
  expect = {}
  if selftest:
    def clean(r, n):
      return (r["line"] == n and not r["devs"] and all(e["ok"] for e in r["events"])
              and len({e["d"] for e in r["events"] if e["op"] in ("Canonical", "Decode", "Reorder")}) <= 1
              and len({e["d"] for e in r["events"] if e["op"] in ("Encode", "Reencode", "Reserialize", "Again")}) <= 1
              and len({e["d"] for e in r["events"] if e["op"] in ("Hash", "Clear", "Found")}) <= 1
              and all(e["e"] for e in r["events"] if e["op"] in ("Clear", "Found")))
    base = next((r for r in runs if len(r["events"]) == 7 and clean(r, "bytes")), None)
    nbase = next((r for r in runs if len(r["events"]) == 3 and clean(r, "nodes")), None)
    common.require(base is not None and nbase is not None and rows and xrows and life,
                   "no clean run to demonstrate the binding on")
    for src, name, idx, field, clause in (
        (base, "struct", 2, "d", "struct"), (base, "bytes", 3, "d", "bytes"), (base, "stable", 4, "d", "stable"),
        (base, "repeat", 5, "d", "repeat"), (base, "order", 6, "d", "order"),
        (nbase, "moved", 1, "d", "moved"), (nbase, "lost", 1, "e", "lost"),
        (nbase, "rehash", 2, "d", "rehash"), (nbase, "dup", 2, "e", "dup")):
      c = json.loads(json.dumps(src))
      c["id"] = "selftest:" + name
      c["devs"], c["variants"] = [], []
      c["events"][idx][field] = "corrupted" if field == "d" else False
      expect[c["id"]] = clause
      runs.append(c)
  jobs = [mkjob(runs, terms, ct, shards[0][0] if shards else (), shards[0][1] if shards else (), life)]
  jobs += [mkjob((), terms, ct, sh[0], sh[1]) for sh in shards[1:]]
  if selftest:
    # a node that is not equal to itself, a node with a hash different from its own - in the same
    # and across pointer states; a node object whose hash moves when its pointers are cleared
    l0 = json.loads(json.dumps(life[0]))
    l0["steps"][1]["h"] = "moved"
    l0["steps"][2]["inset"] = False
    jobs.append(mkjob((), terms, ct, [dict(rows[0], eq=[]), dict(rows[0], hne=[rows[0]["a"]])],
                      [dict(xrows[0], eq=[]), dict(xrows[0], hne=[xrows[0]["a"]])], [l0]))
  cfg = trace_cfg(names)
  t0 = time.time()
  with cf.ThreadPoolExecutor(max_workers=8) as ex:
    outs = list(ex.map(lambda j: run_trace(j, cfg), jobs))
  run.add("tlc_trace_wall_s", round(time.time() - t0, 1))
  counts = {"rows": 0, "nvar": 0, "xrows": 0, "nptr": 0, "life": 0, "life_ptr": 0}
  if selftest:
    st_rows = tlc.parse_cases(outs.pop().out, "BAD")
    ok = (len(st_rows) == 5 and st_rows[0]["eqm"] == [rows[0]["a"]] and st_rows[1]["hash"] == [rows[0]["a"]]
          and st_rows[2]["eqm"] == [xrows[0]["a"]] and st_rows[3]["hash"] == [xrows[0]["a"]]
          and st_rows[4]["moved"] == [2] and st_rows[4]["lost"] == [3] and not st_rows[4]["proto"])
    common.require(ok, "binding demonstration failed: TLC accepted corrupted rows: %s" % st_rows)
    run.add("selftest_rejected", 5)
  for r in outs:
    run.add("trace_states", r.distinct)
    for n in tlc.parse_cases(r.out, "NOTE"):
      if n["id"].startswith("selftest:"):
        continue
      for k in n["notes"]:
        run.add("note_" + k)
      if run.cov.get("divergences_total", 0) < 6:
        run.diverge({"id": n["id"], "notes": n["notes"],
                     "what": "pytd_utils.ASTeq disagrees with the structural digests (not part of the property)"})
    for row in tlc.parse_cases(r.out, "ROW"):
      counts["nvar"] += row["nvariants"]
      counts["rows"] += 1
    for row in tlc.parse_cases(r.out, "XROW"):
      counts["nptr"] += row["nptr"]
      counts["xrows"] += 1
    for row in tlc.parse_cases(r.out, "LIFE"):
      counts["life"] += 1
      counts["life_ptr"] += 1 if row["ptr"] else 0
    rowbads = []
    for b in tlc.parse_cases(r.out, "BAD"):
      if "terms" in b:
        raise common.Machinery("the rows were not computed for the terms PytdEq.tla enumerates")
      if "run" in b and b["id"] in expect:
        if expect[b["id"]] in b["fails"]:
          del expect[b["id"]]
          run.add("selftest_rejected")
        continue
      if "run" in b:
        rec = recs[b["run"] - 1]
        base_id = rec["id"].split("#")[0]
        msg = "; ".join("%s: %s" % (e["op"], e["x"]) for e in rec["events"] if e["x"])[:400]
        src = srcs.get(base_id.split(":")[0]) if rec["origin"] in ("inferred", "export") else rec.get("text")
        fam = "roundtrip" if rec["line"] == "bytes" else "node-hash"
        if b["attr"] == ["unexplained"]:
          key = "C12:%s:%s:%s" % (fam, "+".join(sorted(b["fails"])), rec["origin"])
          what = "clauses %s fail on %s (%s, %s line%s) %s %s %s" % (
              sorted(b["fails"]), rec["id"], rec["origin"], rec["line"],
              ", module name %s" % rec["mod"] if rec.get("mod") else "", CLAUSES.get(fam, ""), msg,
              json.dumps(src[:1200]) if src else "")
        else:
          key = "C12:" + "+".join(sorted(b["attr"]))
          what = "clauses %s fail on the %s AST of %s because of %s (%s)" % (
              sorted(b["fails"]), rec["origin"], json.dumps(src[:1200]) if src else rec["id"],
              "; ".join(st.C12_DEVIATIONS.get(d, d) for d in b["attr"]), msg)
        run.add("failing_roundtrips" if rec["line"] == "bytes" else "failing_node_runs")
        run.violation(key, what,
                      {"kind": rec.get("kind", rec["origin"]), "id": rec["id"], "fails": b["fails"],
                       "events": rec["events"], "line": rec["line"],
                       "src": srcs.get(base_id.split(":")[0] if rec["origin"] in ("inferred", "export") else base_id),
                       "item": rec.get("item")})
        continue
      rowbads.append(b)
    report_rows(run, rowbads, terms, ct)
  common.require(not expect, "binding demonstration failed: TLC accepted corrupted runs %s" % sorted(expect))
  return counts


CLAUSES = {
    "roundtrip": "[struct: decoded declarations # canonically ordered pointer-free original; bytes: Encode(decoded) # b1; "
                 "stable: Serialize(decoded.ast) # b1; repeat: Serialize of the SAME ast a second time # b1; "
                 "order: canonical ordering of the decoded AST changes it, i.e. the stored order is not canonical]",
    "node-hash": "[moved: hashes of the AST's own type nodes differ after Serialize cleared its class pointers in "
                 "place; lost: a node is not found in a set built before; rehash: the decoded AST's type nodes hash "
                 "differently from the original's although they are equal; dup: a decoded node is not found in the set "
                 "of the original's nodes]",
}


def account(run, recs):
  feats = {}
  for r in recs:
    if r["line"] == "nodes":
      run.add("node_runs_" + r["origin"])
      continue
    run.add("asts_" + r["origin"])
    run.add("bytes_encoded", r.get("bytes", 0))
    p0, p1 = r.get("ptr", [0, 0])
    if p0 and not p1:
      run.add("asts_pointers_cleared_in_place")      # Serialize really changed the pointer state
    for k, v in r.get("feats", {}).items():
      if v:
        feats[k] = feats.get(k, 0) + 1
    for k, v in r.get("flags", {}).items():
      if v:
        run.add("mix_" + k)
    if r["origin"] in ("mix", "stubgen-text"):
      run.add("text_asts_module_" + r["mod"])
  run.put("asts_with_feature", feats)
  return feats


def replay(run, a, names):
  import stublife as sl
  with open(a.replay) as f:
    case = json.load(f)["case"]
  if case["kind"] in ("pair", "xpair", "life"):
    # the terms are judged with the same verdict operators; TermsBound is not applicable to a replayed pair
    if case["kind"] == "pair":
      terms = [case["a"], case["b"]]
      job = mkjob((), terms, (), sl.eq_rows(terms))
    elif case["kind"] == "xpair":
      terms = [case["a"], case["b"]]
      job = mkjob((), terms, terms, (), sl.eq_xrows(terms))
    else:
      terms = [case["a"]]
      job = mkjob((), terms, terms, (), (), sl.eq_life(terms))
    r = run_trace(job, trace_cfg(names), timeout=600)
    report_rows(run, [b for b in tlc.parse_cases(r.out, "BAD") if "terms" not in b], terms, terms)
    run.put("programs", 0); run.put("disagreements_checked", 4); run.sample({case["kind"]: terms})
    return run.finish()
  if case["kind"] in ("inferred", "export", "emitted"):
    it = {"kind": "emitted", "id": case["id"].split(":")[0], "src": case["src"]}
  elif case["kind"].startswith("stubgen") or case["kind"] == "mix":
    it = dict(case["item"])
  else:
    it = {"kind": "bundled", "id": "bundled"}
  recs = [r for r in sl.c12_work(it) if not r.get("skip") and
          (it["kind"] != "bundled" or r["id"].split("#")[0] == case["id"].split("#")[0])]
  common.require(recs, "nothing to replay")
  for r in recs:
    r["item"] = it
  judge(run, recs, {it["id"]: it.get("src")}, [], [], [], [], [], names)
  account(run, recs)
  run.put("programs", len(recs)); run.put("disagreements_checked", sum(len(r["events"]) for r in recs))
  run.sample({"id": recs[0]["id"], "events": recs[0]["events"]})
  return run.finish()


def main():
  ap = argparse.ArgumentParser()
  ap.add_argument("--tier", default="quick")
  ap.add_argument("--replay")
  a = ap.parse_args()
  run = common.Run(PID, "translation_validation", a.tier)
  boot.boot()
  import stublife as sl
  thorough = run.tier == "thorough"
  names = ["int", "str", "float", "A", "B"] if thorough else ["int", "str", "A"]

  if a.replay:
    return replay(run, a, names)

  import c05
  import c05_progs
  import progs_d
  rng = random.Random(run.seed)
  mixc = MIX_THOROUGH if thorough else MIX_QUICK
  items = [{"kind": "bundled", "id": "bundled"}]
  items += [{"kind": "emitted", "id": "dialect%02d" % k, "src": s} for k, s in enumerate(c05_progs.DIALECT)]
  items += [{"kind": "emitted", "id": "witness-" + k, "src": s} for k, s in sorted(c05_progs.WITNESS.items())]
  items += [{"kind": "emitted", "id": "witness12-" + k, "src": s} for k, s in sorted(c05_progs.C12_WITNESS.items())]
  items += [{"kind": "emitted", "id": "witness12p-" + k, "src": s} for k, s in sorted(PTR_WITNESS.items())]
  items += [{"kind": "emitted", "id": "hand%02d" % k, "src": s} for k, s in enumerate(progs_d.HAND)]
  items += [{"kind": "emitted", "id": "gen%d" % k, "src": s}
            for k, s in enumerate(progs_d.generate(run.seed, 1200 if thorough else 80))]
  ups = progs_d.upstream_snippets(boot.REPO)
  if not thorough:
    ups = sorted(rng.sample(ups, min(len(ups), 260)))
  items += [{"kind": "emitted", "id": "up-" + n.replace(":", "-"), "src": s} for n, s in ups]
  families = tuple(c05.FAMILIES) if thorough else ("classes", "generic-classes", "types")
  nsim, sims = (3000, 4) if thorough else (150, 2)
  plan = [(8, 2, 800), (12, 2, 400)] if thorough else [(8, 2, 40), (10, 2, 20)]

  import multiprocessing as mp
  ctx = mp.get_context("spawn")
  t0 = time.time()
  with cf.ThreadPoolExecutor(max_workers=12) as ex, \
       ctx.Pool(8, initializer=pyt._init_worker, initargs=(boot.REPO, 0)) as pool:  # pylint: disable=protected-access
    f_eq = ex.submit(eq_model, names)
    f_mix = ex.submit(mix_model, mixc)
    f_model = ex.submit(c05.model_checks)
    f_prog = ex.submit(c05.gen_programs, plan, run.seed + 1)
    f_fams = [ex.submit(c05.gen_family, n, run.seed) for n in families]
    f_sims = [ex.submit(c05.gen_sim, nsim, run.seed * 37 + 11 + j) for j in range(sims)]
    first = pool.map_async(sl.c12_work, items, chunksize=2)
    r_eq, terms, ct = f_eq.result()
    n = len(terms)
    step = max(8, n // 24)
    row_items = [{"kind": "rows", "id": "rows%d" % lo, "terms": terms, "ct": ct, "lo": lo, "hi": min(n, lo + step)}
                 for lo in range(0, n, step)]
    row_items.append({"kind": "life", "id": "life", "ct": ct})
    rows_async = pool.map_async(sl.c12_work, row_items, chunksize=1)
    r_mix = f_mix.result()
    items1 = [{"kind": "mix", "id": "mix%d" % k, "stub": c} for k, c in enumerate(r_mix.cases)]
    mix_async = pool.map_async(sl.c12_work, items1, chunksize=8)
    items2 = []
    srcs2, pstates = f_prog.result()
    items2 += [{"kind": "emitted", "id": "proggen%d" % k, "src": s} for k, s in enumerate(srcs2)]
    seen = set()
    gstates = gtrans = 0
    mods = sorted(mixc["mods"])        # the module names of ExportStubs.tla, one per StubGen stub in turn

    def stub_item(ident, c):
      return {"kind": "stubgen", "id": ident, "stub": c, "mod": mods[(len(seen) + run.seed) % len(mods)]}
    for f in f_fams:
      name, r = f.result()
      gstates += r.distinct
      gtrans += r.generated
      for k, c in enumerate(r.cases):
        key = json.dumps(c, sort_keys=True)
        if key not in seen:
          seen.add(key)
          items2.append(stub_item("fam-%s-%d" % (name, k), c))
    for j, f in enumerate(f_sims):
      r = f.result()
      for k, c in enumerate(r.cases):
        key = json.dumps(c, sort_keys=True)
        if key not in seen:
          seen.add(key)
          items2.append(stub_item("sim%d-%d" % (j, k), c))
    run.put("stubgen_stubs", len(seen))
    second = pool.map_async(sl.c12_work, items2, chunksize=4)
    results = first.get() + mix_async.get() + second.get()
    parts = [x for part in rows_async.get() for x in part]
    rows = [row for x in parts for row in x.get("rows", [])]
    xrows = [row for x in parts for row in x.get("xrows", [])]
    life = [row for x in parts for row in x.get("life", [])]
    mstates, mtrans = f_model.result()
  items += items1 + items2
  run.add("pipeline_wall_s", round(time.time() - t0, 1))
  for rs, what in ((rows, "pair"), (xrows, "cross"), (life, "life")):
    rs.sort(key=lambda r: r["a"])
    common.require([r["a"] for r in rs] == list(range(1, n + 1)), "%s rows incomplete" % what)

  srcs = {it["id"]: it.get("src") for it in items if it["kind"] == "emitted"}
  stubs = {it["id"]: it for it in items if it["kind"] in ("stubgen", "mix")}
  recs = []
  for it, out in zip(items, results):
    for r in out:
      if r.get("skip"):
        if r["skip"].startswith("harness:"):
          raise common.Machinery("harness failure on %s: %s" % (r["id"], r["skip"]))
        # crash / compile error (C15), stub that does not re-parse or resolve (C05): nothing to pickle
        run.add("not_serialisable_" + r["skip"].split(":")[0])
        continue
      if it["kind"] in ("stubgen", "mix"):
        r["item"] = stubs[it["id"]]
      recs.append(r)
  cnt = judge(run, recs, srcs, terms, ct, rows, xrows, life, names, selftest=True)
  nvar = cnt["nvar"]
  common.require(cnt["rows"] == n and cnt["xrows"] == n and cnt["life"] == n,
                 "TLC judged %s of %d rows of each kind" % (cnt, n))
  feats = account(run, recs)
  npairs = n * n
  nb = [r for r in recs if r["line"] == "bytes"]
  run.put("programs", len(nb))
  run.put("type_terms", n)
  run.put("node_pairs", npairs)
  run.put("node_pairs_across_pointer_states", npairs)
  run.put("node_lives", n)
  run.put("equal_pairs_observed", sum(len(r["eq"]) for r in rows))
  run.put("equal_pairs_across_pointer_states", sum(len(r["eq"]) for r in xrows))
  run.put("equal_pairs_with_pointer_by_spec", cnt["nptr"])
  run.put("order_variant_pairs", nvar)
  run.put("disagreements_checked", sum(len(r["events"]) for r in recs) + 6 * npairs + 12 * n)
  run.put("states", r_eq.distinct + mstates + r_mix.distinct)
  run.put("transitions", r_eq.generated + mtrans + r_mix.generated)
  run.put("model_states", {"PytdEq_pairs": r_eq.distinct, "StubRoundTrip": mstates, "ExportStubs": r_mix.distinct,
                           "StubGen_exhaustive_families": gstates, "ProgGen_simulated": pstates})
  run.put("evaluations", len(recs) + 2 * npairs + n)
  run.put("distinct_nontrivial",
          len({r["events"][1]["d"] for r in nb if len(r["events"]) > 1 and sum(r.get("feats", {}).values()) >= 3})
          + sum(1 for r in rows for j in r["eq"] if j != r["a"]))
  run.put("rule", "round trips: one case = one AST through Serialize/DecodeAst/Encode/Serialize(decoded)/Serialize(same)/"
          "CanonicalOrdering(decoded) on the real code, and its node line (hashes of its type nodes before / after the "
          "pointers are cleared, decoded nodes against a set of the original's) "
          "(distinct by digest of the encoded bytes; non-trivial = the AST shows >= 3 dialect features); "
          "equality law: one case = one ordered pair of real type nodes built from PytdEq.tla's terms, in the same "
          "and across class-pointer states, or the life of one node object "
          "(non-trivial = the two nodes are distinct terms that compare equal)")
  want = {"dialect05:export", "bundled:typing", "fam-classes-7:resolved"}
  for r in recs:
    if r["id"] in want or (r["origin"] == "mix" and r.get("flags", {}).get("sensitive") and "mix" not in want):
      if r["origin"] == "mix":
        want.add("mix")
      run.sample({"id": r["id"], "origin": r["origin"], "bytes": r["bytes"], "text": r.get("text", ""),
                  "events": [[e["op"], e["ok"], e["d"]] for e in r["events"]]})
  big = [r for r in rows if len(r["eq"]) > 2][:1]
  for r in big:
    run.sample({"term": terms[r["a"] - 1], "equal_to": [terms[j - 1] for j in r["eq"][:4]],
                "hash_differs": [terms[j - 1] for j in r["hne"][:4]]})
  for r in life:
    if any(s["ptr"] == "r" for s in r["steps"]) and ct[r["a"] - 1][0] == "lit":
      run.sample({"life_of": ct[r["a"] - 1], "steps": r["steps"]})
      break
  # vacuity guards
  need = {"classes": 300, "overloads": 100, "generics": 300, "typevars": 150, "callables": 100,
          "unions": 200, "tuples": 100, "generic_class": 30, "literals": 50, "late": 3, "nested": 10}
  lack = ["%s=%d<%d" % (k, feats.get(k, 0), v) for k, v in need.items() if feats.get(k, 0) < v]
  common.require(not lack, "vacuity: too few ASTs with " + ", ".join(lack))
  for o, m in (("inferred", 300), ("export", 300), ("stubgen-named", 600), ("stubgen-resolved", 600),
               ("bundled", 15), ("bundle", 1), ("stubgen-text", 500), ("mix", len(r_mix.cases) * 9 // 10)):
    common.require(run.cov.get("asts_" + o, 0) >= m, "vacuity: %s ASTs of origin %s" % (run.cov.get("asts_" + o, 0), o))
    if o != "bundle":
      common.require(run.cov.get("node_runs_" + o, 0) >= m, "vacuity: %s node runs of origin %s" % (run.cov.get("node_runs_" + o, 0), o))
  common.require(nvar >= 300 and run.cov["equal_pairs_observed"] > n,
                 "vacuity: %d equal-but-differently-ordered union pairs" % nvar)
  # the new families were really exercised
  common.require(run.cov.get("mix_sensitive", 0) >= 40 and run.cov.get("mix_mixed", 0) >= 150 and run.cov.get("mix_enum", 0) >= 30,
                 "vacuity: ExportStubs cases sensitive=%s mixed=%s enum=%s" % (
                     run.cov.get("mix_sensitive", 0), run.cov.get("mix_mixed", 0), run.cov.get("mix_enum", 0)))
  for m in mixc["mods"]:
    common.require(run.cov.get("text_asts_module_" + m, 0) >= 100, "vacuity: %s text ASTs under module name %s" % (
        run.cov.get("text_asts_module_" + m, 0), m))
  common.require(run.cov.get("asts_pointers_cleared_in_place", 0) >= 1500,
                 "vacuity: Serialize cleared pointers in place on only %s ASTs" % run.cov.get("asts_pointers_cleared_in_place", 0))
  common.require(cnt["nptr"] >= n and cnt["life_ptr"] >= n // 2 and run.cov["equal_pairs_across_pointer_states"] >= n,
                 "vacuity: pointer-state dimension: %s, equal cross pairs %s" % (cnt, run.cov["equal_pairs_across_pointer_states"]))
  nres = sum(1 for r in xrows if r["ptr"][0] == "r" and r["ptr"][1] == "u")
  common.require(nres >= n // 2, "vacuity: only %d terms were built with pointers filled in / without" % nres)
  nlit = sum(1 for r in life if ct[r["a"] - 1][0] == "lit" and ct[r["a"] - 1][1].startswith("enum:")
             and [s["ptr"] for s in r["steps"]] == ["r", "u", "u", "r"])
  common.require(nlit >= 2, "vacuity: %d enum-valued literals went through the four pointer states" % nlit)
  run.assumptions += [
      "structural equality is a digest of an explicit dump of the node tree (ClassType.cls pointers and lookup "
      "caches excluded), independent of pytd's own __eq__/__hash__",
      "the canonically ordered original is what SerializeAst defines: module aliases undone in late types, "
      "`.__init__` stripped from the module name, class pointers cleared, CanonicalOrderingVisitor - computed on a "
      "pointer-free copy of the declarations",
      "ASTs of programs whose stub does not re-parse (C05 findings) have no exportable form and are counted, not judged",
      "type terms: depth <= 2 over %d class names; every pytd node class that carries a type; pointer states: "
      "all pointers filled in against none (no partially filled node in the pair law; ASTs in mixed state are "
      "covered by the round trips)" % len(names),
      "node line: multisets of hashes are compared (sorted), which is exact when the structures agree (struct clause)"]
  return run.finish()


# programs whose inferred / exported AST holds enum-valued literals and same-base containers
PTR_WITNESS = {
    "enum-literal": (
        "import enum\nfrom typing import List, Literal\n\nclass Color(enum.Enum):\n  RED = 1\n  BLUE = 2\n\n"
        "def paint(c: Literal[Color.RED], width: Literal[1, 2], fill: Literal[True]) -> List[Literal[Color.BLUE]]:\n"
        "  return [Color.BLUE]\n"),
    "enum-literal-union": (
        "import enum\nfrom typing import Literal, Union\n\nclass Color(enum.Enum):\n  RED = 1\n  BLUE = 2\n\n"
        "x: Literal[Color.RED, Color.BLUE]\ny: Union[Literal[Color.RED], int]\n"
        "def f(c: Union[Literal[Color.RED], None]) -> Literal[Color.BLUE]:\n  return Color.BLUE\n"),
    "mapping-union": (
        "from typing import Hashable, Mapping, Sequence, Union\n\nclass Key: ...\n\n"
        "def lookup(table: Union[Mapping[Key, int], Mapping[Hashable, str]]) -> None: ...\n"
        "def seq(xs: Union[Sequence[Key], Sequence[Hashable]]) -> None: ...\n"),
}


if __name__ == "__main__":
  common.main(PID, main)

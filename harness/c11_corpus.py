"""Small programs whose inferred stubs exercise the optimiser (C11): several returns of different
container types, tuples of mixed arity, callables, object()/None, class hierarchies, mutated
parameters, overload-like branches, long unions.  Only typing/enum/collections/abc/os/sys/types
may be imported (typeshed fixture)."""

PROGRAMS = [
'''
def f(x, y):
  return pow(x, y)
def g(x):
  return round(x)
def h(x):
  return divmod(x, 2)
def k(x):
  return abs(x)
def m(x, y):
  return max(x, y)
def n(x):
  return sum(x)
def p(x):
  return reversed(x)
def q(x, y):
  return x.get(y) if x else dict.fromkeys(y)
''',
'''
class A: pass
class B(A): pass
def want_int(x: int): return x
def want_a(x: B): return x
def cond(c):
  want_int([1] if c else {"a": 2.0})
  want_int((1, "a") if c else (1, 2, 3))
  want_a(A() if c else [B()])
  want_int({1} if c else {"s"})
  want_int([A()] if c else [B(), None])
  want_int(1.5 if c else None)
''',
'''
def f(x):
  if x: return [1]
  return ["a"]
def g(x):
  if x: return {1: "a"}
  return {"a": 1}
def h(x):
  if x: return {1}
  if x > 2: return {"a"}
  return {None}
''',
'''
def t(x):
  if x == 1: return (1, "a")
  if x == 2: return (1,)
  return ()
def u(x):
  if x: return (1, "a")
  return ("b", 2)
def v(x):
  if x: return (1, 2)
  return tuple([1, 2, 3])
''',
'''
class A: pass
class B(A): pass
class C: pass
def f(x):
  if x == 1: return A()
  if x == 2: return B()
  return C()
def g(x):
  if x: return A()
  return B()
def h(x):
  if x: return [A()]
  return [B()]
a = A() if f(1) else B()
''',
'''
def f(x):
  if x: return [1]
  return object()
def g(x):
  if x: return object()
  return None
def h(x):
  if x: return 1
  return object()
o = object()
p = [object()]
q = [1] if f(1) else object()
''',
'''
def many(x):
  if x == 1: return 1
  if x == 2: return "a"
  if x == 3: return 1.0
  if x == 4: return None
  if x == 5: return b""
  if x == 6: return [1]
  if x == 7: return {1: 2}
  if x == 8: return (1,)
  if x == 9: return {1}
  return 1j
def many_in_list(x):
  return [many(x)]
def seven(x):
  if x == 1: return 1
  if x == 2: return "a"
  if x == 3: return 1.0
  if x == 4: return None
  if x == 5: return b""
  if x == 6: return [1]
  return {1: 2}
''',
'''
def app(x, y):
  x.append(y)
  return x
def upd(d):
  d["a"] = 1
  d[1] = "b"
def ext(l):
  l.extend([1, "a"])
  l.append(None)
''',
'''
def c1(x):
  if x: return lambda: 1
  return lambda a: "s"
def c2(x):
  if x: return lambda a: 1
  return lambda a: "s"
def c3(x):
  if x: return len
  return lambda a, b: a
''',
'''
from typing import List, Dict, Union, Optional, Tuple, Callable, Any
def f(x: Union[int, bool]) -> Union[int, bool]: return x
def g(x: Union[List[int], List[str]]) -> Union[List[int], List[str]]: return x
def h(x: Optional[Union[int, Any]]): return x
def k(x: Union[Tuple[int], Tuple[int, str]]): return x
def m(x: Union[Callable[[int], str], Callable[[str], str]]): return x
def n(x: Union[Dict[str, int], Dict[str, str], None]): return x
y: Union[int, bool, float] = 1
''',
'''
import collections
def f(x):
  if x: return collections.OrderedDict()
  return {}
def g(x):
  if x: return collections.defaultdict(int)
  return collections.defaultdict(str)
def h(x):
  d = collections.Counter()
  d["a"] += 1
  return d if x else {"a": 1.0}
''',
'''
import enum
class Color(enum.Enum):
  RED = 1
  BLUE = 2
def f(x):
  if x: return Color.RED
  return Color.BLUE
def g(x):
  if x: return [Color.RED]
  return [1]
''',
'''
class Node:
  def __init__(self, v, nxt=None):
    self.v = v
    self.nxt = nxt
  def vals(self):
    out = []
    n = self
    while n:
      out.append(n.v)
      n = n.nxt
    return out
  def first(self):
    return self.v if self.v else None
a = Node(1, Node("a"))
b = a.vals()
''',
'''
def nested(x):
  if x == 1: return [[1]]
  if x == 2: return [["a"]]
  return [(1,)]
def nested2(x):
  if x: return {"a": [1]}
  return {"a": ["b"]}
def nested3(x):
  if x: return ([1],)
  return (["a"],)
''',
'''
def gen(x):
  for i in range(x):
    yield i
  yield "a"
def gen2(x):
  yield [1]
  yield ["a"]
async def co(x):
  if x: return 1
  return "a"
''',
'''
class Base:
  def m(self, x):
    if x: return 1
    return "a"
  @property
  def p(self):
    return [1] if self else ["a"]
  @staticmethod
  def s(x):
    return (x, 1) if x else (x,)
  @classmethod
  def c(cls, x):
    return cls() if x else None
class Derived(Base):
  def m(self, x):
    return 1.0 if x else True
''',
'''
import os, sys
def f(x):
  if x: return os.environ
  return {}
def g(x):
  if x: return sys.argv
  return [1]
def h(x):
  return os.path.join("a", "b") if x else None
''',
'''
def b1(x):
  if x: return True
  return 1
def b2(x):
  if x: return [True]
  return [1]
def b3(x):
  if x == 1: return True
  if x == 2: return 1
  return 1.5
def b4(x):
  return {True: 1} if x else {1: True}
''',
'''
from typing import TypeVar, Generic, List
T = TypeVar("T")
class Box(Generic[T]):
  def __init__(self, v: T):
    self.v = v
  def get(self) -> T:
    return self.v
  def both(self, x):
    return [self.v] if x else [x]
def f(x):
  if x: return Box(1)
  return Box("a")
def g(x):
  return Box(1).get() if x else Box("a").get()
''',
'''
def e1(x):
  if x == 1: raise ValueError("a")
  if x == 2: raise KeyError("b")
  return 1
def e2(x):
  try:
    return e1(x)
  except ValueError:
    return "a"
  except KeyError:
    return None
''',
'''
def d1(x, y=None, *args, **kwargs):
  if y: return args
  return kwargs
def d2(x, *, k=1):
  return [k] if x else [x]
def d3(*a):
  return a if a else None
''',
'''
x1 = [1, "a", None]
x2 = {1: "a", "b": 2}
x3 = (1, "a") if x1 else (1,)
x4 = [[1], ["a"]]
x5 = [1] if x1 else ["a"]
x6 = {1} if x1 else frozenset(["a"])
x7 = [x for x in (1, "a", 2.0)]
''',
'''
def s1(x):
  if x == 1: return frozenset([1])
  if x == 2: return frozenset(["a"])
  return {1}
def s2(x):
  return {1: [1]} if x else {1: (1,)}
def s3(x):
  if x: return [1, 2][::2]
  return "abc"[::2]
''',
'''
class W:
  def __enter__(self): return self
  def __exit__(self, *a): return None
  def __call__(self, x): return [x] if x else None
def f(x):
  with W() as w:
    return w(x)
def g(x):
  if x: return W()
  return W
''',
'''
def r(n):
  if n <= 0: return []
  return [n] + r(n - 1)
def r2(n):
  if n <= 0: return None
  return (n, r2(n - 1))
def r3(n):
  return {"k": r3(n - 1)} if n else {}
''',
'''
import types
def f(x):
  if x: return types.SimpleNamespace(a=1)
  return None
def g(x):
  if x: return f
  return None
def h(x):
  return type(x) if x else int
''',
]

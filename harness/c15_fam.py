"""C15: rendering of the spec-planned input families of specs/Outcome.tla into source text.

The PLANS (which callable shape is called with which call shape, which error class is provoked by
which text, which exotic character goes into which region of which composed text, which pool text
gets a bare annotation and an exotic character where) are enumerated by TLC from Outcome.tla
(PlanCall, Provoke, Compose, Precondition, MutateExo) and exported; this module only turns a plan
into text, deterministically, and asks CPython what the language says about it (the binding
faults of a call, whether the character changed the oracle's view).  Nothing here evaluates C15.
"""
import ast
import io
import os
import re
import tokenize
import warnings

# the characters str.splitlines() breaks at and CPython's tokenizer does not (Outcome!CharSeq)
EXO = {"ff": "\x0c", "vt": "\x0b", "fs": "\x1c", "gs": "\x1d", "rs": "\x1e", "nel": "\x85",
       "ls": "\u2028", "ps": "\u2029"}


# ----------------------------------------------------------------------------- call family
POSVALS = ["1", "'s'", "None"]
VALUES = {"int": "v = 1", "none": "v = None", "str": "v = 's'", "list": "v = [1]", "module": "import os\nv = os"}


def _params(c):
  out = []
  n = len(c["ps"])
  for j, nm in enumerate(c["ps"]):
    p = nm
    if c["ann"] and nm in ("a", "b"):
      p += ": int"
    if c["dflt"] and j == n - 1:
      p += " = 0" if ":" in p else "=0"
    out.append(p)
  if c["star"]:
    out.append("*args")
  if c["kwonly"]:
    if not c["star"]:
      out.append("*")
    out.append("k")
  if c["kw"]:
    out.append("**kw")
  return ", ".join(out)


def call_header(c, tag=""):
  """-> (definition lines, callee expression); tag makes the names of one callable of a group unique"""
  kind, ps = c["kind"], _params(c)
  f, cls, obj, v = "f" + tag, "C" + tag, "o" + tag, "v" + tag
  if kind == "value":
    return VALUES[c["val"]].replace("v = ", v + " = ").split("\n"), v
  if kind == "def":
    return ["def %s(%s):" % (f, ps), "  return None"], f
  if kind == "lambda":
    return ["%s = lambda %s: None" % (f, ps) if ps else "%s = lambda: None" % f], f
  if kind == "ctor":
    return ["class %s:" % cls, "  def __init__(%s):" % ps, "    return None"], cls
  deco = {"method": None, "method-cls": None, "static": "@staticmethod", "static-cls": "@staticmethod",
          "classm": "@classmethod", "classm-cls": "@classmethod"}[kind]
  lines = ["class %s:" % cls] + (["  " + deco] if deco else []) + ["  def m(%s):" % ps, "    return None",
                                                                    "%s = %s()" % (obj, cls)]
  return lines, ("%s.m" % cls if kind.endswith("-cls") else "%s.m" % obj)


def call_expr(c, callee, call):
  args = POSVALS[:call["npos"]]
  for w in ("first", "zz", "k"):
    if w in call["kws"]:
      args.append({"first": "%s='s'" % (c["ps"][0] if c["ps"] else "first"), "zz": "zz=1", "k": "k=1"}[w])
  return "%s(%s)" % (callee, ", ".join(args))


def sort_calls(calls):
  return sorted(calls, key=lambda x: (x["npos"], sorted(x["kws"])))


def sort_group(group):
  return sorted(group, key=lambda g: (g["c"]["kind"], g["c"]["val"]))


def render_call(plan, only=None):
  """plan = exported PlanCall plan (a group of callables with one parameter list and flag set).
  -> (src, group) with group = [{c, calls: [{npos, kws, line, expr, faults, tfault}]}] in a fixed
  order: for each callable its definition, then one call per line.  only = (callable index,) or
  (callable index, call index): the part of the text to keep (used to take a crashing text apart)."""
  lines = []
  out = []
  for gi, g in enumerate(sort_group(plan["group"])):
    if only is not None and gi != only[0]:
      continue
    c = g["c"]
    head, callee = call_header(c, str(gi))
    lines += head
    calls = []
    for ci, call in enumerate(sort_calls(g["calls"])):
      if only is not None and len(only) > 1 and ci != only[1]:
        continue
      expr = call_expr(c, callee, call)
      lines.append(expr)
      calls.append({"npos": call["npos"], "kws": sorted(call["kws"]), "line": len(lines), "expr": expr,
                    "faults": sorted(call["faults"]), "tfault": bool(call["tfault"])})
    out.append({"c": c, "gi": gi, "calls": calls})
  return "\n".join(lines) + "\n", out


_CPY_CLASS = [
    (re.compile(r"missing \d+ required (positional|keyword-only) argument"), "missing-parameter"),
    (re.compile(r"takes (from )?\d+( to \d+)? positional arguments? but \d+ "
                r"(positional arguments? \(and \d+ keyword-only arguments?\) )?(was|were) given"), "wrong-arg-count"),
    (re.compile(r"got an unexpected keyword argument"), "wrong-keyword-args"),
    (re.compile(r"got multiple values for argument"), "duplicate-keyword-argument"),
    (re.compile(r"object is not callable"), "not-callable"),
]


def cpython_call_outcomes(plan):
  """Execute the rendered text under CPython statement by statement: the definitions are executed,
  every call is evaluated.  -> list of (expr, predicted fault classes, class CPython raised or ""
  when the call returned)."""
  src, group = render_call(plan)
  lines = src.split("\n")
  call_at = {c["line"]: c for g in group for c in g["calls"]}
  ns = {}
  out = []
  with warnings.catch_warnings():
    warnings.simplefilter("ignore")
    block = []
    for ln, text in enumerate(lines, 1):
      if ln not in call_at:
        block.append(text)
        continue
      if block:
        exec(compile("\n".join(block) + "\n", "<callfam>", "exec"), ns)  # pylint: disable=exec-used
        block = []
      call = call_at[ln]
      got = ""
      try:
        eval(compile(call["expr"], "<callfam>", "eval"), ns)  # pylint: disable=eval-used
      except TypeError as e:
        got = next((cl for rx, cl in _CPY_CLASS if rx.search(str(e))), "TypeError:" + str(e))
      out.append((call["expr"], call["faults"], got))
  return src, out


# ----------------------------------------------------------------------------- composed texts
HEAD = "import os  # head note\nH = 'head text'\n"
PRE = {
    "none": "def clamp(a):  # pre note\n  x = a or 'pre text'\n  return x\n",
    "ann-func": "def clamp(a):  # pre note\n  x: int\n  x = a or 'pre text'\n  return x\n",
    "ann-async": "async def clamp(a):  # pre note\n  x: int\n  x = a or 'pre text'\n  return x\n",
    "ann-module": "x: int  # pre note\nP = 'pre text'\ndef clamp(a):\n  return a\n",
    "ann-class": "class K:  # pre note\n  x: int\n  P = 'pre text'\ndef clamp(a):\n  return a\n",
    "ann-method": "class K:\n  def m(self):  # pre note\n    x: int\n    x = 'pre text'\n    return x\ndef clamp(a):\n  return a\n",
    "ann-semi": "def clamp(a):  # pre note\n  x: int; y = 'pre text'\n  return a\n",
    "type-comment": "def clamp(a):  # pre note\n  x = []  # type: list\n  x.append('pre text')\n  return a\n",
    "func-type-comment": "def clamp(a):\n  # type: (object) -> object\n  x = 'pre text'  # pre note\n  return a\n",
    "directive": "# pytype: disable=attribute-error\ndef clamp(a):  # pre note\n  x = a.real or 'pre text'\n  return x\n"
                 "# pytype: enable=attribute-error\n",
    "type-ignore": "def clamp(a):  # pre note\n  x = 1 + 'pre text'  # type: ignore\n  return a\n",
}
MID = "m = clamp('mid text')  # mid note\n"
TAIL = {
    "clean": "z = m or 'tail text'  # tail note",
    "name-error": "z = undefined_name or 'tail text'  # tail note",
    "return-outside": "return 'tail text'  # tail note",
    "nonlocal-unbound": "def q():\n  nonlocal nope; s = 'tail text'  # tail note",
    "unclosed-paren": "z = ('tail text',  # tail note",
    "fold-error": "z = {['tail text']}  # tail note",
}


def _offsets(src):
  off = [0]
  for l in src.split("\n"):
    off.append(off[-1] + len(l) + 1)
  return off


def _tokens(src):
  """(type, start offset, end offset, first on its line?, inside an f-string?) of the real tokens;
  tolerant of errors.  Lines are CPython's lines (split at "\n"): the exotic characters are not
  line breaks.  A boundary inside an f-string (before its literal parts, inside its replacement
  fields) is part of a string literal, not a token boundary of the program."""
  off = _offsets(src)
  out = []
  last_line = 0
  depth = 0
  try:
    for t in tokenize.generate_tokens(io.StringIO(src).readline):
      if t.type in (tokenize.ENDMARKER, tokenize.NEWLINE, tokenize.NL, tokenize.INDENT, tokenize.DEDENT):
        continue
      s = off[t.start[0] - 1] + t.start[1]
      e = off[t.end[0] - 1] + t.end[1]
      inside = depth > 0
      if t.type == tokenize.FSTRING_START:
        depth += 1
      elif t.type == tokenize.FSTRING_END:
        depth -= 1
      if e > s:
        out.append((t.type, s, e, t.start[0] != last_line, inside))
        last_line = t.start[0]
  except (tokenize.TokenError, IndentationError, SyntaxError, SystemError, IndexError):
    pass
  return out


def _candidates(src, place, lo, hi):
  """offsets at which a character may be inserted: place = "token" (the boundary before a token
  that is not the first one of its line), "string" (the middle of a plain string literal),
  "comment" (the middle of a comment), among the tokens inside [lo, hi)."""
  toks = [t for t in _tokens(src) if lo <= t[1] and t[2] <= hi]
  if place == "token":
    return [t[1] for t in toks if not t[3] and not t[4] and t[0] != tokenize.COMMENT]
  if place == "string":
    return [t[1] + (t[2] - t[1]) // 2 for t in toks if t[0] == tokenize.STRING and t[2] - t[1] >= 4
            and "\\" not in src[t[1]:t[2]] and src[t[1]] in "'\""]
  return [t[1] + max(1, (t[2] - t[1]) // 2) for t in toks if t[0] == tokenize.COMMENT]


def _position(src, place, lo, hi, pick):
  cand = _candidates(src, place, lo, hi)
  return cand[pick % len(cand)] if cand else None


def render_compose(plan):
  """-> (base text, text with the character or None, 1-based line of the insertion)."""
  head, pre, mid = HEAD, PRE[plan["pre"]], MID
  tail = TAIL[plan["tail"]] + ("\n" if plan["eol"] else "")
  base = head + pre + mid + tail
  a, b, c = len(head), len(head) + len(pre), len(head) + len(pre) + len(mid)
  lo, hi = {"head": (0, a), "pre": (a, b), "mid": (b, c), "tail": (c, len(base) + 1)}[plan["region"]]
  cand = _candidates(base, plan["place"], lo, hi)
  if not cand:
    return base, None, 0
  pos = cand[len(cand) // 2]          # the middle candidate of the region
  return base, base[:pos] + EXO[plan["ch"]] + base[pos:], base.count("\n", 0, pos) + 1


# ----------------------------------------------------------------------------- pool texts
def add_bare_annotations(src):
  """Precondition "ann": `v_ann: int` as the first statement of every function body that starts on
  its own line.  Returns src unchanged if it does not parse or has no such function."""
  try:
    with warnings.catch_warnings():
      warnings.simplefilter("ignore")
      tree = ast.parse(src)
  except (SyntaxError, ValueError, RecursionError, MemoryError):
    return src
  at = {}
  for node in ast.walk(tree):
    if isinstance(node, (ast.FunctionDef, ast.AsyncFunctionDef)) and node.body:
      b = node.body[0]
      first = min([b.lineno] + [d.lineno for d in getattr(b, "decorator_list", [])])
      if first > node.lineno and first not in at:
        at[first] = b.col_offset
  if not at:
    return src
  lines = src.split("\n")
  for ln in sorted(at, reverse=True):
    if lines[ln - 1][:at[ln]].strip() == "":
      lines.insert(ln - 1, " " * at[ln] + "v_ann: int")
  return "\n".join(lines)


def insert_exotic(src, kind, slot, nslots, ch, pick):
  """MutateExo(place, slot, ch) on a pool text: the text is cut into nslots equal spans; the
  character goes to a position of the place inside span `slot` (or, if that span has none, the
  whole text).  Returns src unchanged if the text has no such place."""
  place = kind[3:]
  n = len(src)
  lo, hi = (slot * n) // nslots, ((slot + 1) * n) // nslots
  pos = _position(src, place, lo, hi, pick)
  if pos is None:
    pos = _position(src, place, 0, n + 1, pick + slot)
  if pos is None:
    return src
  return src[:pos] + EXO[ch] + src[pos:]


# ----------------------------------------------------------------------------- oracle-side facts
def anntrail(src):
  """Lines (CPython's numbering) on which a bare annotation inside a function ends and which carry
  more code after the annotation (`x: int; y = 1`, `x: int;`).
  Computed from CPython's ast on the text as given; [] if it does not parse."""
  try:
    with warnings.catch_warnings():
      warnings.simplefilter("ignore")
      tree = ast.parse(src)
  except (SyntaxError, ValueError, RecursionError, MemoryError):
    return []
  lines = src.split("\n")
  out = set()

  def walk(node, infn):
    for ch in ast.iter_child_nodes(node):
      if isinstance(ch, ast.AnnAssign) and ch.value is None and infn:
        if ch.end_lineno - 1 < len(lines):
          raw = lines[ch.end_lineno - 1].encode("utf8")
          after = raw[ch.end_col_offset:]
          code_after = after.split(b"#", 1)[0].strip()
          if code_after:
            out.add(ch.end_lineno)
      walk(ch, infn or isinstance(ch, (ast.FunctionDef, ast.AsyncFunctionDef, ast.Lambda)))
  walk(tree, False)
  return sorted(out)


def write_deps(root, table):
  """the stub files the provoking texts import, under root (a scratch directory under build/)"""
  os.makedirs(root, exist_ok=True)
  for row in table:
    for name, text in row["deps"]:
      with open(os.path.join(root, name), "w", encoding="utf8") as f:
        f.write(text)
  return root

"""Worker process for C04: analyses sources sent on stdin (one JSON object per line) and answers
with one JSON observation per line.  The hash seed is fixed by the parent through PYTHONHASHSEED.

request  {"src", "mode": "fresh"|"reused", "opt": "default"|"protocols", "warm": n}
  first does `warm` units of unrelated work (analyses a module "w" with n un-annotated
  parameters, fresh loader, same option set; nothing of it is reported), then analyses src.
Keeps one long-lived loader per option set for mode "reused"; mode "fresh" creates a new loader."""
import hashlib
import json
import os
import sys
import time

sys.path.insert(0, os.path.dirname(os.path.abspath(__file__)))
import boot  # noqa: E402

boot.boot()
from pytype import io as pio  # noqa: E402
from pytype import load_pytd  # noqa: E402
from pytype.imports import pickle_utils  # noqa: E402
from pytype.pytd import serialize_ast  # noqa: E402
import pyt  # noqa: E402

OPTS = {"default": {}, "protocols": {"protocols": True}}


def sha(b):
  if isinstance(b, str):
    b = b.encode("utf-8")
  return hashlib.sha1(b).hexdigest()[:16]


def filler(n):
  """A module with exactly n un-annotated parameters (functions of at most 5 parameters)."""
  out = []
  k = 0
  while n > 0:
    m = min(n, 5)
    k += 1
    ps = ["a%d" % (j + 1) for j in range(m)]
    out.append("def u%d(%s):\n  return %s\n" % (k, ", ".join(ps), ps[0]))
    n -= m
  return "".join(out)


def main():
  reused = {}
  t0 = 0.0     # the first answer also accounts for starting the process and importing pytype
  for line in sys.stdin:
    req = json.loads(line)
    opt = req.get("opt", "default")
    warm = int(req.get("warm", 0))
    if warm:
      wopts = pyt.options(module_name="w", **OPTS[opt])
      try:
        pio.generate_pyi(filler(warm), wopts, load_pytd.create_loader(wopts))
      except Exception:  # pylint: disable=broad-except
        pass
    opts = pyt.options(module_name="m", **OPTS[opt])
    if req["mode"] == "reused":
      if opt not in reused:
        reused[opt] = load_pytd.create_loader(opts)
      loader = reused[opt]
    else:
      loader = load_pytd.create_loader(opts)
    try:
      ret, pyi = pio.generate_pyi(req["src"], opts, loader)
      # identity of a reported error = what pytype itself prints and de-duplicates on: position
      # (line, column, method), name, message, details and the traceback of the call site
      errs = [[e.line or 0, e.name,
               sha(repr(e.get_unique_representation()) + "\n" + (e.traceback or ""))]
              for e in ret.context.errorlog.unique_sorted_errors()]
      raw = [[e.line or 0, e.name, sha(e.message or "")] for e in ret.context.errorlog]
      try:
        exp = serialize_ast.PrepareForExport("m", ret.ast, loader)
        pk = sha(pickle_utils.Serialize(exp))
      except Exception as e:  # pylint: disable=broad-except
        pk = "unpicklable:" + type(e).__name__
      out = {"obs": [sha(pyi), sha(json.dumps(errs)), pk], "errs": errs, "nraw": len(raw),
             "pyi": pyi}
    except Exception as e:  # pylint: disable=broad-except
      # an escaped exception (C15's subject) yields no stub, no error report and no pickle: the
      # observation is "crashed with this exception type"; the text of the internal error is not an
      # output of the analysis (it may print internal names); it is returned for the log only
      out = {"obs": ["exc:" + type(e).__name__, "", ""], "errs": [], "nraw": 0, "pyi": "",
             "excmsg": str(e)[:300]}
    out["cpu"] = round(time.process_time() - t0, 3)
    t0 = time.process_time()
    sys.stdout.write(json.dumps(out) + "\n")
    sys.stdout.flush()


if __name__ == "__main__":
  main()

"""Regenerates /verif/MANIFEST.json from the table below (single source of truth)."""
import json
import os

VERIF = os.path.dirname(os.path.dirname(os.path.abspath(__file__)))

# id -> (category, technique, level text, level note, design ref)
CHECKS = {
    "C14": ("model_checking",
            "TLA+ spec OpDispatch.tla (data-model dispatch protocol for user classes; builtin outcome tables probed from CPython) enumerated by TLC; every statement executed under CPython (oracle clause) and analysed by the real pytype; TLC (TraceC14.tla) judges false positives and advertised misses",
            "TLC enumerates the whole statement grammar (binary + - * / over 14 builtin operand kinds, + with 15 generated user classes covering forward/reflected/declining/subclass-first/same-type cases, unary minus, subscript, attribute read, method call, call: 1816 statements) and predicts each outcome; CPython must agree with every prediction; pytype's per-line flags are judged both ways by TLC.",
            "Trusted: TLC, statement renderer, the probed builtin tables (data). Literal operands are fixed representatives of their class.",
            "DESIGN.md section 6, C14"),
    "C02": ("model_checking",
            "TLA+ grammars of annotations and ground values (AnnGrammar.tla) with the membership oracle Admits (PytdTypes.tla) checked by TLC; value terms confirmed by CPython; every (annotation, value, site) rendered into a module analysed by the real pytype; TLC (TraceC02.tla) judges err <=> ~Admits and attributes disagreements to documented deviations",
            "TLC enumerates the depth-2 annotation grammar (236 annotations) and 91 ground values and checks the oracle's laws; for each annotation one module puts every value at the argument, return and annotated-assignment sites; the reported errors are judged by TLC against Admits. Disagreements are attributed to a known finding only when exactly one documented matcher deviation, modelled in the spec, explains them.",
            "Trusted: TLC, the renderer terms.py (checked by CPython evaluation of every value expression), PEP 484 reading encoded in Admits. quick samples 110 non-scalar annotations by seed; thorough takes all.",
            "DESIGN.md section 6, C02"),
    "C07": ("model_checking",
            "TLA+ spec Typegraph.tla/TypegraphOps.tla (API as actions, SolverRef as least fixed point) explored by TLC; every distinct graph state built in a real cfg.Program and queried; observed answers judged by TLC (TraceC07.tla) against the four clauses",
            "TLC enumerates every typegraph within the stated bounds (four exhaustive families: acyclic/cyclic, with/without conditions, source sets up to 2) and draws larger random graphs with -simulate; every graph is rebuilt in the real solver and every query (node, goal set <= 3) is judged by the declarative SolverRef evaluated by TLC: exact on acyclic unconditioned graphs, completeness under conditions, reachability and subset closure everywhere.",
            "Trusted: TLC, the JSON bridge, Built() (canonical construction order). SolverRef agreed with the unmodified solver on all acyclic graphs explored. Violations of clauses 3/4 on cyclic graphs are attributed to one documented root cause (known finding).",
            "DESIGN.md section 6, C07"),
    "C08": ("model_checking",
            "Histories (behaviours of Typegraph.tla incl. Query and paste operations) from TLC exhaustive search, per-transition export and -simulate, executed on a long-lived cfg.Program with a fresh replica per query; TraceC08.tla advances the spec by its own actions and judges each query",
            "Every history of the tiny model, every transition of a larger state graph (build, warm caches, operate, re-ask everything) and long simulated histories are executed on the real Program; each query is compared with a freshly built replica, with earlier identical queries, and (acyclic, unconditioned) with SolverRef; solver-instance counts expose missing cache invalidation.",
            "Trusted: TLC, the replica construction (same mutators in the same order in a fresh Program). Spec-vs-code state conformance is logged as divergence, not verdict.",
            "DESIGN.md section 6, C08"),
    "C09": ("model_checking",
            "TLA+ spec Reach.tla model-checked by TLC (exhaustive, W=2); spec histories replayed on cfg.Program; recorded is_reachable rows trace-validated by TLC (TraceReach.tla)",
            "Exhaustive TLC state graph of the bucketed reachability matrix (all histories of <=5 nodes, W=2) proves the algorithm equal to declarative reachability; every maximal history of the 4-node model and long spec-generated histories spanning several 64-bit buckets are executed on the real Program and every recorded row is validated by TLC against the spec state.",
            "Trusted: TLC, the JSON bridge, the out-of-tree g++ build of pytype/typegraph (same sources, -O2). Rows are sampled for graphs > 8 nodes.",
            "DESIGN.md section 6, C09"),
}

NOT_APPLICABLE = {}

PENDING = ["C01", "C03", "C04", "C05", "C06", "C10", "C11", "C12", "C13",
           "C15", "C16", "C17", "C18", "C19", "C20"]


def main():
  checks = []
  for pid in sorted(CHECKS):
    cat, tech, text, note, ref = CHECKS[pid]
    checks.append({
        "property_id": pid,
        "quick_cmd": "./check %s --tier quick" % pid,
        "thorough_cmd": "./check %s --tier thorough" % pid,
        "evidence_file": "/verif/evidence/%s.json" % pid,
        "replay_cmd_template": "./check %s --replay {path}" % pid,
        "engine": "tlc+replay",
        "level_claimed": {"category": cat, "text": text, "design_ref": ref},
        "level_note": note,
        "technique": tech,
    })
  na = [{"property_id": p, "reason": r} for p, r in sorted(NOT_APPLICABLE.items())]
  for p in PENDING:
    if p not in CHECKS and p not in NOT_APPLICABLE:
      na.append({"property_id": p, "reason": "not claimed yet: specification and binding under construction (see DESIGN.md section 10); will be claimed when its check is committed"})
  m = {
      "version": 1,
      "setup_cmd": "./setup.sh",
      "hooks": {
          "guard": "GOOGLE_PYTYPE_VERIF",
          "enable": "checks export GOOGLE_PYTYPE_VERIF=1; no source hook is needed so far: all observation is through public APIs and harness-side wrappers",
          "baseline_off_cmd": "cd /repo && env -u GOOGLE_PYTYPE_VERIF /venv/bin/python -m pytest -ra -q -p no:cacheprovider --timeout=900 --continue-on-collection-errors",
          "source_commits": [],
          "add_only": True,
      },
      "engines": [
          {"name": "tlc+replay", "path": "/verif/check",
           "serves_properties": sorted(CHECKS),
           "kind_free_text": "explicit TLA+ specifications under /verif/specs checked by TLC; spec behaviours replayed into the real code and recorded observations trace-validated by TLC"},
      ],
      "checks": checks,
      "not_applicable": na,
      "notes": "See DESIGN.md. Exit codes: 0 held, 1 VIOLATION, 2 machinery failure.",
  }
  with open(os.path.join(VERIF, "MANIFEST.json"), "w") as f:
    json.dump(m, f, indent=1)
    f.write("\n")


if __name__ == "__main__":
  main()

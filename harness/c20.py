"""C20 - merging a stub into source changes annotations only.

spec: specs/MergePyiOps.tla (slot rules of merge-pyi: the two passes over the stub and the applier,
as coded and as the property asks), specs/MergePyi.tla (one behaviour = one program/stub pair as a
slot table going through pass1 / pass2 / apply).  TLC checks on every table within the bounds that
the stepwise machine equals the rule table and that Kept / FromStub / NoBareAnyNever / NoStray hold
(AsCoded = FALSE); with AsCoded = TRUE it must produce the two design-level witnesses (a bare
Any / Never on a variable; a class-body tuple target declared at module level).

spec -> code: every table (Mode = "tables") is rendered to a real .py and .pyi (harness/c20_obs.py)
and handed to the real merge_pyi.merge_sources (what the merge-pyi tool's main calls).
Second family: programs (ProgGen.tla behaviours, the C15/C16 program generator, hand-written
ones) x the stub the real pytype infers for them.
Existing annotations range over T and (families funcx / varsx, programs c20_progs.EXISTING_ANY_NEVER)
the annotations the author himself wrote as a bare Any / Never / typing.Any: on parameters, returns,
`v: X = e`, value-less `v: X` (module level and class body) and annotated locals.  The model keeps
them (KeptInv, AuthorAnyNeverStaysInv) although it forbids inserting the same text; the design
alternative "run the Any / Never filter over the merged source too" (FilterMerged = TRUE) must
violate KeptInv.  On the real code a stripped or deleted one is existing-dropped / existing-changed.
code -> spec: specs/TraceC20.tla judges every pair: compiles; the annotation-free syntax tree is
the original's; existing annotations kept; every inserted annotation is the stub's type for that
definition; no bare Any / Never on a return or variable.  Differences between the operational
model's prediction (which slots get annotated) and the code are divergences, not verdicts.
"""
import argparse
import concurrent.futures as cf
import json
import os
import random
import sys
import time

sys.path.insert(0, os.path.dirname(os.path.abspath(__file__)))
import boot  # noqa: E402
import common  # noqa: E402
import c20_obs as obs  # noqa: E402
import pyt  # noqa: E402
import tlc  # noqa: E402

PID = "C20"
PC = ["plain", "default", "kwonly", "star"]
FL = ["plain", "method", "static", "decorated", "async", "nested"]
VC = ["assign", "tuple", "multi", "reassign", "infunc"]
VCX = VC + ["decl", "localann"]       # + contexts that carry an annotation of the author's
EX_T = ["T"]
EX_AN = ["Any", "Never", "QAny"]      # the author wrote a bare Any / Never / typing.Any himself
RULE_INVS = ("TypeOK", "PassesOnlyRemove", "StepwiseEqualsRuleTable", "KeptInv", "FromStubInv",
             "NoBareAnyNeverInv", "NoStrayInv", "AllOrNothingInv", "AuthorAnyNeverStaysInv")
CODED_INVS = ("TypeOK", "PassesOnlyRemove", "StepwiseEqualsRuleTable", "KeptInv", "FromStubInv",
              "AllOrNothingInv")
TRACE_CFG = "INIT TInit\nNEXT TNext\nINVARIANT Ok\nPOSTCONDITION Done\n"

# clause of TraceC20.tla -> key of the finding (root cause); anything else gets C20:<clause>
KEYS = {
    "bare-any-never-variable": "C20:any-never-variable-annotation-not-filtered",
    "stray-class-target-at-module-level": "C20:class-tuple-target-declared-at-module-level",
    "kwonly-annotation-import-not-added": "C20:kwonly-annotation-import-not-added",
    "stub-only-class-inserted": "C20:stub-only-class-inserted",
    "generic-base-added": "C20:generic-base-added-to-class",
    "qualified-any-never-return": "C20:qualified-any-never-not-filtered",
    "qualified-any-never-variable": "C20:qualified-any-never-not-filtered",
}


def cfg(ms, mp, mv, pctx, fls, vctx, rich2, exs, coded, mode, invs, filter_merged=False):
  def s(xs):
    return "{" + ", ".join('"%s"' % x for x in xs) + "}"
  return ("SPECIFICATION Spec\nCONSTANTS MaxSlots = %d\n MaxParams = %d\n MaxVars = %d\n PCtx = %s\n"
          " Fls = %s\n VCtx = %s\n Rich2 = %s\n Exs = %s\n AsCoded = %s\n FilterMerged = %s\n Mode = \"%s\"\n"
          % (ms, mp, mv, s(pctx), s(fls), s(vctx), "TRUE" if rich2 else "FALSE", s(exs),
             "TRUE" if coded else "FALSE", "TRUE" if filter_merged else "FALSE", mode)
          + "".join("INVARIANT %s\n" % i for i in invs))


def fam_args(name):
  return {
      "func": (3, 2, 0, PC, FL, VC, False, EX_T),          # one function, <= 2 parameters + return
      "funcrich": (3, 2, 0, PC, FL, VC, True, EX_T),       # two parameters vary context / flavour too
      "vars1": (1, 0, 1, PC, [], VC, False, EX_T),
      "vars2": (2, 0, 2, PC, [], VC, False, EX_T),         # <= 2 module / class variables
      "vars3": (3, 0, 3, PC, [], VC, False, EX_T),
      "mixed": (3, 1, 1, ["plain"], ["plain", "method"], VC, False, EX_T),   # function + one variable
      # existing annotations that are themselves Any / Never / typing.Any:
      # one function (<= 1 parameter + return), four flavours
      "funcx": (2, 1, 0, PC, ["plain", "method", "nested", "async"], [], False, EX_AN),
      # <= 2 module / class variables: v = e, v: X = e, v: X (value-less), annotated local
      "varsx": (2, 0, 2, PC, [], ["assign", "decl", "localann"], False, EX_AN),
      "vars1x": (1, 0, 1, PC, [], ["assign", "decl", "localann"], False, EX_AN),
      # thorough: all flavours / all contexts, T next to Any / Never; function + variable
      "funcxfull": (2, 1, 0, PC, FL, [], False, EX_T + EX_AN),
      "varsxfull": (2, 0, 2, PC, [], VCX, False, EX_T + EX_AN),
      "mixedx": (3, 1, 1, ["plain"], ["plain", "method"], ["assign", "decl"], False, ["Any", "Never"]),
  }[name]


XFAMS = ("funcx", "varsx", "funcxfull", "varsxfull", "mixedx")


BARE_ANY_NEVER = ("typing.Any", "typing.Never", "typing_extensions.Never", "Any", "Never")


def canon(t):
  return json.dumps(t, sort_keys=True, separators=(",", ":"))


# ---------------------------------------------------------------------------------------------
# workers (real code)

def _merge():
  boot.boot()
  from pytype.tools.merge_pyi import merge_pyi
  return merge_pyi.merge_sources


def work(item):
  """("tables", seed, [(t, variant, qualified_any)..]) or ("progs", [src..]) -> list of records."""
  kind = item[0]
  merge = _merge()
  out = []
  if kind == "tables":
    _, seed, ts = item
    for t, variant, qual in ts:
      py, pyi, names, leaves = obs.render(t, obs.rng_for(seed, t, variant), qualified_any=qual)
      try:
        compile(py, "<c20-src>", "exec", dont_inherit=True)
        compile(pyi, "<c20-stub>", "exec", dont_inherit=True)
      except SyntaxError as e:
        raise common.Machinery("rendering of table %s is not Python: %s\n%s\n%s" % (canon(t), e, py, pyi))
      case, merged = obs.observe(py, pyi, merge)
      case.update({"fam": "table", "t": t, "names": names, "leaves": leaves, "qual": qual})
      out.append({"case": case, "py": py, "pyi": pyi, "merged": merged, "qual": qual})
  else:
    for src in item[1]:
      r = pyt.analyze(src)
      if r["outcome"] != "result":
        out.append({"skip": r["outcome"], "py": src, "exc": r["exc"][-300:]})
        continue
      try:
        obs.Doc(r["pyi"])
      except SyntaxError as e:
        out.append({"skip": "stub-not-parsable", "py": src, "exc": str(e), "pyi": r["pyi"]})
        continue
      case, merged = obs.observe(src, r["pyi"], merge)
      case.update({"fam": "inferred", "qual": False})
      out.append({"case": case, "py": src, "pyi": r["pyi"], "merged": merged, "qual": False})
  return out


# ---------------------------------------------------------------------------------------------

def tla_case(c):
  return {k: c[k] for k in ("fam", "err", "compiles", "d0", "d1", "e0", "e1", "added_classes", "added_generic", "qual", "orig", "stub", "out", "t", "names", "leaves")
          if k in c}


def judge(run, recs):
  """TLC judges all records; violations / divergences are reported on run.  Returns stats."""
  cases = [tla_case(r["case"]) for r in recs]
  chunk = 2500
  parts = [(k, cases[k:k + chunk]) for k in range(0, len(cases), chunk)]

  def one(arg):
    off, part = arg
    nv, bad, r = tlc.validate_cases("TraceC20", part, cfg=TRACE_CFG, timeout=3000, heap="4g")
    common.require(bad is None and nv == len(part), "TraceC20 did not consume its cases:\n" + r.out[-2000:])
    return off, r
  t0 = time.time()
  with cf.ThreadPoolExecutor(max_workers=4) as ex:
    outs = list(ex.map(one, parts))
  run.add("tlc_trace_wall_s", round(time.time() - t0, 1))
  for off, r in outs:
    run.add("trace_states", r.distinct)
    for rec in tlc.parse_cases(r.out, "BAD"):
      x = recs[off + rec["i"] - 1]
      for clause, arg in rec["fails"]:
        key = KEYS.get(clause, "C20:" + clause)
        run.add("clause_" + clause)
        what = "%s %s: merge_sources(py=%r, pyi=%r) -> %r" % (clause, arg, x["py"], x["pyi"],
                                                               x["merged"] or x["case"]["err"])
        run.violation(key, what, {"py": x["py"], "pyi": x["pyi"], "fam": x["case"]["fam"],
                                  "t": x["case"].get("t"), "names": x["case"].get("names"),
                                  "leaves": x["case"].get("leaves"), "qual": x["case"].get("qual", False),
                                  "clause": clause, "arg": arg,
                                  "merged": x["merged"]})
    for rec in tlc.parse_cases(r.out, "DIV"):
      x = recs[off + rec["i"] - 1]
      run.diverge({"slots [kind, slot, observed, as-coded, rule]": rec["divs"], "table": x["case"]["t"],
                   "py": x["py"], "pyi": x["pyi"], "merged": x["merged"]})
    for rec in tlc.parse_cases(r.out, "DIVS"):
      x = recs[off + rec["i"] - 1]
      run.diverge({"stray declarations": rec["obs"], "as-coded": rec["coded"], "table": x["case"]["t"],
                   "py": x["py"], "pyi": x["pyi"], "merged": x["merged"]})
    for rec in tlc.parse_cases(r.out, "FOLLOWS"):
      for k, which in rec["slots"]:
        run.add("slots_following_" + which)
        if which == "rule" and len(run.cov.setdefault("examples_following_rule", [])) < 3:
          x = recs[off + rec["i"] - 1]
          run.cov["examples_following_rule"].append({"slot": k, "table": x["case"]["t"], "py": x["py"],
                                                     "pyi": x["pyi"], "merged": x["merged"]})
  return len(cases)


def stats(run, recs, prefix):
  """Coverage counters (and vacuity inputs) from the records."""
  for r in recs:
    c = r["case"]
    orig_ids = {s["id"] for s in c["orig"]}
    ins = [s for s in c["out"] if s["id"] not in orig_ids]
    run.add(prefix + "_pairs")
    run.add(prefix + "_annotations_inserted", len(ins))
    run.add(prefix + "_annotations_existing", len(c["orig"]))
    if ins:
      run.add(prefix + "_pairs_changed")
    info = c.get("info") or {}
    if info.get("imports_added"):
      run.add(prefix + "_pairs_imports_added")
    if info.get("typevars_added"):
      run.add(prefix + "_pairs_typevar_added")
    if info.get("docstring_displaced"):
      run.add(prefix + "_pairs_docstring_displaced")
    if any(s["a"] != s["u"] and s["a"][:1] in "'\"" for s in ins):
      run.add(prefix + "_pairs_forward_ref_quoted")
    for s in ins:
      run.add(prefix + "_inserted_" + s["k"])
    bare = [s for s in c["orig"] if s["k"] != "param" and s["u"] in BARE_ANY_NEVER]
    if bare:
      run.add(prefix + "_pairs_existing_any_never")
    for s in bare:
      run.add(prefix + "_existing_any_never_" + s["k"])
      if any(o["id"] == s["id"] and o["a"] == s["a"] for o in c["out"]):
        run.add(prefix + "_existing_any_never_kept")
    if c.get("fam") == "table":
      for k, s in enumerate(c["t"]["slots"]):
        q = c["names"][k]
        got = any(o["q"] == q for o in c["out"])
        if s["ex"] in EX_AN:
          tag = s["kind"] if s["kind"] in ("param", "ret") else {"decl": "decl", "localann": "local"}.get(s["ctx"], "var")
          run.add("exann_" + tag)
          run.add("exann_is_" + s["ex"])
        if s["st"] in ("Any", "Never") and s["kind"] == "ret" and s["ex"] == "none" and not got:
          run.add("ret_any_never_filtered")
        if s["st"] in ("triv", "Lit") and not got:
          run.add("var_trivial_filtered")


def programs(run, thorough):
  """Second family: source texts."""
  import c20_progs
  import progs_d
  import progterms
  out = list(c20_progs.PROGS) + list(progs_d.HAND)
  n_gen = 500 if thorough else 50
  out += progs_d.generate(run.seed + 20, n_gen, exotic=False)
  out += progs_d.generate(run.seed + 21, n_gen // 2, exotic=True)
  num = 1000 if thorough else 90
  r = tlc.run("ProgGen", "INIT Init\nNEXT Next\nCONSTANTS MaxStmts = 10\n Depth = 2\n"
              "INVARIANT WellScoped\nINVARIANT ExportInv\n", workers=1, timeout=3000,
              seed=run.seed * 7 + 20, simulate="num=%d" % num, depth=13)
  if r.violated:
    raise common.Machinery("ProgGen.tla emitted an ill-scoped program:\n" + r.error_trace[:2000])
  pg = ["".join(progterms.stmt(s) for s in c["p"]) for c in r.cases]
  common.require(len(pg) >= num // 2, "ProgGen produced %d programs" % len(pg))
  run.put("programs_proggen", len(pg))
  seen = set()
  res = []
  for s in out + pg:
    if s not in seen:
      seen.add(s)
      try:
        compile(s, "<prog>", "exec", dont_inherit=True)
      except (SyntaxError, ValueError):
        continue
      res.append(s)
  return res


def main():
  ap = argparse.ArgumentParser()
  ap.add_argument("--tier", default="quick")
  ap.add_argument("--replay")
  a = ap.parse_args()
  run = common.Run(PID, "model_checking", a.tier)
  boot.boot()
  merge = _merge()
  if a.replay:
    with open(a.replay) as f:
      case = json.load(f)["case"]
    c, merged = obs.observe(case["py"], case["pyi"], merge)
    c["fam"] = case.get("fam", "inferred")
    if c["fam"] == "table":
      c.update({"t": case["t"], "names": case["names"], "leaves": case["leaves"]})
    c["qual"] = bool(case.get("qual"))
    n = judge(run, [{"case": c, "py": case["py"], "pyi": case["pyi"], "merged": merged}])
    run.put("traces_validated_against_impl", n)
    run.put("states", 1); run.put("transitions", 1)
    run.sample({"py": case["py"], "pyi": case["pyi"], "merged": merged})
    return run.finish()
  thorough = run.tier == "thorough"
  rng = random.Random(run.seed)

  # ---- 1. TLC: the design (rule table; as coded), export of every table, program generator
  check_fams = ["func", "vars2"] + (["funcrich", "vars3", "mixed"] if thorough else [])
  export_fams = ["func", "vars2"] + (["funcrich", "vars3", "mixed"] if thorough else [])
  # families with existing Any / Never annotations: one TLC run checks the rule table and exports
  both_fams = ["funcx", "varsx"] + (["funcxfull", "varsxfull", "mixedx"] if thorough else [])
  jobs = {}
  t0 = time.time()
  with cf.ThreadPoolExecutor(max_workers=8) as ex:
    for fam in both_fams:
      jobs["both", fam] = ex.submit(tlc.run, "MergePyi",
                                    cfg(*fam_args(fam), False, "both", RULE_INVS + ("ExportInv",)),
                                    workers=1, timeout=3000, seed=run.seed, heap="6g")
    jobs["witness", "KeptInv"] = ex.submit(
        tlc.run, "MergePyi", cfg(*fam_args("vars1x"), False, "check", ("KeptInv",), filter_merged=True),
        workers=1, timeout=3000, seed=run.seed)
    jobs["coded", "vars1x"] = ex.submit(tlc.run, "MergePyi", cfg(*fam_args("vars1x"), True, "check", CODED_INVS),
                                        workers=1, timeout=3000, seed=run.seed)
    for fam in check_fams:
      jobs["rule", fam] = ex.submit(tlc.run, "MergePyi", cfg(*fam_args(fam), False, "check", RULE_INVS),
                                    workers=4 if thorough else 2, timeout=3000, seed=run.seed)
    jobs["coded", "vars2"] = ex.submit(tlc.run, "MergePyi", cfg(*fam_args("vars2"), True, "check", CODED_INVS),
                                       workers=2, timeout=3000, seed=run.seed)
    for inv in ("NoBareAnyNeverInv", "NoStrayInv"):
      jobs["witness", inv] = ex.submit(tlc.run, "MergePyi", cfg(*fam_args("vars1"), True, "check", (inv,)),
                                       workers=1, timeout=3000, seed=run.seed)
    for fam in export_fams:
      jobs["export", fam] = ex.submit(tlc.run, "MergePyi", cfg(*fam_args(fam), False, "tables", ("ExportInv",)),
                                      workers=1, timeout=3000, seed=run.seed, heap="6g")
    if not thorough:
      jobs["export", "mixed-sim"] = ex.submit(
          tlc.run, "MergePyi", cfg(*fam_args("mixed"), False, "tables", ("ExportInv",)), workers=1,
          timeout=3000, seed=run.seed + 3, simulate="num=260", depth=6)
    jobs["progs"] = ex.submit(programs, run, thorough)
  states = trans = 0
  for fam in check_fams:
    r = jobs["rule", fam].result()
    if r.violated or not r.ok:
      raise common.Machinery("MergePyi.tla (rule table) violates %s:\n%s" % (r.violated, (r.error_trace or r.out)[-3000:]))
    states += r.distinct
    trans += r.generated
    run.put("model_states_" + fam, r.distinct)
  for fam in both_fams:
    r = jobs["both", fam].result()
    if r.violated or not r.ok:
      raise common.Machinery("MergePyi.tla (rule table, %s) violates %s:\n%s" % (fam, r.violated, (r.error_trace or r.out)[-3000:]))
    states += r.distinct
    trans += r.generated
    run.put("model_states_" + fam, r.distinct)
  for fam in ("vars2", "vars1x"):
    r = jobs["coded", fam].result()
    if r.violated or not r.ok:
      raise common.Machinery("MergePyi.tla (as coded, %s) violates %s:\n%s" % (fam, r.violated, (r.error_trace or r.out)[-3000:]))
    states += r.distinct
    trans += r.generated
  r = jobs["witness", "KeptInv"].result()
  common.require(r.violated == "KeptInv", "filtering the merged source (FilterMerged) does not violate KeptInv in the model")
  run.put("design_witness_FilterMerged", "running the Any / Never filter over the merged source violates KeptInv "
          "(expected; the filter belongs on the stub only)")
  for inv in ("NoBareAnyNeverInv", "NoStrayInv"):
    r = jobs["witness", inv].result()
    common.require(r.violated == inv, "the as-coded model does not witness the known deviation %s" % inv)
    run.put("design_witness_" + inv, "violated by the as-coded model (expected; not part of the verdict)")
  run.put("states", states)
  run.put("transitions", trans)
  tables = {}
  by_fam = {}
  for fam in list(export_fams) + both_fams + ([] if thorough else ["mixed-sim"]):
    r = jobs["both" if fam in both_fams else "export", fam].result()
    n0 = len(tables)
    for t in r.cases:
      if canon(t) not in tables:
        tables[canon(t)] = t
        by_fam.setdefault(fam, []).append(t)
    run.put("tables_" + fam, len(tables) - n0)
  common.require(len(by_fam.get("func", [])) == 2950 and len(by_fam.get("vars2", [])) == 2617
                 and len(by_fam.get("funcx", [])) == 6075 and len(by_fam.get("varsx", [])) == 5700,
                 "table export changed: %s" % {k: len(v) for k, v in by_fam.items()})
  run.put("tables_exported", len(tables))
  run.add("tlc_model_wall_s", round(time.time() - t0, 1))
  progs = jobs["progs"].result()

  # ---- 2. selection of the tables replayed on the real code
  def pick(ts, n):
    small = [t for t in ts if len(t["slots"]) <= 1]
    rest = [t for t in ts if len(t["slots"]) > 1]
    rng.shuffle(rest)
    return small + rest[:max(0, n - len(small))]
  if thorough:
    plan = {"func": 10**9, "vars2": 10**9, "funcrich": 14000, "vars3": 7000, "mixed": 4000,
            "funcx": 10**9, "varsx": 10**9, "funcxfull": 3000, "varsxfull": 3000, "mixedx": 1500}
  else:
    plan = {"func": 750, "vars2": 550, "mixed-sim": 170, "funcx": 260, "varsx": 300}
  chosen = []
  for fam, n in plan.items():
    sel = pick(by_fam.get(fam, []), n)
    run.put("tables_replayed_" + fam, len(sel))
    chosen += [(t, 0, False) for t in sel]
  run.put("exhaustive", bool(thorough))
  run.put("explanation", "TLC enumerates every slot table within the bounds in both tiers (model level); on the "
          "real code the thorough tier replays all tables of the families func, vars2, funcx, varsx and seeded "
          "samples of funcrich / vars3 / mixed / funcxfull / varsxfull / mixedx, the quick tier all one-slot tables "
          "and seeded samples of the rest")
  # the same small tables with the stub spelling Any / Never as typing.Any / typing.Never
  qual = [t for t, _, _ in chosen if len(t["slots"]) <= 2 and any(
      s["st"] in ("Any", "Never") and s["kind"] != "param" for s in t["slots"])]
  rng.shuffle(qual)
  chosen += [(t, 1, True) for t in qual[:400 if thorough else 40]]
  items = [("tables", run.seed, chosen[k:k + 25]) for k in range(0, len(chosen), 25)]
  items += [("progs", progs[k:k + 6]) for k in range(0, len(progs), 6)]
  rng.shuffle(items)
  t0 = time.time()
  results = pyt.batch(work, items, procs=8, chunksize=1)
  run.add("merge_wall_s", round(time.time() - t0, 1))
  recs_t, recs_p = [], []
  for item, res in zip(items, results):
    for r in res:
      if "skip" in r:
        run.add("programs_skipped_" + r["skip"])
        continue
      (recs_t if item[0] == "tables" else recs_p).append(r)
  stats(run, [r for r in recs_t if not r["qual"]], "table")
  stats(run, [r for r in recs_t if r["qual"]], "qualified")
  stats(run, recs_p, "inferred")
  run.put("programs", len(progs))

  # ---- 3. TLC judges
  n = judge(run, recs_t + recs_p)
  run.put("traces_validated_against_impl", n)
  run.put("evaluations", n)
  run.put("distinct_nontrivial", sum(1 for r in recs_t + recs_p
                                     if r["case"].get("info", {}).get("changed")))
  run.put("rule", "one case = one (program, stub) pair through the real merge_sources; non-trivial = the "
          "merge changed the text")
  mid = recs_t[len(recs_t) // 2]
  run.sample({"table": mid["case"]["t"], "py": mid["py"], "pyi": mid["pyi"], "merged": mid["merged"]})
  if recs_p:
    ch = [r for r in recs_p if r["case"].get("info", {}).get("changed")] or recs_p
    run.sample({"py": ch[0]["py"], "inferred_pyi": ch[0]["pyi"], "merged": ch[0]["merged"]})
  cov = run.cov
  common.require(cov.get("table_pairs", 0) >= (20000 if thorough else 1200)
                 and cov.get("table_pairs_changed", 0) >= cov["table_pairs"] // 3
                 and cov.get("table_annotations_existing", 0) > 300
                 and cov.get("ret_any_never_filtered", 0) > 50 and cov.get("var_trivial_filtered", 0) > 50
                 and cov.get("table_pairs_imports_added", 0) > 100 and cov.get("table_pairs_typevar_added", 0) > 8
                 and cov.get("table_pairs_forward_ref_quoted", 0) > 5
                 and all(cov.get("table_inserted_" + k, 0) > 50 for k in ("param", "ret", "var", "decl")),
                 "vacuity (tables): %s" % {k: v for k, v in cov.items() if k.startswith(("table_", "ret_", "var_"))})
  # the author's own Any / Never annotations (tables of the x families; hand-written programs)
  common.require(cov.get("exann_ret", 0) >= 100 and cov.get("exann_var", 0) >= 60 and cov.get("exann_decl", 0) >= 60
                 and cov.get("exann_local", 0) >= 15 and cov.get("exann_param", 0) >= 40
                 and all(cov.get("exann_is_" + e, 0) >= 60 for e in EX_AN)
                 and all(cov.get("table_existing_any_never_" + k, 0) >= 60 for k in ("ret", "var", "decl")),
                 "vacuity (existing Any / Never annotations, tables): %s"
                 % {k: v for k, v in cov.items() if k.startswith(("exann_", "table_existing"))})
  common.require(cov.get("inferred_pairs_existing_any_never", 0) >= 12
                 and all(cov.get("inferred_existing_any_never_" + k, 0) >= 8 for k in ("ret", "var", "decl")),
                 "vacuity (existing Any / Never annotations, programs): %s"
                 % {k: v for k, v in cov.items() if k.startswith("inferred_existing") or k.startswith("inferred_pairs_ex")})
  common.require(cov.get("inferred_pairs", 0) >= (1000 if thorough else 120)
                 and cov.get("inferred_pairs_changed", 0) >= cov["inferred_pairs"] // 3
                 and cov.get("inferred_annotations_inserted", 0) > 300,
                 "vacuity (inferred stubs): %s" % {k: v for k, v in cov.items() if k.startswith("inferred_")})
  run.assumptions += [
      "tables: one function (<= 2 parameters + return; six flavours) and/or <= 2 (thorough: 3) module / class "
      "variables; concrete types drawn per table from a pool (builtins, typing generics, a class of the module "
      "defined before or after its use, a TypeVar, a dotted name); the model is checked on every table, the real "
      "code on every table with one slot plus a seeded sample of the others in the quick tier",
      "existing annotations: T, and (families funcx / varsx; thorough also funcxfull / varsxfull / mixedx) the "
      "author's own bare Any / Never / typing.Any on a parameter, a return, `v: X = e`, a value-less `v: X` at "
      "module level or in a class body, and an annotated local; one function with <= 1 parameter or <= 2 variables",
      "second family: the stub is whatever the real pytype infers (fixture typeshed); programs pytype does not "
      "analyse are skipped (C15's matter)",
      "annotation equality is textual after resolving names through each document's imports and unquoting "
      "forward references; the applier pairs positional parameters by position",
      "a displaced module docstring (declarations inserted above it) leaves the stripped tree equal and is "
      "logged as a divergence, not a verdict"]
  if cov.get("table_pairs_docstring_displaced", 0) + cov.get("inferred_pairs_docstring_displaced", 0):
    ex = [r for r in recs_t + recs_p if r["case"].get("info", {}).get("docstring_displaced")][0]
    run.diverge({"docstring displaced: declarations are inserted above the module docstring when the module "
                 "has no from-import (module.__doc__ becomes None); stripped trees are equal": ex["merged"][:400],
                 "py": ex["py"][:400]})
  return run.finish()


if __name__ == "__main__":
  common.main(PID, main)

"""C20 - merging a stub into source changes annotations only.

spec: specs/MergePyiOps.tla (slot rules of merge-pyi: the two passes over the stub and the applier,
as coded and as the property asks), specs/MergePyi.tla (one behaviour = one program/stub pair as a
slot table going through pass1 / pass2 / apply).  TLC checks on every table within the bounds that
the stepwise machine equals the rule table and that Kept / FromStub / NoBareAnyNever / NoStray hold
(AsCoded = FALSE); with AsCoded = TRUE it must produce the two design-level witnesses (a bare
Any / Never on a variable; a class-body tuple target declared at module level).

spec -> code: every table (Mode = "tables") is rendered to a real .py and .pyi (harness/c20_obs.py)
and handed to the real merge_pyi.merge_sources (what the merge-pyi tool's main calls).
Second family: programs (ProgGen.tla behaviours, the C15/C16 program generator, hand-written
ones) x the stub the real pytype infers for them.
code -> spec: specs/TraceC20.tla judges every pair: compiles; the annotation-free syntax tree is
the original's; existing annotations kept; every inserted annotation is the stub's type for that
definition; no bare Any / Never on a return or variable.  Differences between the operational
model's prediction (which slots get annotated) and the code are divergences, not verdicts.
"""
import argparse
import concurrent.futures as cf
import json
import os
import random
import sys
import time

sys.path.insert(0, os.path.dirname(os.path.abspath(__file__)))
import boot  # noqa: E402
import common  # noqa: E402
import c20_obs as obs  # noqa: E402
import pyt  # noqa: E402
import tlc  # noqa: E402

PID = "C20"
PC = ["plain", "default", "kwonly", "star"]
FL = ["plain", "method", "static", "decorated", "async", "nested"]
VC = ["assign", "tuple", "multi", "reassign", "infunc"]
RULE_INVS = ("TypeOK", "PassesOnlyRemove", "StepwiseEqualsRuleTable", "KeptInv", "FromStubInv",
             "NoBareAnyNeverInv", "NoStrayInv", "AllOrNothingInv")
CODED_INVS = ("TypeOK", "PassesOnlyRemove", "StepwiseEqualsRuleTable", "KeptInv", "FromStubInv",
              "AllOrNothingInv")
TRACE_CFG = "INIT TInit\nNEXT TNext\nINVARIANT Ok\nPOSTCONDITION Done\n"

# clause of TraceC20.tla -> key of the finding (root cause); anything else gets C20:<clause>
KEYS = {
    "bare-any-never-variable": "C20:any-never-variable-annotation-not-filtered",
    "stray-class-target-at-module-level": "C20:class-tuple-target-declared-at-module-level",
    "kwonly-annotation-import-not-added": "C20:kwonly-annotation-import-not-added",
    "stub-only-class-inserted": "C20:stub-only-class-inserted",
    "generic-base-added": "C20:generic-base-added-to-class",
    "qualified-any-never-return": "C20:qualified-any-never-not-filtered",
    "qualified-any-never-variable": "C20:qualified-any-never-not-filtered",
}


def cfg(ms, mp, mv, pctx, fls, vctx, rich2, coded, mode, invs):
  def s(xs):
    return "{" + ", ".join('"%s"' % x for x in xs) + "}"
  return ("SPECIFICATION Spec\nCONSTANTS MaxSlots = %d\n MaxParams = %d\n MaxVars = %d\n PCtx = %s\n"
          " Fls = %s\n VCtx = %s\n Rich2 = %s\n AsCoded = %s\n Mode = \"%s\"\n"
          % (ms, mp, mv, s(pctx), s(fls), s(vctx), "TRUE" if rich2 else "FALSE",
             "TRUE" if coded else "FALSE", mode)
          + "".join("INVARIANT %s\n" % i for i in invs))


def fam_args(name):
  return {
      "func": (3, 2, 0, PC, FL, VC, False),          # one function, <= 2 parameters + return
      "funcrich": (3, 2, 0, PC, FL, VC, True),       # two parameters vary context / flavour too
      "vars1": (1, 0, 1, PC, [], VC, False),
      "vars2": (2, 0, 2, PC, [], VC, False),         # <= 2 module / class variables
      "vars3": (3, 0, 3, PC, [], VC, False),
      "mixed": (3, 1, 1, ["plain"], ["plain", "method"], VC, False),   # function + one variable
  }[name]


def canon(t):
  return json.dumps(t, sort_keys=True, separators=(",", ":"))


# ---------------------------------------------------------------------------------------------
# workers (real code)

def _merge():
  boot.boot()
  from pytype.tools.merge_pyi import merge_pyi
  return merge_pyi.merge_sources


def work(item):
  """("tables", seed, [(t, variant, qualified_any)..]) or ("progs", [src..]) -> list of records."""
  kind = item[0]
  merge = _merge()
  out = []
  if kind == "tables":
    _, seed, ts = item
    for t, variant, qual in ts:
      py, pyi, names, leaves = obs.render(t, obs.rng_for(seed, t, variant), qualified_any=qual)
      try:
        compile(py, "<c20-src>", "exec", dont_inherit=True)
        compile(pyi, "<c20-stub>", "exec", dont_inherit=True)
      except SyntaxError as e:
        raise common.Machinery("rendering of table %s is not Python: %s\n%s\n%s" % (canon(t), e, py, pyi))
      case, merged = obs.observe(py, pyi, merge)
      case.update({"fam": "table", "t": t, "names": names, "leaves": leaves, "qual": qual})
      out.append({"case": case, "py": py, "pyi": pyi, "merged": merged, "qual": qual})
  else:
    for src in item[1]:
      r = pyt.analyze(src)
      if r["outcome"] != "result":
        out.append({"skip": r["outcome"], "py": src, "exc": r["exc"][-300:]})
        continue
      try:
        obs.Doc(r["pyi"])
      except SyntaxError as e:
        out.append({"skip": "stub-not-parsable", "py": src, "exc": str(e), "pyi": r["pyi"]})
        continue
      case, merged = obs.observe(src, r["pyi"], merge)
      case.update({"fam": "inferred", "qual": False})
      out.append({"case": case, "py": src, "pyi": r["pyi"], "merged": merged, "qual": False})
  return out


# ---------------------------------------------------------------------------------------------

def tla_case(c):
  return {k: c[k] for k in ("fam", "err", "compiles", "d0", "d1", "e0", "e1", "added_classes", "added_generic", "qual", "orig", "stub", "out", "t", "names", "leaves")
          if k in c}


def judge(run, recs):
  """TLC judges all records; violations / divergences are reported on run.  Returns stats."""
  cases = [tla_case(r["case"]) for r in recs]
  chunk = 2500
  parts = [(k, cases[k:k + chunk]) for k in range(0, len(cases), chunk)]

  def one(arg):
    off, part = arg
    nv, bad, r = tlc.validate_cases("TraceC20", part, cfg=TRACE_CFG, timeout=3000, heap="4g")
    common.require(bad is None and nv == len(part), "TraceC20 did not consume its cases:\n" + r.out[-2000:])
    return off, r
  t0 = time.time()
  with cf.ThreadPoolExecutor(max_workers=4) as ex:
    outs = list(ex.map(one, parts))
  run.add("tlc_trace_wall_s", round(time.time() - t0, 1))
  for off, r in outs:
    run.add("trace_states", r.distinct)
    for rec in tlc.parse_cases(r.out, "BAD"):
      x = recs[off + rec["i"] - 1]
      for clause, arg in rec["fails"]:
        key = KEYS.get(clause, "C20:" + clause)
        run.add("clause_" + clause)
        what = "%s %s: merge_sources(py=%r, pyi=%r) -> %r" % (clause, arg, x["py"], x["pyi"],
                                                               x["merged"] or x["case"]["err"])
        run.violation(key, what, {"py": x["py"], "pyi": x["pyi"], "fam": x["case"]["fam"],
                                  "t": x["case"].get("t"), "names": x["case"].get("names"),
                                  "leaves": x["case"].get("leaves"), "qual": x["case"].get("qual", False),
                                  "clause": clause, "arg": arg,
                                  "merged": x["merged"]})
    for rec in tlc.parse_cases(r.out, "DIV"):
      x = recs[off + rec["i"] - 1]
      run.diverge({"slots [kind, slot, observed, as-coded, rule]": rec["divs"], "table": x["case"]["t"],
                   "py": x["py"], "pyi": x["pyi"], "merged": x["merged"]})
    for rec in tlc.parse_cases(r.out, "DIVS"):
      x = recs[off + rec["i"] - 1]
      run.diverge({"stray declarations": rec["obs"], "as-coded": rec["coded"], "table": x["case"]["t"],
                   "py": x["py"], "pyi": x["pyi"], "merged": x["merged"]})
    for rec in tlc.parse_cases(r.out, "FOLLOWS"):
      for k, which in rec["slots"]:
        run.add("slots_following_" + which)
        if which == "rule" and len(run.cov.setdefault("examples_following_rule", [])) < 3:
          x = recs[off + rec["i"] - 1]
          run.cov["examples_following_rule"].append({"slot": k, "table": x["case"]["t"], "py": x["py"],
                                                     "pyi": x["pyi"], "merged": x["merged"]})
  return len(cases)


def stats(run, recs, prefix):
  """Coverage counters (and vacuity inputs) from the records."""
  for r in recs:
    c = r["case"]
    orig_ids = {s["id"] for s in c["orig"]}
    ins = [s for s in c["out"] if s["id"] not in orig_ids]
    run.add(prefix + "_pairs")
    run.add(prefix + "_annotations_inserted", len(ins))
    run.add(prefix + "_annotations_existing", len(c["orig"]))
    if ins:
      run.add(prefix + "_pairs_changed")
    info = c.get("info") or {}
    if info.get("imports_added"):
      run.add(prefix + "_pairs_imports_added")
    if info.get("typevars_added"):
      run.add(prefix + "_pairs_typevar_added")
    if info.get("docstring_displaced"):
      run.add(prefix + "_pairs_docstring_displaced")
    if any(s["a"] != s["u"] and s["a"][:1] in "'\"" for s in ins):
      run.add(prefix + "_pairs_forward_ref_quoted")
    for s in ins:
      run.add(prefix + "_inserted_" + s["k"])
    if c.get("fam") == "table":
      for k, s in enumerate(c["t"]["slots"]):
        q = c["names"][k]
        got = any(o["q"] == q for o in c["out"])
        if s["st"] in ("Any", "Never") and s["kind"] == "ret" and s["ex"] == "none" and not got:
          run.add("ret_any_never_filtered")
        if s["st"] in ("triv", "Lit") and not got:
          run.add("var_trivial_filtered")


def programs(run, thorough):
  """Second family: source texts."""
  import c20_progs
  import progs_d
  import progterms
  out = list(c20_progs.PROGS) + list(progs_d.HAND)
  n_gen = 500 if thorough else 50
  out += progs_d.generate(run.seed + 20, n_gen, exotic=False)
  out += progs_d.generate(run.seed + 21, n_gen // 2, exotic=True)
  num = 1000 if thorough else 90
  r = tlc.run("ProgGen", "INIT Init\nNEXT Next\nCONSTANTS MaxStmts = 10\n Depth = 2\n"
              "INVARIANT WellScoped\nINVARIANT ExportInv\n", workers=1, timeout=3000,
              seed=run.seed * 7 + 20, simulate="num=%d" % num, depth=13)
  if r.violated:
    raise common.Machinery("ProgGen.tla emitted an ill-scoped program:\n" + r.error_trace[:2000])
  pg = ["".join(progterms.stmt(s) for s in c["p"]) for c in r.cases]
  common.require(len(pg) >= num // 2, "ProgGen produced %d programs" % len(pg))
  run.put("programs_proggen", len(pg))
  seen = set()
  res = []
  for s in out + pg:
    if s not in seen:
      seen.add(s)
      try:
        compile(s, "<prog>", "exec", dont_inherit=True)
      except (SyntaxError, ValueError):
        continue
      res.append(s)
  return res


def main():
  ap = argparse.ArgumentParser()
  ap.add_argument("--tier", default="quick")
  ap.add_argument("--replay")
  a = ap.parse_args()
  run = common.Run(PID, "model_checking", a.tier)
  boot.boot()
  merge = _merge()
  if a.replay:
    with open(a.replay) as f:
      case = json.load(f)["case"]
    c, merged = obs.observe(case["py"], case["pyi"], merge)
    c["fam"] = case.get("fam", "inferred")
    if c["fam"] == "table":
      c.update({"t": case["t"], "names": case["names"], "leaves": case["leaves"]})
    c["qual"] = bool(case.get("qual"))
    n = judge(run, [{"case": c, "py": case["py"], "pyi": case["pyi"], "merged": merged}])
    run.put("traces_validated_against_impl", n)
    run.put("states", 1); run.put("transitions", 1)
    run.sample({"py": case["py"], "pyi": case["pyi"], "merged": merged})
    return run.finish()
  thorough = run.tier == "thorough"
  rng = random.Random(run.seed)

  # ---- 1. TLC: the design (rule table; as coded), export of every table, program generator
  check_fams = ["func", "vars2"] + (["funcrich", "vars3", "mixed"] if thorough else [])
  export_fams = ["func", "vars2"] + (["funcrich", "vars3", "mixed"] if thorough else [])
  jobs = {}
  t0 = time.time()
  with cf.ThreadPoolExecutor(max_workers=6) as ex:
    for fam in check_fams:
      jobs["rule", fam] = ex.submit(tlc.run, "MergePyi", cfg(*fam_args(fam), False, "check", RULE_INVS),
                                    workers=4 if thorough else 2, timeout=3000, seed=run.seed)
    jobs["coded", "vars2"] = ex.submit(tlc.run, "MergePyi", cfg(*fam_args("vars2"), True, "check", CODED_INVS),
                                       workers=2, timeout=3000, seed=run.seed)
    for inv in ("NoBareAnyNeverInv", "NoStrayInv"):
      jobs["witness", inv] = ex.submit(tlc.run, "MergePyi", cfg(*fam_args("vars1"), True, "check", (inv,)),
                                       workers=1, timeout=3000, seed=run.seed)
    for fam in export_fams:
      jobs["export", fam] = ex.submit(tlc.run, "MergePyi", cfg(*fam_args(fam), False, "tables", ("ExportInv",)),
                                      workers=1, timeout=3000, seed=run.seed, heap="6g")
    if not thorough:
      jobs["export", "mixed-sim"] = ex.submit(
          tlc.run, "MergePyi", cfg(*fam_args("mixed"), False, "tables", ("ExportInv",)), workers=1,
          timeout=3000, seed=run.seed + 3, simulate="num=260", depth=6)
    jobs["progs"] = ex.submit(programs, run, thorough)
  states = trans = 0
  for fam in check_fams:
    r = jobs["rule", fam].result()
    if r.violated or not r.ok:
      raise common.Machinery("MergePyi.tla (rule table) violates %s:\n%s" % (r.violated, (r.error_trace or r.out)[-3000:]))
    states += r.distinct
    trans += r.generated
    run.put("model_states_" + fam, r.distinct)
  r = jobs["coded", "vars2"].result()
  if r.violated or not r.ok:
    raise common.Machinery("MergePyi.tla (as coded) violates %s:\n%s" % (r.violated, (r.error_trace or r.out)[-3000:]))
  states += r.distinct
  trans += r.generated
  for inv in ("NoBareAnyNeverInv", "NoStrayInv"):
    r = jobs["witness", inv].result()
    common.require(r.violated == inv, "the as-coded model does not witness the known deviation %s" % inv)
    run.put("design_witness_" + inv, "violated by the as-coded model (expected; not part of the verdict)")
  run.put("states", states)
  run.put("transitions", trans)
  tables = {}
  by_fam = {}
  for fam in list(export_fams) + ([] if thorough else ["mixed-sim"]):
    r = jobs["export", fam].result()
    n0 = len(tables)
    for t in r.cases:
      if canon(t) not in tables:
        tables[canon(t)] = t
        by_fam.setdefault(fam, []).append(t)
    run.put("tables_" + fam, len(tables) - n0)
  common.require(len(by_fam.get("func", [])) == 2950 and len(by_fam.get("vars2", [])) == 2444,
                 "table export changed: %s" % {k: len(v) for k, v in by_fam.items()})
  run.put("tables_exported", len(tables))
  run.add("tlc_model_wall_s", round(time.time() - t0, 1))
  progs = jobs["progs"].result()

  # ---- 2. selection of the tables replayed on the real code
  def pick(ts, n):
    small = [t for t in ts if len(t["slots"]) <= 1]
    rest = [t for t in ts if len(t["slots"]) > 1]
    rng.shuffle(rest)
    return small + rest[:max(0, n - len(small))]
  if thorough:
    plan = {"func": 10**9, "vars2": 10**9, "funcrich": 14000, "vars3": 7000, "mixed": 4000}
  else:
    plan = {"func": 750, "vars2": 550, "mixed-sim": 170}
  chosen = []
  for fam, n in plan.items():
    sel = pick(by_fam.get(fam, []), n)
    run.put("tables_replayed_" + fam, len(sel))
    chosen += [(t, 0, False) for t in sel]
  run.put("exhaustive", bool(thorough))
  run.put("explanation", "TLC enumerates every slot table within the bounds in both tiers (model level); on the "
          "real code the thorough tier replays all tables of the families func and vars2 and seeded samples of "
          "funcrich / vars3 / mixed, the quick tier all one-slot tables and seeded samples of the rest")
  # the same small tables with the stub spelling Any / Never as typing.Any / typing.Never
  qual = [t for t, _, _ in chosen if len(t["slots"]) <= 2 and any(
      s["st"] in ("Any", "Never") and s["kind"] != "param" for s in t["slots"])]
  rng.shuffle(qual)
  chosen += [(t, 1, True) for t in qual[:400 if thorough else 40]]
  items = [("tables", run.seed, chosen[k:k + 25]) for k in range(0, len(chosen), 25)]
  items += [("progs", progs[k:k + 6]) for k in range(0, len(progs), 6)]
  rng.shuffle(items)
  t0 = time.time()
  results = pyt.batch(work, items, procs=8, chunksize=1)
  run.add("merge_wall_s", round(time.time() - t0, 1))
  recs_t, recs_p = [], []
  for item, res in zip(items, results):
    for r in res:
      if "skip" in r:
        run.add("programs_skipped_" + r["skip"])
        continue
      (recs_t if item[0] == "tables" else recs_p).append(r)
  stats(run, [r for r in recs_t if not r["qual"]], "table")
  stats(run, [r for r in recs_t if r["qual"]], "qualified")
  stats(run, recs_p, "inferred")
  run.put("programs", len(progs))

  # ---- 3. TLC judges
  n = judge(run, recs_t + recs_p)
  run.put("traces_validated_against_impl", n)
  run.put("evaluations", n)
  run.put("distinct_nontrivial", sum(1 for r in recs_t + recs_p
                                     if r["case"].get("info", {}).get("changed")))
  run.put("rule", "one case = one (program, stub) pair through the real merge_sources; non-trivial = the "
          "merge changed the text")
  mid = recs_t[len(recs_t) // 2]
  run.sample({"table": mid["case"]["t"], "py": mid["py"], "pyi": mid["pyi"], "merged": mid["merged"]})
  if recs_p:
    ch = [r for r in recs_p if r["case"].get("info", {}).get("changed")] or recs_p
    run.sample({"py": ch[0]["py"], "inferred_pyi": ch[0]["pyi"], "merged": ch[0]["merged"]})
  cov = run.cov
  common.require(cov.get("table_pairs", 0) >= (20000 if thorough else 1200)
                 and cov.get("table_pairs_changed", 0) >= cov["table_pairs"] // 3
                 and cov.get("table_annotations_existing", 0) > 300
                 and cov.get("ret_any_never_filtered", 0) > 50 and cov.get("var_trivial_filtered", 0) > 50
                 and cov.get("table_pairs_imports_added", 0) > 100 and cov.get("table_pairs_typevar_added", 0) > 8
                 and cov.get("table_pairs_forward_ref_quoted", 0) > 5
                 and all(cov.get("table_inserted_" + k, 0) > 50 for k in ("param", "ret", "var", "decl")),
                 "vacuity (tables): %s" % {k: v for k, v in cov.items() if k.startswith(("table_", "ret_", "var_"))})
  common.require(cov.get("inferred_pairs", 0) >= (1000 if thorough else 120)
                 and cov.get("inferred_pairs_changed", 0) >= cov["inferred_pairs"] // 3
                 and cov.get("inferred_annotations_inserted", 0) > 300,
                 "vacuity (inferred stubs): %s" % {k: v for k, v in cov.items() if k.startswith("inferred_")})
  run.assumptions += [
      "tables: one function (<= 2 parameters + return; six flavours) and/or <= 2 (thorough: 3) module / class "
      "variables; concrete types drawn per table from a pool (builtins, typing generics, a class of the module "
      "defined before or after its use, a TypeVar, a dotted name); the model is checked on every table, the real "
      "code on every table with one slot plus a seeded sample of the others in the quick tier",
      "second family: the stub is whatever the real pytype infers (fixture typeshed); programs pytype does not "
      "analyse are skipped (C15's matter)",
      "annotation equality is textual after resolving names through each document's imports and unquoting "
      "forward references; the applier pairs positional parameters by position",
      "a displaced module docstring (declarations inserted above it) leaves the stripped tree equal and is "
      "logged as a divergence, not a verdict"]
  if cov.get("table_pairs_docstring_displaced", 0) + cov.get("inferred_pairs_docstring_displaced", 0):
    ex = [r for r in recs_t + recs_p if r["case"].get("info", {}).get("docstring_displaced")][0]
    run.diverge({"docstring displaced: declarations are inserted above the module docstring when the module "
                 "has no from-import (module.__doc__ becomes None); stripped trees are equal": ex["merged"][:400],
                 "py": ex["py"][:400]})
  return run.finish()


if __name__ == "__main__":
  common.main(PID, main)

"""C15 helper: delta-debugging reducer for inputs whose analysis lets an exception escape.

  python harness/c15_min.py --replay replays/C15/<h>.json      (or --src FILE [--mode infer|check])
  python harness/c15_min.py --all                               (every replay under replays/C15)

ddmin (Zeller/Hildebrandt) over lines, then over the real token list (progs_d.tokens), then
removal of every contiguous window of 2..8 tokens, to a fixpoint.  Predicate "same failure":
CPython's compile() gives the same verdict (compiles / does not compile) as on the original, and
the analysis (c15_run.run_one, i.e. io.check_or_generate_pyi on a virtual file) lets an exception
of the SAME type escape from the SAME site (innermost pytype frame file:function).
Candidates of one round are evaluated in parallel worker processes with a per-candidate time cap
(a timed-out candidate does not satisfy the predicate).  Nothing here decides the property; the
reduced text is what goes into the finding's "what" and can be replayed with ./check C15 --replay.
"""
import argparse
import glob
import json
import os
import sys

sys.path.insert(0, os.path.dirname(os.path.abspath(__file__)))
import boot  # noqa: E402
import progs_d  # noqa: E402


_POOL = []


def pool(procs):
  """one persistent pool of analysis workers for the whole reduction"""
  if not _POOL:
    import c15
    _POOL.append(c15.TimedPool(procs, keep=True))
  return _POOL[0]


class Tester:
  def __init__(self, mode, target, procs=8, cap=25):
    self.mode, self.target, self.procs, self.cap = mode, target, procs, cap
    self.cache = {}
    self.evals = 0

  def signature(self, rec):
    if not rec or "events" not in rec or not rec["crashed"]:
      return None
    return (rec["exc_type"], rec["site"], rec["compiles"])

  def run(self, srcs):
    """-> list of booleans (same failure?) for the candidate texts, evaluated in parallel."""
    todo = [s for s in dict.fromkeys(srcs) if s not in self.cache]
    if todo:
      items = [{"label": "cand%d" % k, "src": s, "mode": self.mode, "family": "min"} for k, s in enumerate(todo)]
      recs = pool(self.procs).map(items, lambda it: self.cap)
      self.evals += len(items)
      for s, r in zip(todo, recs):
        self.cache[s] = self.signature(r) == self.target
    return [self.cache[s] for s in srcs]

  def first(self, srcs):
    """index of the first candidate with the same failure, or -1"""
    for k, ok in enumerate(self.run(srcs)):
      if ok:
        return k
    return -1


def ddmin(units, join, tester):
  """Classic ddmin on a list of units; join(units) -> text."""
  n = 2
  while len(units) >= 2:
    size = max(1, len(units) // n)
    chunks = [units[k:k + size] for k in range(0, len(units), size)]
    # reduce to subset
    k = tester.first([join(c) for c in chunks]) if len(chunks) > 1 else -1
    if k >= 0:
      units, n = chunks[k], 2
      continue
    # reduce to complement
    comps = [sum(chunks[:j] + chunks[j + 1:], []) for j in range(len(chunks))]
    k = tester.first([join(c) for c in comps]) if len(chunks) > 1 else -1
    if k >= 0:
      units, n = comps[k], max(n - 1, 2)
      continue
    if n >= len(units):
      break
    n = min(len(units), n * 2)
  return units


def token_units(src):
  """Split src into token strings with the whitespace that precedes each token attached, so
  that joining any sub-list keeps indentation/newlines of the kept tokens."""
  toks = progs_d.tokens(src)
  out, prev = [], 0
  for _, _, a, b in toks:
    if a < prev:
      continue
    out.append(src[prev:b])
    prev = b
  if prev < len(src) and out:
    out[-1] += src[prev:]
  return out


def windows(src, tester, widths=(8, 7, 6, 5, 4, 3, 2)):
  """ddmin leaves a 1-minimal token list; syntax often needs several neighbouring tokens to go at
  once (`, **y`, `(a, b) =`).  Try every contiguous window of 2..8 tokens, to a fixpoint."""
  changed = True
  while changed:
    changed = False
    for w in widths:
      units = token_units(src)
      if len(units) <= w:
        continue
      cands = ["".join(units[:k] + units[k + w:]) for k in range(len(units) - w + 1)]
      k = tester.first(cands)
      if k >= 0:
        src, changed = cands[k], True
        break
  return src


def minimise(src, mode, tester_factory, log=print):
  t0 = tester_factory(None)
  # establish the target on the original text
  items = [{"label": "orig", "src": src, "mode": mode, "family": "min"}]
  rec = pool(t0.procs).map(items, lambda it: 120)[0]
  target = t0.signature(rec)
  if target is None:
    log("  original does not fail (or timed out): %r" % {k: rec.get(k) for k in ("crashed", "compiles", "timeout")})
    return None, None
  tester = tester_factory(target)
  log("  target %s@%s compiles=%s (%d lines, %d chars)" % (target[0], target[1], target[2], src.count("\n") + 1, len(src)))
  lines = src.splitlines(keepends=True)
  lines = ddmin(lines, "".join, tester)
  cur = "".join(lines)
  log("  after line ddmin: %d lines, %d chars, %d evals" % (len(lines), len(cur), tester.evals))
  for _ in range(3):
    units = token_units(cur)
    if len(units) < 2:
      break
    units = ddmin(units, "".join, tester)
    new = "".join(units)
    # one-at-a-time pass (ddmin's 1-minimality at granularity 1 is already given; repeat after
    # re-tokenising because glued tokens may split differently)
    new = windows(new, tester)
    if new == cur:
      break
    cur = new
  # cosmetic: try dropping trailing whitespace / normalising to a final newline
  for cand in (cur.strip("\n") + "\n", "\n".join(l.rstrip() for l in cur.strip("\n").split("\n")) + "\n"):
    if cand != cur and tester.run([cand])[0]:
      cur = cand
  log("  minimal: %d chars, %d evals" % (len(cur), tester.evals))
  return cur, target


def main():
  ap = argparse.ArgumentParser()
  ap.add_argument("--replay")
  ap.add_argument("--src")
  ap.add_argument("--mode", default="infer")
  ap.add_argument("--all", action="store_true")
  ap.add_argument("--procs", type=int, default=8)
  ap.add_argument("--cap", type=int, default=25)
  a = ap.parse_args()
  boot.boot()
  jobs = []
  if a.all:
    for p in sorted(glob.glob(os.path.join(boot.VERIF, "replays", "C15", "*.json"))):
      with open(p) as f:
        d = json.load(f)
      if d["key"].startswith("C15:escaped:"):
        jobs.append((p, d["case"]["src"], d["case"].get("mode", "infer")))
  elif a.replay:
    with open(a.replay) as f:
      d = json.load(f)
    jobs.append((a.replay, d["case"]["src"], d["case"].get("mode", "infer")))
  else:
    with open(a.src, encoding="utf8") as f:
      jobs.append((a.src, f.read(), a.mode))
  out = []
  for name, src, mode in jobs:
    print("== %s (mode %s)" % (name, mode), flush=True)
    res, target = minimise(src, mode, lambda t: Tester(mode, t, a.procs, a.cap))
    if res is not None:
      print("  key=C15:escaped:%s@%s\n  minimal input: %r" % (target[0], target[1], res), flush=True)
      out.append({"from": name, "mode": mode, "key": "C15:escaped:%s@%s" % target[:2], "compiles": target[2], "src": res})
  if _POOL:
    _POOL[0].close()
  print(json.dumps(out, indent=1))


if __name__ == "__main__":
  main()

"""C09 - CFG reachability answers equal true graph reachability at all times.

1. TLC model-checks Reach.tla (bucketed bit matrix, W=2) exhaustively: ImplReach <=> TrueReach.
2. spec -> code: every maximal history of the exhaustive model and long random histories from
   the spec's generator (tlc -simulate, W=64, several buckets) are replayed on cfg.Program.
3. code -> spec: the rows reported by Program.is_reachable after every step are validated by
   TLC (TraceReach.tla) against the spec's own state.  An independent BFS in this driver
   cross-checks the oracle (disagreement of the two oracles = machinery failure).
"""
import argparse
import json
import random
import sys
import os

sys.path.insert(0, os.path.dirname(os.path.abspath(__file__)))
import boot  # noqa: E402
import common  # noqa: E402
import tlc  # noqa: E402

PID = "C09"


def cfg_model(max_nodes, w, max_ops, export):
  return """SPECIFICATION Spec
CONSTANTS MaxNodes = %d
 W = %d
 MaxOps = %d
 Export = %s
INVARIANT ReachCorrect
INVARIANT AbstractCorrect
INVARIANT RowsSized
INVARIANT ExportInv
""" % (max_nodes, w, max_ops, "TRUE" if export else "FALSE")


def cfg_sim(max_nodes, max_ops):
  return """INIT Init
NEXT SimNext
CONSTANTS MaxNodes = %d
 W = 64
 MaxOps = %d
 Export = TRUE
INVARIANT ExportInv
""" % (max_nodes, max_ops)


TRACE_CFG = """INIT TInit
NEXT TNext
CONSTANTS MaxNodes = 1000000
 W = 64
 MaxOps = 1000000
 Export = FALSE
INVARIANT Ok
INVARIANT ModelAgrees
POSTCONDITION Done
"""


def replay(hist, rng, full_every=None):
  """Run one history on a real Program; returns (obs, bfs_mismatch)."""
  from pytype.typegraph import cfg
  p = cfg.Program()
  nodes = []
  succ = []
  obs = []
  mismatch = None
  n_ops = len(hist)
  for step, (kind, a, b) in enumerate(hist):
    if kind == "node":
      nodes.append(p.NewCFGNode("n%d" % a))
      succ.append(set())
      touched = [len(nodes) - 1]
    else:
      nodes[a].ConnectTo(nodes[b])
      if a != b:
        succ[a].add(b)
      touched = [a, b]
    n = len(nodes)
    if n <= 8 or step == n_ops - 1 or (full_every and step % full_every == 0):
      rows = list(range(n))
    else:
      rows = sorted(set(touched + [rng.randrange(n) for _ in range(4)]))
    rec = []
    for i in rows:
      row = [j for j in range(n) if p.is_reachable(nodes[i], nodes[j])]
      rec.append([i, row])
      # independent oracle: BFS
      seen = {i}
      todo = [i]
      while todo:
        x = todo.pop()
        for y in succ[x]:
          if y not in seen:
            seen.add(y)
            todo.append(y)
      if sorted(seen) != row and mismatch is None:
        mismatch = {"step": step, "row": i, "observed": row, "bfs": sorted(seen)}
    obs.append(rec)
  return obs, mismatch


def run_histories(run, hists, label):
  rng = random.Random(run.seed)
  cases = []
  bfs_bad = []
  for h in hists:
    obs, mm = replay(h, rng, full_every=25)
    cases.append({"ops": h, "obs": obs})
    if mm:
      bfs_bad.append((h, mm))
  nval, bad, r = tlc.validate_cases("TraceReach", cases, cfg=TRACE_CFG, timeout=1800,
                                    shards=8 if len(cases) > 64 else 1)
  if bad is not None or r.violated:
    # find the offending case precisely (bad is an index into cases when not sharded)
    culprit = None
    for idx, c in enumerate(cases):
      _, b2, r2 = tlc.validate_cases("TraceReach", [c], cfg=TRACE_CFG, timeout=600)
      if b2 is not None:
        culprit = (idx, c, r2)
        break
    common.require(culprit is not None, "TLC rejected a batch but no single case reproduces")
    idx, c, r2 = culprit
    if r2.violated == "ModelAgrees":
      raise common.Machinery("Reach operational model disagrees with its abstract state")
    mm = [m for (h, m) in bfs_bad if h == c["ops"]]
    common.require(mm, "TLC rejects a history that the BFS oracle accepts: oracles disagree\n"
                   + r2.error_trace[:2000])
    m = mm[0]
    key = "C09:%s:row-mismatch" % label
    run.violation(key, "is_reachable row %d after step %d is %s, true reachability is %s" % (
        m["row"], m["step"], m["observed"], m["bfs"]), {"history": c["ops"], "mismatch": m})
  elif bfs_bad:
    raise common.Machinery("BFS oracle rejects a history that TLC accepts: oracles disagree: %r"
                           % (bfs_bad[0][1],))
  return nval if bad is None else 0


def main():
  ap = argparse.ArgumentParser()
  ap.add_argument("--tier", default="quick")
  ap.add_argument("--replay")
  a = ap.parse_args()
  run = common.Run(PID, "model_checking", a.tier)
  boot.boot()
  if a.replay:
    with open(a.replay) as f:
      case = json.load(f)["case"]
    n = run_histories(run, [case["history"]], "replay")
    run.put("traces_validated_against_impl", n)
    run.put("states", 1); run.put("transitions", 1); run.sample(case["history"][:10])
    return run.finish()
  thorough = run.tier == "thorough"
  # 1. the design: exhaustive model check at W=2
  mn, mo = (5, 9) if thorough else (5, 7)
  r = tlc.run("Reach", cfg_model(mn, 2, mo, False), workers=16, timeout=3000, seed=run.seed)
  if r.violated:
    raise common.Machinery("Reach.tla violates its own invariant %s:\n%s" % (r.violated, r.error_trace[:3000]))
  run.put("states", r.distinct)
  run.put("transitions", r.generated)
  run.put("model_bounds", {"MaxNodes": mn, "W": 2, "MaxOps": mo})
  # 2. exhaustive maximal histories -> code
  en, eo = (4, 7) if thorough else (4, 6)
  r = tlc.run("Reach", cfg_model(en, 2, eo, True), workers=1, timeout=3000, seed=run.seed)
  hists = [c["h"] for c in r.cases]
  common.require(len(hists) > 100, "too few exhaustive histories exported: %d" % len(hists))
  run.put("exhaustive_histories", len(hists))
  run.put("exhaustive", True)
  nv = run_histories(run, hists, "exhaustive")
  run.sample({"exhaustive_history": hists[len(hists) // 2]})
  # 3. long random histories from the spec's generator (several 64-bit buckets)
  num, mxn, mxo = (400, 300, 700) if thorough else (40, 150, 330)
  r = tlc.run("Reach", cfg_sim(mxn, mxo), workers=1, timeout=3000, seed=run.seed + 1,
              simulate="num=%d" % num, depth=mxo + 1)
  big = [c["h"] for c in r.cases]
  common.require(len(big) >= num, "simulation produced %d histories, wanted %d" % (len(big), num))
  sizes = [sum(1 for op in h if op[0] == "node") for h in big]
  common.require(max(sizes) > 64, "no simulated history crosses a 64-node bucket")
  nv += run_histories(run, big, "simulated")
  run.put("simulated_histories", len(big))
  run.put("max_nodes_simulated", max(sizes))
  run.put("histories_crossing_bucket", sum(1 for s in sizes if s > 64))
  run.put("traces_validated_against_impl", nv)
  run.put("evaluations", len(hists) + len(big))
  run.put("distinct_nontrivial", len({json.dumps(h) for h in hists + big
                                      if any(op[0] == "edge" and op[1] != op[2] for op in h)}))
  run.put("rule", "histories of NewCFGNode/ConnectTo; exhaustive: all maximal histories of the "
          "W=2 model; simulated: spec generator, W=64; non-trivial = contains a non-self edge")
  run.sample({"simulated_history_prefix": big[0][:12], "nodes": sizes[0]})
  run.assumptions += ["TLC explores the bucketed model with W=2; the code uses W=64 (covered by simulated histories with >64 nodes)",
                      "rows sampled (touched rows + 4 random + all rows every 25th step and at the end) for graphs > 8 nodes"]
  return run.finish()


if __name__ == "__main__":
  common.main(PID, main)

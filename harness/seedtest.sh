#!/bin/sh
# usage: harness/seedtest.sh <dir with patch.diff [demo.py]> <check id>... [-- tier]
# Applies the seeded change to a scratch copy of /repo (never to /repo itself), confirms the
# demonstration (fails on the copy, passes on /repo) and runs the named checks against the copy.
d="$1"; shift
copy=/tmp/seedcopy_$$
rm -rf "$copy"; cp -r /repo "$copy" || exit 2
( cd "$copy" && git apply "$d/patch.diff" ) || { echo "patch does not apply"; rm -rf "$copy"; exit 2; }
if [ -f "$d/demo.py" ]; then
  /venv/bin/python "$d/demo.py" /repo >/dev/null 2>&1; echo "demo on /repo: exit $?"
  /venv/bin/python "$d/demo.py" "$copy" >/dev/null 2>&1; echo "demo on seeded copy: exit $?"
fi
cd /verif
for id in "$@"; do
  echo "== $id on seeded copy"
  VERIF_REPO="$copy" ./check "$id" --tier "${SEED_TIER:-quick}" 2>&1 | grep -E "^(VIOLATION|OK|KNOWN-FINDING|MACHINERY)|key=" | cut -c1-260 | head -12
done
rm -rf "$copy"

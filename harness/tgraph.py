"""Shared helpers for the typegraph drivers (C07, C08): build real cfg.Program objects from
spec graph records / replay spec histories, project real programs back to graph records."""
import itertools


def typegraph_cfg(**kw):
  d = dict(MaxNodes=3, MaxVars=2, MaxBindings=3, MaxData=9, MaxOrigins=3, MaxSS=1,
           UseCond="FALSE", AllowCycles="FALSE", OrderedEdges="FALSE", PasteOps="FALSE",
           FreshData="TRUE", MaxOps=8, MaxQueries=0, ExportMode='"none"')
  d.update(kw)
  view = d.pop("VIEW", None)
  invs = d.pop("INVARIANTS", ["TypeOK", "ExportInv"])
  spec = d.pop("SPEC", "Spec")
  lines = ["SPECIFICATION " + spec] if spec else []
  lines.append("CONSTANTS")
  for k, v in d.items():
    lines.append(" %s = %s" % (k, v))
  if view:
    lines.append("VIEW " + view)
  for inv in invs:
    lines.append("INVARIANT " + inv)
  return "\n".join(lines) + "\n"


class Built:
  """A real cfg.Program built from a spec graph record (ids are 1-based as in the spec)."""

  def __init__(self, g):
    from pytype.typegraph import cfg
    self.p = cfg.Program()
    p = self.p
    self.nodes = [p.NewCFGNode("n%d" % (k + 1)) for k in range(g["nn"])]
    for a, b in sorted(g["edges"]):
      self.nodes[a - 1].ConnectTo(self.nodes[b - 1])
    nv = g.get("nv", max(g["bvar"], default=0))
    self.vars = [p.NewVariable() for _ in range(max(nv, max(g["bvar"], default=0)))]
    self.datas = []
    self.b = []
    for k, v in enumerate(g["bvar"]):
      d = "d%d" % (k + 1)
      self.datas.append(d)
      self.b.append(self.vars[v - 1].AddBinding(d))
    for o in sorted(g["origins"], key=lambda o: (o["b"], o["n"], sorted(o["ss"]))):
      self.b[o["b"] - 1].AddOrigin(self.nodes[o["n"] - 1], [self.b[x - 1] for x in o["ss"]])
    for n, c in enumerate(g["cond"]):
      if c:
        self.nodes[n].condition = self.b[c - 1]

  def has(self, n, G):
    return self.nodes[n - 1].HasCombination([self.b[x - 1] for x in G])


def all_queries(g, maxsize=3):
  nb = len(g["bvar"])
  qs = []
  for n in range(1, g["nn"] + 1):
    for k in range(1, min(maxsize, nb) + 1):
      for G in itertools.combinations(range(1, nb + 1), k):
        qs.append((n, list(G)))
  return qs


def project(p):
  """Project a real Program to a spec graph record (1-based ids)."""
  nodes = p.cfg_nodes
  g = {"nn": len(nodes), "edges": [], "cond": [], "bvar": [], "origins": []}
  for n in nodes:
    for m in n.outgoing:
      g["edges"].append([n.id + 1, m.id + 1])
    g["cond"].append(0)
  return g

"""C18 - flow conditions and block-state merging preserve meaning (rewrite engine).

spec -> code: FlowState.tla has two machines.  The C machine enumerates every application of
conditions.Not/And/Or to argument sequences drawn from the pool of smaller condition terms; the S
machine evolves two registers of block states by the public operations (construction, store_local
of from_value / load_local / literal variables, with_condition, merge_into in both directions,
merge_into(None)).  TLC checks the laws on the model and exports every transition of the S machine
(plus long random histories with -simulate); the driver replays each history on real
BlockState/Variable/Condition objects.
code -> spec: after every step the real objects are projected (structure of every condition,
bindings, block condition, locals_with_block_condition) and TraceC18.tla evaluates the laws of
C18 on the projected REAL states with the spec's own Eval/Vals: constructor == connective,
with_condition restricts exactly, merge == union.  The spec's action applied to the real pre-state
is compared structurally with the real post-state (divergence log only).  The repository's own
flow tests are additionally run with the classes wrapped, and the operations they perform are
validated against the same spec.
"""
import argparse
import concurrent.futures as cf
import dataclasses
import io
import json
import os
import sys
import time

sys.path.insert(0, os.path.dirname(os.path.abspath(__file__)))
import boot  # noqa: E402
import common  # noqa: E402
import tlc  # noqa: E402

PID = "C18"
ALL_OPS = ("new0", "new1", "storeval", "storeload", "storelit", "with", "merge", "copy")
S_INVS = ["SInvAux", "SInvDistinct", "SInvMerge", "SInvWith", "SInvVarWith", "SInvMergeSym"]
C_INVS = ["CInvMeaning", "CInvNF"]


def _set(xs):
  return "{%s}" % ",".join('"%s"' % x for x in xs)


def cfg(machine, *, atoms=("p", "q", "r"), watoms=("p", "q"), cd=1, ld=0, names=("x", "y"),
        values=("u", "v"), steps=4, pd=1, cargs=2, dup=False, ops=ALL_OPS, export="none",
        invs=None, view=None, action_constraint=None, trace=False):
  s = "INIT TInit\nNEXT TNext\n" if trace else "INIT %sInit\nNEXT %sNext\n" % (machine, machine)
  s += "CONSTANTS\n"
  s += (" Atoms = %s\n WAtoms = %s\n CondDepth = %d\n LitDepth = %d\n Names = %s\n Values = %s\n"
        " MaxSteps = %d\n PoolDepth = %d\n MaxCArgs = %d\n DupValues = %s\n Ops = %s\n Export = \"%s\"\n") % (
            _set(atoms), _set(watoms), cd, ld, _set(names), _set(values), steps, pd, cargs,
            "TRUE" if dup else "FALSE", _set(ops), export)
  if view:
    s += "VIEW %s\n" % view
  for i in (invs or []):
    s += "INVARIANT %s\n" % i
  if action_constraint:
    s += "ACTION_CONSTRAINT %s\n" % action_constraint
  if trace:
    s += "INVARIANT Ok\nPOSTCONDITION Done\n"
  return s


# ------------------------------------------------------------------------------------------
# the real classes


class Real:
  """Real flow objects: building conditions, projecting objects, hash-consing for the trace."""

  def __init__(self):
    from pytype.rewrite.flow import conditions, state, variables
    self.C, self.S, self.V = conditions, state, variables

    @dataclasses.dataclass(frozen=True)
    class Atom(conditions.Condition):
      name: str

      def __repr__(self):
        return self.name
    self.Atom = Atom
    self.conds, self.cond_ids = [], {}
    self.states, self.state_ids = [], {}
    self.atoms = set()
    self._built = {}

  # --- conditions
  def cond_id(self, c):
    C = self.C
    if c is C.TRUE or type(c) is C._True:  # pylint: disable=protected-access,unidiomatic-typecheck
      key = ("true", "", ())
    elif c is C.FALSE or type(c) is C._False:  # pylint: disable=protected-access,unidiomatic-typecheck
      key = ("false", "", ())
    elif isinstance(c, C._Not):  # pylint: disable=protected-access
      key = ("not", "", (self.cond_id(c.condition),))
    elif isinstance(c, C._And):  # pylint: disable=protected-access
      key = ("and", "", tuple(sorted(self.cond_id(x) for x in c.conditions)))
    elif isinstance(c, C._Or):  # pylint: disable=protected-access
      key = ("or", "", tuple(sorted(self.cond_id(x) for x in c.conditions)))
    elif isinstance(c, C.Condition):
      # any other condition is atomic (our Atom, the tests' FakeCondition, frame.py's Condition())
      nm = getattr(c, "name", None)
      nm = nm if isinstance(nm, str) else type(c).__name__
      self.atoms.add(nm)
      key = ("atom", nm, ())
    else:
      raise common.Machinery("not a condition: %r" % (c,))
    i = self.cond_ids.get(key)
    if i is None:
      self.conds.append({"k": key[0], "a": key[1], "cs": list(key[2])})
      i = self.cond_ids[key] = len(self.conds)
    return i

  def build_cond(self, m):
    """Real counterpart of a model condition term, built with the real constructors."""
    key = json.dumps(m, sort_keys=True)
    if key in self._built:
      return self._built[key]
    C = self.C
    k = m["k"]
    if k == "true":
      c = C.TRUE
    elif k == "false":
      c = C.FALSE
    elif k == "atom":
      c = self.Atom(m["a"])
    elif k == "not":
      c = C.Not(self.build_cond(m["cs"][0]))
    else:
      cs = [self.build_cond(x) for x in sorted(m["cs"], key=lambda x: json.dumps(x, sort_keys=True))]
      c = (C.And if k == "and" else C.Or)(*cs)
    self._built[key] = c
    return c

  def build_var(self, m):
    V = self.V
    return V.Variable(tuple(V.Binding(b["v"], self.build_cond(b["c"])) for b in m["b"]),
                      m["name"] or None)

  # --- projections
  @staticmethod
  def val(v):
    return v if isinstance(v, str) else repr(v)

  def var(self, var):
    return {"b": [{"v": self.val(b.value), "c": self.cond_id(b.condition)} for b in var.bindings],
            "name": var.name or ""}

  def state_id(self, st):
    # pylint: disable=protected-access
    loc = [dict(self.var(v), n=n) for n, v in sorted(st._locals.items())]
    rec = {"loc": loc, "cond": self.cond_id(st._condition),
           "lwbc": sorted(st._locals_with_block_condition)}
    key = json.dumps(rec, sort_keys=True)
    i = self.state_ids.get(key)
    if i is None:
      self.states.append(rec)
      i = self.state_ids[key] = len(self.states)
    return i


class Cases:
  """De-duplicated trace cases with one source (history, step) each."""

  def __init__(self):
    self.cases, self.src, self.seen = [], [], {}

  def add(self, case, src):
    key = json.dumps(case, sort_keys=True)
    if key in self.seen:
      return
    self.seen[key] = len(self.cases)
    self.cases.append(case)
    self.src.append(src)


def _exc(e):
  return ("%s: %s" % (type(e).__name__, e))[:200]


def replay(real, hist, out, label, strict=True, alias_notes=None):
  """Execute one history of S-machine operations (terms resolved) on real objects."""
  S, V = real.S, real.V
  regs = {"A": S.BlockState({}), "B": S.BlockState({})}
  other = {"A": "B", "B": "A"}
  nops = 0
  for k, o in enumerate(hist):
    op = o["op"]
    if op == "end":
      break
    src = {"family": label, "history": hist[:k + 1]}
    base = {"exc": "", "strict": strict}
    r = o["r"]
    untouched = other[r]
    before_other = real.state_id(regs[untouched])
    try:
      if op in ("new0", "new1"):
        c = real.build_cond(o["cterm"])
        locs = {o["n"]: V.Variable.from_value(o["v"])} if op == "new1" else {}
        plocs = [dict(real.var(v), n=n) for n, v in locs.items()]
        regs[r] = S.BlockState(locs, c)
        out.add(dict(base, kind="new", locals=plocs, c=real.cond_id(c), r=real.state_id(regs[r])), src)
      elif op in ("storeval", "storeload", "storelit"):
        if op == "storeval":
          var = V.Variable.from_value(o["v"])
        elif op == "storelit":
          var = real.build_var(o["litterm"])
        else:
          sid = real.state_id(regs[o["s"]])
          var = regs[o["s"]].load_local(o["m"])
          out.add(dict(base, kind="load", s=sid, n=o["m"], res=real.var(var)), src)
        pre = real.state_id(regs[r])
        regs[r].store_local(o["n"], var)
        out.add(dict(base, kind="store", s=pre, n=o["n"], var=real.var(var),
                     r=real.state_id(regs[r])), src)
      elif op == "with":
        c = real.build_cond(o["cterm"])
        cid = real.cond_id(c)
        pre = regs[o["s"]]
        sid = real.state_id(pre)
        for var in pre.get_locals().values():
          pv = real.var(var)
          try:
            out.add(dict(base, kind="varwith", var=pv, c=cid, res=real.var(var.with_condition(c))), src)
          except Exception as e:  # pylint: disable=broad-except
            out.add(dict(base, kind="varwith", var=pv, c=cid, res=pv, exc=_exc(e)), src)
        res = pre.with_condition(c)
        out.add(dict(base, kind="with", s=sid, c=cid, r=real.state_id(res)), src)
        regs[r] = res
      elif op == "merge":
        x, y = regs[o["s"]], regs[other[o["s"]]]
        xi, yi = real.state_id(x), real.state_id(y)
        res = x.merge_into(y)
        out.add(dict(base, kind="merge", x=xi, y=yi, r=real.state_id(res)), src)
        regs[r] = res
      elif op == "copy":
        sid = real.state_id(regs[o["s"]])
        res = regs[o["s"]].merge_into(None)
        out.add(dict(base, kind="copy", s=sid, r=real.state_id(res)), src)
        regs[r] = res
      else:
        raise common.Machinery("unknown op %r" % (o,))
    except common.Machinery:
      raise
    except Exception as e:  # pylint: disable=broad-except
      kind = {"new0": "new", "new1": "new", "storeval": "store", "storeload": "store",
              "storelit": "store"}.get(op, op)
      out.add({"kind": kind, "exc": _exc(e), "strict": strict, "opname": op}, src)
      return nops
    nops += 1
    if r != untouched and alias_notes is not None and op not in ("storeload",):
      if real.state_id(regs[untouched]) != before_other:
        alias_notes.append({"family": label, "history": hist[:k + 1], "op": op,
                            "note": "the register not written by the operation changed (aliasing)"})
  return nops


def frame_violations(run, alias):
  """Frame condition: an operation on one register never changes the state held by the other one
  (with_condition / merge_into return NEW states; the spec's registers have value semantics, so a
  real history in which the untouched register changes is not a behaviour of FlowState.tla)."""
  for n in alias:
    last = n["history"][-1]
    run.violation("C18:frame:%s:other-state-changed" % n["op"],
                  "after %s on register %s the state held by the other register changed: a state "
                  "returned by an earlier operation is aliased with its input (family %s, history of "
                  "%d operations)" % (n["op"], last.get("r"), n["family"], len(n["history"])),
                  {"source": {"family": n["family"], "history": n["history"]}, "case": {"kind": "frame"},
                   "clause": "frame"})


def resolve(hist, menu):
  """Replace condition / literal indices by the model terms (self-contained histories)."""
  out = []
  for o in hist:
    o = dict(o)
    if o.get("c"):
      o["cterm"] = menu["conds"][o["c"] - 1]
    if o.get("lit"):
      o["litterm"] = menu["vars"][o["lit"] - 1]
    out.append(o)
  return out


# ------------------------------------------------------------------------------------------
# C machine: condition constructors


def cond_cases(real, pool_m, apps, out, label):
  pool = [real.build_cond(m) for m in pool_m]
  C = real.C
  for app in apps:
    args = [pool[k - 1] for k in app["args"]]
    ids = [real.cond_id(a) for a in args]
    src = {"family": label, "cond_app": {"op": app["op"], "args": [pool_m[k - 1] for k in app["args"]]}}
    try:
      res = {"not": C.Not, "and": C.And, "or": C.Or}[app["op"]](*args)
    except Exception as e:  # pylint: disable=broad-except
      out.add({"kind": "cond", "op": app["op"], "args": ids, "res": 0, "exc": _exc(e), "strict": True}, src)
      continue
    out.add({"kind": "cond", "op": app["op"], "args": ids, "res": real.cond_id(res), "exc": "",
             "strict": True}, src)


# ------------------------------------------------------------------------------------------
# the repository's own tests, traced


def trace_repo_tests(real, out):
  """Run pytype/rewrite/flow/{conditions,variables,state,frame_base}_test with the classes wrapped;
  every Not/And/Or, Variable.with_condition, BlockState.with_condition/merge_into/store_local
  performed by the tests becomes a (non-strict) trace case."""
  import importlib
  import unittest
  C, S, V = real.C, real.S, real.V
  base = {"exc": "", "strict": False}
  src = {"family": "repo-tests"}
  orig = {"Not": C.Not, "And": C.And, "Or": C.Or, "vwc": V.Variable.with_condition,
          "swc": S.BlockState.with_condition, "mi": S.BlockState.merge_into,
          "st": S.BlockState.store_local}
  depth = [0]

  def wrap_cond(name, op):
    f = orig[name]

    def w(*args):
      res = f(*args)
      try:
        out.add(dict(base, kind="cond", op=op, args=[real.cond_id(a) for a in args],
                     res=real.cond_id(res)), src)
      except common.Machinery:
        pass
      return res
    return w

  def vwc(self, condition):
    res = orig["vwc"](self, condition)
    out.add(dict(base, kind="varwith", var=real.var(self), c=real.cond_id(condition),
                 res=real.var(res)), src)
    return res

  def swc(self, condition):
    sid = real.state_id(self)
    res = orig["swc"](self, condition)
    out.add(dict(base, kind="with", s=sid, c=real.cond_id(condition), r=real.state_id(res)), src)
    return res

  def mi(self, other):
    xi = real.state_id(self)
    yi = real.state_id(other) if other is not None else None
    res = orig["mi"](self, other)
    if other is None:
      out.add(dict(base, kind="copy", s=xi, r=real.state_id(res)), src)
    else:
      out.add(dict(base, kind="merge", x=xi, y=yi, r=real.state_id(res)), src)
    return res

  def st(self, name, var):
    pre = real.state_id(self)
    orig["st"](self, name, var)
    out.add(dict(base, kind="store", s=pre, n=name, var=real.var(var), r=real.state_id(self)), src)

  del depth
  C.Not, C.And, C.Or = wrap_cond("Not", "not"), wrap_cond("And", "and"), wrap_cond("Or", "or")
  V.Variable.with_condition = vwc
  S.BlockState.with_condition, S.BlockState.merge_into, S.BlockState.store_local = swc, mi, st
  stats = {"run": 0, "failed": 0, "modules": []}
  try:
    for mod in ("conditions_test", "variables_test", "state_test", "frame_base_test"):
      try:
        m = importlib.import_module("pytype.rewrite.flow." + mod)
      except Exception as e:  # pylint: disable=broad-except
        stats["modules"].append("%s: not importable (%s)" % (mod, type(e).__name__))
        continue
      suite = unittest.TestLoader().loadTestsFromModule(m)
      res = unittest.TextTestRunner(stream=io.StringIO(), verbosity=0).run(suite)
      stats["run"] += res.testsRun
      stats["failed"] += len(res.failures) + len(res.errors)
      stats["modules"].append("%s: %d tests" % (mod, res.testsRun))
  finally:
    C.Not, C.And, C.Or = orig["Not"], orig["And"], orig["Or"]
    V.Variable.with_condition = orig["vwc"]
    S.BlockState.with_condition, S.BlockState.merge_into = orig["swc"], orig["mi"]
    S.BlockState.store_local = orig["st"]
  return stats


# ------------------------------------------------------------------------------------------
# judging


def judge(run, real, out, label, extra_atoms=()):
  """Let TraceC18 judge the collected cases; turn BAD lines into violations, DIV into notes."""
  if not out.cases:
    return 0
  atoms = sorted(set(("p", "q", "r")) | real.atoms | set(extra_atoms))
  common.require(len(atoms) <= 8, "too many atoms for exhaustive valuations: %r" % (atoms,))
  trace = {"conds": real.conds, "states": real.states or [{"loc": [], "cond": 1, "lwbc": []}],
           "cases": out.cases}
  if not real.conds:
    real.cond_id(real.C.TRUE)
  tcfg = cfg("S", atoms=atoms, watoms=("p",), cd=0, ld=0, pd=0, cargs=1, steps=0, trace=True)
  _, bad, r = tlc.validate_cases("TraceC18", trace, cfg=tcfg, timeout=6000, heap="6g")
  common.require(bad is None, "TraceC18 invariant cannot fail (verdicts are printed)")
  common.require(not tlc.parse_cases(r.out, "MACH"), "TraceC18: trace file not well-formed")
  for b in tlc.parse_cases(r.out, "BAD"):
    c = out.cases[b["i"] - 1]
    src = out.src[b["i"] - 1]
    for clause in b["fails"]:
      key = "C18:%s:%s" % (c["kind"] if c["kind"] != "cond" else "cond-" + c["op"], clause)
      run.violation(key, "%s on %s: %s" % (clause, c["kind"], describe(real, c)),
                    {"source": src, "case": c, "clause": clause})
  skipped = 0
  for d in tlc.parse_cases(r.out, "DIV"):
    c = out.cases[d["i"] - 1]
    for note in d["notes"]:
      if note == "skip":
        skipped += 1
        continue
      run.diverge({"family": out.src[d["i"] - 1].get("family", label), "kind": c["kind"], "note": note,
                   "case": describe(real, c)})
  run.add("law_not_judged_precondition", skipped)
  return len(out.cases)


def show_cond(real, cid):
  n = real.conds[cid - 1]
  k = n["k"]
  if k in ("true", "false"):
    return k.upper()
  if k == "atom":
    return n["a"]
  if k == "not":
    return "not " + show_cond(real, n["cs"][0])
  return "(" + (" %s " % k).join(show_cond(real, x) for x in n["cs"]) + ")"


def show_var(real, v):
  return "[%s]%s" % (" | ".join("%s if %s" % (b["v"], show_cond(real, b["c"])) for b in v["b"]),
                     ("@" + v["name"]) if v["name"] else "")


def show_state(real, sid):
  s = real.states[sid - 1]
  return "State(%s; cond=%s; lwbc=%s)" % (
      ", ".join("%s=%s" % (e["n"], show_var(real, e)) for e in s["loc"]), show_cond(real, s["cond"]),
      s["lwbc"])


def describe(real, c):
  if c["exc"]:
    return "%s raised %s" % (c.get("opname", c["kind"]), c["exc"])
  k = c["kind"]
  if k == "cond":
    return "%s(%s) = %s" % (c["op"].capitalize(), ", ".join(show_cond(real, a) for a in c["args"]),
                            show_cond(real, c["res"]))
  if k == "varwith":
    return "%s.with_condition(%s) = %s" % (show_var(real, c["var"]), show_cond(real, c["c"]),
                                           show_var(real, c["res"]))
  if k == "with":
    return "%s.with_condition(%s) = %s" % (show_state(real, c["s"]), show_cond(real, c["c"]),
                                           show_state(real, c["r"]))
  if k == "merge":
    return "%s.merge_into(%s) = %s" % (show_state(real, c["x"]), show_state(real, c["y"]),
                                       show_state(real, c["r"]))
  if k == "store":
    return "%s.store_local(%s, %s) -> %s" % (show_state(real, c["s"]), c["n"], show_var(real, c["var"]),
                                             show_state(real, c["r"]))
  return json.dumps(c)[:300]


# ------------------------------------------------------------------------------------------


def s_family(label, steps, kw, model=True, workers=4):
  """Model-check one S family and export its transitions.  Returns (model result, histories)."""
  with cf.ThreadPoolExecutor(max_workers=2) as ex:
    fm = ex.submit(tlc.run, "FlowState", cfg("S", steps=steps, invs=S_INVS, view="SViewN", **kw),
                   workers=workers, timeout=6000, heap="4g") if model else None
    fe = ex.submit(tlc.run, "FlowState",
                   cfg("S", steps=steps, export="trans", view="SView",
                       action_constraint="SExportTrans", **kw),
                   workers=1, timeout=6000, heap="4g", tag="CASE")
    rm = fm.result() if fm else None
    re_ = fe.result()
  if rm is not None:
    if rm.violated:
      raise common.Machinery("FlowState.tla S machine (%s): %s violated:\n%s" % (
          label, rm.violated, rm.error_trace[:3000]))
    common.require(rm.ok, "FlowState.tla (%s) did not complete" % label)
  menus = tlc.parse_cases(re_.out, "MENU")
  common.require(len(menus) == 1, "menu not exported for %s" % label)
  hists = [resolve(c["h"], menus[0]) for c in re_.cases]
  return rm, hists


def s_simulate(label, steps, num, seed, kw):
  r = tlc.run("FlowState", cfg("S", steps=steps, export="hist", invs=["SExportHist"], **kw),
              workers=1, timeout=6000, heap="3g", simulate="num=%d" % num, depth=steps + 1, seed=seed)
  menus = tlc.parse_cases(r.out, "MENU")
  common.require(len(menus) == 1, "menu not exported for %s" % label)
  return [resolve(c["h"], menus[0]) for c in r.cases]


def c_family(label, pd, cargs):
  with cf.ThreadPoolExecutor(max_workers=2) as ex:
    fm = ex.submit(tlc.run, "FlowState", cfg("C", pd=pd, cargs=cargs, cd=0, steps=0, invs=C_INVS),
                   workers=4, timeout=6000, heap="3g")
    fe = ex.submit(tlc.run, "FlowState", cfg("C", pd=pd, cargs=cargs, cd=0, steps=0, export="cond",
                                             invs=["CExportInv"]),
                   workers=1, timeout=6000, heap="3g")
    rm, re_ = fm.result(), fe.result()
  if rm.violated:
    raise common.Machinery("FlowState.tla C machine (%s): %s violated:\n%s" % (
        label, rm.violated, rm.error_trace[:3000]))
  pools = tlc.parse_cases(re_.out, "POOL")
  common.require(len(pools) == 1, "condition pool not exported")
  return rm, pools[0], re_.cases


QUICK_S = [
    # label, steps, constants
    ("all-ops-2", 2, dict()),
    ("diamond-1name-1atom", 4, dict(names=("x",), watoms=("p",), ops=("storeval", "with", "merge"))),
    ("merge-heavy", 3, dict(watoms=("p",), cd=0, ops=("storeval", "storeload", "with", "merge", "copy"))),
]
THOROUGH_S = [
    ("all-ops-2", 2, dict()),
    ("all-ops-2-depth2-conds", 2, dict(watoms=("p", "q"), cd=2, ld=1, ops=("new0", "storeval", "storelit", "with", "merge"))),
    ("diamond-1name-1atom", 5, dict(names=("x",), watoms=("p",), ops=("storeval", "with", "merge"))),
    ("merge-heavy", 4, dict(watoms=("p",), cd=0, ops=("storeval", "storeload", "with", "merge", "copy"))),
    ("all-ops-1atom-3", 3, dict(watoms=("p",), cd=1, ld=0)),
]


def main():
  ap = argparse.ArgumentParser()
  ap.add_argument("--tier", default="quick")
  ap.add_argument("--replay")
  a = ap.parse_args()
  run = common.Run(PID, "model_checking", a.tier)
  boot.boot()
  real = Real()
  if a.replay:
    with open(a.replay) as f:
      case = json.load(f)["case"]
    out = Cases()
    src = case["source"]
    if "history" in src:
      alias = []
      replay(real, src["history"], out, "replay", alias_notes=alias)
      frame_violations(run, alias)
    elif "cond_app" in src:
      app = src["cond_app"]
      cond_cases(real, app["args"], [{"op": app["op"], "args": list(range(1, len(app["args"]) + 1))}],
                 out, "replay")
    else:
      trace_repo_tests(real, out)
    n = judge(run, real, out, "replay")
    run.put("traces_validated_against_impl", n)
    run.put("states", 1); run.put("transitions", 1)
    return run.finish()
  thorough = run.tier == "thorough"
  t0 = time.time()

  # ---- TLC: model checking + export, all families in parallel
  fams = THOROUGH_S if thorough else QUICK_S
  with cf.ThreadPoolExecutor(max_workers=3) as ex:   # more parallel JVMs scale negatively on this box
    # (pool depth 2 with 3 arguments exceeds TLC's set-size limit: both tiers use d1/a3 and d2/a2)
    fc = ex.submit(c_family, "conds", 1, 3)
    fc2 = ex.submit(c_family, "conds-d2", 2, 2)
    fs = [ex.submit(s_family, label, steps, kw) for label, steps, kw in fams]
    sims = [
        ex.submit(s_simulate, "sim-all-ops", 12, 20000 if thorough else 800, run.seed * 10 + 1, dict()),
        ex.submit(s_simulate, "sim-deep-conds", 10, 20000 if thorough else 250, run.seed * 10 + 2,
                  dict(watoms=("p", "q", "r"), cd=2 if thorough else 1, ld=1,
                       ops=("storeval", "storeload", "storelit", "with", "merge", "copy"))),
    ]
    # a probe outside the property's domain: literal variables that bind one value twice
    fprobe = ex.submit(tlc.run, "FlowState",
                       cfg("S", steps=2, dup=True, watoms=("p", "q"), cd=0, ld=0, names=("x",),
                           ops=("storeval", "storelit", "merge"), invs=["SInvMerge"], view="SViewN"),
                       workers=2, timeout=6000, heap="2g")
    rc, pool_m, apps = fc.result()
    c2 = fc2.result() if fc2 else None
    sres = [f.result() for f in fs]
    simh = [f.result() for f in sims]
    rprobe = fprobe.result()
  states = rc.distinct + (c2[0].distinct if c2 else 0)
  trans = rc.generated + (c2[0].generated if c2 else 0)
  for rm, _ in sres:
    states += rm.distinct
    trans += rm.generated
  run.put("states", states)
  run.put("transitions", trans)
  print("  TLC model checking + export: %.0fs (%d states, %d transitions)" % (
      time.time() - t0, states, trans), flush=True)
  run.put("probe_duplicate_values_model", "merge law violated in the model when a literal variable binds "
          "one value twice with different conditions" if rprobe.violated else "no violation")

  # ---- condition constructors on the real classes
  t1 = time.time()
  out = Cases()
  cond_cases(real, pool_m, apps, out, "conds")
  if c2:
    cond_cases(real, c2[1], c2[2], out, "conds-d2")
  ncond = len(out.cases)
  common.require(ncond > 500, "only %d condition applications" % ncond)
  run.put("condition_applications", ncond)

  # ---- S machine: every transition replayed on real objects
  alias = []
  nhist = nops = 0
  for (label, _, _), (rm, hists) in zip(fams, sres):
    common.require(len(hists) > 500, "family %s exported only %d transitions" % (label, len(hists)))
    for h in hists:
      nops += replay(real, h, out, label, alias_notes=alias)
    nhist += len(hists)
    run.put("transitions_" + label, len(hists))
  for label, hs in zip(("sim-all-ops", "sim-deep-conds"), simh):
    common.require(len(hs) > 100, "simulation %s produced only %d histories" % (label, len(hs)))
    for h in hs:
      nops += replay(real, h, out, label, alias_notes=alias)
    nhist += len(hs)
    run.put("histories_" + label, len(hs))
  run.put("histories_replayed", nhist)
  run.put("real_operations_executed", nops)
  frame_violations(run, alias)
  run.put("frame_checks", nops)
  print("  replay on real objects: %.0fs (%d histories, %d operations, %d distinct cases)" % (
      time.time() - t1, nhist, nops, len(out.cases)), flush=True)

  # ---- TLC judges the real states
  t2 = time.time()
  total = judge(run, real, out, "spec-driven")
  kinds = {}
  for c in out.cases:
    kinds[c["kind"]] = kinds.get(c["kind"], 0) + 1
  run.put("cases_by_kind", kinds)
  # vacuity: merges where both sides define a name differently, with explicit and implicit conditions
  both = expl = same = 0
  for c in out.cases:
    if c["kind"] == "merge" and not c["exc"]:
      x, y, r = (real.states[c[k] - 1] for k in ("x", "y", "r"))
      xn = {e["n"]: e for e in x["loc"]}
      yn = {e["n"]: e for e in y["loc"]}
      if any(n in yn and xn[n] != yn[n] for n in xn):
        both += 1
      if any(n in yn and xn[n] == yn[n] for n in xn):
        same += 1
      if any(e["n"] not in x["lwbc"] for e in x["loc"]) or any(e["n"] not in y["lwbc"] for e in y["loc"]):
        expl += 1
  run.put("merges_both_define_differently", both)
  run.put("merges_same_variable", same)
  run.put("merges_with_explicit_conditions", expl)
  print("  TLC judged %d distinct real cases: %.0fs" % (total, time.time() - t2), flush=True)

  # ---- the repository's own tests, traced (separate universe of atoms)
  t3 = time.time()
  real2 = Real()
  out2 = Cases()
  stats = trace_repo_tests(real2, out2)
  run.put("repo_tests", stats)
  n2 = judge(run, real2, out2, "repo-tests")
  run.put("repo_test_operations_validated", n2)
  print("  repository tests traced: %d tests, %d operations validated: %.0fs" % (
      stats["run"], n2, time.time() - t3), flush=True)

  run.put("traces_validated_against_impl", total + n2)
  run.put("evaluations", nops + ncond)
  run.put("distinct_nontrivial", both + expl)
  run.put("exhaustive", True)
  run.put("rule", "one case = one distinct (real pre-state(s), operation, real post-state) obtained by "
          "replaying every transition of the S-machine families and the simulated histories, or one "
          "Not/And/Or application; non-trivial = merge where both states define a name with different "
          "variables, or where a state carries explicit (non block-level) conditions")
  run.sample({"merge": describe(real, next(c for c in out.cases if c["kind"] == "merge" and
                                           len(real.states[c["r"] - 1]["loc"]) > 1))})
  run.sample({"history": [{k: v for k, v in o.items() if v not in ("", 0)} for o in sres[0][1][-1]]})
  if not run.violations and not run.known_hits:
    common.require(both > 100 and same > 50 and expl > 100,
                   "vacuity: too few non-trivial merges (%d, %d, %d)" % (both, same, expl))
    common.require(kinds.get("with", 0) > 200 and kinds.get("varwith", 0) > 50, "vacuity: with_condition")
    common.require(stats["run"] >= 20 and n2 >= 20, "repository tests were not traced (%r)" % (stats,))
  run.assumptions += [
      "atomic conditions are instances of a frozen dataclass subclass of conditions.Condition",
      "stored literal variables bind pairwise distinct values (merge_into keeps one condition per "
      "value of self's variable; duplicate values with different conditions are outside C18's domain "
      "and are only probed in the model)",
      "states of the repository's tests are judged only when they satisfy the auxiliary invariant "
      "(explicit conditions imply the block condition), since the tests build states with the "
      "3-argument constructor and by assigning private fields",
  ]
  return run.finish()


if __name__ == "__main__":
  common.main(PID, main)

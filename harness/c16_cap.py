"""Capture helpers for C16 (worker-process side): run the real block pipeline of pytype on a
source text / on a hand-assembled opcode list / on fake nodes and project what it produced to
the compact records TraceC16.tla judges.  Nothing here evaluates the property.

Instruction tuple (see specs/BlocksOps.tla):
  [idx, nxt, prv, tgt, arg, bt, eaft, fl, cls]   positions 1-based, 0 = None, -1 = not in list
"""
import os
import sys
import traceback

sys.path.insert(0, os.path.dirname(os.path.abspath(__file__)))
import boot  # noqa: E402

FL = (("no_next", 1), ("does_jump", 2), ("has_known_jump", 4), ("pops_block", 8),
      ("pushes_block", 16), ("store_jump", 32))
CLS = {"SEND": 1, "END_SEND": 2, "GET_ANEXT": 3, "CLEANUP_THROW": 4, "JUMP_BACKWARD": 5,
       "JUMP_BACKWARD_NO_INTERRUPT": 6, "END_ASYNC_FOR": 7, "SETUP_EXCEPT_311": 8,
       "SETUP_FINALLY": 8, "POP_BLOCK": 9, "RAISE_VARARGS": 10}
# abstract (cls, fl) -> a real opcode class with exactly these class predicates
REAL = {(0, 0): "NOP", (0, 6): "POP_JUMP_IF_FALSE", (0, 70): "POP_JUMP_IF_FALSE", (0, 7): "JUMP_FORWARD", (0, 1): "RETURN_CONST",
        (0, 2): "IMPORT_NAME", (8, 52): "SETUP_EXCEPT_311", (9, 8): "POP_BLOCK",
        (10, 3): "RAISE_VARARGS", (1, 6): "SEND", (2, 0): "END_SEND", (3, 0): "GET_ANEXT",
        (4, 0): "CLEANUP_THROW", (5, 7): "JUMP_BACKWARD", (6, 7): "JUMP_BACKWARD_NO_INTERRUPT",
        (7, 2): "END_ASYNC_FOR"}

_installed = False
_cap = []


def install():
  """Harness-side wrappers (no change in the repository): remember the opcode list
  build_opcodes returned, the targets when compute_order starts, the partition handed to
  cfg_utils.order_nodes, Block.outgoing and the order it returned."""
  global _installed
  if _installed:
    return
  boot.boot()
  from pytype.blocks import blocks
  from pytype.pyc import opcodes
  from pytype.typegraph import cfg_utils
  _bo = opcodes.build_opcodes
  _co = blocks.compute_order
  _on = cfg_utils.order_nodes

  def build_opcodes(d):
    ops = _bo(d)
    _cap.append({"ops": ops})
    return ops

  def compute_order(bytecode, ver):
    if not _cap or _cap[-1]["ops"] is not bytecode:
      _cap.append({"ops": bytecode})
    _cap[-1]["t0"] = [op.target for op in bytecode]
    return _co(bytecode, ver)

  def order_nodes(nodes):
    nodes = list(nodes)
    out = _on(nodes)
    if _cap and "t0" in _cap[-1] and "nodes" not in _cap[-1]:
      cur = _cap[-1]
      cur["nodes"] = nodes
      cur["order"] = list(out)
      cur["out"] = [list(b.outgoing) for b in nodes]
    return out
  opcodes.build_opcodes = build_opcodes
  blocks.compute_order = compute_order
  cfg_utils.order_nodes = order_nodes
  _installed = True


def flags_of(o):
  fl = 0
  for m, b in FL:
    if getattr(o, m)():
      fl |= b
  if getattr(o, "push_exc_block", False):
    fl |= 64
  return fl


def project(cur, name):
  ops = cur["ops"]
  pos = {id(o): k + 1 for k, o in enumerate(ops)}

  def P(o):
    return 0 if o is None else pos.get(id(o), -1)
  ins = []
  re = []
  for k, o in enumerate(ops):
    arg = getattr(o, "arg", 0) if o.has_known_jump() else 0
    if not isinstance(arg, int) or isinstance(arg, bool):
      arg = -1
    idx = o.index if isinstance(o.index, int) else -1
    ins.append([idx, P(o.next), P(o.prev), P(o.target), arg, P(o.block_target),
                P(o.end_async_for_target), flags_of(o), CLS.get(o.__class__.__name__, 0)])
    t0 = P(cur["t0"][k])
    if t0 != ins[-1][3]:
      re.append([k + 1, t0])
  nodes = cur["nodes"]
  bn = {id(b): k + 1 for k, b in enumerate(nodes)}
  edges = sorted([k + 1, bn.get(id(t), 0)] for k, outs in enumerate(cur["out"]) for t in outs)
  return {"k": "code", "name": name, "ins": ins, "re": re,
          "blocks": [[P(o) for o in b.code] for b in nodes],
          "ids": [b.id if isinstance(b.id, int) else -1 for b in nodes],
          "edges": edges, "order": [bn.get(id(b), 0) for b in cur["order"]]}


def capture_src(item):
  """item = (label, src).  Returns {"label", "recs": [...]} or {"label", "skip"} (does not
  compile) or {"label", "crash", "tb"} (process_code raised)."""
  label, src = item
  install()
  from pytype.blocks import blocks
  from pytype.pyc import pyc
  try:
    code = pyc.compile_src(src, label, (3, 12), None)
  except Exception as e:  # pylint: disable=broad-except
    return {"label": label, "skip": type(e).__name__}
  del _cap[:]
  try:
    blocks.process_code(code)
  except Exception as e:  # pylint: disable=broad-except
    del _cap[:]
    return {"label": label, "crash": type(e).__name__, "msg": str(e)[:200],
            "tb": traceback.format_exc()[-1500:]}
  recs = []
  for cur in _cap:
    ops = cur["ops"]
    nm = "%s:%s:%d" % (label, ops[0].code.name if ops and ops[0].code else "?",
                       ops[0].line if ops else 0)
    if "nodes" not in cur:       # empty bytecode: order_nodes not reached
      continue
    recs.append(project(cur, nm))
  del _cap[:]
  return {"label": label, "recs": recs}


def capture_file(path):
  try:
    with open(path, encoding="utf8") as f:
      src = f.read()
  except Exception as e:  # pylint: disable=broad-except
    return {"label": path, "skip": type(e).__name__}
  return capture_src((path, src))


def build_ops(ins):
  """Assemble real opcode objects for an abstract stream exported by Blocks.tla (the way
  blocks_test assembles opcode lists), linked as opcodes._make_opcode_list/_add_jump_targets do."""
  boot.boot()
  from pytype.pyc import opcodes
  ops = []
  for k, x in enumerate(ins):
    cls = getattr(opcodes, REAL[(x[8], x[7])])
    if cls.has_argument():
      o = cls(k, 1, 1, 0, 0, 0, 0)
    else:
      o = cls(k, 1, 1, 0, 0)
    if x[7] & 64:
      o.push_exc_block = True
    if flags_of(o) != x[7]:
      raise RuntimeError("class %s has flags %d, the abstract kind says %d" % (cls.__name__, flags_of(o), x[7]))
    ops.append(o)
  for k, x in enumerate(ins):
    o = ops[k]
    o.prev = ops[k - 1] if k > 0 else None
    o.next = ops[k + 1] if k + 1 < len(ops) else None
    if x[3] > 0:
      o.target = ops[x[3] - 1]
      o.arg = o.argval = o.target.index
    if x[6] > 0:
      o.end_async_for_target = ops[x[6] - 1]
  return ops


def run_stream(ins):
  """add_pop_block_targets + compute_order on a hand-assembled list.  Returns a "code" record,
  or {"k": "raised", "ins": ..., "exc": ...} when the real code raised."""
  install()
  from pytype.blocks import blocks
  ops = build_ops(ins)
  del _cap[:]
  try:
    blocks.add_pop_block_targets(ops)
    blocks.compute_order(ops, (3, 12))
  except Exception as e:  # pylint: disable=broad-except
    del _cap[:]
    return {"k": "raised", "ins": ins, "exc": type(e).__name__, "msg": str(e)[:120]}
  cur = _cap[-1]
  rec = project(cur, "stream")
  del _cap[:]
  return rec


class FakeNode:
  __slots__ = ("id", "outgoing", "incoming")

  def __init__(self, i):
    self.id = i
    self.outgoing = []
    self.incoming = []


def run_order(case):
  """cfg_utils.order_nodes on fake node objects for one digraph {nb, edges}."""
  boot.boot()
  from pytype.typegraph import cfg_utils
  fn = getattr(cfg_utils.order_nodes, "__wrapped__", cfg_utils.order_nodes)
  nodes = [FakeNode(i + 1) for i in range(case["nb"])]
  for a, b in case["edges"]:
    nodes[a - 1].outgoing.append(nodes[b - 1])
  try:
    out = fn(nodes)
  except Exception as e:  # pylint: disable=broad-except
    return {"k": "order-raised", "nb": case["nb"], "edges": case["edges"], "exc": type(e).__name__}
  pos = {id(n): k + 1 for k, n in enumerate(nodes)}
  return {"k": "order", "nb": case["nb"], "edges": sorted(map(list, case["edges"])),
          "ids": [n.id for n in nodes], "order": [pos.get(id(n), 0) for n in out]}

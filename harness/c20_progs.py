"""C20: hand-written programs for the second input family (program x the stub pytype infers for
it).  Each program exercises something merge-pyi treats specially: module / class variables in
every assignment shape, Any / Never inferences, TypeVars, forward references, existing (partial)
annotations, decorators, properties, nested definitions, docstrings without imports,
__future__ imports, conditional definitions, redefinitions, global statements.
Only typing, enum, collections, abc, os, sys, types may be imported (fixture typeshed)."""

PROGS = [
    # Any on variables (the value's type is unknown to pytype) and Never
    "import os\nx = os.environ\ny = os.nonexistent_thing\n",
    "def boom():\n  raise ValueError()\nz = boom()\nw = [boom()]\n",
    "def unknown(a):\n  return a.foo\nv = unknown(1)\n",
    "import sys\nclass A:\n  attr = sys.nonexistent\n  other = [1]\n",
    "def f(x):\n  return x\nresult = f(__undefined_name__) if False else None\n",
    # every assignment shape, module and class level
    "a = [1]\nb, c = [1], {'k': 2}\nd = e = (1, 'x')\na = [2]\n",
    "class K:\n  a = [1]\n  b, c = [1], {'k': 2}\n  d = e = (1, 'x')\n  a = [2]\n",
    "class K:\n  p, q = [1], [2]\np = 'module level p'\n",
    "class Outer:\n  class Inner:\n    v = [1.5]\n    s, t = [1], [2]\n  w = {1: 'x'}\n",
    "x = 1\ny = 'a'\nz = 1.5\nb = True\nc = 1j\nn = None\nl = [1]\n",
    # functions: defaults, keyword-only, star parameters, positional-only
    "def f(a, b=None, *args, k, k2=1, **kw):\n  return [a, b, args, k, k2, kw]\n",
    "def g(a, /, b, *, c):\n  return a + b + c\nr = g(1, 2, c=3)\n",
    "def h(x=[]):\n  x.append(1)\n  return x\n",
    # TypeVar inference (identity functions), generics
    "def ident(x):\n  return x\ndef pair(x, y):\n  return (x, y)\n",
    "def first(xs):\n  return xs[0]\nclass Box:\n  def __init__(self, v):\n    self.v = v\n  def get(self):\n    return self.v\n",
    "from typing import TypeVar\nT = TypeVar('T')\ndef ident(x: T) -> T:\n  return x\ndef other(y):\n  return y\n",
    # existing annotations, partially annotated signatures, clashes with the inference
    "def f(a: int, b):\n  return str(a) + b\ndef g(a, b: str = '') -> str:\n  return b\n",
    "def f(a: float) -> float:\n  return a\nx: float = 1\ny: 'int'\ny = 2\n",
    "from typing import List, Optional\ndef f(a: Optional[int] = None, b=None) -> List[int]:\n  return [a or 0]\nv: List[int] = f()\nw = f()\n",
    "class C:\n  x: int = 1\n  y = [1]\n  def m(self, a: 'C', b):\n    return a\n",
    # forward references: class used before its definition
    "def make():\n  return Later()\nobj = make()\nclass Later:\n  def clone(self):\n    return Later()\n",
    "class Node:\n  def __init__(self, nxt=None):\n    self.nxt = nxt\n  def chain(self, other):\n    return Node(other)\nhead = Node()\n",
    # decorators, properties, static / class methods
    "class P:\n  def __init__(self):\n    self._x = [1]\n  @property\n  def x(self):\n    return self._x\n  @staticmethod\n  def s(a):\n    return [a]\n  @classmethod\n  def c(cls, a):\n    return cls()\n",
    "def deco(fn):\n  return fn\n@deco\ndef wrapped(a, b=1):\n  return [a, b]\n",
    "import abc\nclass Base(abc.ABC):\n  @abc.abstractmethod\n  def m(self, x):\n    pass\nclass Impl(Base):\n  def m(self, x):\n    return [x]\n",
    # nested functions and classes inside functions; lambdas
    "def outer(a):\n  def inner(b):\n    return [a, b]\n  class Local:\n    z = [1]\n  return inner\nfn = outer(1)\nlam = lambda q: [q]\n",
    # docstring and no import at all; __future__ import; comments
    '"""Module docstring."""\nxs = [1, 2]\na, b = [1], [2]\n',
    '"""Doc."""\nfrom __future__ import annotations\nimport os\n# comment\nxs = {"k": [1]}\na, b = [1], [2]\ndef f(p):\n  return os.fspath(p)\n',
    '#!/usr/bin/env python\n# -*- coding: utf-8 -*-\n"""Doc."""\n\nm = {1: [2]}\ndef f():\n  """Function doc."""\n  return m\n',
    # conditional definitions, redefinitions, try/except, with, for targets
    "import sys\nif sys.version_info >= (3, 0):\n  def f(a):\n    return [a]\n  v = [1]\nelse:\n  def f(a):\n    return a\n  v = ['x']\n",
    "def f(a):\n  return [a]\ndef f(a, b):\n  return [a, b]\nv = [1]\nv = ['s']\n",
    "try:\n  t = [1]\nexcept Exception as e:\n  t = ['x']\nfinally:\n  u = (1,)\nfor i in [1]:\n  acc = [i]\nwhile False:\n  never = [0]\n",
    # global statements
    "counter = [0]\ndef bump():\n  global counter, fresh\n  counter = [1]\n  fresh = {'a': 1}\n",
    "global g\ng = [1]\n",
    # collections / enum / namedtuple: classes the stub has and the source builds by a call
    "import collections\nPoint = collections.namedtuple('Point', ['x', 'y'])\np = Point(1, 2)\nd = collections.OrderedDict()\ndd = collections.defaultdict(list)\n",
    "import enum\nclass Color(enum.Enum):\n  RED = 1\n  GREEN = 2\nfav = Color.RED\nnames = [c.name for c in Color]\n",
    "from typing import NamedTuple\nclass Rec(NamedTuple):\n  a: int\n  b: str = ''\nr = Rec(1)\nrs = [r]\n",
    # attribute and subscript targets, augmented assignment, walrus, star targets
    "class A:\n  pass\na = A()\na.x = [1]\nd = {}\nd['k'] = [2]\nn = [1]\nn += [2]\nfirst, *rest = [1, 2, 3]\nif (w := [1]):\n  pass\n",
    # async, generators
    "async def co(a):\n  return [a]\ndef gen(n):\n  yield [n]\nasync def agen():\n  yield 1\n",
    # a name that shadows a typing name
    "Any = [3]\ndef f(x):\n  return x.y\nv = f(1)\n",
    "List = 1\nxs = [1, 2]\ndef f():\n  return [1]\n",
    # semicolons, one-liners, odd formatting
    "x = [1]; y = {'a': 1}\ndef f(a,b = 1,*c): return [a,b,c]\nclass C: z = [1]\n",
    "def f(\n    a,  # first\n    b=None,  # second\n):\n  return [a, b]\n",
]

# Partially annotated programs in which the author himself wrote a bare Any / Never (or typing.Any)
# as a return or variable annotation - with and without a value, at module level, in class bodies,
# in nested scopes and control flow - next to unannotated definitions the merge fills in.  "Existing
# annotations are kept" covers these too, although the same text must never be *inserted*.
EXISTING_ANY_NEVER = [
    "from typing import Any\ndef ident(x) -> Any:\n  return x\ndef size(xs):\n  return len(xs)\n",
    "from typing import Never\ndef die(msg) -> Never:\n  raise SystemExit(msg)\ndef pair(a, b=1):\n  return [a, b]\n",
    "from typing import Any\ncache: Any = {}\nlimit = [10]\ndef get(k):\n  return cache[k]\n",
    "from typing import Any\npayload: Any\nextra: Any = None\ncount = [0]\n",
    "from typing import Any\nclass Record:\n  payload: Any\n  extra: Any = None\n  tags = ['a']\n"
    "  def __init__(self, payload):\n    self.payload = payload\n  def get(self, key) -> Any:\n    return self.payload[key]\n"
    "  def size(self):\n    return len(self.payload)\n",
    "from typing import Any, Never\nclass Hooks:\n  on_fail: Never\n  state: Any\nclass Other:\n  n = [1]\n  def m(self):\n    return self.n\n",
    "from typing import Never\nunreachable: Never\ndef fail() -> Never:\n  raise ValueError()\nclass E:\n  def boom(self, why) -> Never:\n    raise RuntimeError(why)\n  def ok(self):\n    return [1]\n",
    "import typing\ndef f(x) -> typing.Any:\n  return x\nblob: typing.Any = None\nmore: typing.Any\ndef g(y):\n  return [y]\n",
    "from typing import Any\ndef outer(a):\n  def inner(b) -> Any:\n    return [a, b]\n  local: Any = inner(a)\n  return local\nr = outer(1)\n",
    "from typing import Any, Never\nimport sys\nif sys.version_info >= (3, 0):\n  mode: Any = 'new'\n  def stop() -> Never:\n    raise SystemExit(1)\nelse:\n  mode: Any = 'old'\n  def stop() -> Never:\n    raise SystemExit(2)\nitems = [mode]\n",
    "from typing import Any\ntry:\n  conf: Any = {'a': 1}\nexcept Exception:\n  conf = None\nfor i in [1]:\n  last: Any = i\nwith open(__file__) as fh:\n  head: Any = fh\ndef use():\n  return [conf]\n",
    "from typing import Any, Never, Optional\ndef f(a: Any, b, *rest: Any, k: Any = None, **kw: Any) -> Any:\n  return [a, b]\ndef g(a: Never):\n  return a\ndef h(a: Optional[Any] = None) -> dict[str, Any]:\n  return {}\n",
    "from typing import Any\nclass Outer:\n  slot: Any\n  class Inner:\n    deep: Any = []\n    deeper: Any\n    def m(self) -> Any:\n      return self.deep\n  def n(self):\n    return Outer.Inner()\n",
    "from typing import Any\nimport abc\nclass Base(abc.ABC):\n  registry: Any = {}\n  @abc.abstractmethod\n  def run(self, job) -> Any:\n    pass\n  @staticmethod\n  def s(x) -> Any:\n    return x\n  @property\n  def p(self) -> Any:\n    return 1\n  @classmethod\n  def make(cls):\n    return [cls]\n",
    "from typing import Any\nasync def fetch(u) -> Any:\n  return u\nasync def other(u):\n  return [u]\nresult: Any; spare = [1]\n",
    '"""Doc."""\nfrom typing import Any as A, Never as N\ndef f(x) -> A:\n  return x\ndef g() -> N:\n  raise KeyError()\nv: A = 1\nw: N\nu = [1]\n',
    "from typing import Any\nx: Any = 1\nx = 'again'\ny: Any\ny = [2]\nz = {3}\n",
    "from typing_extensions import Never\nfrom typing import Any\ndef f() -> Never:\n  raise OSError()\nq: Any = f\nclass K:\n  a: Any\n  b = a = None\n  c, d = [1], [2]\n",
]
PROGS += EXISTING_ANY_NEVER

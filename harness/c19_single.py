"""Stand-in for pytype-single in real ninja runs of C19: records, in one append-only log, when
it started, which of the files it is entitled to read (input, imports file, every target of the
imports map - read with the real ImportsMapBuilder reader) were missing at that moment, and when
it finished writing its output."""
import json
import os
import random
import sys
import time
import types


def log(path, rec):
  fd = os.open(path, os.O_WRONLY | os.O_APPEND | os.O_CREAT, 0o644)
  try:
    os.write(fd, (json.dumps(rec) + "\n").encode())
  finally:
    os.close(fd)


def main(argv):
  args = argv[1:]
  opts = {}
  k = 0
  positional = []
  while k < len(args):
    a = args[k]
    if a in ("--log", "--seed", "--imports_info", "-o", "--module-name", "-V", "--platform"):
      opts[a] = args[k + 1]
      k += 2
    elif a.startswith("-"):
      opts[a] = True
      k += 1
    else:
      positional.append(a)
      k += 1
  out = opts["-o"]
  sys.path.insert(0, os.environ.get("VERIF_REPO", "/repo"))
  from pytype import imports_map_loader
  builder = imports_map_loader.ImportsMapBuilder(types.SimpleNamespace(open_function=open))
  missing = []
  imports = opts["--imports_info"]
  if not os.path.isfile(imports):
    missing.append(imports)
    items = []
  else:
    items = builder._read_from_file(imports)  # pylint: disable=protected-access
  for p in positional:
    if not os.path.isfile(p):
      missing.append(p)
  for _, target in items:
    if not os.path.isfile(target):
      missing.append(target)
  log(opts["--log"], {"ev": "start", "out": out, "missing": missing, "argv_imports": imports,
                     "argv_in": positional})
  rnd = random.Random(int(opts.get("--seed", "0")) + hash(out) % 1000)
  time.sleep(0.03 + rnd.random() * 0.12)
  os.makedirs(os.path.dirname(out), exist_ok=True)
  with open(out, "w") as f:
    f.write("# stub\n")
  log(opts["--log"], {"ev": "finish", "out": out})
  return 0


if __name__ == "__main__":
  sys.exit(main(sys.argv))

"""Evaluate one seeded change against the checks (never touches /repo's working tree).

usage: harness/seedeval.py <dir> <N|-> <ID> [<ID>...] [--tier quick|thorough] [--no-baseline]
  <dir> holds patchN.diff + demoN.py (as written by a seeding agent) or patch.diff + demo.py (N = -).
Steps: scratch git worktree of /repo HEAD under /tmp, apply the patch, confirm the demonstration
(exit 0 on /repo, non-zero on the worktree), run the pinned baseline suite in the worktree
(171 passed expected), run `VERIF_REPO=<worktree> ./check ID` for each ID, remove the worktree.
Prints one JSON summary line (RESULT {...}); evidence files written by these runs belong to the
mutant - re-run the checks on /repo before committing evidence.
"""
import json
import os
import re
import subprocess
import sys
import time

VERIF = os.path.dirname(os.path.dirname(os.path.abspath(__file__)))


def sh(cmd, cwd=None, timeout=3600, env=None):
  p = subprocess.run(cmd, shell=True, cwd=cwd, stdout=subprocess.PIPE, stderr=subprocess.STDOUT,
                     timeout=timeout, env=env)
  return p.returncode, p.stdout.decode(errors="replace")


def main():
  argv = sys.argv[1:]
  if "--keep" in argv:
    argv = argv[:argv.index("--keep")]
  args = [a for a in argv if not a.startswith("--")]
  tier = "quick"
  if "--tier" in argv:
    tier = argv[argv.index("--tier") + 1]
    args.remove(tier)
  d, n, ids = os.path.abspath(args[0]), args[1], args[2:]
  suffix = "" if n == "-" else n
  patch = os.path.join(d, "patch%s.diff" % suffix)
  demo = os.path.join(d, "demo%s.py" % suffix)
  wt = "/tmp/seedwt_%d" % os.getpid()
  res = {"dir": d, "n": n, "tier": tier, "checks": {}}
  rc, out = sh("git -C /repo worktree add -q --detach %s HEAD" % wt)
  if rc:
    print(out)
    sys.exit(2)
  try:
    rc, out = sh("git apply %s" % patch, cwd=wt)
    if rc:
      rc, out = sh("git apply --3way %s" % patch, cwd=wt)
    res["applies"] = rc == 0
    if rc:
      print(out)
      print("RESULT " + json.dumps(res))
      return
    if os.path.exists(demo):
      res["demo_on_repo"] = sh("/venv/bin/python %s /repo" % demo, cwd=d, timeout=1800)[0]
      res["demo_on_mutant"] = sh("/venv/bin/python %s %s" % (demo, wt), cwd=d, timeout=1800)[0]
    if "--no-baseline" not in argv:
      env = dict(os.environ)
      env.pop("GOOGLE_PYTYPE_VERIF", None)
      rc, out = sh("/venv/bin/python -m pytest -q -p no:cacheprovider --timeout=900 "
                   "--continue-on-collection-errors 2>&1 | tail -1", cwd=wt, env=env)
      m = re.search(r"(\d+) passed", out)
      res["baseline_passed"] = int(m.group(1)) if m else out.strip()[-200:]
    for pid in ids:
      t0 = time.time()
      env = dict(os.environ, VERIF_REPO=wt)
      rc, out = sh("./check %s --tier %s" % (pid, tier), cwd=VERIF, env=env, timeout=7200)
      keys = sorted(set(re.findall(r"key=(\S+)", out)))
      res["checks"][pid] = {"exit": rc, "violations": out.count("VIOLATION property="),
                            "keys": keys[:12], "wall": round(time.time() - t0)}
      if rc == 2:
        res["checks"][pid]["tail"] = out[-600:]
  finally:
    sh("git -C /repo worktree remove --force %s" % wt)
  if "--keep" in sys.argv:
    keep(res, d, suffix, sys.argv[sys.argv.index("--keep") + 1:])
  print("RESULT " + json.dumps(res))


def keep(res, d, suffix, rest):
  """--keep <property> <slug> <needs...>: store the confirmed change under /verif/seeded/."""
  import shutil
  prop, slug, needs = rest[0], rest[1], " ".join(rest[2:])
  ok = (res.get("applies") and res.get("demo_on_repo") == 0 and res.get("demo_on_mutant") not in (0, None)
        and res.get("baseline_passed") == 171)
  out = os.path.join(VERIF, "seeded", "%s-%s" % (prop, slug))
  prior = os.path.exists(os.path.join(out, "meta.json"))
  if not ok and prior and res.get("applies") and res.get("demo_on_repo") == 0 and res.get("demo_on_mutant"):
    # re-evaluation of an already confirmed change (baseline not re-run): only append the check run
    meta = json.load(open(os.path.join(out, "meta.json")))
    runs = meta.setdefault("check_runs", [])
    runs.append({"tier": res["tier"], "checks": res["checks"], "note": "re-evaluation after strengthening the check"})
    meta["caught_by"] = sorted({c for r in runs for c, v in r["checks"].items() if v["exit"] == 1})
    meta["not_caught_by"] = sorted({c for c, v in runs[-1]["checks"].items() if v["exit"] == 0})
    with open(os.path.join(out, "meta.json"), "w") as f:
      json.dump(meta, f, indent=1)
    res["confirmed"] = True
    return
  res["confirmed"] = bool(ok)
  if not ok:
    return
  os.makedirs(out, exist_ok=True)
  for src, dst in (("patch%s.diff" % suffix, "patch.diff"), ("demo%s.py" % suffix, "demo.py"),
                   ("notes%s.md" % suffix, "notes.md")):
    a, b = os.path.join(d, src), os.path.join(out, dst)
    if os.path.exists(a) and os.path.abspath(a) != os.path.abspath(b):
      shutil.copy(a, b)
  meta_p = os.path.join(out, "meta.json")
  meta = json.load(open(meta_p)) if os.path.exists(meta_p) else {}
  meta.update({
      "property": prop,
      "origin": "written by a fresh sub-agent that was given only the property text and its own "
                "worktree of /repo (nothing from /verif)",
      "needs_to_manifest": needs or meta.get("needs_to_manifest", ""),
      "confirmed": {"patch_applies_to_HEAD": True, "demo_exit_on_unchanged_repo": res["demo_on_repo"],
                    "demo_exit_on_mutant": res["demo_on_mutant"],
                    "pinned_suite_passed_on_mutant": res["baseline_passed"]},
      "how_run": "harness/seedeval.py (scratch git worktree of /repo HEAD, git apply, demo on both "
                 "trees, pinned suite on the mutant, VERIF_REPO=<worktree> ./check <ID> --tier %s)" % res["tier"],
  })
  runs = meta.setdefault("check_runs", [])
  runs.append({"tier": res["tier"], "checks": res["checks"]})
  meta["caught_by"] = sorted({c for r in runs for c, v in r["checks"].items() if v["exit"] == 1})
  meta["not_caught_by"] = sorted({c for c, v in runs[-1]["checks"].items() if v["exit"] == 0})
  with open(meta_p, "w") as f:
    json.dump(meta, f, indent=1)


if __name__ == "__main__":
  main()

"""C03 - a disable comment on the reported line silences exactly that error.

Model: specs/DirectivesOps.tla (pure operators: _LineSet, _BlockRanges, the parser's comment
groups, Director processing, filter_error, the declarative meaning of directives in a STRICT
and a DOCUMENTED reading, frame conditions) and specs/Directives.tla (the Director pipeline and
the _LineSet object as state machines; TLC enumerates every file within the bounds).

Binding (specs/TraceC03.tla judges everything the real code produced):
 ring 1  _LineSet: every transition of the model's state graph (with a witness history) and
         every operation sequence up to a bound is replayed on directors._LineSet; membership
         of every line after every call is compared with the history's declarative meaning.
 ring 2  Director: TLC chooses directive placements on fixed source skeletons; the source is
         rendered, parsed with directors.parse_src and given to directors.Director exactly as
         vm.py does; filter_error is asked about a synthetic error for every (name, line,
         return opcode?); TLC compares with the declarative verdict.
 ring 3  end to end: seeded programs are analysed by pytype; for every reported error (E, L)
         the program is re-analysed with `# pytype: disable=E` / `# type: ignore` appended to
         line L, with a stand-alone disable/enable pair around L, with an open stand-alone
         disable before L, and along silencing chains (errors silenced one after another);
         TLC judges errors_after = errors_before minus the target and pyi_after = pyi_before.

Strengthening (after seeded changes):
 * raised errors: the model has ErrorLog.error as three actions (ErrCreate: the error sits on
   the line of the executing opcode; ErrLine: the caller's explicit `line=`; ErrFilterAdd:
   the Director's filter decides on the CURRENT line).  Ring 2 raises errors [name, op, xl,
   ret] through the real VmErrorLog.error (a stack whose top opcode is on line op, line=xl)
   with the real filter installed; TraceC03 raises the same errors with the spec's actions and
   judges: logged iff the ASKED line carries no directive.  Ring 3 has programs with relocated
   errors (incomplete-match: detected behind the match block, reported at the `match` line),
   records the detecting opcode's line of every reported error (a wrapper around
   Error.set_line in the worker processes) and adds the placement "opline": a disable on the
   detecting line must not touch the relocated error.
 * error-class tables: DirectivesOps.tla holds the tables _FUNCTION_CALL_ERRORS and
   _ALL_ADJUSTABLE_ERRORS of the pinned commit; the model constants are ASSUMEd to be their
   restriction to the names in play.  Ring 2 "alphabet": TLC places ONE directive naming every
   error class pytype knows on every line of the skeletons; every class is queried on every
   line.  The tables imported from the code are a recorded case ("tables") judged against the
   pinned ones.  Ring 3 has multi-line statements / calls with two errors of a class outside
   the tables (module-attr); the attribution of a lost error to the known finding
   "continuation-line directive also silences the start line" is computed by TraceC03 from the
   pinned table (a class outside it is never attributed).
"""
import argparse
import ast
import json
import os
import random
import sys
import time

sys.path.insert(0, os.path.dirname(os.path.abspath(__file__)))
import boot  # noqa: E402
import common  # noqa: E402
import tlc  # noqa: E402

PID = "C03"
FN = "c03_input.py"
W, B, N, A, O = ("wrong-arg-types", "bad-return-type", "name-error", "attribute-error",
                 "import-error")
M, IM = "module-attr", "incomplete-match"
# directors._FUNCTION_CALL_ERRORS / _ALL_ADJUSTABLE_ERRORS at the pinned commit.  These copies only
# serve to write TLC configurations and to word violation keys; the authoritative tables are
# PinnedFuncCallErrs / PinnedAdjustErrs in specs/DirectivesOps.tla, and every TLC run checks
# (ASSUME PinnedTables) that the configuration is the spec's table restricted to its names.
PIN_FC = ["attribute-error", "duplicate-keyword", "invalid-annotation", "missing-parameter",
          "not-instantiable", "wrong-arg-count", "wrong-arg-types", "wrong-keyword-args",
          "unsupported-operands"]
PIN_ADJ = PIN_FC + ["annotation-type-mismatch", "bad-return-type", "bad-yield-annotation",
                    "container-type-mismatch", "not-supported-yet", "signature-mismatch"]
NAMES_ALL = [W, B, N, A]
ADJUST = PIN_ADJ


def tla_set(xs):
  return "{" + ", ".join(json.dumps(x) if isinstance(x, str) else str(x) for x in xs) + "}"


def model_cfg(**kw):
  d = dict(Mode='"files"', MaxLines=4, MaxStmts=2, MaxCalls=1, MaxFuncs=0, MaxRets=0, MaxPlain=0,
           MaxComments=2, MaxSameLine=2, WithStar="FALSE", WithGlobal="FALSE",
           TrailEnable="TRUE", DefsAt="{}", LsMaxLine=2, LsMaxOps=4, CheckFrame="TRUE",
           Export='"none"', NameSets='"single"', MaxErrs=0)
  d.update(kw)
  names = d.pop("NAMES", [W, N])
  d.update(Names=tla_set(names), FuncCallErrs=tla_set([x for x in names if x in PIN_FC]),
           AdjustErrs=tla_set([x for x in names if x in PIN_ADJ]))
  invs = d.pop("INVARIANTS", ["TypeOK", "DirInvMeaning", "DirInvRun", "DirInvFilter",
                              "DirInvException", "DirInvRangesOnly", "DirInvFrame", "LsInv",
                              "LogInv"])
  view = d.pop("VIEW", None)
  ac = d.pop("AC", None)
  lines = ["SPECIFICATION Spec", "CONSTANTS"] + [" %s = %s" % kv for kv in d.items()]
  lines += ["INVARIANT " + x for x in invs]
  if view:
    lines.append("VIEW " + view)
  if ac:
    lines.append("ACTION_CONSTRAINT " + ac)
  return "\n".join(lines) + "\n"


def trace_cfg(names=None):
  names = names or NAMES_ALL
  d = dict(Mode='"trace"', MaxLines=0, MaxStmts=0, MaxCalls=0, MaxFuncs=0, MaxRets=0, MaxPlain=0,
           MaxComments=0, MaxSameLine=0, WithStar="TRUE", WithGlobal="TRUE", TrailEnable="TRUE",
           DefsAt="{}", LsMaxLine=0, LsMaxOps=1000000, CheckFrame="FALSE", Export='"none"',
           NameSets='"single"', MaxErrs=1000000,
           Names=tla_set(names), FuncCallErrs=tla_set([x for x in names if x in PIN_FC]),
           AdjustErrs=tla_set([x for x in names if x in PIN_ADJ]))
  lines = ["INIT TInit", "NEXT TNext", "CONSTANTS"] + [" %s = %s" % kv for kv in d.items()]
  lines += ["INVARIANT Ok", "POSTCONDITION Done"]
  return "\n".join(lines) + "\n"


def run_model(label, run, workers=16, **kw):
  t = time.time()
  r = tlc.run("Directives", model_cfg(**kw), workers=workers, timeout=6000, heap="12g",
              env={"SKEL_FILE": os.devnull})
  if r.violated:
    raise common.Machinery("Directives.tla (%s): %s violated:\n%s" % (label, r.violated,
                                                                      r.error_trace[:4000]))
  common.require(r.rc == 0, "TLC failed on Directives.tla (%s):\n%s" % (label, r.out[-3000:]))
  print("  model %-14s %8d states %9d transitions  %.0fs" % (label, r.distinct, r.generated,
                                                             time.time() - t), flush=True)
  run.add("states", r.distinct)
  run.add("transitions", r.generated)
  run.put("states_" + label, r.distinct)
  return r


def validate(run, cases, label, shards=1, names=None):
  """Let TLC judge recorded cases.  Returns (bads, divs, obs): lists of decoded records with
  the case index (0-based) in field idx."""
  if not cases:
    return [], [], []
  n = len(cases)
  step = (n + shards - 1) // shards
  import concurrent.futures as cf

  def one(off):
    part = cases[off:off + step]
    nv, bad, r = tlc.validate_cases("TraceC03", part, cfg=trace_cfg(names), timeout=6000, heap="4g")
    common.require(bad is None, "TraceC03 invariant cannot fail (verdicts are printed)")
    common.require(nv == len(part), "TraceC03 did not consume all cases")
    out = []
    for tag in ("BAD", "DIV", "OBS"):
      recs = tlc.parse_cases(r.out, tag)
      for rec in recs:
        rec["idx"] = off + rec["i"] - 1
      out.append(recs)
    return out
  bads, divs, obs = [], [], []
  t = time.time()
  with cf.ThreadPoolExecutor(max_workers=shards) as ex:
    for b, d, o in ex.map(one, range(0, n, step)):
      bads += b
      divs += d
      obs += o
  run.add("traces_validated_against_impl", n)
  print("  judged %-16s %7d cases  bad=%d div=%d  %.0fs" % (label, n, len(bads), len(divs),
                                                          time.time() - t), flush=True)
  return bads, divs, obs


# ------------------------------------------------------------------------------------------
# ring 1: _LineSet

def replay_lineset(ops, maxline):
  from pytype.directors import directors
  ls = directors._LineSet()  # pylint: disable=protected-access
  obs = []
  for o in ops:
    raised = False
    try:
      if o["op"] == "set_line":
        ls.set_line(o["l"], o["m"])
      else:
        ls.start_range(o["l"], o["m"])
    except ValueError:
      raised = True
    lines = ls.lines
    obs.append({
        "raised": raised,
        "mem": [bool(l in ls) for l in range(0, maxline + 1)],
        "after": [(-1 if ls.get_disable_after(l) is None else ls.get_disable_after(l))
                  for l in range(0, maxline + 1)],
        "on": sorted(l for l, m in lines.items() if m),
        "off": sorted(l for l, m in lines.items() if not m),
        "trans": list(ls._transitions),  # pylint: disable=protected-access
    })
  return obs


def ring1(run, thorough):
  maxline, depth = (3, 7) if thorough else (3, 6)
  env = {"SKEL_FILE": os.devnull}
  # the model: every reachable _LineSet state, invariant LsInv (meaning of monotone histories);
  # (a) the same run exports every transition of the state graph with a witness history
  t = time.time()
  r = tlc.run("Directives", model_cfg(Mode='"lineset"', LsMaxLine=maxline, LsMaxOps=depth,
                                      Export='"lstrans"', VIEW="LsView", AC="ExportLsTrans",
                                      INVARIANTS=["TypeOK", "LsInv"]),
              workers=1, timeout=3000, heap="8g", env=env)
  if r.violated:
    raise common.Machinery("Directives.tla (lineset): %s violated:\n%s" % (r.violated, r.error_trace[:3000]))
  common.require(r.rc == 0, "lineset transition export failed")
  hists = [c["h"] for c in r.cases]
  run.add("states", r.distinct)
  run.add("transitions", r.generated)
  run.put("lineset_states", r.distinct)
  run.put("lineset_transitions", len(hists))
  common.require(len(hists) > 1000, "only %d _LineSet transitions exported" % len(hists))
  # (b) every operation sequence up to a bound (LsInv checked on every prefix)
  ml2, d2 = (2, 5) if thorough else (1, 4)
  r2 = tlc.run("Directives", model_cfg(Mode='"lineset"', LsMaxLine=ml2, LsMaxOps=d2,
                                       Export='"lshist"', INVARIANTS=["TypeOK", "LsInv", "ExportInv"]),
               workers=1, timeout=3000, heap="8g", env=env)
  if r2.violated:
    raise common.Machinery("Directives.tla (lineset): %s violated:\n%s" % (r2.violated, r2.error_trace[:3000]))
  common.require(r2.rc == 0, "lineset history export failed")
  seqs = [c["h"] for c in r2.cases]
  run.put("lineset_sequences", len(seqs))
  common.require(len(seqs) == (4 * (ml2 + 1)) ** d2, "expected every sequence, got %d" % len(seqs))
  run.add("states", r2.distinct)
  run.add("transitions", r2.generated)
  print("  model lineset: %d states, %d transitions exported, %d sequences  %.0fs" % (
      r.distinct, len(hists), len(seqs), time.time() - t), flush=True)
  cases = []
  for h, ml in [(h, maxline + 1) for h in hists] + [(h, ml2 + 1) for h in seqs]:
    ops = [{"op": o["op"], "l": o["l"], "m": o["m"]} for o in h]
    cases.append({"kind": "ls", "ops": ops, "maxline": ml, "obs": replay_lineset(ops, ml)})
  run.add("lineset_calls", sum(len(c["ops"]) for c in cases))
  nontriv = sum(1 for c in cases if any(o["raised"] for o in c["obs"]) or
                any(len(o["trans"]) < len(p["trans"]) for o, p in zip(c["obs"][1:], c["obs"])))
  run.add("lineset_nontrivial", nontriv)
  common.require(nontriv > 100, "vacuity: few _LineSet cases with a pop or a raise")
  bads, divs, _ = validate(run, cases, "ring1-lineset", shards=4 if len(cases) > 30000 else 2)
  for b in bads:
    c = cases[b["idx"]]
    run.violation("C03:lineset:membership", "after %s line %s: real membership differs from the "
                  "history's meaning" % (json.dumps(c["ops"][:b["k"]]), b["fails"]),
                  {"ring": 1, "ops": c["ops"][:b["k"]], "maxline": c["maxline"]})
  for d in divs:
    c = cases[d["idx"]]
    run.diverge({"ring": 1, "ops": c["ops"][:d["k"]], "divs": d["divs"]})
  run.sample({"ring1": cases[len(cases) // 2]["ops"]})
  return cases


# ------------------------------------------------------------------------------------------
# ring 2: Director on source skeletons

def skel(name, src, stmts, calls=(), funcs=(), rets=(), defs=0, hash_free=True):
  """A source skeleton with its hand-written line structure (what parser.py is documented to
  produce): base ranges for the logical statements (every other line is a range of its own),
  Call ranges (calls, comparisons, subscripts), function ranges, explicit return lines, the
  first definition line.  Lines consisting of `#` are free: stand-alone comments go there.
  hash_free: a free line without a directive is rendered as a bare `#` (an ordinary comment: it
  still counts as a comment line for the parser's grouping), otherwise as an empty line."""
  lines = src.strip("\n").split("\n")
  n = len(lines)
  free = [k + 1 for k, l in enumerate(lines) if l.strip() == "#"]
  covered = set()
  for a, b in stmts:
    covered.update(range(a, b + 1))
  st = [list(x) for x in stmts] + [[l, l] for l in range(1, n + 1) if l not in covered]
  return {"name": name, "lines": lines, "hash_free": hash_free,
          "f": {"id": 0, "n": n, "stmts": sorted(st), "calls": [list(x) for x in calls],
                "funcs": [list(x) for x in funcs], "rets": list(rets), "defs": defs,
                "plain": list(free) if hash_free else [], "glob": [], "cs": [],
                "canT": [l for l in range(1, n + 1) if l not in free], "canS": free}}


SKELETONS = [
    skel("multi-line call with a nested call", """
x = foo(
    a,
    #
    bar(
        b,
        #
        c),
    d)
y = 1
""", stmts=[(1, 8)], calls=[(1, 8), (4, 7)]),
    skel("multi-line call with a nested call, empty free lines", """
x = foo(
    a,
    #
    bar(
        b,
        #
        c),
    d)
y = 1
""", stmts=[(1, 8)], calls=[(1, 8), (4, 7)], hash_free=False),
    skel("decorated function, implicit return after a multi-line statement", """
@deco(
    1,
    2)
def f(x,
      y) -> int:
  z = [x,
       y]
#
w = 2
""", stmts=[(1, 3), (4, 5), (6, 7)], calls=[(1, 3)], funcs=[(1, 7)], defs=4),
    skel("with statement, explicit and implicit return", """
def g(p) -> int:
  with (open(p) as fh,
        open(p) as fh2):
    #
    return 1
  #
  k = h(
      p)
""", stmts=[(2, 3), (7, 8)], calls=[(2, 2), (3, 3), (7, 8)], funcs=[(1, 8)], rets=[5], defs=1),
    skel("if header with call, subscript and comparison", """
if (a.b(c,
        d[
          0]) <
    e(f)):
  #
  pass
else:
  pass
""", stmts=[(1, 4)], calls=[(1, 4), (1, 3), (2, 3), (4, 4)]),
    skel("nested functions with implicit returns", """
def outer(q) -> int:
  def inner() -> int:
    r = [q,
         q]
  #
  s = inner(
  )
""", stmts=[(3, 4), (6, 7)], calls=[(6, 7)], funcs=[(1, 7), (2, 4)], defs=1, hash_free=False),
    skel("class header, annotated assignment, late directive", """
import os
#
class C(
    object):
  x: int = os.getcwd(
  )
#
v = C(
).x
""", stmts=[(5, 6), (8, 9)], calls=[(5, 6), (8, 9)], defs=3),
    skel("try / except with a multi-line handler type", """
def t(u):
  try:
    return u(
        1)
  except (ValueError,
          KeyError):
    #
    return 0
""", stmts=[(3, 4), (5, 6)], calls=[(3, 4)], funcs=[(1, 8)], rets=[3, 8], defs=1, hash_free=False),
]


def render(sk, cs):
  """Write the directives cs onto the skeleton's lines."""
  lines = [("" if l.strip() == "#" and not sk["hash_free"] else l) for l in sk["lines"]]
  by = {}
  for c in cs:
    by.setdefault(c["line"], []).append(c)
  for l, group in by.items():
    parts = []
    for c in group:
      if c["cmd"] == "ignore":
        parts.append("# type: ignore")
      else:
        parts.append("# pytype: %s=%s" % (c["cmd"], ",".join(c["names"])))
    text = "  ".join(parts)
    base = lines[l - 1]
    if group[0]["trail"]:
      common.require(l in sk["f"]["canT"], "trailing directive on a free line")
      lines[l - 1] = base + "  " + text
    else:
      common.require(l in sk["f"]["canS"], "stand-alone directive on a code line")
      orig = sk["lines"][l - 1]
      lines[l - 1] = orig[:len(orig) - len(orig.lstrip())] + text
  return "\n".join(lines) + "\n"


class _PP:
  """Stands in for the pretty printer (never used for directive errors)."""


class _Code:
  filename = FN
  name = "<module>"


class CALL:   # the class NAME is what Error.with_stack records as opcode_name
  code = _Code()
  col = endcol = 0

  def __init__(self, line):
    self.line = self.endline = line


class RETURN_VALUE(CALL):
  pass


def raise_errors(d, elog, lq):
  """Raise the errors lq = [name, op, xl, ret] through the real ErrorLog.error exactly as the VM
  does (vm.py: errorlog.set_error_filter(director.filter_error); a frame stack whose top opcode
  sits on line op; `line=xl` as VmErrorLog.incomplete_match passes it).  Returns
  [logged?, final line of the error object] per raise (the error object is captured by a
  pass-through wrapper around the filter)."""
  from pytype import state
  from pytype.errors import errors
  seen = []

  def filt(e):
    seen.append(e)
    return d.filter_error(e)
  elog.set_error_filter(filt)
  out = []
  for name, op, xl, ret in lq:
    n0 = len(elog)
    del seen[:]
    stack = [state.SimpleFrame((RETURN_VALUE if ret else CALL)(op))]
    with errors._CURRENT_ERROR_NAME.bind(name):  # pylint: disable=protected-access
      elog.error(stack, "synthetic", line=xl or None)
    common.require(len(seen) == 1 and seen[0].name == name and len(elog) - n0 in (0, 1),
                   "ErrorLog.error did not consult the filter exactly once")
    logged = len(elog) == n0 + 1
    common.require(not logged or elog[n0] is seen[0], "another error object was logged")
    out.append([logged, seen[0].line])
  return out


def observe_director(src, f, qnames, lq=(), keys=None, inner_lines=False):
  """Build the real Director as vm.py does and interrogate it."""
  from pytype.directors import directors
  from pytype.errors import errors
  keys = keys or NAMES_ALL
  tree = directors.parse_src(src, (3, 12))
  elog = errors.VmErrorLog(_PP(), src)
  d = directors.Director(tree, elog, FN, list(f["glob"]))
  qs, obs = [], []
  for name in qnames:
    for line in (range(1, f["n"] + 1) if inner_lines else list(range(0, f["n"] + 2)) + [1000000]):
      for ret in (False, True):
        if ret and (name != B or not f["funcs"]):
          continue   # find_outermost raises IndexError when the file has no function at all
        e = errors.Error.for_test(errors.SEVERITY_ERROR, "synthetic", name, filename=FN,
                                  line=line, src=src,
                                  opcode_name="RETURN_VALUE" if ret else "CALL")
        rep = d.filter_error(e)
        qs.append([name, line, ret])
        obs.append([bool(rep), e.line])
  sets = {}
  for k in list(keys) + ["*", "ignore"]:
    ls = d._ignore if k == "ignore" else d._disables[k]  # pylint: disable=protected-access
    sets[k] = {"on": sorted(l for l, m in ls.lines.items() if m),
               "off": sorted(l for l, m in ls.lines.items() if not m),
               "trans": list(ls._transitions)}  # pylint: disable=protected-access
  fr = d._function_ranges  # pylint: disable=protected-access
  late, other = [], []
  for e in elog:
    if e.name == "late-directive":
      key = e.message.split(" disabled from here")[0]
      late.append(["ignore" if key == "Type checking" else key, e.line])
    else:
      other.append([e.name, e.line, e.message])
  lq = [list(u) for u in lq]
  return {"qs": qs, "obs": obs, "sets": sets, "lq": lq, "lobs": raise_errors(d, elog, lq),
          "f2e": sorted([a, b] for a, b in fr._start_to_end.items()),  # pylint: disable=protected-access
          "e2s": sorted([a, b] for a, b in fr._end_to_start.items()),  # pylint: disable=protected-access
          "late": sorted(late), "other": other}


def ring2(run, thorough):
  tdir = tlc.scratch("c03-skel")
  try:
    skf = os.path.join(tdir, "skeletons.json")
    for k, sk in enumerate(SKELETONS):
      sk["f"]["id"] = k + 1
    with open(skf, "w") as fh:
      json.dump([sk["f"] for sk in SKELETONS], fh)
    t = time.time()
    kw = dict(Mode='"skeleton"', MaxComments=3 if thorough else 2, MaxSameLine=2, WithStar="TRUE",
              NAMES=[W, B, N])
    # the model's own invariants on every placement (all workers) ...
    rm = tlc.run("Directives",
                 model_cfg(CheckFrame="TRUE" if thorough else "FALSE",
                           INVARIANTS=["TypeOK", "DirInvMeaning", "DirInvRun", "DirInvFilter",
                                       "DirInvException", "DirInvRangesOnly", "DirInvFrame"], **kw),
                 workers=16, timeout=6000, heap="12g", env={"SKEL_FILE": skf})
    if rm.violated:
      raise common.Machinery("Directives.tla (skeleton): %s violated:\n%s" % (rm.violated, rm.error_trace[:4000]))
    common.require(rm.rc == 0, "TLC failed in skeleton mode:\n" + rm.out[-2000:])
    # ... and the export of the placements (the same initial states and actions)
    kw["MaxComments"] = 2
    r = tlc.run("Directives", model_cfg(CheckFrame="FALSE", Export='"files"',
                                        INVARIANTS=["ExportInv"], **kw),
                workers=1, timeout=6000, heap="12g", env={"SKEL_FILE": skf})
  finally:
    import shutil
    shutil.rmtree(tdir, ignore_errors=True)
  if r.violated:
    raise common.Machinery("Directives.tla (skeleton): %s violated:\n%s" % (r.violated, r.error_trace[:4000]))
  common.require(r.rc == 0, "TLC failed in skeleton mode:\n" + r.out[-2000:])
  run.add("states", rm.distinct)
  run.add("transitions", rm.generated)
  run.put("states_skeleton", rm.distinct)
  files = r.cases
  print("  model skeleton: %d states, %d placements exported  %.0fs" % (rm.distinct, len(files),
                                                                       time.time() - t), flush=True)
  rng = random.Random(run.seed)
  run.put("placements_exported", len(files))
  small = [f for f in files if len(f["cs"]) <= 1]
  big = [f for f in files if len(f["cs"]) > 1]
  rng.shuffle(big)
  if not thorough and len(files) > 5000:
    # keep every placement of <= 1 directive and a seeded sample of the pairs
    files = small + big[:5000 - len(small)]
  else:
    files = small + big
  # errors raised through ErrorLog.error: on every placement of <= 1 directive and on a seeded
  # sample of the pairs
  nlog = len(small) + (1500 if thorough else 200)
  raises = {id(f): choose_raises(rng, f, 36 if thorough else 20) for f in files[:nlog]}
  cases = judge_dir(run, [(SKELETONS[f["id"] - 1], f) for f in files], "ring2-director",
                    raises=raises)
  nrel = sum(1 for c in cases for u in c["lq"] if u[2] and u[2] != u[1])
  nsup = sum(1 for c in cases for u, o in zip(c["lq"], c["lobs"])
             if u[2] and u[2] != u[1] and not o[0])
  run.add("errorlog_raises", sum(len(c["lq"]) for c in cases))
  run.add("errorlog_raises_relocated", nrel)
  run.add("errorlog_raises_relocated_suppressed", nsup)
  common.require(nrel >= 2000 and nsup >= 200,
                 "vacuity: %d relocated raises, %d of them suppressed" % (nrel, nsup))
  cases += ring2_alphabet(run, [sk["f"] for sk in SKELETONS], thorough)
  return cases


def choose_raises(rng, f, n):
  """Errors to raise on placement f: [name, op, xl, ret]; op = line of the executing opcode,
  xl = explicit line (0: none).  Every (directive line, other line) combination in both roles
  for the names the directive can affect, in place raises on the directive lines, and a seeded
  sample of the rest of the grid names x lines x (0 | lines)."""
  lines = list(range(1, f["n"] + 1))
  names = [W, B, N]
  out = []
  dl = sorted({c["line"] for c in f["cs"]})
  st = sorted({r[0] for r in f["stmts"] + f["calls"]})
  for l in dl:
    for nm in names:
      out.append([nm, l, 0, False])
      for o in rng.sample(lines, min(3, len(lines))) + st[:2]:
        if o != l:
          out.append([nm, l, o, False])     # detected on the directive's line, reported elsewhere
          out.append([nm, o, l, False])     # detected elsewhere, reported on the directive's line
  if f["funcs"]:
    for l in rng.sample(lines, 2):
      out.append([B, l, 0, True])           # implicit / explicit return errors through the log
  while len(out) < n:
    op = rng.choice(lines)
    out.append([rng.choice(names), op, rng.choice([0] + lines), False])
  seen, res = set(), []
  for u in out:
    if tuple(u) not in seen:
      seen.add(tuple(u))
      res.append(u)
  return res[:max(n, 8 * len(dl) * len(names))]


def ring2_alphabet(run, skf_json, thorough=False):
  """Every error class pytype knows, on every line: TLC places ONE directive that names the
  whole alphabet (`# pytype: disable=a,b,c,...`); the Director's answer for every class on every
  line is compared with the spec, whose classification of the classes (function-call /
  adjustable) is the PINNED one.  The tables imported from the code are judged as a case of
  their own."""
  from pytype.directors import directors
  from pytype.errors import errors
  alphabet = sorted(errors._ERROR_NAMES)  # pylint: disable=protected-access
  common.require(len(alphabet) >= 40 and M in alphabet and IM in alphabet,
                 "error-class alphabet of the code: %d names" % len(alphabet))
  tdir = tlc.scratch("c03-alpha")
  try:
    skf = os.path.join(tdir, "skeletons.json")
    with open(skf, "w") as fh:
      json.dump(skf_json, fh)
    t = time.time()
    r = tlc.run("Directives",
                model_cfg(Mode='"skeleton"', MaxComments=1, MaxSameLine=1, WithStar="FALSE",
                          TrailEnable="FALSE", NameSets='"all"', NAMES=alphabet, CheckFrame="FALSE",
                          Export='"files"',
                          INVARIANTS=["TypeOK", "DirInvMeaning", "DirInvRun", "ExportInv"]),
                workers=1, timeout=6000, heap="8g", env={"SKEL_FILE": skf})
  finally:
    import shutil
    shutil.rmtree(tdir, ignore_errors=True)
  if r.violated:
    raise common.Machinery("Directives.tla (alphabet): %s violated:\n%s" % (r.violated, r.error_trace[:4000]))
  common.require(r.rc == 0, "TLC failed in alphabet mode:\n" + r.out[-2000:])
  run.add("states", r.distinct)
  run.add("transitions", r.generated)
  run.put("states_alphabet", r.distinct)
  # the tables only matter for trailing pytype directives
  files = [f for f in r.cases if f["cs"] and f["cs"][0]["trail"] and f["cs"][0]["cmd"] == "disable"]

  def on_cont(f):
    return any(st[0] < f["cs"][0]["line"] <= st[1] for st in f["stmts"])
  cont = sum(1 for f in files if on_cont(f))
  if not thorough:
    # every placement on a continuation line, and per skeleton the first placement on a first line
    first = {}
    for f in files:
      if not on_cont(f):
        first.setdefault(f["id"], f)
    files = [f for f in files if on_cont(f) or first[f["id"]] is f]
  run.put("alphabet_classes", len(alphabet))
  run.put("alphabet_placements", len(files))
  run.put("alphabet_placements_on_continuation_lines", cont)
  common.require(cont >= 20, "vacuity: %d alphabet placements on continuation lines" % cont)
  print("  model alphabet: %d classes, %d states, %d placements (%d on continuation lines)  %.0fs"
        % (len(alphabet), r.distinct, len(files), cont, time.time() - t), flush=True)
  tables = {"kind": "tables",
            "fc": sorted(directors._FUNCTION_CALL_ERRORS),      # pylint: disable=protected-access
            "adj": sorted(directors._ALL_ADJUSTABLE_ERRORS)}    # pylint: disable=protected-access
  return judge_dir(run, [(SKELETONS[f["id"] - 1], f) for f in files], "ring2-alphabet",
                   names=alphabet, extra=[tables], shards=2, inner_lines=not thorough)


def judge_dir(run, pairs, label, raises=None, names=None, extra=(), shards=None, inner_lines=False):
  cases = []
  raises = raises or {}
  for sk, f in pairs:
    src = render(sk, f["cs"])
    c = {"kind": "dir", "f": f, "skel": sk["name"], "src": src}
    c.update(observe_director(src, f, (names or [W, B, N]) + [O], lq=raises.get(id(f), ()),
                              keys=names, inner_lines=inner_lines))
    cases.append(c)
  ndir = len(cases)
  cases += list(extra)
  dirs = cases[:ndir]
  nq = sum(len(c["qs"]) for c in dirs)
  run.add("director_queries", nq)
  run.add("director_suppressed_answers", sum(1 for c in dirs for o in c["obs"] if not o[0]))
  run.add("director_retargeted_answers", sum(1 for c in dirs for q, o in zip(c["qs"], c["obs"])
                                             if o[1] != q[1]))
  bads, divs, obs = validate(run, cases, label, shards=shards or (4 if len(cases) > 2000 else 1),
                             names=names)
  run.add("director_cases_exception_observable", len(obs))
  for b in bads:
    c = cases[b["idx"]]
    if c["kind"] == "tables":
      for table, diff in b["fails"]:
        run.violation("C03:adjustable-error-classes-changed",
                      "the %s table of directors.py differs from the table of the pinned commit by %s: "
                      "for the function-call / adjustable classes a trailing directive on a continuation "
                      "line is ALSO registered on the first line of the statement / enclosing calls, so "
                      "the set of classes for which a disable comment silences another line changed"
                      % (table, sorted(diff)),
                      {"ring": 2, "tables": {"fc": c["fc"], "adj": c["adj"]}, "table": table,
                       "diff": sorted(diff)})
      continue
    for clause, x in b["fails"]:
      if clause.startswith("log-"):
        u, o = c["lq"][x - 1], c["lobs"][x - 1]
        kind = "relocated" if u[2] and u[2] != u[1] else "in-place"
        run.violation("C03:errorlog:%s-suppression:%s" % (clause[4:], kind),
                      "ErrorLog.error(%s detected at the opcode on line %d, line=%s%s) -> logged=%s on line %d; "
                      "the directives on the line the error is reported at say otherwise; source:\n%s"
                      % (u[0], u[1], u[2] or None, ", return opcode" if u[3] else "", o[0], o[1], c["src"]),
                      {"ring": 2, "f": c["f"], "skel": c["skel"], "src": c["src"], "raise": u,
                       "observed": o, "names": names or []})
        continue
      q, o = c["qs"][x - 1], c["obs"][x - 1]
      kind = "adjustable" if q[0] in ADJUST else "plain"
      run.violation("C03:director:%s-suppression:%s" % (clause, kind),
                    "filter_error(%s at line %d%s) -> reported=%s at line %d, the directives say otherwise; source:\n%s"
                    % (q[0], q[1], ", return opcode" if q[2] else "", o[0], o[1], c["src"]),
                    {"ring": 2, "f": c["f"], "skel": c["skel"], "src": c["src"], "query": q, "observed": o,
                     "names": names or []})
  for d in divs:
    c = cases[d["idx"]]
    run.diverge({"ring": 2, "skel": c["skel"], "src": c["src"], "divs": d["divs"][:6]})
  if dirs:
    c = dirs[len(dirs) // 2]
    run.sample({label: {"skel": c["skel"], "src": c["src"][:400], "raises": c["lq"][:4],
                        "raise_outcomes": c["lobs"][:4]}})
  return dirs


# ------------------------------------------------------------------------------------------
# ring 3: end to end

PRELUDE = """from typing import Dict, List, Literal, Optional
import enum
import os
import sys


class Colour(enum.Enum):
  RED = 1
  GREEN = 2
  BLUE = 3


def need_int(x: int, y: int = 0) -> int:
  return x


def need_str(s: str) -> str:
  return s


class Box:

  def __init__(self, v: int) -> None:
    self.v = v

  def get(self, k: int) -> int:
    return self.v + k

"""

# statements with known mistakes; {i} makes names unique.  No back-slash continuations and no
# multi-line strings, so that a comment can be appended to every line.
FRAGMENTS = [
    'a{i} = need_int("s")',
    'b{i} = need_int(\n    "s",\n    1)',
    'c{i} = need_int("s",\n               need_int("t"))',
    'd{i} = need_int(1,\n               1 + "u")',
    'e{i} = ("a".nope,\n       "b".nada)',
    'f{i} = [1,\n       undefined_{i}]',
    'def g{i}() -> int:\n  return "s"',
    'def h{i}(x: str) -> int:\n  return need_str(\n      x)',
    'def k{i}(x: int) -> int:\n  if x:\n    return 1',
    'def m{i}(x: int) -> int:\n  if x:\n    return 1\n  y = [x,\n       x]',
    'def n{i}(p: str) -> int:\n  with open(p) as fh:\n    return fh.read()',
    '@need_int\ndef o{i}():\n  pass',
    'def deco{i}(n: int):\n  def wrap(f):\n    return f\n  return wrap\n@deco{i}(\n    "x")\ndef p{i}():\n  pass',
    'q{i} = 1 < "a"',
    'r{i} = (1 <\n       "a")',
    's{i}: int = need_str(\n    "a")',
    't{i} = need_int()\nu{i} = need_int(1, 2, 3)\nv{i} = need_int(1, z=2)',
    'w{i} = Box(1).get(\n    Box(2).nothing)',
    'if (undefined_a{i} and\n    undefined_b{i}):\n  pass',
    'for z{i} in need_int(\n    "q"):\n  pass',
    'class K{i}:\n  x: int = "s"\n  def meth(self) -> str:\n    return self.x',
    'import nonexistent_mod{i}',
    'aa{i} = {"a": 1}["b"] + "c"',
    'def outer{i}(x):\n  return need_int(x)\nbb{i} = outer{i}("s")',
    'cc{i} = need_int("a") + need_str(1)',
    'def out{i}(q: int) -> int:\n  def inn() -> int:\n    r = [q,\n         q]\n  return inn()',
    'dd{i} = "a".zip + need_int(\n    "b".zap)',
    'ee{i} = [need_int(x) for x in ["a"]]',
    'def ff{i}() -> str:\n  return need_int(\n      "s")',
    'gg{i} = [\n    need_int(\n        "a",\n        "b".foo),\n    undefined_g{i},\n]',
    'def hh{i}(x: int) -> str:\n  y = need_int(\n      x,\n      "s")\n  z = Box(y).get(\n      "k")',
    'ii{i} = need_str(need_int(\n    "a"))',
    'def jj{i}(b: Box) -> str:\n  if b.v:\n    return b.get(\n        "a")\n  return b.missing',
    'kk{i}: Dict[str, int] = {\n    "a": need_int(\n        "b"),\n    "c": "d".ee,\n}',
    # relocated errors: incomplete-match is DETECTED at the first opcode behind the match block
    # and REPORTED (explicit line=) at the line of the `match` keyword
    'def ma{i}(c: Colour) -> str:\n  match c:\n    case Colour.RED:\n      return "r"\n    case Colour.GREEN:\n      return "g"\n  return "other"',
    'def mb{i}(c: Colour) -> int:\n  match c:\n    case Colour.RED:\n      return 1\n  return need_int("s")',
    'def mc{i}(c: Colour):\n  match c:\n    case Colour.RED:\n      x = 1\n    case Colour.GREEN:\n      x = 2',
    'def md{i}(c: Colour,\n         d: Colour) -> int:\n  match (\n      c):\n    case Colour.RED:\n      return 1\n  match d:\n    case Colour.BLUE:\n      return 3\n  return 2',
    'def me{i}(x: Literal["a", "b"]) -> int:\n  match x:\n    case "a":\n      return 1\n  return undefined_m{i}',
    'match Colour.RED:\n  case Colour.BLUE:\n    pass\nmf{i} = 1 + "x"',
    'class MG{i}:\n  def m(self, c: Colour) -> int:\n    match c:\n      case Colour.RED | Colour.GREEN:\n        return 1\n    return [need_int(\n        "s")]',
    # two (or more) errors of a class OUTSIDE directors._FUNCTION_CALL_ERRORS /
    # _ALL_ADJUSTABLE_ERRORS (module-attr, not-callable, name-error) in ONE multi-line statement /
    # call, one of them on the first line of the statement or of an enclosing call
    'na{i} = need_int(os.nope{i},\n               sys.nada{i})',
    'nb{i} = [\n    os.one{i},\n    need_int(\n        sys.two{i}),\n]',
    'def nc{i}():\n  return (os.uno{i},\n          sys.dos{i})',
    'nd{i} = need_int(os.a{i} +\n                 need_int(sys.b{i},\n                          os.c{i}))',
    'ne{i} = [need_str("a")(),\n         need_str("b")(\n         )]',
    'nf{i} = (os.x{i},\n         undefined_p{i},\n         "s".zz,\n         sys.y{i})',
    'def ng{i}(q: int) -> int:\n  if (os.p{i} or\n      sys.q{i}):\n    return need_int(sys.r{i},\n                    os.s{i})\n  return q',
]


# directed probes: minimal programs for the defects already known (they go through the same
# machinery as the generated programs)
PROBES = [
    PRELUDE + 'a = need_int("a",\n             need_int("b", 1))\n',
    PRELUDE + 'def f(x: int) -> str:\n  z = need_int(\n      "s")\n',
    PRELUDE + 'x = [\n    need_int(\n        need_str(need_int("a")),\n        "b".foo),\n]\n',
    # relocated errors (see FRAGMENTS)
    PRELUDE + 'def a(c: Colour) -> str:\n  match c:\n    case Colour.RED:\n      return "r"\n  return "o"\n\n\n'
              'def b(c: Colour) -> int:\n  match c:\n    case Colour.RED:\n      return 1\n  return need_int("s")\n\n\n'
              'def c(c: Colour):\n  match c:\n    case Colour.RED:\n      x = 1\n    case Colour.GREEN:\n      x = 2\n\n\n'
              'match Colour.RED:\n  case Colour.BLUE:\n    pass\nd = "a".nope\n',
    # two errors of a class outside the tables in one multi-line statement / call
    PRELUDE + 'x = need_int(os.nope,\n             sys.nada)\n\n\ndef f():\n  return (os.uno,\n          sys.dos)\n\n\n'
              'y = need_int(os.a +\n             need_int(sys.b,\n                      os.c))\n',
]


def gen_program(rng, k):
  """prelude + 3..5 fragments, some of them nested in a function body"""
  picks = rng.sample(range(len(FRAGMENTS)), rng.randint(3, 5))
  out = [PRELUDE]
  for j, fi in enumerate(picks):
    text = FRAGMENTS[fi].replace("{i}", "%d_%d" % (k, j))
    if rng.random() < 0.25 and not text.startswith(("import", "class")):
      text = "def wrapper%d_%d(arg):\n" % (k, j) + "\n".join("  " + l for l in text.split("\n"))
    out.append(text + "\n")
  return "\n".join(out)


def can_append(src, line):
  l = src.split("\n")[line - 1]
  return bool(l.strip()) and not l.rstrip().endswith("\\")


def add_trailing(src, line, text):
  lines = src.split("\n")
  lines[line - 1] = lines[line - 1] + "  " + text
  return "\n".join(lines)


def add_standalone(src, line, name, close):
  """(new source, inserted line numbers in the new numbering)"""
  lines = src.split("\n")
  cur = lines[line - 1]
  ind = cur[:len(cur) - len(cur.lstrip())]
  new = lines[:line - 1] + [ind + "# pytype: disable=" + name, cur]
  ins = [line]
  if close:
    new.append(ind + "# pytype: enable=" + name)
    ins.append(line + 2)
  new += lines[line:]
  return "\n".join(new), ins


def first_def(src):
  ls = [n.lineno for n in ast.walk(ast.parse(src))
        if isinstance(n, (ast.FunctionDef, ast.AsyncFunctionDef, ast.ClassDef))]
  return min(ls) if ls else 0


_TB = "\nCalled from (traceback):\n"


def split_error(e):
  """[name, line, message] -> [name, line, message without traceback, [[line, function], ...]]:
  the traceback mentions line numbers, which shift when a comment line is inserted."""
  import re
  head, _, tb = e[2].partition(_TB)
  frames = []
  for l in tb.split("\n"):
    m = re.match(r"\s*line (\d+), in (.*)$", l)
    if m:
      frames.append([int(m.group(1)), m.group(2)])
    elif l.strip():
      frames.append([0, l.strip()])
  return [e[0], e[1] or 0, head, frames]


_HOOKED = []


def install_hook():
  """Record, on the error object, the line it was created on (= the line of the opcode that was
  executing when pytype detected it) before the first set_line moves it.  A pass-through
  wrapper in the harness process; /repo is not touched."""
  if _HOOKED:
    return
  boot.boot()
  from pytype.errors import errors
  orig = errors.Error.set_line

  def set_line(self, line):
    if line != self._line and not hasattr(self, "_c03_op"):  # pylint: disable=protected-access
      self._c03_op = self._line  # pylint: disable=protected-access
    orig(self, line)
  errors.Error.set_line = set_line
  _HOOKED.append(True)


def analyze_src(src):
  """(outcome, [[name, line, message, traceback, op line]], pyi, exc)"""
  import pyt
  install_hook()
  r = pyt.analyze(src, want_ast=True)
  ops = {}
  if "ret" in r:
    for e in r["ret"].context.errorlog.unique_sorted_errors():
      ops.setdefault((e.name, e.line, e.message), getattr(e, "_c03_op", e.line) or 0)
  errs = [split_error(e) + [ops.get((e[0], e[1], e[2]), e[1] or 0)] for e in r["errors"]]
  return (r["outcome"], errs, r["pyi"], r["exc"])


def w_analyze(src):
  return analyze_src(src)


def w_chain(args):
  """Silence the reported errors one after another (each on its reported line)."""
  src, order, mode = args
  steps = []
  res = analyze_src(src)
  for _ in range(8):
    errs = [e for e in res[1] if e[1] and e[1] >= 1 and can_append(src, e[1])]
    if res[0] != "result" or not errs:
      break
    errs = sorted(errs, key=lambda x: (x[1], x[0]))
    e = errs[{"up": 0, "down": -1, "mid": len(errs) // 2}[order]]
    text = "# type: ignore" if mode == "ignore" else "# pytype: disable=" + e[0]
    src1 = add_trailing(src, e[1], text)
    res1 = analyze_src(src1)
    steps.append((src, src1, e[0], e[1], res, res1, mode))
    src, res = src1, res1
  return steps


def e2e_case(place, name, line, src0, src1, res0, res1, ins=(), origin=""):
  return {"kind": "e2e", "place": place, "name": name, "line": line,
          "starts": sorted(enclosing_starts(src0, line)),
          "before": res0[1], "after": res1[1], "ins": list(ins),
          "pyi0": res0[2], "pyi1": res1[2], "out0": res0[0], "out1": res1[0],
          "defs": first_def(src0), "src0": src0, "src1": src1, "origin": origin,
          "exc": (res0[3] or res1[3])[:600]}


DIRECTIVE_MARK = ("# pytype:", "# type: ignore")
_BLOCKS = (ast.FunctionDef, ast.AsyncFunctionDef, ast.ClassDef, ast.Module, ast.If, ast.For,
           ast.While, ast.With, ast.Try, ast.Match, ast.AsyncFor, ast.AsyncWith, ast.TryStar)


def enclosing_starts(src, line):
  """first lines of the syntactic constructs that span `line` (used for classification and
  counting only, never for a verdict)"""
  out = set()
  for n in ast.walk(ast.parse(src)):
    if hasattr(n, "lineno") and hasattr(n, "end_lineno") and n.lineno <= line <= n.end_lineno:
      if not isinstance(n, _BLOCKS):
        out.add(n.lineno)
  return out


K_START = "C03:continuation-line-directive-also-silences-start-line"
K_EVICT = "C03:later-comment-line-evicts-directive-from-call-range"
K_MOVED = "C03:comment-in-last-statement-moves-implicit-return-error"


def stmt_span(src, line):
  """(first, last) line of the innermost simple statement / compound header around `line`"""
  best = (line, line)
  for n in ast.walk(ast.parse(src)):
    if isinstance(n, ast.stmt) and not isinstance(n, _BLOCKS) and n.lineno <= line <= n.end_lineno:
      best = (n.lineno, n.end_lineno)
  return best


def classify(c, fails, start=()):
  """Root-cause keys for the failing clauses of an end-to-end case: {clause: key}.  `start`: the
  clauses TraceC03 (E2EAttr, pinned table of adjustable classes) attributes to the known
  finding "a directive on a continuation line is also registered on the first line"."""
  place, name, line = c["place"], c["name"], c["line"]
  src0 = c["src0"]
  starts = enclosing_starts(src0, line)
  lines0 = src0.split("\n")
  keys = {}
  reloc = {(e[0], e[1]) for e in c["before"] if len(e) > 4 and e[4] != e[1]}
  for clause, items in fails.items():
    key = "C03:e2e:%s:%s" % (clause, place)
    if clause in ("remains", "lost") and any((e, l) in reloc for e, l in items):
      # the error concerned was detected on one line and reported on another
      key += ":relocated-error"
    if clause in start:
      key = K_START
    elif clause == "gained" and place in ("disable", "ignore") and items and all(
        l < line and l in starts and any(
            # the evicted directive: `type: ignore`, or a disable naming the re-appearing class,
            # which must be a function-call class AT THE PINNED COMMIT (only those are kept in
            # call ranges)
            ("# type: ignore" in lines0[l0 - 1] or
             (e in PIN_FC and "# pytype:" in lines0[l0 - 1] and e in lines0[l0 - 1]))
            and l in enclosing_starts(src0, l0)
            for l0 in range(l + 1, line)) for e, l in items):
      key = K_EVICT
    keys[clause] = key
  # a comment inside the (multi-line) last statement of a function moves an implicit-return
  # error from the statement's last line to its first line
  first, last = stmt_span(src0, line)
  if first < last:
    for clause, items in fails.items():
      if keys[clause].startswith("C03:e2e:") and items and (
          (clause == "lost" and all(e == B and l == last for e, l in items)) or
          (clause == "gained" and all(e == B and l == first for e, l in items))):
        keys[clause] = K_MOVED
  return keys


def judge_e2e(run, cases, label):
  bads, _, _ = validate(run, cases, label, shards=1)
  for b in bads:
    c = cases[b["idx"]]
    fails = {cl: [tuple(x) for x in items] for cl, items in b["fails"]}
    keys = classify(c, fails, b.get("start", ()))
    for clause, items in fails.items():
      run.violation(keys[clause], "%s on line %d for %s (%s): clause '%s' fails for %s\n--- before\n%s\n--- after\n%s" % (
          c["place"], c["line"], c["name"], c["origin"], clause, items, c["src0"], c["src1"]),
          {"ring": 3, "place": c["place"], "name": c["name"], "line": c["line"],
           "src0": c["src0"], "src1": c["src1"], "ins": c["ins"], "origin": c["origin"],
           "clause": clause, "items": items, "exc": c["exc"]})
  return bads


def ring3(run, thorough, nprog=None):
  import pyt
  rng = random.Random(run.seed * 7919 + 3)
  nprog = nprog or (600 if thorough else 36)
  procs = 8
  progs = PROBES + [gen_program(rng, k) for k in range(nprog)]
  t = time.time()
  import multiprocessing as mp
  # the workers must all hash strings alike (./check exports PYTHONHASHSEED=0; a spawned child takes
  # the seed from the environment at start-up): pytype words some messages in set-iteration order
  # (incomplete-match lists the missing cases that way), so before/after runs in workers with
  # different seeds would differ in message text for reasons unrelated to directives
  os.environ.setdefault("PYTHONHASHSEED", "0")
  # pytype keeps about 1 MB per distinct program alive in a process that reuses its loader (measured
  # with the unchanged driver as well); workers are recycled so that a thorough run stays far below
  # the memory at which the OOM killer takes a worker away (a Pool never notices that: map() hangs)
  pool = mp.get_context("spawn").Pool(procs, initializer=pyt._init_worker,  # pylint: disable=protected-access
                                      initargs=(boot.REPO, 0), maxtasksperchild=150)
  try:
    return _ring3(run, pool, progs, nprog, t)
  finally:
    pool.terminate()


def _ring3(run, pool, progs, nprog, t):
  base = pool.map(w_analyze, progs, chunksize=1)
  jobs = []     # (place, name, line, src0, src1, ins, res0)
  for src, res in zip(progs, base):
    common.require(res[0] == "result", "seeded program does not analyse: %s\n%s" % (res[3], src))
    seen = set()
    for e in res[1]:
      nm, ln = e[0], e[1]
      if not ln or ln < 1 or (nm, ln) in seen:
        continue
      seen.add((nm, ln))
      if not can_append(src, ln):
        run.add("e2e_lines_skipped")
        continue
      jobs.append(("disable", nm, ln, src, add_trailing(src, ln, "# pytype: disable=" + nm), (), res))
      jobs.append(("ignore", nm, ln, src, add_trailing(src, ln, "# type: ignore"), (), res))
      s1, ins = add_standalone(src, ln, nm, True)
      jobs.append(("pair", nm, ln, src, s1, ins, res))
      s1, ins = add_standalone(src, ln, nm, False)
      jobs.append(("open", nm, ln, src, s1, ins, res))
      op = e[4]
      if op and op != ln and op >= 1:
        # a relocated error: detected while the opcode on line op executed, reported on line ln
        run.add("e2e_relocated_errors")
        run.add("e2e_relocated_" + nm)
        if can_append(src, op):
          jobs.append(("opline", nm, op, src, add_trailing(src, op, "# pytype: disable=" + nm), (), res))
  run.add("e2e_programs", len(progs))
  run.add("e2e_reported_errors", sum(len(r[1]) for r in base))
  common.require(len(jobs) >= 8 * nprog, "vacuity: only %d directive placements" % len(jobs))
  after_async = pool.map_async(w_analyze, [j[4] for j in jobs], chunksize=4)
  chains = pool.map(w_chain, [(src, o, m) for src in progs
                              for o, m in (("up", "disable"), ("down", "disable"), ("mid", "disable"),
                                           ("down", "ignore"))],
                    chunksize=1)
  after = after_async.get()
  cases = []
  for j, res1 in zip(jobs, after):
    cases.append(e2e_case(j[0], j[1], j[2], j[3], j[4], j[6], res1, j[5], origin="single"))
  nchain = 0
  for steps in chains:
    for k, (s0, s1, nm, ln, r0, r1, mode) in enumerate(steps):
      if k == 0:
        continue      # the first step of a chain repeats a single placement
      cases.append(e2e_case(mode, nm, ln, s0, s1, r0, r1, (), origin="chain step %d" % (k + 1)))
      nchain += 1
  run.add("e2e_pytype_runs", len(progs) + len(jobs) + sum(len(s) + 1 for s in chains))
  run.add("e2e_chain_steps", nchain)
  run.add("e2e_cases", len(cases))
  run.add("programs", len(progs))
  multi = sum(1 for c in cases if c["origin"] == "single" and
              len(enclosing_starts(c["src0"], c["line"]) - {c["line"]}) > 0)
  run.add("e2e_cases_on_continuation_lines", multi)
  common.require(multi >= nprog // 2, "vacuity: few directives on continuation lines")
  common.require(nchain >= nprog, "vacuity: few chain steps")
  # the families added after the seeded changes
  reloc = sum(1 for c in cases if c["place"] in ("disable", "ignore") and any(
      e[0] == c["name"] and e[1] == c["line"] and e[4] != e[1] and e[0] != B for e in c["before"]))
  opl = sum(1 for c in cases if c["place"] == "opline")
  twin = sum(1 for c in cases if c["place"] == "disable" and c["name"] not in PIN_ADJ and any(
      e[0] == c["name"] and e[1] < c["line"] and e[1] in c["starts"] for e in c["before"]))
  run.add("e2e_cases_on_explicitly_relocated_errors", reloc)
  run.add("e2e_cases_opline", opl)
  run.add("e2e_cases_plain_class_with_same_class_error_on_start_line", twin)
  common.require(reloc >= 12 and opl >= 6,
                 "vacuity: %d directive placements on relocated errors, %d on their detecting lines" % (reloc, opl))
  common.require(twin >= 6, "vacuity: %d placements of a plain-class disable on a continuation line "
                 "with an error of the same class on the first line" % twin)
  print("  ring 3: %d programs, %d pytype runs, %d cases  %.0fs" % (
      len(progs), run.cov["e2e_pytype_runs"], len(cases), time.time() - t), flush=True)
  judge_e2e(run, cases, "ring3-e2e")
  c = cases[len(cases) // 3]
  run.sample({"ring3": {"place": c["place"], "name": c["name"], "line": c["line"],
                        "before": [[e[0], e[1]] for e in c["before"]],
                        "after": [[e[0], e[1]] for e in c["after"]]}})
  return cases


# ------------------------------------------------------------------------------------------
# the model alone: every file within the bounds

BRT_ONLY = dict(NAMES=[B])


def model(run, thorough):
  if thorough:
    # every file of <= 6 lines, <= 2 statements, <= 1 call range, <= 3 directives (<= 1 per line)
    run_model("files-6-3", run, MaxLines=6, MaxStmts=2, MaxCalls=1, MaxComments=3, MaxSameLine=1,
              CheckFrame="FALSE")
    run_model("files-5-2-frame", run, MaxLines=5, MaxStmts=2, MaxCalls=2, MaxComments=2,
              WithStar="TRUE", MaxPlain=1)
    run_model("files-returns", run, MaxLines=5, MaxStmts=3, MaxCalls=0, MaxFuncs=2, MaxRets=1,
              MaxComments=2, TrailEnable="FALSE", **BRT_ONLY)
    run_model("files-global", run, MaxLines=4, MaxStmts=2, MaxCalls=1, MaxComments=2,
              WithGlobal="TRUE", WithStar="TRUE", DefsAt="{2}")
  else:
    run_model("files-5-2-frame", run, MaxLines=5, MaxStmts=2, MaxCalls=1, MaxComments=2)
    run_model("files-returns", run, MaxLines=4, MaxStmts=3, MaxCalls=0, MaxFuncs=2, MaxRets=1,
              MaxComments=1, **BRT_ONLY)
    run_model("files-global", run, MaxLines=3, MaxStmts=2, MaxCalls=1, MaxComments=2,
              WithGlobal="TRUE", WithStar="TRUE", DefsAt="{2}", MaxPlain=1)
  # ErrorLog.error on every file: every error [name, op, xl, ret] raised after the Director is
  # built, three actions per raise; LogInv
  if thorough:
    run_model("files-errlog", run, MaxLines=4, MaxStmts=2, MaxCalls=1, MaxFuncs=1, MaxRets=1,
              MaxComments=1, MaxErrs=1, CheckFrame="FALSE", NAMES=[B, N],
              INVARIANTS=["TypeOK", "DirInvRun", "LogInv"])
  else:
    run_model("files-errlog", run, MaxLines=3, MaxStmts=2, MaxCalls=1, MaxFuncs=1, MaxRets=1,
              MaxComments=1, MaxErrs=1, CheckFrame="FALSE", NAMES=[B, N],
              INVARIANTS=["TypeOK", "DirInvRun", "LogInv"])
  run.put("exhaustive", True)
  # which placements of ONE more trailing directive have an effect beyond their own line
  # (the two exceptions the frame condition spells out)
  r = tlc.run("Directives", model_cfg(MaxLines=4, MaxStmts=2, MaxCalls=1, MaxComments=1,
                                      TrailEnable="FALSE", Export='"obs"', INVARIANTS=["ExportInv"]),
              workers=1, timeout=3000, heap="8g", env={"SKEL_FILE": os.devnull})
  common.require(r.rc == 0 and not r.violated, "obs export failed")
  kinds = {"start-line": 0, "eviction": 0}
  for c in r.cases:
    keys = set(c["c"]["names"]) or {"ignore"}
    ev = any(x[0] not in keys for x in c["ch"])
    kinds["eviction" if ev else "start-line"] += 1
    if ev and kinds["eviction"] == 1:
      run.sample({"model_exception_eviction": {"cs": c["f"]["cs"], "calls": c["f"]["calls"],
                                               "stmts": c["f"]["stmts"], "add": c["c"], "changed": c["ch"]}})
  run.put("model_placements_with_exception", kinds)
  common.require(kinds["start-line"] > 0 and kinds["eviction"] > 0,
                 "the model does not exhibit the documented exceptions")


def replay(run, path):
  with open(path) as fh:
    case = json.load(fh)["case"]
  ring = case.get("ring")
  if ring == 1:
    ops = case["ops"]
    cases = [{"kind": "ls", "ops": ops, "maxline": case["maxline"],
              "obs": replay_lineset(ops, case["maxline"])}]
    bads, divs, _ = validate(run, cases, "replay")
    for b in bads:
      run.violation("C03:lineset:membership", "replayed: %s" % b["fails"], case)
  elif ring == 2 and "tables" in case:
    from pytype.directors import directors
    judge_dir(run, [], "replay", extra=[{
        "kind": "tables", "fc": sorted(directors._FUNCTION_CALL_ERRORS),      # pylint: disable=protected-access
        "adj": sorted(directors._ALL_ADJUSTABLE_ERRORS)}])                    # pylint: disable=protected-access
  elif ring == 2:
    sk = [x for x in SKELETONS if x["name"] == case["skel"]][0]
    f = case["f"]
    judge_dir(run, [(sk, f)], "replay", raises={id(f): [case["raise"]]} if "raise" in case else None,
              names=case.get("names") or None)
  elif ring == 3:
    r0, r1 = analyze_src(case["src0"]), analyze_src(case["src1"])
    c = e2e_case(case["place"], case["name"], case["line"], case["src0"], case["src1"], r0, r1,
                 case["ins"], origin="replay")
    judge_e2e(run, [c], "replay")
  else:
    raise common.Machinery("cannot replay %r" % path)
  run.put("states", 1)
  run.put("transitions", 1)
  run.sample({"replayed": path})
  return run.finish()


def main():
  ap = argparse.ArgumentParser()
  ap.add_argument("--tier", default="quick")
  ap.add_argument("--replay")
  ap.add_argument("--only", default="")
  a = ap.parse_args()
  run = common.Run(PID, "model_checking", a.tier)
  boot.boot()
  if a.replay:
    return replay(run, a.replay)
  thorough = run.tier == "thorough"
  only = set(a.only.split(",")) if a.only else set()
  nontrivial = 0
  if not only or "ring1" in only:
    ring1(run, thorough)
    nontrivial += run.cov.get("lineset_nontrivial", 0)
  if not only or "model" in only:
    model(run, thorough)
  if not only or "ring2" in only:
    cs = ring2(run, thorough)
    nontrivial += len({c["src"] for c in cs if any(not o[0] for o in c["obs"])})
  if not only or "ring3" in only:
    cs = ring3(run, thorough)
    nontrivial += len({c["src1"] for c in cs if c["before"] != c["after"]})
  run.put("evaluations", run.cov.get("traces_validated_against_impl", 0))
  run.put("distinct_nontrivial", nontrivial)
  run.put("rule", "one case = one _LineSet operation sequence / one rendered source with directives "
          "and every synthetic error query and raised error / one (program, reported error, directive placement); "
          "non-trivial = the sequence pops a transition or raises / at least one query is "
          "suppressed / the error list changed; distinct by operation sequence resp. source text")
  run.assumptions += [
      "ring 2 skeleton structures (statement, call, function ranges) are written by hand from parser.py's documented behaviour; a wrong structure shows up as a BAD/DIV case, never as a silent pass",
      "synthetic bad-return-type errors with a return opcode are only put to files that contain a function (find_outermost raises IndexError otherwise; unreachable from the VM)",
      "ring 3 programs avoid back-slash continuations and multi-line strings (a comment cannot be appended to such lines)",
      "two errors with the same class on the same line are silenced together by one directive: the compared identity of an error is (class, line, message, traceback)",
      "error tracebacks are compared with their line numbers shifted like the error lines when stand-alone comment lines are inserted",
      "ring 2 raises errors through the real VmErrorLog.error with a one-frame stack whose opcode object is a stand-in carrying line / code.filename / class name (CALL or RETURN_VALUE); the filter installed is a pass-through wrapper around the real Director.filter_error that only remembers the error object",
      "ring 3 learns the line of the opcode that detected an error from a pass-through wrapper around errors.Error.set_line installed in the harness' worker processes (it records the line before the first move); it is used to choose the 'opline' placements, for vacuity counts and for the ':relocated-error' suffix of keys, never in a verdict",
      "the error-class tables of directors.py are pinned in specs/DirectivesOps.tla (PinnedFuncCallErrs, PinnedAdjustErrs); verdicts and the attribution to known findings use the pinned tables; the alphabet of ring 2 'alphabet' (every class name) is read from errors._ERROR_NAMES of the code under test, classes unknown to the pinned tables count as plain",
  ]
  return run.finish()


if __name__ == "__main__":
  common.main(PID, main)

"""C13 - calls bind arguments exactly as CPython does.

spec: specs/ArgBindOps.tla (Bind = CPython's initialize_locals as a function, binding laws),
specs/ArgBind.tla (the same algorithm as a phase machine over ALL (signature, call) pairs of the
bounds, keywords taken in any order).  TLC checks: the machine always ends in Bind
(MachineIsFunction), Bind is total and lawful (LawsHold: every actual consumed exactly once,
defaults only where they exist, positional-only never by keyword, keyword-only never
positionally), error kinds are sound (KindsSound).  A second TLC run exports the signatures
(seeded sample by SigIndex in the quick tier) with every call shape of the bounds.

spec -> CPython -> pytype: every exported signature is rendered as a module: marker classes
(positional actual i is an instance of P<i>, keyword actual n of K_<n>, the default of parameter n
of D_<n>), the callee (function / method / classmethod / staticmethod / __init__) whose body is
reveal_type(<every parameter>) and returns (stores) locals(), and one call per line.
  py  the header text is executed under CPython and every call expression is evaluated
      (real call + inspect.signature(callee).bind) - must equal the spec, else exit 2;
  pt  the real pytype analyses header + calls; per call line: the arity/keyword error classes
      reported there and the types revealed inside the callee for that call (from the raw error
      log: one reveal-type entry per call with its "Called from" line).
code -> spec: TraceC13.tla recomputes Bind for every call and judges (ORACLE lines: CPython differs
from the spec; BAD lines: pytype differs, with the spec-computed attribution to the documented
deviation; DIV lines: informational; STAT lines: spec-side classification for vacuity guards).

Histories (strengthening after a seeded change): ArgBind.tla has Return / SetDefaults - a behaviour
is define, call*, SetDefaults, call*, ... and every call is bound against the CURRENT defaults.  A
third TLC run checks the machine with histories (HistoryOK, RedefLawsHold), a fourth exports
(definition, history) pairs with the call shapes that are sensitive to the history.  The driver
renders `<callee>.__defaults__ = (D1_b1(), ..)` / `<callee>.__kwdefaults__ = {"k1": D1_k1()}`
between the calls of a module (function, method through the class, staticmethod, __init__, lambda),
executes the same statements under CPython (oracle of the spec for every call) and TraceC13.tla
advances the signature with the spec's Redefine and judges every call against the stage it was made
in (error iff TypeError, revealed parameter types incl. the generation of the default values).
"""
import argparse
import concurrent.futures as cf
import inspect
import json
import os
import random
import re
import shutil
import sys
import time

sys.path.insert(0, os.path.dirname(os.path.abspath(__file__)))
import boot  # noqa: E402
import common  # noqa: E402
import pyt  # noqa: E402
import tlc  # noqa: E402

PID = "C13"
MODEL_INVS = ("TypeOK", "MachineIsFunction", "LawsHold", "KindsSound", "HistoryOK", "RedefLawsHold")
HIST_LAW_INVS = ("TypeOK", "HistoryOK", "HistLawsAllCalls", "SplatLawsHold")
PO = ["a1", "a2", "a3"]
PK = ["b1", "b2", "b3"]
KO = ["k1", "k2", "k3"]
FOREIGN = ["z"]
KINDS = ("function", "method", "classmethod", "staticmethod", "constructor")
ARITY = ("wrong-arg-count", "wrong-keyword-args", "missing-parameter", "duplicate-keyword-argument")
DEV_KEY = "C13:posonly-name-as-keyword-with-kwargs"
# spec-computed attributions (TraceC13.tla Attribution) -> keys of the documented deviations
DEV_KEYS = {"posonly": [DEV_KEY],
            "dropkw": ["C13:defaults-assignment-drops-kwonly-defaults"],
            "kwignored": ["C13:kwdefaults-assignment-ignored"],
            "dropkw+kwignored": ["C13:defaults-assignment-drops-kwonly-defaults",
                                 "C13:kwdefaults-assignment-ignored"]}
CHUNK = 130   # calls per generated module
STUB_CHUNK = 400   # calls per module that calls a stub function
# callables whose defaults are re-assigned in the history family, and the expression that is assigned to
HKINDS = ("function", "method", "lambda", "staticmethod", "constructor")
REDEF_TARGET = {"function": "f", "lambda": "f", "method": "C.m", "staticmethod": "C.sm",
                "constructor": "C.__init__"}


def model_cfg(n, maxpos, maxkw, star, mod=1, rem=0, export=False, maxredef=0):
  """export: False (check the machine), True / "sigs" (signatures with every call shape),
  "hists" (histories of <= maxredef re-assignments with their sensitive call shapes),
  "laws" (no export: the re-assignment laws for every call shape on every history state)."""
  export = {False: "none", True: "sigs"}.get(export, export)
  head = {"none": "SPECIFICATION Spec\n", "sigs": "INIT Init\nNEXT OnlySigs\n",
          "hists": "INIT Init\nNEXT OnlyHists\n", "laws": "INIT Init\nNEXT OnlyHists\n"}[export]
  invs = {"none": MODEL_INVS, "laws": HIST_LAW_INVS}.get(export, ("ExportInv",))
  export = "none" if export == "laws" else export
  return (head + "CONSTANTS N = %d\n MaxPos = %d\n MaxKw = %d\n Foreign = {%s}\n StarNames = %s\n"
          " SampleMod = %d\n SampleRem = %d\n Export = \"%s\"\n MaxRedef = %d\n" % (
              n, maxpos, maxkw, ", ".join('"%s"' % f for f in FOREIGN), "TRUE" if star else "FALSE",
              mod, rem, export, maxredef)
          + "".join("INVARIANT %s\n" % i for i in invs))


TRACE_CFG = "INIT TInit\nNEXT TNext\nINVARIANT Ok\nPOSTCONDITION Done\n"


# ---------------------------------------------------------------------------------------------
# rendering.  sig = {po, pk, va, ko, kw, pdef, kdef:[..]}, call = {npos, kws:[..]}

def param_names(sig):
  return PO[:sig["po"]] + PK[:sig["pk"]] + KO[:sig["ko"]]


def sig_text(sig, first=None):
  """Parameter list; `first` (self / cls) is prepended as a positional(-only) parameter."""
  pos = PO[:sig["po"]] + PK[:sig["pk"]]
  parts = [first] if first else []
  for i, n in enumerate(pos):
    parts.append("%s=D_%s()" % (n, n) if i >= len(pos) - sig["pdef"] else n)
    if i == sig["po"] - 1:
      parts.append("/")
  if sig["va"]:
    parts.append("*va")
  elif sig["ko"]:
    parts.append("*")
  for n in KO[:sig["ko"]]:
    parts.append("%s=D_%s()" % (n, n) if n in sig["kdef"] else n)
  if sig["kw"]:
    parts.append("**kw")
  return ", ".join(parts)


def stub_sig_text(sig):
  """The same parameter list as a .pyi declaration: every parameter `: Any`, defaults `= ...`."""
  pos = PO[:sig["po"]] + PK[:sig["pk"]]
  parts = []
  for i, n in enumerate(pos):
    parts.append("%s: Any%s" % (n, " = ..." if i >= len(pos) - sig["pdef"] else ""))
    if i == sig["po"] - 1:
      parts.append("/")
  if sig["va"]:
    parts.append("*va: Any")
  elif sig["ko"]:
    parts.append("*")
  for n in KO[:sig["ko"]]:
    parts.append("%s: Any%s" % (n, " = ..." if n in sig["kdef"] else ""))
  if sig["kw"]:
    parts.append("**kw: Any")
  return ", ".join(parts)


def stub_text(sig):
  return "from typing import Any\ndef f(%s) -> Any: ...\n" % stub_sig_text(sig)


def render_stub_user(mod, maxpos, names):
  """Marker classes of the actuals and the import of the stub module (the module that calls)."""
  lines = ["class P%d: pass" % i for i in range(1, maxpos + 1)]
  lines += ["class K_%s: pass" % n for n in names]
  lines.append("import %s" % mod)
  return lines, "%s.f" % mod


def revealed(sig):
  return param_names(sig) + (["va"] if sig["va"] else []) + (["kw"] if sig["kw"] else [])


def redef_names(sig, r):
  """Parameters that receive a default by re-assignment r."""
  if r["attr"] == "pos":
    pos = PO[:sig["po"]] + PK[:sig["pk"]]
    common.require(0 <= r["pdef"] <= len(pos), "re-assignment of %d positional defaults" % r["pdef"])
    return pos[len(pos) - r["pdef"]:]
  return [n for n in KO[:sig["ko"]] if n in r["kdef"]]


def redef_text(sig, kind, r, g):
  """The statement of the g-th re-assignment of a history."""
  vals = ["D%d_%s()" % (g, n) for n in redef_names(sig, r)]
  if r["attr"] == "pos":
    return "%s.__defaults__ = (%s%s)" % (REDEF_TARGET[kind], ", ".join(vals), "," if len(vals) == 1 else "")
  return "%s.__kwdefaults__ = {%s}" % (REDEF_TARGET[kind], ", ".join(
      '"%s": %s' % (n, v) for n, v in zip(redef_names(sig, r), vals)))


def render_header(sig, kind, maxpos, names, redefs=()):
  """Marker classes and the callee.  Returns (lines, callee expression, {line: revealed name})."""
  lines = ["class P%d: pass" % i for i in range(1, maxpos + 1)]
  lines += ["class K_%s: pass" % n for n in names]
  lines += ["class D_%s: pass" % n for n in param_names(sig)]
  for g, r in enumerate(redefs, 1):
    lines += ["class D%d_%s: pass" % (g, n) for n in redef_names(sig, r)]
  rev = {}
  ind = "  " if kind == "function" else "    "

  def body(last):
    for n in revealed(sig):
      rev[len(lines) + 1] = n
      lines.append("%sreveal_type(%s)" % (ind, n))
    lines.append(ind + last)
  if kind == "function":
    lines.append("def f(%s):" % sig_text(sig))
    body("return locals()")
    callee = "f"
  elif kind == "lambda":
    # one reveal_type per line so that the line identifies the parameter
    lines.append("f = (lambda %s: (" % sig_text(sig))
    for n in revealed(sig):
      rev[len(lines) + 1] = n
      lines.append("  reveal_type(%s)," % n)
    lines.append("  locals())[-1])")
    callee = "f"
  else:
    lines.append("class C:")
    if kind == "method":
      lines.append("  def m(%s):" % sig_text(sig, "self"))
      body("return locals()")
      lines.append("o = C()")
      callee = "o.m"
    elif kind == "classmethod":
      lines.append("  @classmethod")
      lines.append("  def cm(%s):" % sig_text(sig, "cls"))
      body("return locals()")
      callee = "C.cm"
    elif kind == "staticmethod":
      lines.append("  @staticmethod")
      lines.append("  def sm(%s):" % sig_text(sig))
      body("return locals()")
      callee = "C.sm"
    elif kind == "constructor":
      lines.append("  def __init__(%s):" % sig_text(sig, "self"))
      body("self.loc = locals()")
      callee = "C"
    else:
      raise common.Machinery("unknown kind %r" % kind)
  return lines, callee, rev


def args_text(call, splat=False):
  # the other actuals of a splat call are integer LITERALS: with *xs AND a keyword whose value is not a
  # constant (f(1, 2, *xs, z=K()) on def f(a, **kw)) pytype keeps the keyword dict opaque and checks nothing
  if splat:
    return ", ".join(["%d" % i for i in range(1, call["npos"] + 1)] + ["*xs"] + ["%s=0" % k for k in call["kws"]])
  return ", ".join(["P%d()" % i for i in range(1, call["npos"] + 1)] + ["%s=K_%s()" % (k, k) for k in call["kws"]])


SPLAT_PRELUDE = ["from typing import List", "class PX: pass", "def caller(xs: List[PX]):"]


def cpython_splat_obs(header, sig, calls):
  """f(P1(), .., *xs, k=K_k()) for xs = [PX()] * n, n = 0 .. (number of positional parameters + 1):
  the outcome per length (the spec's SplatLen)."""
  ns = {"reveal_type": lambda x: x}
  exec(compile(header + "class PX: pass\n", "<c13-header>", "exec"), ns)   # pylint: disable=exec-used
  out = []
  for c in calls:
    lens = []
    for n in range(sig["po"] + sig["pk"] + 2):
      ns["xs"] = [ns["PX"]()] * n
      try:
        eval("f(%s)" % args_text(c, True), ns)   # pylint: disable=eval-used
        lens.append("none")
      except TypeError as e:
        lens.append(classify(str(e)))
    out.append({"err": "/".join(lens), "bind": False, "slots": {"_": []}, "va": [], "kw": [], "lens": lens})
  return out


# ---------------------------------------------------------------------------------------------
# CPython as the oracle of the spec

_MSG = [
    (re.compile(r"got some positional-only arguments passed as keyword arguments"), "posonly"),
    (re.compile(r"got an unexpected keyword argument"), "unexpected"),
    (re.compile(r"got multiple values for argument"), "multiple"),
    (re.compile(r"takes (from )?\d+ (to \d+ )?positional arguments? but \d+ .*(were|was) given"), "too_many"),
    (re.compile(r"missing \d+ required positional arguments?"), "missing"),
    (re.compile(r"missing \d+ required keyword-only arguments?"), "missing_kwonly"),
]


def classify(msg):
  for rx, k in _MSG:
    if rx.search(msg):
      return k
  return "other:" + msg


def cpython_obs(header, callee, sig, calls, stmts=None):
  """Execute the header text; evaluate every call expression; inspect.signature(callee).bind.
  stmts: {k: [statements executed (in order) before call k]} - the re-assignments of a history."""
  ns = {"reveal_type": lambda x: x}
  exec(compile(header, "<c13-header>", "exec"), ns)   # pylint: disable=exec-used
  ns["_cap"] = lambda *a, **k: (a, k)
  target = eval(callee, ns)   # pylint: disable=eval-used
  isig = inspect.signature(target)
  out = []
  for j, c in enumerate(calls):
    for st in (stmts or {}).get(j, ()):
      exec(compile(st, "<c13-history>", "exec"), ns)   # pylint: disable=exec-used
      target = eval(callee, ns)   # pylint: disable=eval-used
      isig = inspect.signature(target)
    at = args_text(c)
    a, k = eval("_cap(%s)" % at, ns)   # pylint: disable=eval-used
    try:
      isig.bind(*a, **k)
      bound = True
    except TypeError:
      bound = False
    o = {"err": "none", "bind": bound, "slots": {"_": []}, "va": [], "kw": []}
    try:
      v = eval("%s(%s)" % (callee, at), ns)   # pylint: disable=eval-used
    except TypeError as e:
      o["err"] = classify(str(e))
      out.append(o)
      continue
    loc = v.loc if callee == "C" else v
    for n in param_names(sig):
      o["slots"][n] = [type(loc[n]).__name__]
    if sig["va"]:
      o["va"] = [[type(x).__name__] for x in loc["va"]]
    if sig["kw"]:
      for key, val in loc["kw"].items():
        common.require(type(val).__name__ == "K_" + key, "marker mix-up in **kw under CPython")
        o["kw"].append(type(val).__name__)
    out.append(o)
  return out


# ---------------------------------------------------------------------------------------------
# pytype observation

def split_top(s, seps=","):
  out, depth, cur = [], 0, ""
  for ch in s:
    if ch in "[(":
      depth += 1
    elif ch in "])":
      depth -= 1
    if ch in seps and depth == 0:
      out.append(cur.strip())
      cur = ""
    else:
      cur += ch
  if cur.strip():
    out.append(cur.strip())
  return out


def members(t):
  """Class names of a (union) type string."""
  t = t.strip()
  parts = split_top(t, "|")
  if len(parts) > 1:
    return sorted({m for p in parts for m in members(p)})
  m = re.match(r"^(?:typing\.)?(Union|Optional)\[(.*)\]$", t)
  if m:
    ms = {x for p in split_top(m.group(2)) for x in members(p)}
    if m.group(1) == "Optional":
      ms.add("None")
    return sorted(ms)
  return [t]


def parse_tuple(t):
  """-> (vashape, [[members]..])."""
  t = t.strip()
  m = re.match(r"^(?:[Tt]uple)\[(.*)\]$", t)
  if not m:
    return ("any", [members(t)]) if t not in ("tuple", "Tuple") else ("any", [])
  inner = m.group(1).strip()
  if inner == "()":
    return "fixed", []
  parts = split_top(inner)
  if parts and parts[-1] == "...":
    return "homog", [members(p) for p in parts[:-1]]
  return "fixed", [members(p) for p in parts]


def parse_dict(t):
  """-> (key members, value members); 'nothing' dropped; not a dict[..]: (['?'+t], ['?'+t])."""
  t = t.strip()
  m = re.match(r"^(?:[Dd]ict)\[(.*)\]$", t)
  if not m:
    return ["?" + t], ["?" + t]
  parts = split_top(m.group(1))
  if len(parts) != 2:
    return ["?" + t], ["?" + t]
  k = [x for x in members(parts[0]) if x != "nothing"]
  v = [x for x in members(parts[1]) if x != "nothing"]
  return k, v


_TB = re.compile(r"^\s*line (\d+), in ")


def pytype_obs(src, sig, rev, call_lines, **optkw):
  """Analyse the module with the real pytype; returns (per call observation, other errors)."""
  # --no-skip-calls: every call executes the callee (and its reveal_type) even when an earlier call
  # of the module produced the same parameter values
  r = pyt.analyze(src, check=True, want_ast=True, skip_repeat_calls=False, **optkw)
  if r["outcome"] == "crash":
    return None, r["exc"]
  if r["outcome"] != "result":
    raise common.Machinery("pytype did not analyse a C13 module: %s %s\n%s" % (
        r["outcome"], r["exc"] or r["errors"], src))
  errs = {}      # call line -> set of arity classes
  seen = {}      # call line -> {name: type string}
  other = []
  # the raw log: unique_sorted_errors keeps at most 3 tracebacks per (line, message)
  for e in r["ret"].context.errorlog:
    name, line, msg = e.name, e.line, e.message
    if name == "reveal-type" and line in rev:
      parts = msg.split("\nCalled from (traceback):\n")
      if len(parts) != 2:
        continue     # the stand-alone analysis of the callee
      m = _TB.match(parts[1].splitlines()[0])
      if not m:
        other.append([name, line, msg[:200]])
        continue
      d = seen.setdefault(int(m.group(1)), {})
      d.setdefault(rev[line], set()).add(parts[0].strip())
    elif name in ARITY and line in call_lines:
      errs.setdefault(line, set()).add(name)
    else:
      other.append([name, line, msg[:200]])
  want = revealed(sig)
  out = []
  for line in sorted(call_lines):
    d = seen.get(line, {})
    o = {"errs": sorted(errs.get(line, ())), "rev": not optkw and all(n in d for n in want),
         "slots": {"_": []}, "va": [], "vashape": "none", "kw": [], "kwkey": []}
    for n in param_names(sig):
      o["slots"][n] = sorted({m for t in d.get(n, ()) for m in members(t)})
    if sig["va"] and "va" in d:
      shapes = [parse_tuple(t) for t in sorted(d["va"])]
      if len(shapes) == 1:
        o["vashape"], o["va"] = shapes[0]
      else:
        o["vashape"], o["va"] = "multi", []
    if sig["kw"] and "kw" in d:
      ks, vs = set(), set()
      for t in d["kw"]:
        k, v = parse_dict(t)
        ks |= set(k)
        vs |= set(v)
      o["kwkey"], o["kw"] = sorted(ks), sorted(vs)
    out.append(o)
  return out, other


def work(item):
  """Worker: one (signature, kind) module.  Returns (case, other errors, n reveals)."""
  sig, kind, calls, maxpos = item[:4]
  redefs = list(item[4]) if len(item) > 4 else []
  names = sorted({k for c in calls for k in c["kws"]})
  # a stub function: CPython binds a real `def` with the same parameter list (the oracle of the spec),
  # pytype sees only `def f(..) -> Any: ...` in <mod>.pyi on the pythonpath
  hl, callee, rev = render_header(sig, "function" if kind in ("stub", "splat") else kind,
                                  max([maxpos] + [c["npos"] for c in calls]), names, redefs)
  header = "\n".join(hl) + "\n"
  stmts = {}
  for g, r in enumerate(redefs, 1):
    stmts.setdefault(r["at"], []).append(redef_text(sig, kind, r, g))
  common.require(all(0 <= a < len(calls) for a in stmts), "a re-assignment after the last call")
  if kind == "splat":
    common.require(not redefs, "a splat module has no history")
    py = cpython_splat_obs(header, sig, calls)
    hl = hl + SPLAT_PRELUDE
  else:
    py = cpython_obs(header, callee, sig, calls, stmts)
  call_lines = {}
  optkw = {}
  if kind == "stub":
    common.require(len(item) > 5 and not redefs, "a stub module needs its directory and has no history")
    global _serial
    _serial += 1
    mod = "c13stub_%d_%d" % (os.getpid(), _serial)    # the reused loader caches modules by name
    os.makedirs(item[5], exist_ok=True)
    with open(os.path.join(item[5], mod + ".pyi"), "w") as f:
      f.write(stub_text(sig))
    hl, callee = render_stub_user(mod, max([maxpos] + [c["npos"] for c in calls]), names)
    rev, optkw = {}, {"pythonpath": item[5]}
  lines = list(hl)
  for k, c in enumerate(calls):
    lines += stmts.get(k, [])
    call_lines[len(lines) + 1] = k
    lines.append("  f(%s)" % args_text(c, True) if kind == "splat" else "%s(%s)" % (callee, args_text(c)))
  src = "\n".join(lines) + "\n"
  pt, other = pytype_obs(src, sig, rev, call_lines, **optkw)
  if kind == "stub":
    os.unlink(os.path.join(item[5], mod + ".pyi"))
    common.require(pt is None or not [o for o in other if o[0] in ("import-error", "pyi-error", "module-attr")],
                   "the stub module of a C13 case was not loaded: %r\n%s" % (other, stub_text(sig)))
  crash = ""
  if pt is None:     # pytype raised: every call of the module is unobserved; TLC reports `crash`
    crash, other = (other.strip().splitlines() or ["crash"])[0][:300], []
    pt = [{"errs": [], "rev": False, "slots": {"_": []}, "va": [], "vashape": "none", "kw": [], "kwkey": []}
          for _ in calls]
  case = {"sig": sig, "kind": kind, "crash": crash,
          "redefs": [{"at": r["at"], "attr": r["attr"], "pdef": r["pdef"], "kdef": sorted(r["kdef"])}
                     for r in redefs],
          "calls": [{"npos": c["npos"], "kws": c["kws"], "py": py[k], "pt": pt[k]}
                    for k, c in enumerate(calls)]}
  return case, other


def program_of(sig, kind, call, redefs=()):
  """The minimal program for a message / replay file (redefs: the re-assignments made before the call)."""
  names = sorted(call["kws"])
  if kind == "stub":
    hl, callee = render_stub_user("c13stub", call["npos"], names)
    return ("".join("# c13stub.pyi: %s\n" % ln for ln in stub_text(sig).splitlines())
            + "\n".join(hl + ["%s(%s)" % (callee, args_text(call))]) + "\n")
  if kind == "splat":
    hl, _, _ = render_header(sig, "function", call["npos"], names)
    return "\n".join(hl + SPLAT_PRELUDE + ["  f(%s)" % args_text(call, True)]) + "\n"
  hl, callee, _ = render_header(sig, kind, call["npos"], names, redefs)
  hl += [redef_text(sig, kind, r, g) for g, r in enumerate(redefs, 1)]
  return "\n".join(hl + ["%s(%s)" % (callee, args_text(call))]) + "\n"


def hist_text(sig, kind, redefs):
  return "".join("; " + redef_text(sig, kind, r, g) for g, r in enumerate(redefs, 1))


# ---------------------------------------------------------------------------------------------

_serial = 0       # stub modules written by this process
_PAIRS = {}       # (signature, npos, keywords) -> non-trivial?   (distinct pairs judged this run)
_SAMPLED = set()  # outcome tags already written to the evidence samples


def judge(run, items, procs=8):
  """Observe all items ((sig, kind, calls, maxpos)) and let TLC judge.  Returns #calls judged."""
  t0 = time.time()
  if len(items) <= 2:
    results = [work(it) for it in items]
  else:
    results = pyt.batch(work, items, procs=procs, chunksize=1)
  run.add("pytype_wall_s", round(time.time() - t0, 1))
  cases = []
  for case, other in results:
    cases.append(case)
    for o in other:
      run.diverge({"unexpected-error": o, "sig": sig_text(case["sig"]), "kind": case["kind"]})
  run.add("pytype_modules", len(cases))
  ncalls = sum(len(c["calls"]) for c in cases)
  # TLC verdicts in chunks of ~25k calls on up to 4 JVMs
  parts, cur, w = [], [], 0
  for k, c in enumerate(cases):
    if cur and w + len(c["calls"]) > 25000:
      parts.append(cur)
      cur, w = [], 0
    cur.append(k)
    w += len(c["calls"])
  if cur:
    parts.append(cur)

  def one(idx):
    part = [cases[k] for k in idx]
    nv, bad, r = tlc.validate_cases("TraceC13", part, cfg=TRACE_CFG, timeout=3000, heap="4g")
    common.require(bad is None and nv == len(part), "TraceC13 did not consume its cases:\n" + r.out[-2000:])
    st = tlc.parse_cases(r.out, "STAT")
    common.require(len(st) == len(part), "TraceC13 printed %d STAT lines for %d cases" % (len(st), len(part)))
    return (idx, tlc.parse_cases(r.out, "ORACLE"), tlc.parse_cases(r.out, "BAD"),
            tlc.parse_cases(r.out, "DIV"), st, r.distinct)
  t0 = time.time()
  with cf.ThreadPoolExecutor(max_workers=4) as ex:
    outs = list(ex.map(one, parts))
  run.add("tlc_trace_wall_s", round(time.time() - t0, 1))
  pairs, sampled = _PAIRS, _SAMPLED
  for idx, oracle, bad, div, stat, distinct in outs:
    run.add("trace_states", distinct)
    if oracle:
      rec = oracle[0]
      c = cases[idx[rec["i"] - 1]]
      k, clause = rec["fails"][0]
      raise common.Machinery("spec disagrees with CPython on def f(%s) [%s] call (%s): %s; observed %s" % (
          sig_text(c["sig"]), c["kind"], args_text(c["calls"][k - 1]), clause,
          json.dumps(c["calls"][k - 1]["py"])))
    for rec in stat:
      c = cases[idx[rec["i"] - 1]]
      common.require(len(rec["calls"]) == len(c["calls"]), "STAT line does not cover its case")
      skey = sig_text(c["sig"])
      hist = bool(c["redefs"])
      for call, (ek, nva, nkw, dev, stage, effect, splat) in zip(c["calls"], rec["calls"]):
        if c["kind"] == "splat":
          # f(.., *xs, ..) with a list of unknown length: splat = binds / depends / the cause of every
          # length's TypeError
          run.add("splat_calls")
          run.add("splat_" + splat)
          if c["sig"]["va"]:
            run.add("splat_" + splat + "_callee_has_varargs")
          if "splat-" + splat not in sampled and splat in ("missing_kwonly", "binds", "depends"):
            sampled.add("splat-" + splat)
            run.sample({"program": program_of(c["sig"], "splat", call), "spec": splat,
                        "cpython_per_length": call["py"]["lens"], "pytype": call["pt"]["errs"]})
          pairs[(skey + " [splat]", call["npos"], tuple(sorted(call["kws"])))] = True
          continue
        if hist:
          # the history family has its own counters (the guards of the plain families stay as they were)
          run.add("hist_calls")
          run.add("hist_calls_stage%d" % min(stage, 2))
          if stage:
            run.add("hist_after_%s_%s" % (c["redefs"][stage - 1]["attr"], ek))
            if effect:
              run.add("hist_%s" % effect)
              run.add("hist_%s_%s" % (effect, c["kind"]))
              run.add("hist_%s_%s" % (effect, c["redefs"][stage - 1]["attr"]))
              if effect not in sampled and c["redefs"][stage - 1]["attr"] == "pos" and not c["sig"]["ko"]:
                sampled.add(effect)
                run.sample({"program": program_of(c["sig"], c["kind"], call, c["redefs"][:stage]),
                            "spec": ek, "effect_of_reassignment": effect,
                            "cpython": call["py"], "pytype": call["pt"]})
          pairs[(skey + hist_text(c["sig"], c["kind"], c["redefs"][:stage]), call["npos"],
                 tuple(sorted(call["kws"])))] = True
          continue
        if c["kind"] == "stub":
          # stub functions have their own counters too (only the error-iff-Err clause is judged)
          run.add("stub_calls")
          run.add("stub_calls_" + ek)
          if dev:
            run.add("stub_calls_posonly_name_as_keyword_with_kwargs")
            run.add("stub_calls_posonly_name_as_keyword_with_kwargs_" + ("err" if ek != "none" else "bound"))
          if "stub-" + ek not in sampled:
            sampled.add("stub-" + ek)
            if ek in ("none", "keyword", "missing"):
              run.sample({"program": program_of(c["sig"], "stub", call), "spec": ek,
                          "cpython": call["py"]["err"], "pytype": call["pt"]["errs"]})
          pairs[(skey + " [stub]", call["npos"], tuple(sorted(call["kws"])))] = True
          continue
        run.add("calls_" + ek)
        run.add("calls_%s_%s" % ("err" if ek != "none" else "bound", c["kind"]))
        if ek == "none" and nva:
          run.add("bound_with_varargs_items")
        if ek == "none" and nkw:
          run.add("bound_with_kwargs_items")
        if dev:
          run.add("calls_posonly_name_as_keyword_with_kwargs")
        nontrivial = ek != "none" or call["kws"] or nva
        tag = ("bound-va-kw" if ek == "none" and nva and nkw else ek if ek != "none" else
               "bound" if call["kws"] else "")
        if tag and tag not in sampled and c["kind"] in ("function", "method") and not dev:
          sampled.add(tag)
          run.sample({"program": program_of(c["sig"], c["kind"], call), "spec": ek,
                      "cpython": call["py"], "pytype": call["pt"]})
        pairs[(skey, call["npos"], tuple(sorted(call["kws"])))] = bool(nontrivial)
    for rec in div:
      run.add("error_class_differs_from_cpython_first_complaint", len(rec["calls"]))
    stat_of = {rec["i"]: rec["calls"] for rec in stat}
    for rec in bad:
      c = cases[idx[rec["i"] - 1]]
      for k, clause, dev in rec["fails"]:
        if clause == "crash":
          run.violation("C13:crash", "pytype raised %s on def f(%s) as %s with %d plain calls" % (
              c["crash"], sig_text(c["sig"]), c["kind"], len(c["calls"])),
                        {"sig": c["sig"], "kind": c["kind"],
                         "calls": [{"npos": x["npos"], "kws": x["kws"]} for x in c["calls"]]})
          continue
        call = c["calls"][k - 1]
        before = [dict(r, at=0) for r in c["redefs"] if r["at"] < k]
        prog = program_of(c["sig"], c["kind"], call, before)
        what = ("%s: def f(%s) as %s%s, call (%s): pytype errors %s, revealed %s; CPython: %s" % (
            clause, sig_text(c["sig"]), c["kind"], hist_text(c["sig"], c["kind"], before),
            args_text(call), call["pt"]["errs"],
            json.dumps({n: v for n, v in call["pt"]["slots"].items() if n != "_"}
                       | ({"*va": call["pt"]["va"]} if c["sig"]["va"] else {})
                       | ({"**kw": call["pt"]["kw"]} if c["sig"]["kw"] else {}), sort_keys=True),
            call["py"]["err"] if call["py"]["err"] != "none" else json.dumps(
                {n: v for n, v in call["py"]["slots"].items() if n != "_"}
                | ({"*va": call["py"]["va"]} if c["sig"]["va"] else {})
                | ({"**kw": call["py"]["kw"]} if c["sig"]["kw"] else {}), sort_keys=True)))
        if c["kind"] == "splat":
          common.require(not dev, "TraceC13 attributes a splat call to a deviation")
          what = ("%s: def f(%s), call f(%s) inside `def caller(xs: List[PX])`: pytype errors %s; CPython for "
                  "len(xs) = 0..%d: %s" % (clause, sig_text(c["sig"]), args_text(call, True), call["pt"]["errs"],
                                           len(call["py"]["lens"]) - 1, call["py"]["err"]))
          keys = ["C13:" + clause]
        elif c["kind"] == "stub":
          common.require(not dev, "TraceC13 attributes a stub call to a deviation of source functions")
          what = "%s: c13stub.pyi `def f(%s) -> Any: ...`, call c13stub.f(%s): pytype errors %s; CPython: %s" % (
              clause, stub_sig_text(c["sig"]), args_text(call), call["pt"]["errs"],
              call["py"]["err"] if call["py"]["err"] != "none" else "binds")
          keys = ["C13:stub:" + clause]
        elif dev:
          common.require(dev in DEV_KEYS, "unknown attribution %r from TraceC13" % dev)
          keys = DEV_KEYS[dev]
          run.add(("posonly_kw_dev_" if dev == "posonly" else "hist_dev_%s_" % dev) + clause.split(":")[0])
        else:
          # a failing call whose outcome the re-assignment decides (spec-computed: HistEffect lost /
          # gained / newdef) is keyed as such
          effect = stat_of[rec["i"]][k - 1][5]
          keys = ["C13:" + ("after-defaults-reassignment:%s:" % effect if effect else "")
                  + re.sub(r"^(wrong-param):.*$", r"\1", clause)]
        for key in keys:
          run.violation(key, what, {"sig": c["sig"], "kind": c["kind"], "redefs": before,
                                    "call": {"npos": call["npos"], "kws": call["kws"]},
                                    "clause": clause, "observed": call["pt"], "cpython": call["py"],
                                    "program": prog})
  return ncalls


def pick(rng, xs, n):
  xs = list(xs)
  if len(xs) <= n:
    return xs
  return [xs[i] for i in sorted(rng.sample(range(len(xs)), n))]


def canon_sig(s):
  return {"po": s["po"], "pk": s["pk"], "va": bool(s["va"]), "ko": s["ko"], "kw": bool(s["kw"]),
          "pdef": s["pdef"], "kdef": sorted(s["kdef"])}


def canon_calls(cs, rng):
  """Calls in a fixed order; the keywords of each call in a seeded order (CPython's first
  complaint depends on it, the outcome must not)."""
  out = []
  for c in sorted(cs, key=lambda c: (c["npos"], len(c["kws"]), sorted(c["kws"]))):
    kws = sorted(c["kws"])
    rng.shuffle(kws)
    out.append({"npos": c["npos"], "kws": kws})
  return out


def call_key(c):
  return (c["npos"], tuple(sorted(c["kws"])))


def history_items(run, rng, hists, base_calls, per_sig, want_len, maxpos):
  """Modules of the history family.  hists: the CASE records of the "hists" export
  ([sig, redefs, flip, dflt]); base_calls: {signature text: every call shape of the plain export}.
  Per definition `per_sig` = (#histories that shrink the positional defaults, #other __defaults__
  histories, #__kwdefaults__ histories) are drawn (seeded) among the histories of length want_len;
  the kind of callable rotates.  Module = <=3 sensitive calls, the re-assignment(s), then the
  sensitive calls (all `flip` up to 14, 6 `dflt`) and 3 other call shapes."""
  by_sig = {}
  for h in hists:
    if len(h["redefs"]) != want_len:
      continue
    by_sig.setdefault(json.dumps(canon_sig(h["sig"]), sort_keys=True), []).append(h)
  items = []
  rot = rng.randrange(len(HKINDS))
  for skey in sorted(by_sig):
    hs = sorted(by_sig[skey], key=lambda h: json.dumps(h["redefs"], sort_keys=True))
    sig = canon_sig(hs[0]["sig"])

    def shrinks(h):
      # positional defaults are removed somewhere along the history
      cur, out = sig["pdef"], False
      for r in h["redefs"]:
        if r["attr"] == "pos":
          out, cur = out or r["pdef"] < cur, r["pdef"]
      return out
    groups = ([h for h in hs if shrinks(h)],
              [h for h in hs if not shrinks(h) and any(r["attr"] == "pos" for r in h["redefs"])],
              [h for h in hs if all(r["attr"] == "kw" for r in h["redefs"])])
    chosen = [h for g, k in zip(groups, per_sig) for h in pick(rng, g, k)]
    for h in chosen:
      kind = HKINDS[rot % len(HKINDS)]
      rot += 1
      flip = canon_calls(h["flip"], rng)
      dflt = canon_calls(h["dflt"], rng)
      sens = {call_key(c) for c in flip + dflt}
      other = [c for c in base_calls.get(sig_text(sig), []) if call_key(c) not in sens]
      before = pick(rng, flip + dflt, 3)
      after = pick(rng, flip, 14) + pick(rng, dflt, 6) + pick(rng, other, 3)
      if not after:
        after = [{"npos": 0, "kws": []}]
      # define, before, re-assignment 1, after, re-assignment 2, after (again), ...
      calls = before + after * want_len
      redefs = [{"at": len(before) + j * len(after), "attr": r["attr"], "pdef": r["pdef"],
                 "kdef": sorted(r["kdef"])} for j, r in enumerate(h["redefs"])]
      items.append((sig, kind, calls, maxpos, redefs))
  run.add("hist_modules", len(items))
  return items


def main():
  ap = argparse.ArgumentParser()
  ap.add_argument("--tier", default="quick")
  ap.add_argument("--replay")
  a = ap.parse_args()
  run = common.Run(PID, "model_checking", a.tier)
  run._sample_cap = 9   # pylint: disable=protected-access  (6 plain outcome tags + 3 history effects)
  boot.boot()
  if a.replay:
    with open(a.replay) as f:
      case = json.load(f)["case"]
    sig = canon_sig(case["sig"])
    calls = [{"npos": c["npos"], "kws": list(c["kws"])} for c in case.get("calls") or [case["call"]]]
    call = calls[0]
    redefs = [{"at": r.get("at", 0), "attr": r["attr"], "pdef": r["pdef"], "kdef": list(r["kdef"])}
              for r in case.get("redefs") or []]
    sdir = os.path.join(boot.BUILD, "c13-stubs-%d" % os.getpid())
    try:
      n = judge(run, [(sig, case.get("kind", "function"), calls, max(c["npos"] for c in calls), redefs, sdir)])
    finally:
      shutil.rmtree(sdir, ignore_errors=True)
    run.put("traces_validated_against_impl", n)
    run.put("states", 1); run.put("transitions", 1)
    run.sample({"def": "def f(%s)" % sig_text(sig), "kind": case.get("kind", "function"),
                "history": hist_text(sig, case.get("kind", "function"), redefs),
                "calls": [args_text(c) for c in calls]})
    return run.finish()
  thorough = run.tier == "thorough"
  rng = random.Random(run.seed)
  n, maxpos, maxkw = 2, 4, 3
  mod = 1 if thorough else 8
  rem = run.seed % mod
  # 1. TLC: the design (all pairs of the bounds) and the export of the signatures, side by side
  # with nothing else (the replay needs the export first).
  with cf.ThreadPoolExecutor(max_workers=8) as ex:
    jm = ex.submit(tlc.run, "ArgBind", model_cfg(n, maxpos, maxkw, True), workers=6 if thorough else 4,
                   timeout=3000, seed=run.seed)
    je = ex.submit(tlc.run, "ArgBind", model_cfg(n, maxpos, maxkw, True, mod, rem, export=True),
                   workers=1, timeout=3000, seed=run.seed, heap="4g")
    jm3 = None
    if thorough:
      jm3 = ex.submit(tlc.run, "ArgBind", model_cfg(3, 5, 3, False), workers=6, timeout=6000, seed=run.seed)
    # histories: (a) the phase machine with Return / SetDefaults interleaved with the calls (quick:
    # <= 1 parameter of each kind, two re-assignments; thorough: <= 2 of each kind, one), (b) the
    # re-assignment laws for every call shape of the export bounds on every (definition, history)
    # (quick: one re-assignment, thorough: two), (c) the export of (definition, history, sensitive
    # call shapes)
    hmach = (2, 3, 2, False, 1) if thorough else (1, 2, 2, True, 2)
    hlaws = 2 if thorough else 1
    hpos, hkw = 3, 2
    jh = ex.submit(tlc.run, "ArgBind", model_cfg(*hmach[:4], maxredef=hmach[4]),
                   workers=6 if thorough else 2, timeout=6000, seed=run.seed, heap="6g" if thorough else "2g")
    jl = ex.submit(tlc.run, "ArgBind", model_cfg(n, hpos, hkw, True, export="laws", maxredef=hlaws),
                   workers=4 if thorough else 2, timeout=6000, seed=run.seed, heap="2g")
    # (two JVMs, each half of the seeded class: SigIndex % 2mod in {rem, rem + mod})
    jhe = [ex.submit(tlc.run, "ArgBind", model_cfg(n, hpos, hkw, True, 2 * mod, rem + half * mod,
                                                   export="hists", maxredef=1),
                     workers=1, timeout=3000, seed=run.seed, heap="3g") for half in (0, 1)]
    r = je.result()
    common.require(r.ok and not r.violated, "ArgBind export failed:\n" + r.out[-2000:])
    run.add("tlc_export_wall_s", round(r.wall, 1))
    sigs = sorted(((canon_sig(c["sig"]), canon_calls(c["calls"], rng)) for c in r.cases),
                  key=lambda x: json.dumps(x[0], sort_keys=True))
    run.put("signatures", len(sigs))
    run.put("signature_sample", "SigIndex %% %d = %d" % (mod, rem))
    common.require(len(sigs) >= (700 if thorough else 60), "only %d signatures exported" % len(sigs))
    # 2./3. replay: plain functions with every call shape; the other four kinds of callable on
    # every signature with a seeded share of the call shapes.
    share = 0.25 if thorough else 0.12
    items = []
    sdir = os.path.join(boot.BUILD, "c13-stubs-%d" % os.getpid())
    for k, (sig, calls) in enumerate(sigs):
      for kind in KINDS:
        cs = calls if kind == "function" else pick(rng, calls, max(12, int(len(calls) * share)))
        nch = (len(cs) + CHUNK - 1) // CHUNK      # pytype is superlinear in the module size
        for j in range(nch):
          items.append((sig, kind, cs[j::nch], maxpos))
      # the same signature known only from a .pyi stub (PyTDSignature binds those, not SignedFunction):
      # every call shape (no callee body is analysed: cheap)
      nch = (len(calls) + STUB_CHUNK - 1) // STUB_CHUNK
      for j in range(nch):
        items.append((sig, "stub", calls[j::nch], maxpos, [], sdir))
      # a seeded share of the call shapes with an indefinite splat after the fixed positionals
      items.append((sig, "splat", pick(rng, [c for c in calls if c["npos"] <= 3], 120 if thorough else 60), maxpos))
    if thorough:
      # larger signatures (<= 3 parameters of each kind, <= 5 positionals): a seeded sample of the
      # signatures, a seeded sample of their call shapes, plain functions
      r = tlc.run("ArgBind", model_cfg(3, 5, maxkw, True, 24, run.seed % 24, export=True),
                  workers=1, timeout=3000, seed=run.seed, heap="6g")
      common.require(r.ok and not r.violated, "ArgBind export (N=3) failed:\n" + r.out[-2000:])
      run.add("tlc_export_wall_s", round(r.wall, 1))
      big = sorted(((canon_sig(c["sig"]), canon_calls(c["calls"], rng)) for c in r.cases),
                   key=lambda x: json.dumps(x[0], sort_keys=True))
      big = [(s, cs) for s, cs in big if max(s["po"], s["pk"], s["ko"]) == 3]
      run.put("signatures_n3_sample", len(big))
      common.require(len(big) >= 80, "only %d signatures with 3 parameters of a kind exported" % len(big))
      for sig, calls in big:
        items.append((sig, "function", pick(rng, calls, 120), 5))
    # histories: define, call*, re-assign the defaults, call* on a seeded choice of histories of
    # every exported definition (thorough: more per definition, and two re-assignments for the
    # seeded class SigIndex % 8)
    hcases = []
    for job in jhe:
      rh = job.result()
      common.require(rh.ok and not rh.violated, "ArgBind history export failed:\n" + rh.out[-2000:])
      run.add("tlc_export_wall_s", round(rh.wall, 1))
      hcases += rh.cases
    run.put("histories_exported", len(hcases))
    known_sigs = {sig_text(sg) for sg, _ in sigs}
    common.require(hcases and all(sig_text(canon_sig(h["sig"])) in known_sigs for h in hcases),
                   "the history export is not over the exported signatures")
    base_calls = {sig_text(sg): cs for sg, cs in sigs}
    hitems = history_items(run, rng, hcases, base_calls, (2, 1, 1) if thorough else (1, 1, 1), 1, maxpos)
    if thorough:
      r2 = tlc.run("ArgBind", model_cfg(n, hpos, hkw, True, 8, run.seed % 8, export="hists", maxredef=2),
                   workers=1, timeout=3000, seed=run.seed, heap="6g")
      common.require(r2.ok and not r2.violated, "ArgBind history export (2) failed:\n" + r2.out[-2000:])
      run.add("tlc_export_wall_s", round(r2.wall, 1))
      hitems += history_items(run, rng, r2.cases, base_calls, (2, 1, 1), 2, maxpos)
    common.require(len(hitems) >= (1500 if thorough else 150), "only %d history modules" % len(hitems))
    items += hitems
    # biggest modules first (better packing of the pool)
    items.sort(key=lambda it: -len(it[2]))
    try:
      ncalls = judge(run, items, procs=8)
    finally:
      shutil.rmtree(sdir, ignore_errors=True)
    for job, label in ((jm, "n2"), (jm3, "n3"), (jh, "hist_machine"), (jl, "hist_laws")):
      if job is None:
        continue
      r = job.result()
      if r.violated or not r.ok:
        raise common.Machinery("ArgBind.tla violates %s:\n%s" % (r.violated, (r.error_trace or r.out)[-3000:]))
      run.add("states", r.distinct)
      run.add("transitions", r.generated)
      run.put("model_states_" + label, r.distinct)
      run.add("tlc_model_wall_s", round(r.wall, 1))
  run.put("model_bounds", {"N": n, "MaxPos": maxpos, "MaxKw": maxkw, "Foreign": FOREIGN, "StarNames": True,
                           "second_model": {"N": 3, "MaxPos": 5, "MaxKw": 3, "StarNames": False} if thorough else None,
                           "history_machine": dict(zip(("N", "MaxPos", "MaxKw", "StarNames", "MaxRedef"), hmach)),
                           "history_laws": {"N": n, "MaxPos": hpos, "MaxKw": hkw, "StarNames": True,
                                            "MaxRedef": hlaws},
                           "history_export": {"N": n, "MaxPos": hpos, "MaxKw": hkw, "StarNames": True}})
  run.put("exhaustive", bool(thorough))
  run.put("traces_validated_against_impl", ncalls)
  run.put("evaluations", ncalls)
  pairs = _PAIRS
  run.put("distinct_pairs", len(pairs))
  run.put("distinct_nontrivial", sum(1 for v in pairs.values() if v))
  run.put("rule", "one evaluation = one call shape of one signature rendered as one kind of callable, "
          "bound by CPython (oracle) and by pytype, judged by TLC against Bind; non-trivial = distinct "
          "(signature, call) pairs with a keyword actual, a surplus positional or an Err outcome")
  cv = run.cov
  for kname in ("none", "keyword", "too_many", "missing", "missing_kwonly"):
    common.require(cv.get("calls_" + kname, 0) >= 200, "vacuity: only %d calls with spec outcome %s" % (
        cv.get("calls_" + kname, 0), kname))
  for kind in KINDS:
    common.require(cv.get("calls_bound_" + kind, 0) >= 100 and cv.get("calls_err_" + kind, 0) >= 100,
                   "vacuity: too few calls rendered as " + kind)
  common.require(cv.get("bound_with_varargs_items", 0) >= 200 and cv.get("bound_with_kwargs_items", 0) >= 200,
                 "vacuity: too few bound calls that fill *va / **kw")
  # stub functions: bound calls, every Err kind, and the shape "keyword named like a positional-only
  # parameter while the stub has **kw" with both outcomes
  for kname, least in (("none", 1000), ("keyword", 1000), ("too_many", 300), ("missing", 300),
                       ("missing_kwonly", 300)):
    common.require(cv.get("stub_calls_" + kname, 0) >= least, "vacuity: only %d calls of a stub function with "
                   "spec outcome %s" % (cv.get("stub_calls_" + kname, 0), kname))
  for oc in ("err", "bound"):
    common.require(cv.get("stub_calls_posonly_name_as_keyword_with_kwargs_" + oc, 0) >= 100,
                   "vacuity: too few stub calls (%s) with a keyword named like a positional-only parameter "
                   "of a stub that has **kw" % oc)
  # indefinite splats: both judged outcomes, the causes, and "required keyword-only parameter not
  # passed to a callee that has *va" (there pytype keeps the splat opaque)
  for tag, least in (("binds", 100), ("depends", 300), ("keyword", 300), ("missing_kwonly", 100),
                     ("too_many", 30), ("missing_kwonly_callee_has_varargs", 40),
                     ("binds_callee_has_varargs", 100)):
    common.require(cv.get("splat_" + tag, 0) >= least, "vacuity: only %d splat calls classified %s" % (
        cv.get("splat_" + tag, 0), tag))
  # histories: calls judged after a re-assignment whose outcome the re-assignment decides
  for eff, least in (("lost", 150), ("gained", 150), ("newdef", 150)):
    common.require(cv.get("hist_" + eff, 0) >= least, "vacuity: only %d calls after a re-assignment of the "
                   "defaults with effect %r" % (cv.get("hist_" + eff, 0), eff))
  for kind in HKINDS:
    common.require(cv.get("hist_lost_" + kind, 0) >= 10 and cv.get("hist_gained_" + kind, 0) >= 10,
                   "vacuity: too few decisive calls after a re-assignment on a " + kind)
  for attr in ("pos", "kw"):
    common.require(cv.get("hist_lost_" + attr, 0) >= 40 and cv.get("hist_gained_" + attr, 0) >= 40,
                   "vacuity: too few decisive calls after a re-assignment of " + attr + " defaults")
  common.require(cv.get("hist_calls_stage0", 0) >= 100, "vacuity: too few calls before the re-assignment")
  if thorough:
    common.require(cv.get("hist_calls_stage2", 0) >= 500, "vacuity: too few calls after a second re-assignment")
  run.assumptions += [
      "signatures: parameters without annotations; defaults are instances of marker classes; calls pass "
      "plain positional and keyword actuals; the splat family adds ONE `*xs` after the fixed positionals with "
      "xs: List[PX] a parameter of the calling function (length unknown), judged only where every length 0.."
      "NPosParams+1 has the same CPython outcome (error presence only); the fixed positionals of a splat call "
      "and the keyword values are integer literals (with *xs and a keyword whose value is not a constant, e.g. "
      "f(1, 2, *xs, z=K()) on def f(a, **kw) or f(1, 2, *xs, b=K()) on def f(a, b), pytype reports nothing "
      "although every length raises - observed, genuine, outside this family); no **mapping actuals, no splat of a "
      "tuple of known length, no splat in front of positionals",
      "callables: module-level function, method on an instance, classmethod and staticmethod through the "
      "class, constructor through __init__; decorators, overloads, __new__ and __call__ are not covered",
      "stub functions: every exported signature also as `def f(a1: Any, /, b1: Any = ..., *va: Any, k1: Any, "
      "**kw: Any) -> Any: ...` in a .pyi module on the pythonpath, called as <module>.f(..) with every call "
      "shape; only error-iff-TypeError is judged for them (a stub has no body to reveal parameters in); all "
      "annotations are Any, so no wrong-arg-types can interfere; overloaded stubs, stub methods and builtins "
      "are not covered",
      "histories: the defaults are re-assigned at module level between the calls with a tuple display "
      "(<f>.__defaults__ = (D1_b1(), ..), at most as many values as positional parameters) or a dict display "
      "(<f>.__kwdefaults__ = {'k1': D1_k1()}) on a function, a lambda, C.m (called as o.m), C.sm (staticmethod) "
      "and C.__init__; not covered: classmethods (C.cm is a bound method: no attribute assignment), "
      "__defaults__ = None, non-literal tuples, re-assignment inside functions or branches; quick: one "
      "re-assignment per module, thorough: also two",
      "the error class pytype chooses is informational (DIV); the property judges error-iff-TypeError on the "
      "call line and the revealed parameter types",
      "pytype runs with --no-skip-calls (skip_repeat_calls=False) so that every call executes the callee's "
      "reveal_type; revealed types are read from the raw error log (unique_sorted_errors keeps 3 call sites)",
      "oracle: the real CPython call decides; inspect.signature(f).bind of Python 3.12 rejects an unfilled "
      "positional-only name used as keyword even with **kw and a default - that one deficiency is part of "
      "the oracle clause (TraceC13.tla InspectBinds)"]
  return run.finish()


if __name__ == "__main__":
  common.main(PID, main)

"""C17 - boolean-equation terms are built and simplified to logically equivalent terms.

spec -> code: BoolEq.tla enumerates every constructor application (Eq over all name pairs;
And/Or over every argument list drawn from the pool of terms of smaller depth, duplicates
included).  TLC checks the property on the model (InvMeaning, InvNF, InvSimplify, ...) and
exports the pool and the applications.  The driver performs the same applications with the real
pytype.pytd.booleq constructors (arguments are themselves built with the real constructors) and
calls term.simplify(table) on every distinct real result for every restriction table.
code -> spec: the STRUCTURE of the real terms is recorded (hash-consed) and TraceC17.tla computes
their truth tables with the spec's Eval and judges: constructor == connective over the real
arguments, normal form, simplify keeps the truth value under every assignment drawn from the
table, no exception.  The model's own prediction (MkAnd/MkOr/MkEq/Simplify applied to the real
arguments) is compared structurally: differences are divergences, never alarms.
"""
import argparse
import concurrent.futures as cf
import itertools
import json
import os
import sys
import time

sys.path.insert(0, os.path.dirname(os.path.abspath(__file__)))
import boot  # noqa: E402
import common  # noqa: E402
import tlc  # noqa: E402

PID = "C17"
INVS = ["TypeOK", "InvMeaning", "InvNF", "InvSimplify", "InvSimplifyStable", "InvEqOrdered"]

# label -> (NNames, VarNames, MaxDepth, MaxArgs, AllowDup)
QUICK = [
    ("2x2-d2-a3", 4, [3, 4], 2, 3, True),          # variables sort above values (pytype's case)
    ("mixed-order-d2-a2", 4, [1, 3], 2, 2, True),  # variable names below / between value names
    ("3x2-d1-a3", 5, [3, 4, 5], 1, 3, True),
    ("2x3-d1-a3", 5, [4, 5], 1, 3, True),
]
THOROUGH = [
    ("2x2-d3-a2", 4, [3, 4], 3, 2, True),
    ("2x2-d2-a3", 4, [3, 4], 2, 3, True),
    ("mixed-order-d2-a3", 4, [1, 3], 2, 3, True),
    ("mixed-order-d3-a2", 4, [2, 4], 3, 2, False),
    ("3x3-d2-a2", 6, [4, 5, 6], 2, 2, True),
    ("3x2-d2-a2", 5, [3, 4, 5], 2, 2, True),
    ("2x3-d2-a2", 5, [4, 5], 2, 2, True),
]


def model_cfg(nn, vs, depth, maxargs, dup, export=False, invs=INVS, spec=True):
  s = ("SPECIFICATION Spec\n" if spec else "") + "CONSTANTS\n"
  s += " NNames = %d\n VarNames = {%s}\n MaxDepth = %d\n MaxArgs = %d\n AllowDup = %s\n Export = %s\n" % (
      nn, ",".join(str(v) for v in vs), depth, maxargs, "TRUE" if dup else "FALSE",
      "TRUE" if export else "FALSE")
  if export:
    s += "VIEW View\n"
  for i in invs:
    s += "INVARIANT %s\n" % i
  return s


def trace_cfg(nn, vs):
  return ("INIT TInit\nNEXT TNext\n" + model_cfg(nn, vs, 1, 1, False, invs=[], spec=False)
          + "INVARIANT Ok\nPOSTCONDITION Done\n")


class Names:
  """Model names 1..nn <-> real strings with the same order under Python's string comparison."""

  def __init__(self, nn, vs):
    vals = [n for n in range(1, nn + 1) if n not in vs]
    if min(vs) > max(vals):          # pytype's convention: "~..." variables above class names
      self.s = {n: ("~unknown%d" % n if n in vs else "Class%d" % n) for n in range(1, nn + 1)}
    else:
      self.s = {n: ("t%d" % n if n in vs else "t%dval" % n) for n in range(1, nn + 1)}
    order = [self.s[n] for n in range(1, nn + 1)]
    common.require(order == sorted(order) and len(set(order)) == nn,
                   "name mapping does not preserve the order: %r" % order)
    self.n = {v: k for k, v in self.s.items()}
    self.vars = list(vs)
    self.vals = vals
    self.nn = nn


class Real:
  """The real booleq module: building, structure recording (hash-consing), simplifying."""

  def __init__(self, names):
    from pytype.pytd import booleq
    self.b = booleq
    self.names = names
    self.terms = []          # id-1 -> node
    self.ids = {}            # structural key -> id
    self.objs = []           # id-1 -> a real object with this structure
    self._built = {}

  def intern(self, t):
    b = self.b
    if t is b.TRUE or isinstance(t, b.TrueValue):
      key = ("true", 0, 0, ())
    elif t is b.FALSE or isinstance(t, b.FalseValue):
      key = ("false", 0, 0, ())
    elif isinstance(t, b._Eq):  # pylint: disable=protected-access
      key = ("eq", self.names.n.get(t.left, 0), self.names.n.get(t.right, 0), ())
    elif isinstance(t, (b._And, b._Or)):  # pylint: disable=protected-access
      kind = "and" if isinstance(t, b._And) else "or"  # pylint: disable=protected-access
      key = (kind, 0, 0, tuple(sorted(self.intern(c) for c in t.exprs)))
    else:
      raise common.Machinery("not a boolean term: %r" % (t,))
    i = self.ids.get(key)
    if i is None:
      self.terms.append({"k": key[0], "l": key[1], "r": key[2], "cs": list(key[3])})
      self.objs.append(t)
      i = self.ids[key] = len(self.terms)
    return i

  def build(self, m):
    """Real counterpart of a model term, built bottom-up with the real constructors."""
    key = json.dumps(m, sort_keys=True)
    if key in self._built:
      return self._built[key]
    b = self.b
    if m["k"] == "true":
      t = b.TRUE
    elif m["k"] == "false":
      t = b.FALSE
    elif m["k"] == "eq":
      t = b.Eq(self.names.s[m["l"]], self.names.s[m["r"]])
    else:
      cs = [self.build(c) for c in m["cs"]]
      t = b.And(cs) if m["k"] == "and" else b.Or(cs)
    self._built[key] = t
    return t

  def apply(self, app, pool):
    """Execute one exported application; returns (case record, real result or None)."""
    b = self.b
    op = app["op"]
    try:
      if op in ("true", "false"):
        return None, None      # the constants themselves: pool members, not applications
      if op == "eq":
        l, r = app["names"]
        try:
          res = b.Eq(self.names.s[l], self.names.s[r])
        except Exception as e:  # pylint: disable=broad-except
          return {"kind": "eq", "l": l, "r": r, "res": 0, "exc": repr(e)[:200]}, None
        return {"kind": "eq", "l": l, "r": r, "res": self.intern(res), "exc": ""}, res
      args = [pool[k - 1] for k in app["args"]]
      ids = [self.intern(a) for a in args]
      try:
        # an iterator, as type_match/booleq themselves pass generators
        res = (b.And if op == "and" else b.Or)(iter(args))
      except Exception as e:  # pylint: disable=broad-except
        return {"kind": op, "args": ids, "res": 0, "exc": repr(e)[:200]}, None
      return {"kind": op, "args": ids, "res": self.intern(res), "exc": ""}, res
    except common.Machinery:
      raise

  def table(self, tab):
    """tab: per model name (1..nn) the list of possible values -> the dict the code expects."""
    return {self.names.s[v]: {self.names.s[x] for x in tab[v - 1]} for v in self.names.vars}

  def simplify(self, tid, tables):
    t = self.objs[tid - 1]
    s, exc = [], []
    for tab in tables:
      try:
        st = t.simplify(self.table(tab))
      except Exception as e:  # pylint: disable=broad-except
        s.append(0)
        exc.append(repr(e)[:200])
        continue
      s.append(self.intern(st))
      exc.append("")
    return {"kind": "simp", "t": tid, "s": s, "exc": exc}


def all_tables(names):
  """Every restriction table: each variable -> any subset of the values."""
  subsets = []
  for k in range(len(names.vals) + 1):
    subsets += [list(c) for c in itertools.combinations(names.vals, k)]
  out = []
  for combo in itertools.product(subsets, repeat=len(names.vars)):
    tab = [[] for _ in range(names.nn)]
    for v, s in zip(names.vars, combo):
      tab[v - 1] = s
    out.append(tab)
  return out


# --- an independent evaluator (cross-check of the TLC verdicts; never the verdict itself)
def py_truth(real, tid, sigmas, memo):
  if tid in memo:
    return memo[tid]
  n = real.terms[tid - 1]
  k = n["k"]
  if k == "true":
    r = frozenset(range(len(sigmas)))
  elif k == "false":
    r = frozenset()
  elif k == "eq":
    r = frozenset(j for j, s in enumerate(sigmas) if s.get(n["l"], n["l"]) == s.get(n["r"], n["r"]))
  else:
    parts = [py_truth(real, c, sigmas, memo) for c in n["cs"]]
    r = frozenset(range(len(sigmas)))
    if k == "and":
      for p in parts:
        r &= p
    else:
      r = frozenset().union(*parts) if parts else frozenset()
  memo[tid] = r
  return r


def py_bad(real, cases, tables, names):
  """Indices (0-based) of cases the Python evaluator considers semantically wrong."""
  sigmas = [dict(zip(names.vars, c)) for c in itertools.product(names.vals, repeat=len(names.vars))]
  memo = {}
  allowed = [frozenset(j for j, s in enumerate(sigmas) if all(s[v] in tab[v - 1] for v in names.vars))
             for tab in tables]
  bad = set()
  full = frozenset(range(len(sigmas)))
  for i, c in enumerate(cases):
    if c["kind"] == "simp":
      for j, sid in enumerate(c["s"]):
        if c["exc"][j] or (py_truth(real, sid, sigmas, memo) & allowed[j]) != (
            py_truth(real, c["t"], sigmas, memo) & allowed[j]):
          bad.add(i)
    elif c["exc"]:
      bad.add(i)
    elif c["kind"] == "eq":
      want = frozenset(j for j, s in enumerate(sigmas) if s.get(c["l"], c["l"]) == s.get(c["r"], c["r"]))
      if py_truth(real, c["res"], sigmas, memo) != want:
        bad.add(i)
    else:
      parts = [py_truth(real, a, sigmas, memo) for a in c["args"]]
      if c["kind"] == "and":
        want = full
        for p in parts:
          want &= p
      else:
        want = frozenset().union(*parts) if parts else frozenset()
      if py_truth(real, c["res"], sigmas, memo) != want:
        bad.add(i)
  return bad


class Rec:
  """Per-family results, applied to the Run sequentially (families run in parallel threads)."""

  def __init__(self):
    self.viol, self.div, self.stats, self.samples = [], [], {}, []

  def violation(self, key, what, payload):
    self.viol.append((key, what, payload))

  def diverge(self, d):
    self.div.append(d)

  def add(self, k, n=1):
    self.stats[k] = self.stats.get(k, 0) + n

  def sample(self, x):
    self.samples.append(x)

  def apply(self, run):
    for v in self.viol:
      run.violation(*v)
    for d in self.div:
      run.diverge(d)
    for k, n in self.stats.items():
      run.add(k, n)
    for x in self.samples:
      run.sample(x)


def show(real, tid):
  return repr(real.objs[tid - 1]) if tid else "<exception>"


def execute_and_judge(run, fam, pool_m, apps, label):
  """Run the applications on the real module, simplify every result, let TLC judge."""
  _, nn, vs, _, _, _ = fam
  names = Names(nn, vs)
  real = Real(names)
  pool = [real.build(m) for m in pool_m]
  cases, src = [], []
  for app in apps:
    c, _ = real.apply(app, pool)
    if c is not None:
      cases.append(c)
      src.append(app)
  napps = len(cases)
  tables = all_tables(names)
  # every distinct real result (pool terms are results of earlier applications)
  tids = sorted({c["res"] for c in cases if c["res"]} | {real.intern(p) for p in pool})
  origin = {}
  for k, c in enumerate(cases):
    if c["res"] and c["res"] not in origin:
      origin[c["res"]] = k
  for tid in tids:
    cases.append(real.simplify(tid, tables))
    src.append({"simplify_of_result_of": src[origin[tid]] if tid in origin else None})
  trace = {"terms": real.terms, "tables": tables, "cases": cases}
  _, bad, r = tlc.validate_cases("TraceC17", trace, cfg=trace_cfg(nn, vs), timeout=6000, heap="4g")
  common.require(bad is None, "TraceC17 invariant cannot fail (verdicts are printed)")
  common.require(not tlc.parse_cases(r.out, "MACH"), "TraceC17: trace file not well-formed")
  bads = tlc.parse_cases(r.out, "BAD")
  divs = tlc.parse_cases(r.out, "DIV")
  # cross-check TLC's semantic verdicts with the independent evaluator
  tlc_sem = {b["i"] - 1 for b in bads if any(f[0] != "nf" for f in b["fails"])}
  py_sem = py_bad(real, cases, tables, names)
  common.require(tlc_sem == py_sem, "TLC and the cross-check evaluator disagree on cases %r" % (
      sorted(tlc_sem ^ py_sem)[:5],))
  for b in bads:
    c = cases[b["i"] - 1]
    for clause, j in b["fails"]:
      if c["kind"] == "simp":
        tab = real.table(tables[j - 1])
        what = "%s: %s.simplify(%r) = %s" % (
            clause, show(real, c["t"]), {k: sorted(v) for k, v in sorted(tab.items())},
            show(real, c["s"][j - 1]) if not c["exc"][j - 1] else "raised " + c["exc"][j - 1])
        key = "C17:simplify:%s:%s" % (clause, real.terms[c["t"] - 1]["k"])
      elif c["kind"] == "eq":
        what = "%s: Eq(%r, %r) = %s" % (clause, names.s[c["l"]], names.s[c["r"]],
                                        show(real, c["res"]) if not c["exc"] else "raised " + c["exc"])
        key = "C17:Eq:%s" % clause
      else:
        what = "%s: %s([%s]) = %s" % (
            clause, c["kind"].capitalize(), ", ".join(show(real, a) for a in c["args"]),
            show(real, c["res"]) if not c["exc"] else "raised " + c["exc"])
        key = "C17:%s:%s" % (c["kind"].capitalize(), clause)
      run.violation(key, what, {"family": list(fam), "pool": pool_m, "app": src[b["i"] - 1],
                                "clause": clause})
  for d in divs:
    c = cases[d["i"] - 1]
    if c["kind"] == "simp":
      run.diverge({"family": label, "what": "simplify: structure differs from Simplify() of the model",
                   "term": show(real, c["t"]), "tables": len(d["at"]),
                   "first": show(real, c["s"][d["at"][0] - 1])})
    else:
      run.diverge({"family": label, "what": "%s: structure differs from the model's constructor" % c["kind"],
                   "args": [show(real, a) for a in c.get("args", [])] or [c.get("l"), c.get("r")],
                   "real": show(real, c["res"])})
  # statistics / vacuity
  nsimp = len(tids) * len(tables)
  run.add("applications_executed", napps)
  run.add("simplify_calls", nsimp)
  run.add("real_terms_distinct", len(real.terms))
  run.add("results_compound", sum(1 for c in cases[:napps] if c["res"] and
                                    real.terms[c["res"] - 1]["k"] in ("and", "or")))
  run.add("results_constant", sum(1 for c in cases[:napps] if c["res"] and
                                    real.terms[c["res"] - 1]["k"] in ("true", "false")))
  run.add("simplify_changed", sum(1 for c in cases[napps:] for s in c["s"] if s and s != c["t"]))
  run.add("applications_with_flattening", sum(
      1 for c in cases[:napps] if c["kind"] in ("and", "or") and
      any(real.terms[a - 1]["k"] == c["kind"] for a in c["args"])))
  run.add("applications_with_duplicates", sum(
      1 for c in cases[:napps] if c["kind"] in ("and", "or") and len(set(c["args"])) < len(c["args"])))
  mid = cases[napps // 2]
  run.sample({"family": label, "application": "%s(%s)" % (
      mid["kind"], [show(real, a) for a in mid.get("args", [])]), "real_result": show(real, mid["res"])})
  return napps, nsimp, len(tids)


def run_family(fam, workers, check_model=True):
  run = Rec()
  label, nn, vs, depth, maxargs, dup = fam
  t0 = time.time()
  with cf.ThreadPoolExecutor(max_workers=2) as ex:
    fm = ex.submit(tlc.run, "BoolEq", model_cfg(nn, vs, depth, maxargs, dup) + "VIEW View\n",
                   workers=workers, timeout=6000, heap="4g") if check_model else None
    fe = ex.submit(tlc.run, "BoolEq", model_cfg(nn, vs, depth, maxargs, dup, export=True,
                                                invs=["ExportInv"]),
                   workers=1, timeout=6000, heap="4g")
    rm = fm.result() if fm else None
    re_ = fe.result()
  if rm is not None:
    if rm.violated:
      raise common.Machinery("BoolEq.tla (%s): %s violated:\n%s" % (label, rm.violated,
                                                                    rm.error_trace[:3000]))
    common.require(rm.ok, "BoolEq.tla (%s) did not complete:\n%s" % (label, rm.out[-2000:]))
    run.add("states", rm.distinct)
    run.add("transitions", rm.generated)
  pools = tlc.parse_cases(re_.out, "POOL")
  common.require(len(pools) == 1, "pool not exported for %s" % label)
  apps = re_.cases
  common.require(len(apps) > 100, "family %s exported only %d applications" % (label, len(apps)))
  t1 = time.time()
  napps, nsimp, nterms = execute_and_judge(run, fam, pools[0], apps, label)
  print("  [%s] model %s states; %d applications, %d distinct results x tables = %d simplify calls; "
        "tlc-model+export %.0fs, execute+judge %.0fs" % (
            label, rm.distinct if rm else "-", napps, nterms, nsimp, t1 - t0, time.time() - t1),
        flush=True)
  run.add("cases_judged", napps + nsimp)
  return run


def main():
  ap = argparse.ArgumentParser()
  ap.add_argument("--tier", default="quick")
  ap.add_argument("--replay")
  a = ap.parse_args()
  run = common.Run(PID, "model_checking", a.tier)
  boot.boot()
  if a.replay:
    with open(a.replay) as f:
      case = json.load(f)["case"]
    fam = tuple(case["family"])
    app = case["app"]
    if "simplify_of_result_of" in app:
      app = app["simplify_of_result_of"]
    rec = Rec()
    n, m, _ = execute_and_judge(rec, fam, case["pool"], [app], "replay")
    rec.apply(run)
    run.put("traces_validated_against_impl", n + m)
    run.put("states", 1); run.put("transitions", 1)
    return run.finish()
  fams = THOROUGH if run.tier == "thorough" else QUICK
  par = 2 if run.tier == "thorough" else len(fams)
  with cf.ThreadPoolExecutor(max_workers=par) as ex:
    recs = list(ex.map(lambda f: run_family(f, 8), fams))
  for rec in recs:
    rec.apply(run)
  total = run.cov["cases_judged"]
  run.put("traces_validated_against_impl", total)
  run.put("evaluations", total)
  run.put("distinct_nontrivial", run.cov["results_compound"])
  run.put("exhaustive", True)
  run.put("rule", "one case = one constructor application (Eq over every name pair with a variable; "
          "And/Or over every argument list of <= MaxArgs pool terms, duplicates included) or one "
          "(distinct real result, restriction table) simplify call; non-trivial = application whose "
          "real result is an and/or term")
  run.put("families", [list(f) for f in fams])
  if not run.violations and not run.known_hits:
    # vacuity guards (statistics of the REAL results; meaningless once the code is known broken)
    common.require(run.cov["results_compound"] > 500, "vacuity: too few compound results")
    common.require(run.cov["results_constant"] > 50, "vacuity: no absorption cases")
    common.require(run.cov["simplify_changed"] > 1000, "vacuity: simplify hardly ever changed a term")
    common.require(run.cov["applications_with_flattening"] > 100, "vacuity: no flattening cases")
    common.require(run.cov["applications_with_duplicates"] > 20, "vacuity: no duplicate arguments")
  run.assumptions += [
      "names are mapped to strings whose Python order equals the model's numeric order",
      "restriction tables are total (every variable has an entry); equalities between two values are "
      "not built (type_match never builds them; _Eq.simplify would look a value up in the table)",
      "argument lists are sets of pool terms plus optionally one duplicated argument",
  ]
  return run.finish()


if __name__ == "__main__":
  common.main(PID, main)

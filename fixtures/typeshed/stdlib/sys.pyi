argv: list[str]
maxsize: int
version_info: tuple[int, int, int, str, int]
def exit(status: object = ...) -> None: ...

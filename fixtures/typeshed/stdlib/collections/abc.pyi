# Stand-in for typeshed's collections/abc.pyi; pytype's collections.abc overlay
# (overlays/collections_overlay.py, ABCOverlay) needs the module to be loadable.
from _collections_abc import *

----------------------------- MODULE Determinism -----------------------------
(* C04: analysis output is a pure function of the source and the options.                       *)
(* Processes differ in their interpreter hash seed; inside a process analyses happen one after   *)
(* the other, each with a fresh loader or with the process's long-lived (reused) loader, with    *)
(* one of the option sets (fam.opts), and possibly after `warm` units of unrelated earlier work  *)
(* (a unit = one un-annotated parameter of another module analysed in the same process).  The    *)
(* specification: there is a fixed (arbitrary) function F such that every                        *)
(* Analyze(proc, prog, opt, mode, warm) observes F[prog, opt]; the process's hash seed, what the *)
(* process did before (how much, and what) and how its loader was obtained must not matter.      *)
(* An observation is <<digest of the stub text, digest of the error report, digest of the        *)
(* pickled stub>>; an analysis that escapes with an exception is observed as <<"exc:" + the      *)
(* exception's type, "", "">> (the text of an internal error is not an output).                  *)
(*                                                                                               *)
(* Families of histories (bounds of the model; the driver runs all of them in one TLC run):       *)
(*   mixed  : 3 processes x 3 programs x 2 option sets x 2 loader modes x warm-ups {0,4},        *)
(*            all histories of 3 steps up to renaming of processes/programs (canonical)          *)
(*   seeds  : 6 processes (hash seeds) x 1 program, all 2-step histories (no renaming)           *)
(*   prefix : 2 processes with the SAME hash seed x 1 program x warm-ups 0..12: all pairs of     *)
(*            "amounts of earlier work"                                                          *)
EXTENDS Naturals, Sequences, FiniteSets, TLC, Json

CONSTANTS Families,   \* subset of {"mixed", "seeds", "prefix"}
          Export
Modes == {"fresh", "reused"}
AllOpts == {"default", "protocols"}
(* procs / progs: identities (naturals); opts: option sets; warmups: amounts of unrelated work a *)
(* process may do right before an analysis; sameSeed: all processes run with one hash seed (only *)
(* history differs); canonical: explore histories up to renaming of processes and programs       *)
Family(name) ==
  CASE name = "mixed" -> [name |-> name, procs |-> 1 .. 3, progs |-> 1 .. 3, opts |-> AllOpts,
                          warmups |-> {0, 4}, maxSteps |-> 3, sameSeed |-> FALSE, canonical |-> TRUE]
    [] name = "seeds" -> [name |-> name, procs |-> 1 .. 6, progs |-> {1}, opts |-> {"default"},
                          warmups |-> {0}, maxSteps |-> 2, sameSeed |-> FALSE, canonical |-> FALSE]
    [] name = "prefix" -> [name |-> name, procs |-> 1 .. 2, progs |-> {1}, opts |-> AllOpts,
                           warmups |-> 0 .. 12, maxSteps |-> 2, sameSeed |-> TRUE, canonical |-> TRUE]

VARIABLES fam,      \* the family this behaviour belongs to (fixed at Init)
          hist,     \* sequence of [proc, prog, opt, mode, warm]
          seen,     \* <<prog, opt>> |-> set of [c |-> circumstances, obs |-> observation]
          work,     \* proc |-> units of work done so far (1 per analysis + the warm-ups)
          ok        \* FALSE once two observations of one (program, options) differ
vars == <<fam, hist, seen, work, ok>>

Get(f, k, default) == IF k \in DOMAIN f THEN f[k] ELSE default
Put(f, k, v) == [x \in DOMAIN f \cup {k} |-> IF x = k THEN v ELSE f[x]]

(* the model's stand-in for the real analysis: the pure function F *)
F(prog, opt) == <<prog, opt>>
SeedOf(proc) == IF fam.sameSeed THEN 0 ELSE proc

(* circumstances of an analysis: everything that must NOT influence the observation *)
Circ(proc, seed, mode, before) == [proc |-> proc, seed |-> seed, mode |-> mode, work |-> before]

Observe(proc, seed, prog, opt, mode, warm, obs) ==
  LET key == <<prog, opt>>
      old == Get(seen, key, {})
      before == Get(work, proc, 0) + warm IN
  /\ hist' = Append(hist, [proc |-> proc, prog |-> prog, opt |-> opt, mode |-> mode, warm |-> warm])
  /\ seen' = Put(seen, key, old \cup {[c |-> Circ(proc, seed, mode, before), obs |-> obs]})
  /\ work' = Put(work, proc, before + 1)
  /\ ok' = (ok /\ \A x \in old : x.obs = obs)
  /\ fam' = fam

Analyze(proc, prog, opt, mode, warm) == Observe(proc, SeedOf(proc), prog, opt, mode, warm, F(prog, opt))

Max(S) == IF S = {} THEN 0 ELSE CHOOSE x \in S : \A y \in S : y <= x
UsedProcs == {hist[k].proc : k \in DOMAIN hist}
UsedProgs == {hist[k].prog : k \in DOMAIN hist}

Init == /\ fam \in {Family(n) : n \in Families}
        /\ hist = <<>> /\ seen = <<>> /\ work = <<>> /\ ok = TRUE
Next == /\ Len(hist) < fam.maxSteps
        /\ \E proc \in fam.procs, prog \in fam.progs, opt \in fam.opts, mode \in Modes,
              warm \in fam.warmups :
             /\ fam.canonical => (proc <= Max(UsedProcs) + 1 /\ prog <= Max(UsedProgs) + 1)
             /\ Analyze(proc, prog, opt, mode, warm)
Spec == Init /\ [][Next]_vars

Consistent == ok
(* histories worth executing: some (program, options) is analysed at least twice under          *)
(* different circumstances (another process, another loader mode, or after other work)          *)
Interesting ==
  \E a, b \in DOMAIN hist : a < b /\ hist[a].prog = hist[b].prog /\ hist[a].opt = hist[b].opt
ExportInv ==
  (Export /\ Len(hist) = fam.maxSteps /\ Interesting) =>
     PrintT(<<"CASE", ToJson([f |-> fam.name, h |-> hist])>>)

(* ---- the verdict on one observation (used by TraceC04 on what the real code produced) ------ *)
(* which circumstances distinguish two analyses of the same (program, options)                   *)
Dims(c1, c2) ==
  (IF c1.seed # c2.seed THEN {"hash-seed"} ELSE {})
  \cup (IF c1.work # c2.work THEN {"earlier-work"} ELSE {})
  \cup (IF c1.mode # c2.mode THEN {"loader-mode"} ELSE {})
  \cup (IF c1.proc # c2.proc /\ c1.seed = c2.seed /\ c1.work = c2.work /\ c1.mode = c2.mode
        THEN {"process-only"} ELSE {})
Parts == <<"pyi", "errors", "pickle">>
(* the entry of the analysis that `proc` did last *)
Latest(entries, proc) == CHOOSE x \in entries : x.c.proc = proc /\ x.c.work = work[proc] - 1
(* earlier observations of the same (program, options) that differ from the latest one; the    *)
(* report names the closest one (fewest differing circumstances), so that the finding says      *)
(* WHAT the output depends on                                                                   *)
Differing(entries, cur) == {x \in entries : x.obs # cur.obs}
Closest(D, cur) ==
  CHOOSE x \in D : \A y \in D : Cardinality(Dims(x.c, cur.c)) <= Cardinality(Dims(y.c, cur.c))
DiffReport(prog, opt, proc) ==
  LET entries == seen[<<prog, opt>>]
      cur == Latest(entries, proc)
      D == Differing(entries, cur) IN
  IF D = {} THEN <<>>
  ELSE LET x == Closest(D, cur) IN
       <<[parts |-> {Parts[n] : n \in {m \in 1 .. 3 : x.obs[m] # cur.obs[m]}},
          dims |-> Dims(x.c, cur.c), peer |-> x.c, now |-> cur.c]>>

(* error report well-formedness (part of C04): sorted by line, duplicate-free.                   *)
(* errs = sequence of <<line, name, digest of (position incl. column, message, details, traceback)>> *)
SortedUnique(errs) ==
  /\ \A a, b \in DOMAIN errs : a < b => errs[a][1] <= errs[b][1]
  /\ \A a, b \in DOMAIN errs : a # b => errs[a] # errs[b]
=============================================================================

----------------------------- MODULE Determinism -----------------------------
(* C04: analysis output is a pure function of the source and the options.                       *)
(* Processes differ in their interpreter hash seed; inside a process analyses happen one after   *)
(* the other, each with a fresh loader or with the process's long-lived (reused) loader.  The    *)
(* specification: there is a fixed (arbitrary) function F such that every Analyze(proc, prog,    *)
(* mode) observes F[prog]; what a process did before and how its loader was obtained must not    *)
(* matter.  An observation is <<digest of the stub text, error report, digest of pickled stub>>. *)
EXTENDS Naturals, Sequences, FiniteSets, TLC, Json

CONSTANTS Procs, Progs, MaxSteps, Export
Modes == {"fresh", "reused"}

VARIABLES hist,     \* sequence of <<proc, prog, mode>>
          table,    \* prog |-> observation seen first ("" = not yet analysed)
          ok        \* FALSE once two observations of one program differ
vars == <<hist, table, ok>>

(* the model's stand-in for the real analysis: the pure function F (identity of the program) *)
F(prog) == prog

Observe(proc, prog, mode, obs) ==
  /\ hist' = Append(hist, <<proc, prog, mode>>)
  /\ IF table[prog] = "" THEN table' = [table EXCEPT ![prog] = obs] /\ ok' = ok
     ELSE table' = table /\ ok' = (ok /\ table[prog] = obs)

Analyze(proc, prog, mode) == Observe(proc, prog, mode, F(prog))

Init == hist = <<>> /\ table = [p \in Progs |-> ""] /\ ok = TRUE
Next == /\ Len(hist) < MaxSteps
        /\ \E proc \in Procs, prog \in Progs, mode \in Modes : Analyze(proc, prog, mode)
Spec == Init /\ [][Next]_vars

Consistent == ok
(* histories worth executing: some program is analysed at least twice under different           *)
(* circumstances (another process, another loader mode, or after other analyses)                *)
Interesting ==
  \E a, b \in DOMAIN hist : a < b /\ hist[a][2] = hist[b][2]
ExportInv ==
  (Export /\ Len(hist) = MaxSteps /\ Interesting) => PrintT(<<"CASE", ToJson([h |-> hist])>>)

(* error report well-formedness (part of C04): strictly sorted by line, duplicate-free.          *)
(* errs = sequence of <<line, name, digest of (position incl. column, message, details, traceback)>> *)
SortedUnique(errs) ==
  /\ \A a, b \in DOMAIN errs : a < b => errs[a][1] <= errs[b][1]
  /\ \A a, b \in DOMAIN errs : a # b => errs[a] # errs[b]
=============================================================================

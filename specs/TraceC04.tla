------------------------------ MODULE TraceC04 ------------------------------
(* Code -> spec for C04: a case is one executed history (a session of worker processes)          *)
(*   [steps |-> << [proc, seed, prog, opt, mode, warm,                                            *)
(*                  obs |-> <<pyi digest, error report digest, pickle digest>>,                    *)
(*                  errs |-> <<<<line, name, identity digest>>>>] >>]                               *)
(* replayed through Determinism's Observe action (the spec itself keeps the per-process amount of  *)
(* earlier work and the set of observations per (program, options)).  Verdict per step:            *)
(*   differs : some earlier observation of the same (program, options) differs from this one; the  *)
(*             report names which parts differ and the circumstances (hash seed / earlier work /   *)
(*             loader mode) that distinguish the CLOSEST differing observation                     *)
(*   errors-unsorted-or-duplicated : the error report is not sorted by line or has duplicates      *)
EXTENDS Determinism, IOUtils, TLCExt

Cases == JsonDeserialize(IOEnv.TRACE_FILE)
VARIABLES i, k

TInit == Init /\ i = 1 /\ k = 0 /\ TLCSet(1, FALSE)
Step ==
  /\ i <= Len(Cases) /\ k < Len(Cases[i].steps)
  /\ LET s == Cases[i].steps[k + 1] IN
       Observe(s.proc, s.seed, s.prog, s.opt, s.mode, s.warm, s.obs)
  /\ k' = k + 1 /\ i' = i
NextCase ==
  /\ i <= Len(Cases) /\ k = Len(Cases[i].steps)
  /\ i' = i + 1 /\ k' = 0
  /\ hist' = <<>> /\ seen' = <<>> /\ work' = <<>> /\ ok' = TRUE /\ fam' = fam
  /\ (i' > Len(Cases) => TLCSet(1, TRUE))
TNext == Step \/ NextCase

Diff ==
  IF i > Len(Cases) \/ k = 0 THEN <<>>
  ELSE LET s == Cases[i].steps[k] IN DiffReport(s.prog, s.opt, s.proc)
Fails ==
  IF i > Len(Cases) \/ k = 0 THEN {}
  ELSE LET s == Cases[i].steps[k] IN
       (IF Diff # <<>> THEN {"differs"} ELSE {})
       \cup (IF ~SortedUnique(s.errs) THEN {"errors-unsorted-or-duplicated"} ELSE {})

(* the spec's own bookkeeping agrees with the verdict: ok is FALSE exactly from the first        *)
(* differing observation on                                                                      *)
Agree == (i > Len(Cases) \/ k = 0) \/ ("differs" \in Fails => ~ok)

(* coverage of a finished case, computed from the spec state: per (program, options) the number  *)
(* of analyses and of distinct hash seeds / amounts of earlier work / loader modes among them    *)
CovInv ==
  (i <= Len(Cases) /\ k > 0 /\ k = Len(Cases[i].steps)) =>
    PrintT(<<"COV", ToJson([i |-> i, per |->
      {[prog |-> key[1], opt |-> key[2], n |-> Cardinality(seen[key]),
        seeds |-> Cardinality({x.c.seed : x \in seen[key]}),
        works |-> Cardinality({x.c.work : x \in seen[key]}),
        modes |-> Cardinality({x.c.mode : x \in seen[key]})] : key \in DOMAIN seen}])>>)

Ok == LET f == Fails IN
      f = {} \/ PrintT(<<"BAD", ToJson([i |-> i, k |-> k, fails |-> f, diff |-> Diff])>>)
Done == TLCGet(1)
=============================================================================

------------------------------ MODULE TraceC04 ------------------------------
(* Code -> spec for C04: a case is one executed history                                          *)
(*   [steps |-> << [proc, prog, mode, seed, obs |-> <<pyi digest, errs digest, pickle digest>>,   *)
(*                  errs |-> <<<<line, name, msg digest>>>>] >>]                                   *)
(* replayed through Determinism's Observe action; the spec's table must stay consistent.          *)
EXTENDS Determinism, IOUtils, TLCExt

Cases == JsonDeserialize(IOEnv.TRACE_FILE)
VARIABLES i, k

TInit == Init /\ i = 1 /\ k = 0 /\ TLCSet(1, FALSE)
Step ==
  /\ i <= Len(Cases) /\ k < Len(Cases[i].steps)
  /\ LET s == Cases[i].steps[k + 1] IN
       Observe(s.proc, s.prog, s.mode, s.obs[1] \o "|" \o s.obs[2] \o "|" \o s.obs[3])
  /\ k' = k + 1 /\ i' = i
NextCase ==
  /\ i <= Len(Cases) /\ k = Len(Cases[i].steps)
  /\ i' = i + 1 /\ k' = 0
  /\ hist' = <<>> /\ table' = [p \in Progs |-> ""] /\ ok' = TRUE
  /\ (i' > Len(Cases) => TLCSet(1, TRUE))
TNext == Step \/ NextCase

Fails ==
  IF i > Len(Cases) \/ k = 0 THEN {}
  ELSE LET s == Cases[i].steps[k] IN
       (IF ~ok THEN {"differs"} ELSE {})
       \cup (IF ~SortedUnique(s.errs) THEN {"errors-unsorted-or-duplicated"} ELSE {})

Ok == LET f == Fails IN f = {} \/ PrintT(<<"BAD", ToJson([i |-> i, k |-> k, fails |-> f])>>)
Done == TLCGet(1)
=============================================================================

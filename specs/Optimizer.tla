------------------------------ MODULE Optimizer ------------------------------
(* pytype/pytd/optimize.py as a state machine: optimize.Optimize is a fixed pipeline of       *)
(* visitor passes over a declaration table; every pass is one action here.                    *)
(*                                                                                            *)
(* Declaration table (what pytd.TypeDeclUnit holds, flattened):                               *)
(*   tab.consts  sequence of [name, type]                                                     *)
(*   tab.funcs   sequence of [name, cls, sigs]  (cls = "" for module-level functions, else    *)
(*               the class the method belongs to; names are unique per (cls, name))           *)
(*   signature   [params, ret, exc]; parameter [name, kind, type, mut] (mut = TNone: no       *)
(*               mutated_type); exc: sequence of types                                        *)
(* Types are PytdDen terms.  Options (opt): deps (a dependency unit is given), lossy,         *)
(* max_union (0: off), remove_mutable, lookup (can_do_lookup), resolved (the input's classes are pytd.ClassType    *)
(* - terms "cls" - as in the ASTs pytype infers; FALSE: pytd.NamedType - terms "named" - as a  *)
(* freshly parsed stub has them; generic base types follow the same flag).                     *)
(* use_abcs only adds abc_hierarchy.SUPERCLASSES (unqualified names) to the bases table, so   *)
(* it is part of the hierarchy data, not of the pipeline.                                     *)
(*                                                                                            *)
(* Part 1: the passes as pure operators (also used by TraceC11 on recorded tables).           *)
(* Part 2: the property C11 as operators over (input table, output table): widening slot by   *)
(*         slot / signature coverage, allowed-change classification (upper envelope), and     *)
(*         idempotence.                                                                       *)
(* Part 3: the state machine, the generator of model tables and the invariants TLC checks.    *)
EXTENDS PytdDen, Json

-----------------------------------------------------------------------------
(* Part 1a: unions.  pytd.UnionType.__post_init__ flattens and removes duplicates, so every   *)
(* union node ever constructed is flat and duplicate free; JoinTypes additionally drops       *)
(* nothing, unwraps singletons and lets Any absorb everything (but keeps Any|None).           *)
RECURSIVE FlattenU(_)
FlattenU(s) ==
  IF s = <<>> THEN <<>>
  ELSE (IF Head(s)[1] = "union" THEN FlattenU(Head(s)[3]) ELSE <<Head(s)>>) \o FlattenU(Tail(s))

RECURSIVE DedupR(_, _)
DedupR(s, acc) ==
  IF s = <<>> THEN acc
  ELSE DedupR(Tail(s), IF \E k \in DOMAIN acc : acc[k] = Head(s) THEN acc ELSE Append(acc, Head(s)))
Dedup(s) == DedupR(s, <<>>)

MkUnion(ms) == TUnion(Dedup(FlattenU(ms)))          \* the constructor

IsNoneNamed(t) == t[1] = "named" /\ t[2] \in {"builtins.NoneType", "NoneType"}   \* a ClassType does not match

JoinTypes(s) ==                                      \* pytd_utils.JoinTypes
  LET f == SelectSeq(Dedup(FlattenU(s)), LAMBDA x : x[1] # "nothing") IN
  IF Len(f) = 1 THEN f[1]
  ELSE IF \E k \in DOMAIN f : f[k][1] = "any"
    THEN (IF \E k \in DOMAIN f : IsNoneNamed(f[k]) THEN TUnion(<<TAny, TNamed(NONETYPE)>>) ELSE TAny)
  ELSE IF f # <<>> THEN TUnion(f) ELSE TNothing

-----------------------------------------------------------------------------
(* Part 1b: the type-level visitors.  C is the pass context:                                  *)
(*   C.bases direct-bases table, C.ranc name -> ancestors by declared bases only (what        *)
(*   SuperClassHierarchy sees), C.maxu max_union, C.resolved.                                 *)
(* Visit is pytd's post-order node visitor: children first, the node is re-constructed if a   *)
(* child changed (unions through the constructor), then the pass's Visit<Node> hook runs.     *)
PassCtx(B, names, maxu, res) ==
  [bases |-> B, ranc |-> [c \in names |-> Ancestors(B, c)], maxu |-> maxu, resolved |-> res]

RAnc(C, c) == IF c \in DOMAIN C.ranc THEN C.ranc[c] ELSE Ancestors(C.bases, c)

CCKey(t) == IF t[1] = "gen" THEN <<"g", t[2], 0>> ELSE <<"t", t[2], Len(t[3])>>

ShouldMerge(kind, names, ms) ==                      \* CombineContainers._should_merge
  \/ \E k \in DOMAIN ms : ms[k][1] = "gen" /\ ms[k][2] \in names
  \/ \E i, j \in DOMAIN ms : ms[i][1] = kind /\ ms[j][1] = kind /\ Len(ms[i][3]) # Len(ms[j][3])

ZipJoin(a, b) == [k \in 1 .. Min2(Len(a), Len(b)) |-> JoinTypes(<<a[k], b[k]>>)]

(* collect: sequence of <<key, params>> in first-occurrence order *)
RECURSIVE CollectR(_, _, _)
CollectR(ms, k, acc) ==
  IF k > Len(ms) THEN acc
  ELSE LET t == ms[k] IN
       IF ~IsGenLike(t) THEN CollectR(ms, k + 1, acc)
       ELSE LET key == CCKey(t)
                hit == {x \in DOMAIN acc.c : acc.c[x][1] = key} IN
            IF hit = {} THEN CollectR(ms, k + 1, [c |-> Append(acc.c, <<key, t[3]>>), red |-> acc.red])
            ELSE LET x == CHOOSE y \in hit : TRUE IN
                 CollectR(ms, k + 1, [c |-> [acc.c EXCEPT ![x] = <<key, ZipJoin(acc.c[x][2], t[3])>>],
                                      red |-> TRUE])

Collected(c, key) == c[CHOOSE x \in DOMAIN c : c[x][1] = key][2]

RECURSIVE Visit(_, _, _), Local(_, _, _), CCUnion(_, _), CCResult(_, _, _, _, _, _)

CCResult(C, ms, k, done, result, coll) ==
  IF k > Len(ms) THEN result
  ELSE LET t == ms[k] IN
       IF IsGenLike(t)
         THEN LET key == CCKey(t) IN
              IF key \in done THEN CCResult(C, ms, k + 1, done, result, coll)
              ELSE LET ps == Collected(coll, key)
                       add == <<t[1], t[2], [i \in DOMAIN ps |-> Visit(C, "CombineContainers", ps[i])]>> IN
                   CCResult(C, ms, k + 1, done \cup {key}, JoinTypes(<<result, add>>), coll)
         ELSE CCResult(C, ms, k + 1, done, JoinTypes(<<result, t>>), coll)

CCUnion(C, u) ==                                     \* CombineContainers.VisitUnionType
  IF ~\E k \in DOMAIN u[3] : IsGenLike(u[3][k]) THEN u
  ELSE LET j == JoinTypes(u[3])
           ms0 == IF j[1] = "union" THEN j[3] ELSE <<j>>
           mt == ShouldMerge("tuple", TupleNames, ms0)
           mc == ShouldMerge("callable", {CALLABLE}, ms0)
           ms1 == [k \in DOMAIN ms0 |->
                     LET t == ms0[k] IN
                     IF mt /\ t[1] = "tuple" THEN TGen(t[2], <<JoinTypes(t[3])>>)
                     ELSE IF mc /\ t[1] = "callable" THEN TGen(t[2], <<TAny, t[3][Len(t[3])]>>)
                     ELSE t]                          \* union.Replace: no flattening, no dedup
           col == CollectR(ms1, 1, [c |-> <<>>, red |-> FALSE]) IN
       IF ~col.red THEN TUnion(ms1)
       ELSE CCResult(C, ms1, 1, {}, TNothing, col.c)

SCUnion(C, u) ==                                     \* SimplifyUnionsWithSuperclasses
  LET ms == u[3]
      clsNames == {ms[k][2] : k \in {x \in DOMAIN ms : IsClassLeaf(ms[x])}}
      Cnt(n) == Cardinality({d \in clsNames : d \in RAnc(C, n)}) IN
  JoinTypes(SelectSeq(ms, LAMBDA m : ~(IsClassLeaf(m) /\ Cnt(m[2]) >= 2)))

FCUnion(C, u) ==                                     \* FindCommonSuperClasses (lossy)
  LET ms == u[3] IN
  IF \E k \in DOMAIN ms : ~IsClassLeaf(ms[k]) THEN u   \* str(t) of a non-class is no class name
  ELSE LET all == UNION {RAnc(C, ms[k][2]) : k \in DOMAIN ms}
           inter == {c \in all : \A k \in DOMAIN ms : c \in RAnc(C, ms[k][2])}
           leaves == {c \in inter : ~\E d \in inter : c \in BasesOf(C.bases, d)} IN
       IF leaves = {} THEN u
       ELSE JoinTypes([k \in 1 .. Cardinality(leaves) |-> TNamed(SetToSeq(leaves)[k])])  \* order: set iteration

CLUnion(C, u) ==                                     \* CollapseLongUnions
  IF Len(u[3]) > C.maxu /\ ~\E k \in DOMAIN u[3] : u[3][k][1] = "lit" THEN TAny
  ELSE IF \E k \in DOMAIN u[3] : u[3][k][1] = "any" THEN JoinTypes(u[3])
  ELSE u

Local(C, p, t) ==
  CASE p = "SimplifyUnions" -> IF t[1] = "union" THEN JoinTypes(t[3]) ELSE t
    [] p = "CombineContainers" -> IF t[1] = "union" THEN CCUnion(C, t) ELSE t
    [] p = "SimplifyContainers" ->
         IF t[1] = "gen" /\ \A k \in DOMAIN t[3] : t[3][k][1] = "any"
           THEN (IF C.resolved THEN TCls(t[2]) ELSE TNamed(t[2]))       \* t.base_type itself
           ELSE t
    [] p = "SuperClasses" -> IF t[1] = "union" THEN SCUnion(C, t) ELSE t
    [] p = "FindCommon" -> IF t[1] = "union" THEN FCUnion(C, t) ELSE t
    [] p = "Collapse" -> IF t[1] = "union" THEN CLUnion(C, t) ELSE t
    [] p = "AdjustGeneric" -> IF t[1] = "cls" /\ t[2] = OBJECT THEN TAny ELSE t   \* VisitClassType only
    [] p = "Lookup" -> IF t[1] = "named" THEN TCls(t[2]) ELSE t
    [] OTHER -> t

Visit(C, p, t) ==
  IF t[3] = <<>> THEN Local(C, p, t)
  ELSE LET as == [k \in DOMAIN t[3] |-> Visit(C, p, t[3][k])] IN
       Local(C, p, IF as = t[3] THEN t ELSE IF t[1] = "union" THEN MkUnion(as) ELSE <<t[1], t[2], as>>)

-----------------------------------------------------------------------------
(* Part 1c: table-level passes *)
MapParam(C, p, q) == [q EXCEPT !.type = Visit(C, p, q.type),
                               !.mut = IF q.mut = TNone THEN TNone ELSE Visit(C, p, q.mut)]
MapSig(C, p, s) == [params |-> [k \in DOMAIN s.params |-> MapParam(C, p, s.params[k])],
                    ret |-> Visit(C, p, s.ret),
                    exc |-> [k \in DOMAIN s.exc |-> Visit(C, p, s.exc[k])]]
MapFuncs(tab, F(_)) == [tab EXCEPT !.funcs = [k \in DOMAIN tab.funcs |->
                          [tab.funcs[k] EXCEPT !.sigs = [i \in DOMAIN tab.funcs[k].sigs |-> F(tab.funcs[k].sigs[i])]]]]
MapTypes(C, p, tab) ==
  [consts |-> [k \in DOMAIN tab.consts |-> [tab.consts[k] EXCEPT !.type = Visit(C, p, tab.consts[k].type)]],
   funcs |-> MapFuncs(tab, LAMBDA s : MapSig(C, p, s)).funcs]

NormalizeSelf(C, tab) ==                             \* NormalizeGenericSelfTypes
  [tab EXCEPT !.funcs = [k \in DOMAIN tab.funcs |->
     LET f == tab.funcs[k] IN
     IF f.cls = "" THEN f
     ELSE [f EXCEPT !.sigs = [i \in DOMAIN f.sigs |->
             LET s == f.sigs[i] IN
             IF s.params # <<>> /\ s.params[1].name = "self" /\ s.params[1].type[1] = "gen"
                /\ s.params[1].type[2] = f.cls
               THEN [s EXCEPT !.params[1].type = IF C.resolved THEN TCls(f.cls) ELSE TNamed(f.cls)]
               ELSE s]]]]

RemoveDuplicates(tab) ==
  [tab EXCEPT !.funcs = [k \in DOMAIN tab.funcs |-> [tab.funcs[k] EXCEPT !.sigs = Dedup(tab.funcs[k].sigs)]]]

(* groups: sequence of [params, rets, excs] in first-occurrence order *)
RECURSIVE GroupR(_, _, _)
GroupR(sigs, k, acc) ==
  IF k > Len(sigs) THEN acc
  ELSE LET s == sigs[k]
           hit == {x \in DOMAIN acc : acc[x].params = s.params} IN
       IF hit = {}
         THEN GroupR(sigs, k + 1, Append(acc, [params |-> s.params, rets |-> <<s.ret>>, excs |-> Dedup(s.exc)]))
         ELSE LET x == CHOOSE y \in hit : TRUE IN
              GroupR(sigs, k + 1, [acc EXCEPT ![x].rets = Dedup(Append(@, s.ret)),
                                              ![x].excs = Dedup(@ \o s.exc)])

CombineReturns(tab) ==                               \* CombineReturnsAndExceptions
  [tab EXCEPT !.funcs = [k \in DOMAIN tab.funcs |->
     LET g == GroupR(tab.funcs[k].sigs, 1, <<>>) IN
     [tab.funcs[k] EXCEPT !.sigs = [i \in DOMAIN g |->
        [params |-> g[i].params, ret |-> JoinTypes(g[i].rets), exc |-> g[i].excs]]]]]

AdjustReturn(C, tab) ==                              \* AdjustReturnAndConstantGenericType
  [consts |-> [k \in DOMAIN tab.consts |->
                 [tab.consts[k] EXCEPT !.type = Visit(C, "AdjustGeneric", tab.consts[k].type)]],
   funcs |-> MapFuncs(tab, LAMBDA s : [s EXCEPT !.ret = Visit(C, "AdjustGeneric", s.ret)]).funcs]

AbsorbMutable(tab) ==                                \* AbsorbMutableParameters
  MapFuncs(tab, LAMBDA s : [s EXCEPT !.params = [k \in DOMAIN s.params |->
     IF s.params[k].mut = TNone THEN s.params[k]
     ELSE [s.params[k] EXCEPT !.type = JoinTypes(<<s.params[k].type, s.params[k].mut>>), !.mut = TNone]]])

AdjustSelf(tab) ==                                   \* visitors.AdjustSelf (force = False)
  [tab EXCEPT !.funcs = [k \in DOMAIN tab.funcs |->
     LET f == tab.funcs[k] IN
     IF f.cls = "" THEN f
     ELSE [f EXCEPT !.sigs = [i \in DOMAIN f.sigs |->
             [f.sigs[i] EXCEPT !.params = [j \in DOMAIN f.sigs[i].params |->
                LET q == f.sigs[i].params[j] IN
                IF q.name = "self" /\ q.type = TAny THEN [q EXCEPT !.type = TNamed(f.cls)] ELSE q]]]]]]

Passes == <<"NormalizeSelf", "RemoveDuplicates", "SimplifyUnions", "CombineReturns",
            "CombineContainers", "SimplifyContainers", "SuperClasses", "FindCommon", "Collapse",
            "AdjustReturn", "AbsorbMutable", "CombineContainers2", "MergeTypeParameters", "AdjustSelf",
            "SimplifyContainers2", "Lookup">>
NPasses == Len(Passes)

Enabled(opt, p) ==
  CASE p = "SuperClasses" -> opt.deps
    [] p = "FindCommon" -> opt.deps /\ opt.lossy
    [] p = "Collapse" -> opt.max_union > 0
    [] p \in {"AbsorbMutable", "CombineContainers2", "MergeTypeParameters", "AdjustSelf"} -> opt.remove_mutable
    [] p = "Lookup" -> opt.deps /\ opt.lookup
    [] OTHER -> TRUE

ApplyPass(C, p, tab) ==
  CASE p = "NormalizeSelf" -> NormalizeSelf(C, tab)
    [] p = "RemoveDuplicates" -> RemoveDuplicates(tab)
    [] p = "CombineReturns" -> CombineReturns(tab)
    [] p = "AdjustReturn" -> AdjustReturn(C, tab)
    [] p = "AbsorbMutable" -> AbsorbMutable(tab)
    [] p = "AdjustSelf" -> AdjustSelf(tab)
    [] p = "MergeTypeParameters" -> tab       \* tables here have no function-level type parameters
    [] p = "CombineContainers2" -> MapTypes(C, "CombineContainers", tab)
    [] p = "SimplifyContainers2" -> MapTypes(C, "SimplifyContainers", tab)
    [] OTHER -> MapTypes(C, p, tab)

RECURSIVE RunFrom(_, _, _, _, _)
RunFrom(B, names, opt, k, st) ==                     \* st = [tab, resolved]
  IF k > NPasses THEN st
  ELSE LET p == Passes[k] IN
       IF ~Enabled(opt, p) THEN RunFrom(B, names, opt, k + 1, st)
       ELSE RunFrom(B, names, opt, k + 1,
                    [tab |-> ApplyPass(PassCtx(B, names, opt.max_union, st.resolved), p, st.tab),
                     resolved |-> st.resolved \/ p = "Lookup"])

(* the whole of optimize.Optimize as one function (model prediction for recorded inputs) *)
OptimizeModel(B, names, opt, tab) == RunFrom(B, names, opt, 1, [tab |-> tab, resolved |-> opt.resolved])

-----------------------------------------------------------------------------
(* Part 2: property C11 over (table before, table after) *)
SigTypes(s) == {s.params[k].type : k \in DOMAIN s.params}
               \cup {s.params[k].mut : k \in {x \in DOMAIN s.params : s.params[x].mut # TNone}}
               \cup {s.ret} \cup ToSet(s.exc)
FuncTypes(f) == UNION {SigTypes(f.sigs[i]) : i \in DOMAIN f.sigs}
TabTypes(tab) == {tab.consts[k].type : k \in DOMAIN tab.consts}
                 \cup UNION {FuncTypes(tab.funcs[k]) : k \in DOMAIN tab.funcs}
NamesOfTypes(ts) == UNION {NamesIn(t) : t \in ts}

(* The upper envelope of the changes the lossless settings may make to one type: every       *)
(* container merge CombineContainers could do is done (same-base generics joined parameter    *)
(* by parameter, tuples of one arity joined item by item, otherwise degenerated to the        *)
(* homogeneous form, callables likewise), and a union that has more than mx members when      *)
(* flattened may have collapsed to Any (mx = 0: no collapsing).  Everything else the          *)
(* lossless passes do (duplicate removal, Any absorption, subclass absorption justified by    *)
(* the hierarchy, object -> Any, list[Any] -> list) leaves the denotation unchanged, so       *)
(* "only allowed changes" is: Den(in) <= Den(out) <= Den(Env(in)).                            *)
RECURSIVE Env(_, _), EnvMerge(_, _)
RetOf(t) == IF t[3] = <<>> THEN TAny ELSE t[3][Len(t[3])]
SeqUnion(ts) == IF ts = <<>> THEN TNothing ELSE TUnion(ts)
RECURSIVE ConcatAll(_)
ConcatAll(ss) == IF ss = <<>> THEN <<>> ELSE Head(ss) \o ConcatAll(Tail(ss))

EnvMerge(mx, ms) ==
  LET IsTup(t) == t[1] = "tuple" \/ (t[1] = "gen" /\ t[2] \in TupleNames)
      IsCal(t) == t[1] = "callable" \/ (t[1] = "gen" /\ t[2] = CALLABLE)
      tups == SelectSeq(ms, IsTup)
      cals == SelectSeq(ms, IsCal)
      gens == SelectSeq(ms, LAMBDA t : t[1] = "gen" /\ ~IsTup(t) /\ ~IsCal(t))
      rest == SelectSeq(ms, LAMBDA t : ~IsGenLike(t))
      tupM == IF Len(tups) <= 1 THEN tups
              ELSE IF \A k \in DOMAIN tups : tups[k][1] = "tuple" /\ Len(tups[k][3]) = Len(tups[1][3])
                THEN <<<<"tuple", tups[1][2],
                         [p \in DOMAIN tups[1][3] |-> Env(mx, TUnion([k \in DOMAIN tups |-> tups[k][3][p]]))]>>>>
                ELSE <<TGen(tups[1][2], <<Env(mx, SeqUnion(ConcatAll([k \in DOMAIN tups |-> tups[k][3]])))>>)>>
      calM == IF Len(cals) <= 1 THEN cals
              ELSE IF \A k \in DOMAIN cals : cals[k][1] = "callable" /\ Len(cals[k][3]) = Len(cals[1][3])
                THEN <<<<"callable", cals[1][2],
                         [p \in DOMAIN cals[1][3] |-> Env(mx, TUnion([k \in DOMAIN cals |-> cals[k][3][p]]))]>>>>
                ELSE <<TGen(CALLABLE, <<TAny, Env(mx, TUnion([k \in DOMAIN cals |-> RetOf(cals[k])]))>>)>>
      bases == {gens[k][2] : k \in DOMAIN gens}
      genM == [b \in bases |->
                 LET g == SelectSeq(gens, LAMBDA t : t[2] = b)
                     n == CHOOSE m \in {Len(g[k][3]) : k \in DOMAIN g} : \A k \in DOMAIN g : m <= Len(g[k][3]) IN
                 IF Len(g) = 1 THEN g[1]
                 ELSE TGen(b, [p \in 1 .. n |-> Env(mx, TUnion([k \in DOMAIN g |-> g[k][3][p]]))])]
      genS == [k \in 1 .. Cardinality(bases) |-> genM[SetToSeq(bases)[k]]] IN
  JoinTypes(rest \o tupM \o calM \o genS)

Env(mx, t) ==
  CASE t[1] \in {"gen", "tuple", "callable"} -> <<t[1], t[2], [k \in DOMAIN t[3] |-> Env(mx, t[3][k])]>>
    [] t[1] = "union" ->
         IF mx > 0 /\ Len(Dedup(FlattenU(t[3]))) > mx /\ ~\E k \in DOMAIN t[3] : t[3][k][1] = "lit" THEN TAny
         ELSE EnvMerge(mx, Dedup(FlattenU([k \in DOMAIN t[3] |-> Env(mx, t[3][k])])))
    [] OTHER -> t

(* J: judgement context = [ctx, U, opt] for one function or constant *)
Judge(B, types, opt, strict) ==
  LET names == NamesOfTypes(types)
      ctx == Ctx(B, names, strict) IN
  [ctx |-> ctx, U |-> UniverseOf(ctx, types, names), opt |-> opt]

JW(J, a, b) == Wider(J.ctx, J.U, a, b)

(* kinds of change of one type slot *)
SlotKind(J, a, b) ==
  IF a = b THEN "same"
  ELSE IF ~JW(J, a, b) THEN "NARROWED"
  ELSE IF JW(J, b, a) THEN "equivalent"
  ELSE IF JW(J, b, Env(0, a)) THEN "container-merge"
  ELSE IF J.opt.max_union > 0 /\ JW(J, b, Env(J.opt.max_union, a)) THEN "long-union-collapse"
  ELSE "lossy-widening"

Lossless(opt) == ~opt.lossy /\ ~opt.remove_mutable

(* parameter q (after) is never stricter than parameter p (before).  The implicit self of a   *)
(* method (type Any before) is exempt: AdjustSelf writes the class there.                      *)
ParamWider(J, isMethod, k, p, q) ==
  /\ p.name = q.name /\ p.kind = q.kind
  /\ \/ (isMethod /\ k = 1 /\ p.name = "self" /\ p.type = TAny)
     \/ JW(J, p.type, q.type)
  /\ IF q.mut = TNone
       THEN p.mut = TNone \/ (J.opt.remove_mutable /\ JW(J, p.mut, q.type))
       ELSE p.mut # TNone /\ JW(J, p.mut, q.mut)

SigWider(J, isMethod, s, o) ==
  /\ Len(s.params) = Len(o.params)
  /\ \A k \in DOMAIN s.params : ParamWider(J, isMethod, k, s.params[k], o.params[k])
  /\ JW(J, s.ret, o.ret)
  /\ JW(J, SeqUnion(s.exc), SeqUnion(o.exc))

(* (i) widening: every signature before is covered by a signature after *)
Uncovered(J, f, g) == {i \in DOMAIN f.sigs : ~\E j \in DOMAIN g.sigs : SigWider(J, f.cls # "", f.sigs[i], g.sigs[j])}

(* (iii) lossless settings: every signature after is the merge of the signatures before that  *)
(* have its parameters (up to allowed changes); its return and exceptions are theirs joined.   *)
(* The self parameter of a method is not a declared type (stubs print it bare):               *)
(* NormalizeGenericSelfTypes / AdjustSelf rewrite it to the class; it is exempt here.         *)
ParamBetween(J, isMethod, k, p, q) ==
  /\ p.name = q.name /\ p.kind = q.kind
  /\ \/ (isMethod /\ k = 1 /\ p.name = "self")
     \/ (JW(J, p.type, q.type) /\ JW(J, q.type, Env(J.opt.max_union, p.type)))
  /\ (p.mut = TNone) = (q.mut = TNone)
  /\ p.mut # TNone => (JW(J, p.mut, q.mut) /\ JW(J, q.mut, Env(J.opt.max_union, p.mut)))

GroupOf(J, f, o) == {i \in DOMAIN f.sigs :
                       /\ Len(f.sigs[i].params) = Len(o.params)
                       /\ \A k \in DOMAIN o.params : ParamBetween(J, f.cls # "", k, f.sigs[i].params[k], o.params[k])}

Unexplained(J, f, g) ==
  {j \in DOMAIN g.sigs :
     LET o == g.sigs[j]
         G == GroupOf(J, f, o) IN
     \/ G = {}
     \/ ~JW(J, o.ret, Env(J.opt.max_union, SeqUnion([k \in 1 .. Cardinality(G) |-> f.sigs[SetToSeq(G)[k]].ret])))
     \/ ~JW(J, SeqUnion(o.exc), SeqUnion(ConcatAll([k \in 1 .. Cardinality(G) |-> f.sigs[SetToSeq(G)[k]].exc])))}

FuncFails(B, opt, f, g) ==
  LET J == Judge(B, FuncTypes(f) \cup FuncTypes(g), opt, FALSE) IN
  (IF Uncovered(J, f, g) # {} THEN {<<"narrowed", f.cls, f.name, Uncovered(J, f, g)>>} ELSE {})
  \cup (IF Lossless(opt) /\ Unexplained(J, f, g) # {}
          THEN {<<"unexplained", f.cls, f.name, Unexplained(J, f, g)>>} ELSE {})

ConstFails(B, opt, c, d) ==
  LET J == Judge(B, {c.type, d.type}, opt, FALSE)
      k == SlotKind(J, c.type, d.type) IN
  IF k = "NARROWED" THEN {<<"narrowed", "", c.name, {}>>}
  ELSE IF Lossless(opt) /\ k = "lossy-widening" THEN {<<"unexplained", "", c.name, {}>>}
  ELSE {}

FuncKey(f) == <<f.cls, f.name>>
Shape(tab) == <<[k \in DOMAIN tab.consts |-> tab.consts[k].name], [k \in DOMAIN tab.funcs |-> FuncKey(tab.funcs[k])]>>

(* all failing clauses of "b is an allowed optimisation of a" (empty set = property holds).  *)
(* Declarations are matched by position; the optimiser never adds, drops or reorders them.    *)
TableFails(B, opt, a, b) ==
  IF Shape(a) # Shape(b) THEN {<<"shape", "", "", {}>>}
  ELSE UNION {ConstFails(B, opt, a.consts[k], b.consts[k]) : k \in DOMAIN a.consts}
       \cup UNION {FuncFails(B, opt, a.funcs[k], b.funcs[k]) : k \in DOMAIN a.funcs}

(* statistics: the kind of change of every constant / return / parameter slot that is         *)
(* matched one-to-one (functions whose signature count did not change)                        *)
TableKinds(B, opt, a, b) ==
  IF Shape(a) # Shape(b) THEN <<>>
  ELSE [k \in DOMAIN a.consts |->
          SlotKind(Judge(B, {a.consts[k].type, b.consts[k].type}, opt, FALSE), a.consts[k].type, b.consts[k].type)]
       \o ConcatAll([k \in DOMAIN a.funcs |->
            LET f == a.funcs[k]
                g == b.funcs[k] IN
            IF Len(f.sigs) # Len(g.sigs)
              THEN <<IF Len(g.sigs) < Len(f.sigs) THEN "signatures-merged" ELSE "signatures-added">>
              ELSE LET J == Judge(B, FuncTypes(f) \cup FuncTypes(g), opt, FALSE) IN
                   ConcatAll([i \in DOMAIN f.sigs |->
                     <<SlotKind(J, f.sigs[i].ret, g.sigs[i].ret)>> \o
                     [p \in 1 .. Min2(Len(f.sigs[i].params), Len(g.sigs[i].params)) |->
                        SlotKind(J, f.sigs[i].params[p].type, g.sigs[i].params[p].type)]])])

(* informational: slots that narrow when Callable parameters are read contravariantly *)
StrictNarrowed(B, opt, a, b) ==
  IF Shape(a) # Shape(b) THEN {}
  ELSE {k \in DOMAIN a.consts :
          ~JW(Judge(B, {a.consts[k].type, b.consts[k].type}, opt, TRUE), a.consts[k].type, b.consts[k].type)}

-----------------------------------------------------------------------------
(* Part 3: the state machine *)
CONSTANTS Family,        \* generator of input tables: "const" | "nested" | "long" | "func" | "func-small" | "mut" | "super"
          OptSet,        \* names of the option settings explored (see OptRec)
          CheckDen,      \* BOOLEAN: evaluate the denotational invariants (off for pure export runs)
          Export         \* BOOLEAN: print every input table (with its options) as a CASE line

VARIABLES hier,          \* direct-bases table of the unit and its dependencies (constant per behaviour)
          tab,           \* current declaration table
          pc,            \* index of the next pass (NPasses + 1: run finished)
          resolved,      \* classes are ClassType
          run,           \* 1 | 2  (Optimize is applied twice)
          opt,           \* options of this behaviour
          tab0,          \* the input of run 1
          prev,          \* table before the last pass, and its name
          last,
          out1,          \* output of run 1 (valid when run = 2)
          first          \* first pass of run 2 that changed the table ("" if none so far)
vars == <<hier, tab, pc, resolved, run, opt, tab0, prev, last, out1, first>>

(* --- the model's class hierarchy (a reduced image of builtins.pytd / typing.pytd) *)
ModelBases ==
  [c \in {"A", "B", "C", "G", "builtins.int", "builtins.bool", "builtins.float", "builtins.str",
          "builtins.NoneType", "builtins.object", "builtins.list", "builtins.dict", "builtins.set",
          "builtins.tuple", "typing.Callable", "typing.Sequence", "typing.SupportsInt",
          "typing.SupportsAbs", "typing.Hashable", "typing.Generic", "typing.Protocol"} |->
     CASE c = "B" -> <<"A">>
       [] c = "builtins.bool" -> <<"builtins.int", "typing.SupportsInt">>
       [] c \in {"builtins.int", "builtins.float"} -> <<"typing.SupportsInt", "typing.SupportsAbs">>
       [] c = "builtins.str" -> <<"typing.Sequence", "typing.Hashable">>
       [] c \in {"builtins.list", "builtins.tuple"} -> <<"typing.Sequence">>
       [] c \in {"typing.SupportsInt", "typing.Hashable", "typing.Sequence"} -> <<"typing.Protocol">>
       [] c \in {"typing.SupportsAbs", "typing.Callable"} -> <<"typing.Generic", "typing.Protocol">>
       [] c \in {"typing.Generic", "typing.Protocol", "builtins.NoneType", "A", "C", "G"} -> <<"builtins.object">>
       [] OTHER -> <<>>]
ModelNames == DOMAIN ModelBases

(* --- generator of input tables.  Unions are generated in one canonical member order.        *)
IntT == TCls("builtins.int")
BoolT == TCls("builtins.bool")
FloatT == TCls("builtins.float")
StrT == TCls("builtins.str")
NoneT == TCls("builtins.NoneType")
Obj == TCls("builtins.object")
ListOf(t) == TGen("builtins.list", <<t>>)
SetOf(t) == TGen("builtins.set", <<t>>)
DictOf(k, v) == TGen("builtins.dict", <<k, v>>)
HTup(t) == TGen("builtins.tuple", <<t>>)
CallAny(r) == TGen("typing.Callable", <<TAny, r>>)

AtomSeq == <<IntT, BoolT, FloatT, StrT, NoneT, Obj, TCls("A"), TCls("B"), TCls("C"), TAny, TNothing>>
RECURSIVE PickN(_, _)    \* all subsequences of s with exactly n members (canonical order kept)
PickN(s, n) ==
  IF n = 0 THEN {<<>>}
  ELSE IF Len(s) < n THEN {}
  ELSE {<<Head(s)>> \o r : r \in PickN(Tail(s), n - 1)} \cup PickN(Tail(s), n)

Unions2(s) == {TUnion(m) : m \in PickN(s, 2)}
Unions3(s) == {TUnion(m) : m \in PickN(s, 3)}

CoreSeq == <<IntT, BoolT, StrT, NoneT, TCls("A"), TCls("B")>>
ElemSeq == <<IntT, BoolT, StrT, TCls("A"), TCls("B"), TAny, Obj, NoneT>>
GenSeq ==
  [k \in DOMAIN ElemSeq |-> ListOf(ElemSeq[k])]
  \o <<ListOf(TUnion(<<IntT, StrT>>)), ListOf(TUnion(<<IntT, BoolT>>)), ListOf(TUnion(<<TCls("A"), TCls("B")>>)),
       SetOf(IntT), SetOf(StrT),
       DictOf(IntT, StrT), DictOf(StrT, IntT), DictOf(StrT, TAny), DictOf(IntT, IntT),
       HTup(IntT), HTup(StrT), HTup(TAny),
       TTuple(<<>>), TTuple(<<IntT>>), TTuple(<<StrT>>), TTuple(<<IntT, StrT>>), TTuple(<<StrT, StrT>>),
       TTuple(<<IntT, IntT>>), TTuple(<<BoolT, NoneT>>),
       TCallable(<<IntT>>), TCallable(<<IntT, IntT>>), TCallable(<<StrT, IntT>>), TCallable(<<IntT, StrT>>),
       TCallable(<<IntT, StrT, IntT>>), TCallable(<<IntT, IntT, StrT>>), CallAny(IntT), CallAny(StrT)>>
MixSeq == GenSeq \o <<IntT, NoneT, TAny, Obj, TCls("builtins.list"), TCls("builtins.tuple")>>
SmallGenSeq == <<ListOf(IntT), ListOf(StrT), ListOf(TAny), DictOf(IntT, StrT), DictOf(StrT, IntT), HTup(IntT),
                 TTuple(<<IntT>>), TTuple(<<IntT, StrT>>), TTuple(<<StrT, StrT>>), TCallable(<<IntT, IntT>>),
                 TCallable(<<StrT, IntT>>), TCallable(<<IntT, StrT, IntT>>), IntT, NoneT, TAny>>

TypesFlat == ToSet(AtomSeq) \cup Unions2(AtomSeq) \cup Unions3(CoreSeq) \cup ToSet(GenSeq)
TypesMix == Unions2(MixSeq) \cup Unions3(SmallGenSeq)
NestSeq == <<ListOf(ListOf(IntT)), ListOf(ListOf(StrT)), ListOf(TTuple(<<IntT>>)), ListOf(TTuple(<<IntT, StrT>>)),
             ListOf(HTup(IntT)), DictOf(StrT, ListOf(IntT)), DictOf(StrT, ListOf(StrT)), DictOf(IntT, ListOf(IntT)),
             TTuple(<<ListOf(IntT)>>), TTuple(<<ListOf(StrT)>>), TTuple(<<ListOf(IntT), IntT>>),
             ListOf(TUnion(<<ListOf(IntT), ListOf(StrT)>>)), ListOf(TUnion(<<IntT, TAny>>)),
             ListOf(TUnion(<<Obj, IntT>>)), TCallable(<<ListOf(IntT), IntT>>), TCallable(<<ListOf(StrT), IntT>>),
             ListOf(IntT), IntT, NoneT>>
TypesNested == ToSet(NestSeq) \cup Unions2(NestSeq) \cup Unions3(SubSeq(NestSeq, 1, 9))
LongSeq == <<IntT, BoolT, FloatT, StrT, NoneT, TCls("A"), TCls("B"), TCls("C"), ListOf(IntT)>>
TypesLong == {TUnion(m) : m \in PickN(LongSeq, 4)} \cup {TUnion(m) : m \in PickN(LongSeq, 8)}
             \cup {ListOf(TUnion(m)) : m \in PickN(SubSeq(LongSeq, 1, 6), 4)}
             \cup {TUnion(<<ListOf(TUnion(SubSeq(LongSeq, 1, 4))), ListOf(TUnion(SubSeq(LongSeq, 5, 8)))>>),
                   TUnion(<<ListOf(TUnion(<<IntT, BoolT>>)), ListOf(TUnion(<<StrT, NoneT>>))>>),
                   TUnion(<<ListOf(TUnion(<<IntT, BoolT>>)), ListOf(TUnion(<<StrT, NoneT>>)), TAny>>)}

(* generic containers next to DIFFERENTLY parameterised superclasses (absorption by a superclass  *)
(* must compare the type arguments), bare superclasses, and a class leaf under a generic base    *)
SeqT(t) == TGen("typing.Sequence", <<t>>)
SuperSeq == <<ListOf(IntT), ListOf(StrT), HTup(IntT), TTuple(<<IntT, StrT>>), StrT, TCls("builtins.list"),
              SeqT(IntT), SeqT(StrT), SeqT(TAny), TCls("typing.Sequence"), TGen("G", <<IntT>>), TCls("G"),
              Obj, NoneT, TCls("B"), TCls("A")>>
TypesSuper == Unions2(SuperSeq) \cup Unions3(SubSeq(SuperSeq, 1, 10))

Param(n, t) == [name |-> n, kind |-> "regular", type |-> t, mut |-> TNone]
Sig(ps, r) == [params |-> ps, ret |-> r, exc |-> <<>>]
ConstTab(t) == [consts |-> <<[name |-> "x", type |-> t]>>, funcs |-> <<>>]
FuncTab(cls, sigs) == [consts |-> <<>>, funcs |-> <<[name |-> "f", cls |-> cls, sigs |-> sigs]>>]

PSeq == <<IntT, BoolT, TUnion(<<IntT, BoolT>>), TUnion(<<ListOf(IntT), ListOf(StrT)>>), ListOf(TUnion(<<IntT, StrT>>)),
          TAny, TCls("A"), TUnion(<<TCls("A"), TCls("B")>>)>>
RSeq == <<IntT, StrT, NoneT, Obj, TAny, ListOf(IntT), ListOf(StrT), TTuple(<<IntT>>), TTuple(<<IntT, StrT>>),
          TUnion(<<IntT, NoneT>>)>>
ExcSeq == <<<<>>, <<TCls("A")>>, <<TCls("B")>>>>

FuncTabs(PI, RI) ==
  {FuncTab("", <<[params |-> <<Param("x", PSeq[p1])>>, ret |-> RSeq[r1], exc |-> ExcSeq[e1]],
                 [params |-> <<Param("x", PSeq[p2])>>, ret |-> RSeq[r2], exc |-> ExcSeq[e2]]>>) :
     p1 \in PI, p2 \in PI, r1 \in RI, r2 \in RI, e1 \in {1, 2}, e2 \in {1, 3}}
  \cup {FuncTab("", <<Sig(<<Param("x", PSeq[p1])>>, RSeq[r1]), Sig(<<Param("x", PSeq[p2])>>, RSeq[r2]),
                      Sig(<<Param("x", PSeq[p1])>>, RSeq[r1])>>) :
          p1 \in 1 .. 3, p2 \in 1 .. 3, r1 \in 1 .. 3, r2 \in 1 .. 3}

MutP == <<ListOf(IntT), ListOf(StrT), DictOf(IntT, StrT), TAny, TCls("builtins.list")>>
MutM == <<TNone, ListOf(StrT), ListOf(TUnion(<<IntT, StrT>>)), DictOf(StrT, IntT), ListOf(TAny), ListOf(IntT)>>
MutTabs ==
  {FuncTab("", <<[params |-> <<[name |-> "x", kind |-> "regular", type |-> MutP[p], mut |-> MutM[m]]>>,
                  ret |-> RSeq[r], exc |-> <<>>]>>) : p \in DOMAIN MutP, m \in DOMAIN MutM, r \in {3, 4}}
  \cup {FuncTab("G", <<[params |-> <<[name |-> "self", kind |-> "regular", type |-> s, mut |-> m],
                                     Param("y", PSeq[p])>>, ret |-> RSeq[r], exc |-> <<>>]>>) :
          s \in {TAny, TCls("G"), TGen("G", <<IntT>>), TGen("G", <<TUnion(<<IntT, StrT>>)>>)},
          m \in {TNone, TGen("G", <<StrT>>)}, p \in {1, 4}, r \in {3, 6}}

Tables ==
  CASE Family = "const" -> {ConstTab(t) : t \in TypesFlat \cup TypesMix}
    [] Family = "nested" -> {ConstTab(t) : t \in TypesNested}
    [] Family = "long" -> {ConstTab(t) : t \in TypesLong}
                          \cup {FuncTab("", <<Sig(<<Param("x", t)>>, t)>>) : t \in TypesLong}
    [] Family = "func" -> FuncTabs(DOMAIN PSeq, DOMAIN RSeq)
    [] Family = "func-small" -> FuncTabs({2, 3, 4, 5, 7, 8}, {1, 3, 4, 6, 7, 9})
    [] Family = "mut" -> MutTabs
    [] Family = "super" -> {ConstTab(t) : t \in TypesSuper}
                           \cup {FuncTab("", <<Sig(<<Param("x", t)>>, t)>>) : t \in Unions2(SubSeq(SuperSeq, 1, 10))}

(* --- actions: one per pass of optimize.Optimize *)
Ctx0 == PassCtx(hier, DOMAIN hier, opt.max_union, resolved)

(* option settings: "io" is exactly what io.generate_pyi_ast passes *)
OptIO == [deps |-> TRUE, lossy |-> FALSE, max_union |-> 7, remove_mutable |-> FALSE, lookup |-> TRUE,
          resolved |-> TRUE]
OptRec(n) ==
  CASE n = "io" -> OptIO
    [] n = "named" -> [OptIO EXCEPT !.resolved = FALSE]
    [] n = "named-nolookup" -> [OptIO EXCEPT !.resolved = FALSE, !.lookup = FALSE]
    [] n = "max3" -> [OptIO EXCEPT !.max_union = 3]
    [] n = "nomax" -> [OptIO EXCEPT !.max_union = 0]
    [] n = "mutable" -> [OptIO EXCEPT !.remove_mutable = TRUE]
    [] n = "lossy" -> [OptIO EXCEPT !.lossy = TRUE]
    [] n = "nodeps" -> [OptIO EXCEPT !.deps = FALSE]
    [] n = "lossy-mutable-max3" -> [OptIO EXCEPT !.lossy = TRUE, !.remove_mutable = TRUE, !.max_union = 3]

RECURSIVE ToNamed(_)
ToNamed(t) == IF t[1] = "cls" THEN TNamed(t[2]) ELSE <<t[1], t[2], [k \in DOMAIN t[3] |-> ToNamed(t[3][k])]>>
NamedTab(t) ==
  [consts |-> [k \in DOMAIN t.consts |-> [t.consts[k] EXCEPT !.type = ToNamed(@)]],
   funcs |-> MapFuncs(t, LAMBDA s :
               [params |-> [k \in DOMAIN s.params |-> [s.params[k] EXCEPT !.type = ToNamed(@), !.mut = ToNamed(@)]],
                ret |-> ToNamed(s.ret), exc |-> [k \in DOMAIN s.exc |-> ToNamed(s.exc[k])]]).funcs]

Init ==
  /\ opt \in {OptRec(n) : n \in OptSet}
  /\ hier = ModelBases
  /\ \E t \in Tables : tab = IF opt.resolved THEN t ELSE NamedTab(t)
  /\ tab0 = tab /\ prev = tab /\ last = "" /\ out1 = tab
  /\ pc = 1 /\ run = 1 /\ resolved = opt.resolved /\ first = ""

Step(p) ==
  /\ pc <= NPasses /\ Passes[pc] = p
  /\ pc' = pc + 1
  /\ IF Enabled(opt, p)
       THEN /\ tab' = ApplyPass(Ctx0, p, tab)
            /\ prev' = tab /\ last' = p
            /\ resolved' = (resolved \/ p = "Lookup")
            /\ first' = IF run = 2 /\ first = "" /\ tab' # tab THEN p ELSE first
       ELSE UNCHANGED <<tab, prev, last, resolved, first>>
  /\ UNCHANGED <<hier, run, opt, tab0, out1>>

NormalizeGenericSelfTypes == Step("NormalizeSelf")
RemoveDuplicateSignatures == Step("RemoveDuplicates")
SimplifyUnions == Step("SimplifyUnions")
CombineReturnsAndExceptions == Step("CombineReturns")
CombineContainers == Step("CombineContainers")
SimplifyContainers == Step("SimplifyContainers")
SimplifyUnionsWithSuperclasses == Step("SuperClasses")
FindCommonSuperClasses == Step("FindCommon")
CollapseLongUnions == Step("Collapse")
AdjustReturnAndConstantGenericType == Step("AdjustReturn")
AbsorbMutableParameters == Step("AbsorbMutable")
CombineContainersAgain == Step("CombineContainers2")
MergeTypeParameters == Step("MergeTypeParameters")
AdjustSelfParameters == Step("AdjustSelf")
SimplifyContainersAgain == Step("SimplifyContainers2")
LookupClasses == Step("Lookup")

Again ==       \* feed the output to Optimize once more
  /\ pc = NPasses + 1 /\ run = 1
  /\ run' = 2 /\ pc' = 1 /\ out1' = tab /\ prev' = tab /\ last' = ""
  /\ UNCHANGED <<hier, tab, resolved, opt, tab0, first>>

Next ==
  \/ NormalizeGenericSelfTypes \/ RemoveDuplicateSignatures \/ SimplifyUnions
  \/ CombineReturnsAndExceptions \/ CombineContainers \/ SimplifyContainers
  \/ SimplifyUnionsWithSuperclasses \/ FindCommonSuperClasses \/ CollapseLongUnions
  \/ AdjustReturnAndConstantGenericType \/ AbsorbMutableParameters \/ CombineContainersAgain \/ MergeTypeParameters
  \/ AdjustSelfParameters \/ SimplifyContainersAgain \/ LookupClasses \/ Again

Spec == Init /\ [][Next]_vars

(* --- invariants *)
(* every single pass only widens: no slot is narrowed, no signature loses coverage *)
EachPassWidens ==
  CheckDen => \A x \in TableFails(ModelBases, [opt EXCEPT !.lossy = TRUE, !.remove_mutable = TRUE], prev, tab) :
                 x[1] # "narrowed" /\ x[1] # "shape"

(* the whole pipeline only widens, and with lossless settings changes only in allowed ways *)
PipelineAllowed ==
  (CheckDen /\ pc = NPasses + 1 /\ run = 1) => TableFails(ModelBases, opt, tab0, tab) = {}

(* Optimize(Optimize(x)) = Optimize(x) *)
Idempotent == (pc = NPasses + 1 /\ run = 2) => tab = out1

(* the same, reporting instead of stopping: one NONIDEM line per input whose second run changes *)
(* something; first = the first pass of the second run that changed the table                  *)
IdempotentReport ==
  (pc = NPasses + 1 /\ run = 2 /\ tab # out1) =>
     PrintT(<<"NONIDEM", ToJson([tab |-> tab0, opt |-> opt, out1 |-> out1, out2 |-> tab, first |-> first])>>)

(* the step function agrees with the closed form used for predictions *)
ClosedForm ==
  (pc = NPasses + 1 /\ run = 1) => tab = OptimizeModel(ModelBases, ModelNames, opt, tab0).tab

ExportInv ==
  (Export /\ pc = 1 /\ run = 1) => PrintT(<<"CASE", ToJson([tab |-> tab, opt |-> opt])>>)

ExportOnly == pc = 1 /\ run = 1        \* CONSTRAINT of export runs: initial states only

(* sanity of the oracle itself: a type never admits less than one of its union members, and   *)
(* the envelope is an upper bound                                                              *)
OracleSane ==
  (CheckDen /\ pc = 1 /\ run = 1) =>
     \A t \in TabTypes(tab) :
        LET J == Judge(ModelBases, {t}, opt, FALSE) IN
        /\ JW(J, t, Env(0, t)) /\ JW(J, Env(0, t), Env(3, t))
        /\ t[1] = "union" => \A k \in DOMAIN t[3] : JW(J, t[3][k], t)
=============================================================================

------------------------------ MODULE TraceC08 ------------------------------
(* Code -> spec for C08: histories (spec behaviours of Typegraph.tla / TypegraphEpoch.tla:   *)
(* mutators and queries interleaved) were executed on one long-lived cfg.Program.  Each       *)
(* record carries the operation, the projected real graph after it, and for queries the       *)
(* long-lived answer r and the answer rr of a replica rebuilt from scratch to the same state. *)
(* The spec state is advanced by Typegraph's own actions.  Verdicts (BAD lines):              *)
(*   fresh : r # rr                      (C08: answer of a freshly built copy)               *)
(*   flip  : same query, no mutation in between, different answer                             *)
(*   ref   : on an acyclic unconditioned graph r # SolverRef (C07 oracle on the real graph)   *)
(* A BAD line also carries what the spec knows about the failing query's *cache epoch* (the   *)
(* stretch since the last node/edge creation, see TypegraphEpoch.tla):                        *)
(*   cyc     : the spec's graph (advanced by the spec's own actions) is cyclic - the           *)
(*             discriminator of the known findings on cyclic graphs                           *)
(*   muts    : mutator kinds of the latest mutator block before the query                     *)
(*   renewed : a query preceded that block and a new solver instance was observed since (a    *)
(*             stale answer then comes from state that outlives the solver)                   *)
(*   pc      : nodes m on a backward path of this very query that were walked by an identical *)
(*             earlier query while unconditioned and got a condition (None -> binding)        *)
(*             afterwards, with no node/edge created since (the path-cond shape)              *)
(* COV lines (coverage, for the vacuity guards): a query with pc # {} was judged.             *)
(* DIV lines (informational): the spec state differs from the projected real graph.           *)
EXTENDS Typegraph, IOUtils, TLCExt

Cases == JsonDeserialize(IOEnv.TRACE_FILE)

VARIABLES i, k, asked, memo, ep
ToSet(s) == {s[x] : x \in DOMAIN s}

GraphOfObs(o) ==
  [nn |-> o.nn, edges |-> ToSet(o.edges), cond |-> o.cond, bvar |-> o.bvar,
   origins |-> {[b |-> x.b, n |-> x.n, ss |-> ToSet(x.ss)] : x \in ToSet(o.origins)}]

SpecGraph == [nn |-> nn, edges |-> edges, cond |-> cond, bvar |-> bvar, origins |-> origins]

Apply(o) ==
  CASE o.op = "NewCFGNode" -> NewCFGNode(o.c)
    [] o.op = "ConnectNew" -> ConnectNew(o.a, o.c)
    [] o.op = "ConnectTo" -> ConnectTo(o.a, o.b)
    [] o.op = "NewVariable" -> NewVariable
    [] o.op = "AddBinding" -> AddBinding(o.v, o.d, o.n, ToSet(o.ss))
    [] o.op = "AddOrigin" -> AddOrigin(o.b, o.n, ToSet(o.ss))
    [] o.op = "SetCondition" -> SetCondition(o.n, o.c)
    [] o.op = "PasteBinding" -> PasteBinding(o.v, o.b, o.n, ToSet(o.ss))
    [] o.op = "AssignToNewVariable" -> AssignToNewVariable(o.b, o.n)
    [] o.op = "PasteBindingWithNewData" -> PasteBindingWithNewData(o.v, o.b, o.d)
    [] o.op = "Query" -> Query(o.n, ToSet(o.G))
    [] o.op = "End" -> End

(* memo: SolverRef and the path relation of the real graph, computed once per graph (the      *)
(* graph cannot change between two consecutive queries) instead of once per query.           *)
NoMemo == [set |-> FALSE, g |-> 0, plain |-> FALSE, S |-> {}, R |-> {}]
MemoFor(g) ==
  LET plain == Acyclic(g) /\ ~HasCond(g) IN
  [set |-> TRUE, g |-> g, plain |-> plain,
   S |-> IF plain THEN Explainable(g, FALSE) ELSE {}, R |-> PathRel(g)]

(* epoch bookkeeping: walk = <<n, G, m>>: query (n, G) was asked while the unconditioned node *)
(* m lay strictly behind n on a backward path to an origin of a goal; stale = those whose m   *)
(* was conditioned since; both forgotten when a node or an edge is created.                   *)
NoEpoch == [walk |-> {}, stale |-> {}, muts |-> {}, nsq |-> 0, afterq |-> FALSE]
Topological == {"NewCFGNode", "ConnectNew", "ConnectTo"}
Between(g, R, n, G) ==
  {m \in GNodes(g) \ {n} :
     /\ g.cond[m] = 0 /\ <<m, n>> \in R
     /\ \E o \in g.origins : o.b \in G /\ o.n # m /\ <<o.n, m>> \in R}

EpochAfter(o, m2) ==
  IF o.op = "End" THEN ep
  ELSE IF o.op = "Query"
    THEN [ep EXCEPT !.afterq = TRUE,
                    !.walk = @ \cup {<<o.n, ToSet(o.G), m>> : m \in Between(m2.g, m2.R, o.n, ToSet(o.G))}]
  ELSE LET e1 == [ep EXCEPT !.afterq = FALSE,
                            !.muts = IF ep.afterq \/ k = 0 THEN {o.op} ELSE @ \cup {o.op},
                            !.nsq = IF ep.afterq THEN Cases[i].obs[k].ns ELSE @] IN
       IF o.op \in Topological THEN [e1 EXCEPT !.walk = {}, !.stale = {}]
       ELSE IF o.op = "SetCondition" /\ o.c # 0 /\ cond[o.n] = 0
         THEN [e1 EXCEPT !.stale = @ \cup {t \in ep.walk : t[3] = o.n}]
       ELSE e1

TInit == Init /\ i = 1 /\ k = 0 /\ asked = <<>> /\ memo = NoMemo /\ ep = NoEpoch
         /\ TLCSet(1, FALSE)

Step ==
  /\ i <= Len(Cases) /\ k < Len(Cases[i].ops)
  /\ LET o == Cases[i].ops[k + 1] IN
       /\ Apply(o)
       /\ asked' = IF o.op = "Query"
                     THEN Append(asked, <<o.n, ToSet(o.G), Cases[i].obs[k + 1].r>>)
                     ELSE <<>>
       /\ memo' = IF o.op # "Query" THEN memo
                  ELSE LET g == GraphOfObs(Cases[i].obs[k + 1].g) IN
                       IF memo.set /\ memo.g = g THEN memo ELSE MemoFor(g)
       /\ ep' = EpochAfter(o, memo')
  /\ k' = k + 1 /\ i' = i

NextCase ==
  /\ i <= Len(Cases) /\ k = Len(Cases[i].ops)
  /\ i' = i + 1 /\ k' = 0 /\ asked' = <<>> /\ memo' = NoMemo /\ ep' = NoEpoch
  /\ nn' = 0 /\ edges' = {} /\ cond' = <<>> /\ bvar' = <<>> /\ bdata' = <<>>
  /\ origins' = {} /\ nv' = 0 /\ hist' = <<>>
  /\ (i' > Len(Cases) => TLCSet(1, TRUE))

TNext == Step \/ NextCase

Fails ==
  IF i > Len(Cases) \/ k = 0 THEN {}
  ELSE LET o == Cases[i].ops[k]
           ob == Cases[i].obs[k] IN
       IF o.op # "Query" THEN {}
       ELSE LET g == GraphOfObs(ob.g)
                G == ToSet(o.G)
                fresh == IF ob.r # ob.rr THEN {"fresh"} ELSE {}
                flip == IF \E x \in DOMAIN asked : asked[x][1] = o.n /\ asked[x][2] = G
                                                   /\ asked[x][3] # ob.r
                          THEN {"flip"} ELSE {}
                ref == IF memo.plain /\ ob.r # (<<o.n, G>> \in memo.S)   \* memo.g = g here
                         THEN {"ref"} ELSE {}
            IN fresh \cup flip \cup ref

(* the path-cond shape at the query just judged *)
PathCond ==
  IF i > Len(Cases) \/ k = 0 THEN {}
  ELSE LET o == Cases[i].ops[k] IN
       IF o.op # "Query" THEN {}
       ELSE {t[3] : t \in {s \in ep.stale : s[1] = o.n /\ s[2] = ToSet(o.G)}}

Conforms ==
  (i <= Len(Cases) /\ k >= 1) => SpecGraph = GraphOfObs(Cases[i].obs[k].g)

Ok ==
  /\ LET f == Fails IN
       f = {} \/ PrintT(<<"BAD", ToJson([i |-> i, k |-> k, fails |-> f, pc |-> PathCond,
                                         muts |-> ep.muts, cyc |-> ~Acyclic(SpecGraph),
                                         renewed |-> ep.nsq > 0 /\ Cases[i].obs[k].ns > ep.nsq])>>)
  /\ LET pc == PathCond IN pc = {} \/ PrintT(<<"COV", ToJson([i |-> i, k |-> k, m |-> pc])>>)
  /\ Conforms \/ PrintT(<<"DIV", ToJson([i |-> i, k |-> k])>>)

Done == TLCGet(1)
=============================================================================

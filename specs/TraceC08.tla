------------------------------ MODULE TraceC08 ------------------------------
(* Code -> spec for C08: histories (spec behaviours of Typegraph.tla: mutators and queries    *)
(* interleaved) were executed on one long-lived cfg.Program.  Each record carries the        *)
(* operation, the projected real graph after it, and for queries the long-lived answer r and  *)
(* the answer rr of a replica rebuilt from scratch to the same state.                         *)
(* The spec state is advanced by Typegraph's own actions.  Verdicts (BAD lines):              *)
(*   fresh : r # rr                      (C08: answer of a freshly built copy)               *)
(*   flip  : same query, no mutation in between, different answer                             *)
(*   ref   : on an acyclic unconditioned graph r # SolverRef (C07 oracle on the real graph)   *)
(* DIV lines (informational): the spec state differs from the projected real graph.           *)
EXTENDS Typegraph, IOUtils, TLCExt

Cases == JsonDeserialize(IOEnv.TRACE_FILE)

VARIABLES i, k, asked
ToSet(s) == {s[x] : x \in DOMAIN s}

GraphOfObs(o) ==
  [nn |-> o.nn, edges |-> ToSet(o.edges), cond |-> o.cond, bvar |-> o.bvar,
   origins |-> {[b |-> x.b, n |-> x.n, ss |-> ToSet(x.ss)] : x \in ToSet(o.origins)}]

SpecGraph == [nn |-> nn, edges |-> edges, cond |-> cond, bvar |-> bvar, origins |-> origins]

Apply(o) ==
  CASE o.op = "NewCFGNode" -> NewCFGNode(o.c)
    [] o.op = "ConnectNew" -> ConnectNew(o.a, o.c)
    [] o.op = "ConnectTo" -> ConnectTo(o.a, o.b)
    [] o.op = "NewVariable" -> NewVariable
    [] o.op = "AddBinding" -> AddBinding(o.v, o.d, o.n, ToSet(o.ss))
    [] o.op = "AddOrigin" -> AddOrigin(o.b, o.n, ToSet(o.ss))
    [] o.op = "SetCondition" -> SetCondition(o.n, o.c)
    [] o.op = "PasteBinding" -> PasteBinding(o.v, o.b, o.n, ToSet(o.ss))
    [] o.op = "AssignToNewVariable" -> AssignToNewVariable(o.b, o.n)
    [] o.op = "PasteBindingWithNewData" -> PasteBindingWithNewData(o.v, o.b, o.d)
    [] o.op = "Query" -> Query(o.n, ToSet(o.G))
    [] o.op = "End" -> End

TInit == Init /\ i = 1 /\ k = 0 /\ asked = <<>> /\ TLCSet(1, FALSE)

Step ==
  /\ i <= Len(Cases) /\ k < Len(Cases[i].ops)
  /\ LET o == Cases[i].ops[k + 1] IN
       /\ Apply(o)
       /\ asked' = IF o.op = "Query"
                     THEN Append(asked, <<o.n, ToSet(o.G), Cases[i].obs[k + 1].r>>)
                     ELSE <<>>
  /\ k' = k + 1 /\ i' = i

NextCase ==
  /\ i <= Len(Cases) /\ k = Len(Cases[i].ops)
  /\ i' = i + 1 /\ k' = 0 /\ asked' = <<>>
  /\ nn' = 0 /\ edges' = {} /\ cond' = <<>> /\ bvar' = <<>> /\ bdata' = <<>>
  /\ origins' = {} /\ nv' = 0 /\ hist' = <<>>
  /\ (i' > Len(Cases) => TLCSet(1, TRUE))

TNext == Step \/ NextCase

Fails ==
  IF i > Len(Cases) \/ k = 0 THEN {}
  ELSE LET o == Cases[i].ops[k]
           ob == Cases[i].obs[k] IN
       IF o.op # "Query" THEN {}
       ELSE LET g == GraphOfObs(ob.g)
                G == ToSet(o.G)
                fresh == IF ob.r # ob.rr THEN {"fresh"} ELSE {}
                flip == IF \E x \in DOMAIN asked : asked[x][1] = o.n /\ asked[x][2] = G
                                                   /\ asked[x][3] # ob.r
                          THEN {"flip"} ELSE {}
                ref == IF Acyclic(g) /\ ~HasCond(g) /\ ob.r # (<<o.n, G>> \in Explainable(g, FALSE))
                         THEN {"ref"} ELSE {}
            IN fresh \cup flip \cup ref

Conforms ==
  (i <= Len(Cases) /\ k >= 1) => SpecGraph = GraphOfObs(Cases[i].obs[k].g)

Ok ==
  /\ LET f == Fails IN f = {} \/ PrintT(<<"BAD", ToJson([i |-> i, k |-> k, fails |-> f])>>)
  /\ Conforms \/ PrintT(<<"DIV", ToJson([i |-> i, k |-> k])>>)

Done == TLCGet(1)
=============================================================================

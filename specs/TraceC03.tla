------------------------------ MODULE TraceC03 ------------------------------
(* Code -> spec for C03.  Three kinds of recorded cases (field kind):                         *)
(*  "ls"  ring 1: a sequence of set_line / start_range calls was applied to a real            *)
(*        directors._LineSet; after every call the membership of every line, the private      *)
(*        fields and get_disable_after were recorded.  The spec's _LineSet machine is advanced *)
(*        with its own action LsOp.                                                           *)
(*  "dir" ring 2: a file (source skeleton + directive placement chosen by TLC) was given to   *)
(*        the real parser and Director; filter_error was asked about a synthetic error for    *)
(*        every (name, line, return-opcode?).  The spec's pipeline Parse/Process/Finish is    *)
(*        advanced on the same file record; the verdict is the declarative meaning.           *)
(*        Then the errors C.lq = [name, op, xl, ret] were raised through the real             *)
(*        ErrorLog.error (a stack whose top opcode sits on line op, `line=xl`) with the       *)
(*        Director's filter installed; C.lobs = [logged?, final line of the error object].    *)
(*        The spec raises the same errors with its actions ErrCreate / ErrLine /              *)
(*        ErrFilterAdd; verdict: logged iff the ASKED line carries no directive for it.       *)
(*  "tables" the two error-class tables of directors.py as imported from the code; verdict:   *)
(*        they are the pinned tables of DirectivesOps.                                        *)
(*  "e2e" ring 3: pytype analysed a program before and after a directive was written for one  *)
(*        reported error; the verdict is the property as worded.  The attribution of a        *)
(*        failing clause to the known finding "a directive on a continuation line is also     *)
(*        registered on the first line" is computed here from the PINNED table.               *)
(* Verdicts are total: BAD lines name every failing clause; DIV lines report differences      *)
(* between the operational model and the code that are not verdicts; OBS lines report cases   *)
(* in which the documented exception (strict # documented reading) is observable.             *)
EXTENDS Directives, TLCExt

Cases == JsonDeserialize(IOEnv.TRACE_FILE)

VARIABLES i, k
tvars == <<i, k, vars>>

C == Cases[i]

Reset ==
  /\ file' = NoFile /\ phase' = "idle" /\ items' = <<>> /\ pc' = 0 /\ st' = St0(NoFile)
  /\ late' = {} /\ one' = LsEmpty /\ hist' = <<>> /\ elog' = ELog0

TInit ==
  /\ i = 1 /\ k = 0 /\ TLCSet(1, FALSE)
  /\ file = NoFile /\ phase = "idle" /\ items = <<>> /\ pc = 0 /\ st = St0(NoFile)
  /\ late = {} /\ one = LsEmpty /\ hist = <<>> /\ elog = ELog0

(* ring 1 *)
LsBegin ==
  /\ C.kind = "ls" /\ phase = "idle" /\ phase' = "ls" /\ k' = 0 /\ i' = i
  /\ UNCHANGED <<file, items, pc, st, late, one, hist, elog>>
LsStep ==
  /\ C.kind = "ls" /\ phase = "ls" /\ k < Len(C.ops)
  /\ LET o == C.ops[k + 1] IN LsOp(o.op, o.l, o.m)
  /\ k' = k + 1 /\ i' = i
LsEnd == C.kind = "ls" /\ phase = "ls" /\ k = Len(C.ops)

(* ring 2 *)
Load ==
  /\ C.kind = "dir" /\ phase = "idle"
  /\ file' = FileOfJson(C.f) /\ phase' = "build" /\ k' = 0 /\ i' = i
  /\ UNCHANGED <<items, pc, st, late, one, hist, elog>>
DirStep ==
  /\ C.kind = "dir" /\ phase \in {"build", "run"}
  /\ (Parse \/ Process \/ Finish)
  /\ k' = k + 1 /\ i' = i
(* the recorded raises, one after the other, through the spec's ErrorLog actions *)
UOf(x) == [name |-> C.lq[x][1], op |-> C.lq[x][2], xl |-> C.lq[x][3], ret |-> C.lq[x][4]]
LogStep ==
  /\ C.kind = "dir" /\ phase \in {"done", "err-new", "err-lined"}
  /\ \/ (elog.n < Len(C.lq) /\ ErrCreate(UOf(elog.n + 1)))
     \/ ErrLine \/ ErrFilterAdd
  /\ k' = k + 1 /\ i' = i
DirEnd == C.kind = "dir" /\ phase = "done" /\ elog.n = Len(C.lq)

E2E == C.kind \in {"e2e", "tables"} /\ phase = "idle"

NextCase ==
  /\ (LsEnd \/ DirEnd \/ E2E)
  /\ i' = i + 1 /\ k' = 0 /\ Reset
  /\ (i' > Len(Cases) => TLCSet(1, TRUE))

TNext == i <= Len(Cases) /\ (LsBegin \/ LsStep \/ Load \/ DirStep \/ LogStep \/ NextCase)

-----------------------------------------------------------------------------
(* ring 1 verdict: on histories that respect the documented precondition the real object's    *)
(* membership is what the history says                                                        *)
LsLinesOf(c) == 0 .. c.maxline
LsFails ==
  LET ob == C.obs[k]
      h == SelectSeq(hist, LAMBDA o : ~o.raised) IN
  IF HistMonotone(h)
    THEN {<<"ls-member", l>> : l \in {x \in LsLinesOf(C) : ob.mem[x + 1] # HistMember(h, x)}}
    ELSE {}
LsDivs ==
  LET ob == C.obs[k] IN
  {<<"ls-model-member", l>> : l \in {x \in LsLinesOf(C) : ob.mem[x + 1] # LsContains(one, x)}}
  \cup {<<"ls-model-after", l>> : l \in {x \in LsLinesOf(C) : ob.after[x + 1] # LsDisableAfter(one, x)}}
  \cup (IF ob.raised # hist[k].raised THEN {<<"ls-model-raise", k>>} ELSE {})
  \cup (IF ToSet(ob.on) # one.on \/ ToSet(ob.off) # one.off \/ ob.trans # one.trans
          THEN {<<"ls-model-state", k>>} ELSE {})

-----------------------------------------------------------------------------
(* ring 2 verdict: every answer of filter_error is the declarative one (documented reading)   *)
QOf(x) == [name |-> C.qs[x][1], line |-> C.qs[x][2], ret |-> C.qs[x][3]]
ObsLs(o) == [on |-> ToSet(o.on), off |-> ToSet(o.off), trans |-> o.trans]
DirVerdict ==
  LET Q == DOMAIN C.qs
      r == [ls |-> st.ls, br |-> st.br]
      D == [y \in Q |-> DeclFilter(file, items, QOf(y), TRUE)]      \* documented reading
      S == [y \in Q |-> DeclFilter(file, items, QOf(y), FALSE)]     \* strict reading
      M == [y \in Q |-> FilterOp(file, r, QOf(y))] IN               \* operational model
  [fails |->
     {<<"over", x>> : x \in {y \in Q : ~C.obs[y][1] /\ D[y].rep}}
     \cup {<<"under", x>> : x \in {y \in Q : C.obs[y][1] /\ ~D[y].rep}}
     \cup {<<"line", x>> : x \in {y \in Q : C.obs[y][2] # D[y].line}},
   divs |->
     {<<"model-filter", x>> : x \in {y \in Q : <<M[y].rep, M[y].line>> # <<C.obs[y][1], C.obs[y][2]>>}}
     \cup {<<"model-lineset", kk>> : kk \in {y \in Keys : ObsLs(C.sets[y]) # st.ls[y]}}
     \cup (IF ToSet(C.f2e) # st.br.f2e \/ ToSet(C.e2s) # st.br.e2s THEN {<<"model-ranges", 0>>} ELSE {})
     \cup (IF {<<x[1], x[2]>> : x \in ToSet(C.late)} # late THEN {<<"model-late", 0>>} ELSE {})
     \cup (IF C.other # <<>> THEN {<<"unexpected-directive-error", 0>>} ELSE {}),
   (* queries whose verdict differs between the strict and the documented reading *)
   obs |-> Cardinality({y \in Q : D[y] # S[y]})]

(* raised errors: the outcome of the last completed ErrorLog.error call (spec: elog.res,      *)
(* produced by the spec's own actions; code: C.lobs[elog.n]).  The verdict is declarative:    *)
(* the error is logged iff the line it is reported at carries no directive for it.            *)
LogVerdict ==
  LET x == elog.n
      u == elog.u
      ob == [line |-> C.lobs[x][2], rep |-> C.lobs[x][1]]
      D == DeclLog(file, items, u, TRUE) IN
  [fails |->
     (IF ~ob.rep /\ D.rep THEN {<<"log-over", x>>} ELSE {})
     \cup (IF ob.rep /\ ~D.rep THEN {<<"log-under", x>>} ELSE {})
     \cup (IF ob.line # D.line THEN {<<"log-line", x>>} ELSE {}),
   divs |-> IF elog.res # ob THEN {<<"model-log", x>>} ELSE {}]

(* the tables of the code are the pinned ones *)
TabDiff(a, b) == (a \ b) \cup (b \ a)
TablesFails ==
  (IF ToSet(C.fc) # PinnedFuncCallErrs
     THEN {<<"function-call-errors", TabDiff(ToSet(C.fc), PinnedFuncCallErrs)>>} ELSE {})
  \cup (IF ToSet(C.adj) # PinnedAdjustErrs
     THEN {<<"adjustable-errors", TabDiff(ToSet(C.adj), PinnedAdjustErrs)>>} ELSE {})

-----------------------------------------------------------------------------
(* ring 3 verdict: the property as worded.  Errors are <<name, line, message, traceback>>     *)
(* (traceback = sequence of <<line, function>>); c.ins = the                                  *)
(* line numbers (numbering after the edit) of inserted stand-alone comment lines; c.line =    *)
(* the reported line (numbering before the edit); c.defs = line of the first definition.      *)
(*   disable : `# pytype: disable=E` appended to line L      -> exactly (E, L) disappears      *)
(*   ignore  : `# type: ignore` appended to line L           -> exactly the errors of line L   *)
(*   pair    : stand-alone disable before / enable after L   -> exactly (E, L)                 *)
(*   open    : stand-alone disable before L, no enable       -> exactly (E, l), l >= L, and a  *)
(*             late-directive warning iff a definition precedes (docs/errors.md)              *)
(*   opline  : `# pytype: disable=E` appended to line P # L, the line of the opcode that      *)
(*             DETECTED a relocated error (E, L)              -> (E, L) stays; exactly the     *)
(*             errors (E, P) disappear (c.line = P)                                           *)
OldLine(l, ins) == l - Cardinality({x \in ins : x < l})
E2EFails ==
  LET c == C
      ins == ToSet(c.ins)
      Tb(t, on) == [x \in DOMAIN t |-> <<(IF on THEN OldLine(t[x][1], ins) ELSE t[x][1]), t[x][2]>>]
      B == {<<e[1], e[2], e[3], Tb(e[4], FALSE)>> : e \in ToSet(c.before)}
      A == {<<e[1], OldLine(e[2], ins), e[3], Tb(e[4], TRUE)>> :
              e \in {x \in ToSet(c.after) : x[2] \notin ins}}
      D == {<<e[1], e[2]>> : e \in {x \in ToSet(c.after) : x[2] \in ins}}
      Removed == CASE c.place \in {"disable", "opline"} -> {e \in B : e[1] = c.name /\ e[2] = c.line}
                   [] c.place = "ignore" -> {e \in B : e[2] = c.line}
                   [] c.place = "pair" -> {e \in B : e[1] = c.name /\ e[2] = c.line}
                   [] c.place = "open" -> {e \in B : e[1] = c.name /\ e[2] >= c.line}
      ExpD == IF c.place = "open" /\ c.defs # 0 /\ c.defs < c.line
                THEN {<<"late-directive", c.line>>} ELSE {} IN
  (IF c.out0 # "result" \/ c.out1 # "result" THEN {<<"outcome", {}>>} ELSE {})
  \cup (IF A \cap Removed # {} THEN {<<"remains", {<<e[1], e[2]>> : e \in A \cap Removed}>>} ELSE {})
  \cup (IF (B \ Removed) \ A # {} THEN {<<"lost", {<<e[1], e[2]>> : e \in (B \ Removed) \ A}>>} ELSE {})
  \cup (IF A \ B # {} THEN {<<"gained", {<<e[1], e[2]>> : e \in A \ B}>>} ELSE {})
  \cup (IF D # ExpD THEN {<<"directive-error", (D \ ExpD) \cup (ExpD \ D)>>} ELSE {})
  \cup (IF c.pyi0 # c.pyi1 THEN {<<"pyi", {}>>} ELSE {})

(* Attribution to the known finding C03:continuation-line-directive-also-silences-start-line: *)
(* a trailing `# type: ignore`, or a trailing disable for a class that is adjustable AT THE   *)
(* PINNED COMMIT, on a continuation line; every error that went missing has that class (any   *)
(* class for `type: ignore`) and sits on the first line of a construct around the directive   *)
(* (c.starts).  Classes outside the pinned table are never attributed.                        *)
E2EAttr(fails) ==
  LET c == C
      st0 == ToSet(c.starts) IN
  {f[1] : f \in {g \in fails :
     /\ g[1] = "lost" /\ c.place \in {"disable", "ignore", "opline"}
     /\ (c.place = "ignore" \/ c.name \in PinnedAdjustErrs)
     /\ \A x \in g[2] : /\ x[2] \in st0 /\ x[2] < c.line
                         /\ (c.place = "ignore" \/ x[1] = c.name)}}

-----------------------------------------------------------------------------
IsLs == i <= Len(Cases) /\ C.kind = "ls" /\ phase = "ls" /\ k >= 1
IsDir == i <= Len(Cases) /\ C.kind = "dir" /\ phase = "done" /\ elog.n = 0
IsLog == i <= Len(Cases) /\ C.kind = "dir" /\ phase = "done" /\ elog.n > 0
IsE2E == i <= Len(Cases) /\ C.kind = "e2e" /\ phase = "idle"
IsTab == i <= Len(Cases) /\ C.kind = "tables" /\ phase = "idle"
Bad(f) == f = {} \/ PrintT(<<"BAD", ToJson([i |-> i, k |-> k, fails |-> f])>>)
Div(d) == d = {} \/ PrintT(<<"DIV", ToJson([i |-> i, k |-> k, divs |-> d])>>)
BadA(f, a) == f = {} \/ PrintT(<<"BAD", ToJson([i |-> i, k |-> k, fails |-> f, start |-> a])>>)

Ok ==
  /\ IsLs => Bad(LsFails) /\ Div(LsDivs)
  /\ IsDir => LET v == DirVerdict IN
              /\ Bad(v.fails) /\ Div(v.divs)
              /\ v.obs = 0 \/ PrintT(<<"OBS", ToJson([i |-> i, n |-> v.obs])>>)
  /\ IsLog => LET v == LogVerdict IN Bad(v.fails) /\ Div(v.divs)
  /\ IsE2E => LET f == E2EFails IN BadA(f, E2EAttr(f))
  /\ IsTab => Bad(TablesFails)

Done == TLCGet(1)
=============================================================================

------------------------------ MODULE ArgBind ------------------------------
(* Argument binding as a state machine (property C13).                                        *)
(*                                                                                            *)
(* Code modelled: pytype/abstract/_function_base.py SignedFunction._map_args (and what        *)
(* function.Args / Signature carry), against the language rule it emulates (CPython           *)
(* Python/ceval.c initialize_locals).  One behaviour = one call of one signature, bound in    *)
(* the phases CPython uses:                                                                   *)
(*   positional  copy the first min(npos, P) actuals into a*, b* slots                        *)
(*   overflow    surplus positionals go to *va (if there is none the error comes in `count`)  *)
(*   keywords    one keyword at a time, IN ANY ORDER: fills a b*/k* slot (already filled:     *)
(*               "multiple values"), else goes to **kw, else unexpected keyword / positional- *)
(*               only passed as keyword                                                       *)
(*   count       too many positionals and no *va                                              *)
(*   defaults    empty a*/b* slots take their default, else missing positional                *)
(*   kwdefaults  empty k* slots take their default, else missing keyword-only                 *)
(* The initial states are ALL (signature, call) pairs within the bounds.  Invariants: the      *)
(* machine ends in exactly Bind(sig, call) of ArgBindOps whatever the keyword order           *)
(* (MachineIsFunction), Bind is total and satisfies the binding laws (LawsHold).              *)
(*                                                                                            *)
(* Histories (MaxRedef > 0): a function object outlives a call and its defaults can be         *)
(* re-assigned between calls (pytype: attribute.py _set_member -> SignedFunction.              *)
(* set_function_defaults for `f.__defaults__ = <tuple>`; CPython also has f.__kwdefaults__).   *)
(* A behaviour is  define, call*, SetDefaults, call*, ... : `Return` goes from a finished call *)
(* back to pc = "sig", `SetDefaults` replaces the defaults of `sig` (at most MaxRedef times;   *)
(* `orig` is the signature of the `def`, `hist` the re-assignments so far).  Every call is     *)
(* bound against the CURRENT `sig`; HistoryOK / RedefLawsHold state what a re-assignment may   *)
(* and may not change.                                                                         *)
EXTENDS ArgBindOps, Json

CONSTANTS N,          \* at most N parameters of each kind
          MaxPos,     \* at most MaxPos positional actuals
          MaxKw,      \* at most MaxKw keyword actuals
          Foreign,    \* set of keyword names that are not parameters ("z", ...)
          StarNames,  \* BOOLEAN: "va" / "kw" (the names of *va / **kw) may be used as keywords
          SampleMod, SampleRem,   \* export only signatures with SigIndex % SampleMod = SampleRem
          Export,     \* "none" | "sigs" (signature + every call shape) | "hists" (history + sensitive calls)
          MaxRedef    \* at most MaxRedef re-assignments of the defaults in one behaviour

VARIABLES sig, call, pc, slots, vargs, kwd, todo, err,
          orig,       \* the signature as defined (sig = Stage(orig, hist, Len(hist)))
          hist        \* the re-assignments of the defaults so far

vars == <<sig, call, pc, slots, vargs, kwd, todo, err, orig, hist>>

EMPTY == <<"empty">>

SigIndex(s) ==
  s.po + 4 * s.pk + 16 * s.ko + 64 * s.pdef + 512 * Cardinality(s.kdef)
  + (IF s.va THEN 3 ELSE 0) + (IF s.kw THEN 5 ELSE 0)
  + (IF "k1" \in s.kdef THEN 7 ELSE 0) + (IF "k2" \in s.kdef THEN 11 ELSE 0)

NOCALL == [npos |-> 0, kws |-> {}]

(* a behaviour first fixes the signature (initial state, pc = "sig"), then the call *)
Init ==
  \E s \in Signatures(N) :
     /\ SigIndex(s) % SampleMod = SampleRem
     /\ sig = s /\ call = NOCALL /\ pc = "sig" /\ orig = s /\ hist = <<>>
     /\ slots = [n \in ParamNames(s) |-> EMPTY]
     /\ vargs = <<>> /\ kwd = {} /\ todo = {} /\ err = "none"

ChooseCall ==
  /\ pc = "sig"
  /\ \E c \in Calls(sig, MaxPos, MaxKw, Foreign, StarNames) : call' = c /\ todo' = c.kws
  /\ pc' = "positional"
  /\ UNCHANGED <<sig, slots, vargs, kwd, err, orig, hist>>

P == NPosParams(sig)

Positional ==
  /\ pc = "positional"
  /\ slots' = [n \in ParamNames(sig) |->
                 IF \E i \in 1 .. Min2(call.npos, P) : PosParams(sig)[i] = n
                   THEN SrcPos(CHOOSE i \in 1 .. P : PosParams(sig)[i] = n) ELSE EMPTY]
  /\ pc' = "overflow"
  /\ UNCHANGED <<sig, call, vargs, kwd, todo, err, orig, hist>>

Overflow ==
  /\ pc = "overflow"
  /\ vargs' = IF sig.va /\ call.npos > P THEN [j \in 1 .. (call.npos - P) |-> P + j] ELSE <<>>
  /\ pc' = "keywords"
  /\ UNCHANGED <<sig, call, slots, kwd, todo, err, orig, hist>>

Keyword(k) ==
  /\ pc = "keywords" /\ k \in todo
  /\ todo' = todo \ {k}
  /\ IF k \in KwTargets(sig)
       THEN IF slots[k] # EMPTY
              THEN err' = "keyword" /\ pc' = "done" /\ UNCHANGED <<slots, kwd>>     \* multiple values
              ELSE slots' = [slots EXCEPT ![k] = SrcKw(k)] /\ UNCHANGED <<kwd, err, pc>>
       ELSE IF sig.kw
              THEN kwd' = kwd \cup {k} /\ UNCHANGED <<slots, err, pc>>
              ELSE err' = "keyword" /\ pc' = "done" /\ UNCHANGED <<slots, kwd>>     \* unexpected
  /\ UNCHANGED <<sig, call, vargs, orig, hist>>

KeywordsDone ==
  /\ pc = "keywords" /\ todo = {}
  /\ pc' = "count"
  /\ UNCHANGED <<sig, call, slots, vargs, kwd, todo, err, orig, hist>>

Count ==
  /\ pc = "count"
  /\ IF call.npos > P /\ ~sig.va THEN err' = "too_many" /\ pc' = "done"
                                 ELSE pc' = "defaults" /\ UNCHANGED err
  /\ UNCHANGED <<sig, call, slots, vargs, kwd, todo, orig, hist>>

Defaults ==
  /\ pc = "defaults"
  /\ LET fill == [n \in ParamNames(sig) |->
                    IF slots[n] = EMPTY /\ \E i \in 1 .. P : PosParams(sig)[i] = n /\ HasPosDefault(sig, i)
                      THEN SrcDef(n) ELSE slots[n]] IN
       /\ slots' = fill
       /\ IF \E i \in 1 .. P : fill[PosParams(sig)[i]] = EMPTY
            THEN err' = "missing" /\ pc' = "done"
            ELSE pc' = "kwdefaults" /\ UNCHANGED err
  /\ UNCHANGED <<sig, call, vargs, kwd, todo, orig, hist>>

KwDefaults ==
  /\ pc = "kwdefaults"
  /\ LET fill == [n \in ParamNames(sig) |->
                    IF slots[n] = EMPTY /\ n \in sig.kdef THEN SrcDef(n) ELSE slots[n]] IN
       /\ slots' = fill
       /\ err' = IF \E n \in KoSet(sig) : fill[n] = EMPTY THEN "missing_kwonly" ELSE "none"
  /\ pc' = "done"
  /\ UNCHANGED <<sig, call, vargs, kwd, todo, orig, hist>>

(* the call is over (bound or TypeError); the function object lives on *)
Return ==
  /\ pc = "done" /\ MaxRedef > 0
  /\ pc' = "sig" /\ call' = NOCALL
  /\ slots' = [n \in ParamNames(sig) |-> EMPTY]
  /\ vargs' = <<>> /\ kwd' = {} /\ todo' = {} /\ err' = "none"
  /\ UNCHANGED <<sig, orig, hist>>

(* f.__defaults__ = (..k values..)  /  f.__kwdefaults__ = {..}  between two calls *)
SetDefaults ==
  /\ pc = "sig" /\ Len(hist) < MaxRedef
  /\ \E r \in Redefs(sig) :
       /\ hist' = Append(hist, r)
       /\ sig' = Redefine(sig, r, Len(hist) + 1)
  /\ UNCHANGED <<call, pc, slots, vargs, kwd, todo, err, orig>>

Next ==
  \/ ChooseCall
  \/ Positional \/ Overflow \/ (\E k \in todo : Keyword(k)) \/ KeywordsDone
  \/ Count \/ Defaults \/ KwDefaults
  \/ Return \/ SetDefaults

Spec == Init /\ [][Next]_vars

-----------------------------------------------------------------------------
TypeOK ==
  /\ pc \in {"sig", "positional", "overflow", "keywords", "count", "defaults", "kwdefaults", "done"}
  /\ err \in {"none", "keyword", "too_many", "missing", "missing_kwonly"}
  /\ todo \subseteq call.kws /\ kwd \subseteq call.kws
  /\ Len(hist) <= MaxRedef

(* the phase machine ends in the function Bind, whatever order the keywords were taken in *)
MachineIsFunction ==
  pc = "done" =>
    LET b == Bind(sig, call) IN
    /\ err = b.err
    /\ err = "none" => (slots = b.slots /\ vargs = b.va /\ kwd = b.kw)

LawsHold == pc = "positional" => BindLaws(sig, call)

(* an error kind is reported only where its cause exists (Bind is total: every pair has one)  *)
KindsSound ==
  pc = "positional" =>
  LET k == ErrKind(sig, call) IN
  /\ (k = "keyword") = (KeywordKinds(sig, call) # {})
  /\ k = "too_many" => call.npos > NPosParams(sig)
  /\ k = "missing" => call.npos < NPosParams(sig)
  /\ k = "missing_kwonly" => sig.ko > 0

(* Histories.  The current signature is the definition with the re-assignments applied in     *)
(* order and nothing else (no call changes it); apart from the generation of the default      *)
(* values it is again a signature of the bounds, i.e. a call after a re-assignment binds      *)
(* exactly like a call of a function DEFINED with the current defaults.                       *)
Fresh(s) == [s EXCEPT !.pgen = 0, !.kgen = 0]
HistoryOK ==
  /\ sig = Stage(orig, hist, Len(hist))
  /\ Fresh(sig) \in Signatures(N)
  /\ ParamNames(sig) = ParamNames(orig) /\ sig.va = orig.va /\ sig.kw = orig.kw
  /\ pc = "done" => Bind(sig, call).err = Bind(Fresh(sig), call).err
(* what one re-assignment changes for a call, and what it cannot change (ArgBindOps RedefLaws) *)
RedefLawsHold ==
  (pc = "positional" /\ hist # <<>>) =>
     RedefLaws(Stage(orig, hist, Len(hist) - 1), sig, call)

(* The same laws for EVERY call shape of the bounds at once, evaluated on the history states  *)
(* (behaviours of OnlyHists below: define, then SetDefaults).  With MachineIsFunction and     *)
(* LawsHold for all signatures of the bounds and Fresh(sig) \in Signatures(N) this covers the  *)
(* large bounds without exploring the phase machine once more per history; the phase          *)
(* machine WITH histories (Return / SetDefaults interleaved with calls) is explored at smaller *)
(* bounds.                                                                                     *)
HistLawsAllCalls ==
  (pc = "sig" /\ hist # <<>>) =>
     \A c \in Calls(sig, MaxPos, MaxKw, Foreign, StarNames) :
        RedefLaws(Stage(orig, hist, Len(hist) - 1), sig, c)

(* Calls with an indefinite splat f(.., *xs, ..): for every signature state (definition or     *)
(* re-assigned) and every call shape, longer lists than NPosParams + 1 change nothing, a cause  *)
(* that does not involve the splat fails every length, and only a *va callee binds every length *)
SplatLawsHold ==
  pc = "sig" =>
     \A c \in Calls(sig, MaxPos, MaxKw, Foreign, StarNames) : SplatLaws(sig, c, 2 * N + 3)

-----------------------------------------------------------------------------
(* Export: one CASE line per signature (the pc = "sig" states) with every call shape of the   *)
(* bounds; OnlySigs stops the behaviours there.                                               *)
OnlySigs == UNCHANGED vars
(* Export "hists": one CASE line per (definition, history) with the call shapes that are       *)
(* SENSITIVE to the history: `flip` = the outcome (ErrKind) differs between two consecutive    *)
(* stages, `dflt` = binds at the last stage using some default value.  OnlyHists generates the *)
(* histories without calls.                                                                   *)
OnlyHists == SetDefaults
HistCalls ==
  LET all == Calls(orig, MaxPos, MaxKw, Foreign, StarNames)
      st == [m \in 0 .. Len(hist) |-> Stage(orig, hist, m)]
      flip == {c \in all : \E m \in 1 .. Len(hist) : ErrKind(st[m - 1], c) # ErrKind(st[m], c)}
      dflt == {c \in all \ flip : UsesDefault(sig, c)} IN
  [sig |-> orig, redefs |-> hist, flip |-> flip, dflt |-> dflt]
ExportInv ==
  /\ (Export = "sigs" /\ pc = "sig" /\ hist = <<>>) =>
       PrintT(<<"CASE", ToJson([sig |-> sig, calls |-> Calls(sig, MaxPos, MaxKw, Foreign, StarNames)])>>)
  /\ (Export = "hists" /\ pc = "sig" /\ hist # <<>>) => PrintT(<<"CASE", ToJson(HistCalls)>>)
=============================================================================
